import Sourmash.Model.Datasets
/-! Model/Index.lean — the three index types of `index/` as far as properties C07 and C09 look at them.

* on-disk `RevIndex` (disk_revindex.rs): the writes of a build (`map_hashes_colors`), schedules of the
  parallel loop of `create`/`update`, the state of the HASHES / PROCESSED keys after RocksDB has merged
  the operands along arbitrary merge trees, `counter_for_query`, `matches_from_counter`;
* `Collection::check_superset` (collection.rs:119);
* in-memory `RevIndex` (mem_revindex.rs, mod.rs:87-153, encodings.rs:379-461): `Colors::update`,
  `HashToColor::add_to`, `reduce_hashes_colors` along an arbitrary reduction tree, `counter_for_query`;
* `LinearIndex::counter_for_query` / `search` (linear.rs:52-139).

Hashes, ids and counts are `Nat`.  A collection is a list of hash lists (dataset id = position).
Hash maps are association lists; where the code iterates over a hash map the model fixes one order
and the theorems are stated up to that order.  Core Lean only. -/
namespace RevIdx

/-! ### on-disk build -/

/-- the two kinds of `merge_cf` a build issues -/
inductive Write where
  | hash (h d : Nat)      -- merge_cf(HASHES, h as u64le, enc {d})
  | processed (d : Nat)   -- merge_cf(METADATA, "processed", enc {d})
  deriving Repr, DecidableEq

/-- `map_hashes_colors(dataset_id)`: one merge per hash of the sketch, in sketch order, then PROCESSED -/
def program (d : Nat) (hs : List Nat) : List Write :=
  hs.map (fun h => Write.hash h d) ++ [Write.processed d]

def programs (C : List (List Nat)) (ds : List Nat) : List (List Write) :=
  ds.map (fun d => program d (C.getD d []))

/-- the datasets the parallel loop of `create`/`update` processes: `!processed.contains(dataset_id)` -/
def todo (processed : Datasets) (n : Nat) : List Nat :=
  (List.range n).filter (fun d => !processed.contains d)

/-- one step of program `i` (if it has one left) -/
def stepProgram : List (List Write) → Nat → Option (Write × List (List Write))
  | [], _ => none
  | [] :: _, 0 => none
  | (w :: p) :: ps, 0 => some (w, p :: ps)
  | p :: ps, i + 1 => (stepProgram ps i).map (fun (w, ps') => (w, p :: ps'))

/-- A concrete schedule: `choices` says which task runs its next write; choices that point at a
finished task are skipped, and whatever is left when the choices run out is run task after task.
Every interleaving of the programs is `runSchedule ps choices` for some `choices`. -/
def runSchedule (ps : List (List Write)) : List Nat → List Write
  | [] => ps.flatten
  | i :: rest =>
    match stepProgram ps i with
    | some (w, ps') => w :: runSchedule ps' rest
    | none => runSchedule ps rest

/-- the operands written to `HASHES[h]`, in the order of the schedule (`colors = enc (Unique d)`) -/
def operandsFor (c : ManyCodec) (h : Nat) (ws : List Write) : List Bytes :=
  ws.filterMap (fun w => match w with
    | .hash h' d => if h' = h then some ((Datasets.unique d).asBytes c) else none
    | .processed _ => none)

/-- the operands written to the PROCESSED key -/
def processedOps (c : ManyCodec) (ws : List Write) : List Bytes :=
  ws.filterMap (fun w => match w with
    | .processed d => some ((Datasets.unique d).asBytes c)
    | .hash _ _ => none)

def writtenKeys (ws : List Write) : List Nat :=
  ws.filterMap (fun w => match w with
    | .hash h _ => some h
    | .processed _ => none)

/-- the two keys spaces the build touches -/
structure Db where
  keys : List Nat := []                       -- keys that may be present in HASHES (ascending)
  hashes : Nat → Option Bytes := fun _ => none
  processed : Option Bytes := none

/-- how RocksDB happens to group the operands of a key (any function; the theorems quantify over it):
`grouping key operands` is a forest whose leaves are the operands -/
abbrev Grouping := Option Nat → List Bytes → List (List MTree)

/-- the database after the writes `ws` have been merged along `grouping` -/
def applyWrites (c : ManyCodec) (db : Db) (ws : List Write) (g : Grouping) : Db :=
  { keys := insertAll db.keys (writtenKeys ws)
    hashes := fun h => evalKey c (db.hashes h) (g (some h) (operandsFor c h ws))
    processed := evalKey c db.processed (g none (processedOps c ws)) }

/-- `load_processed(db, collection, assume_empty)`; `nOld` = size of the collection stored in the DB -/
def loadProcessed (c : ManyCodec) (db : Db) (nOld : Nat) (assumeEmpty : Bool) : Datasets :=
  match db.processed with
  | some b => Datasets.fromSlice c b
  | none => if assumeEmpty then Datasets.empty else (Datasets.new (List.range nOld)).getD Datasets.empty

/-- the parallel loop shared by `create` and `update`, under the schedule `choices` -/
def buildInto (c : ManyCodec) (db : Db) (processed : Datasets) (C : List (List Nat))
    (choices : List Nat) (g : Grouping) : Db :=
  applyWrites c db (runSchedule (programs C (todo processed C.length)) choices) g

/-- `RevIndex::create` on a fresh directory -/
def createDb (c : ManyCodec) (C : List (List Nat)) (choices : List Nat) (g : Grouping) : Db :=
  buildInto c {} (loadProcessed c {} 0 true) C choices g

/-- `Collection::check_superset`: `zip(...).all(id1 == id2 && rec1 == rec2)` (ids are positions) -/
def checkSuperset {ρ : Type} [BEq ρ] (self other : List ρ) : Bool :=
  (self.zip other).all (fun (a, b) => a == b)

/-- `RevIndex::open(...)?.update(collection)`; `none` = `Err` from `check_superset` -/
def updateDb {ρ : Type} [BEq ρ] (c : ManyCodec) (db : Db) (oldRecs newRecs : List ρ) (C : List (List Nat))
    (choices : List Nat) (g : Grouping) : Option Db :=
  if checkSuperset oldRecs newRecs then
    some (buildInto c db (loadProcessed c db oldRecs.length false) C choices g)
  else none

/-- A build (`create` or `update`) that ABORTS because some signatures cannot be loaded:
`map_hashes_colors` of such a dataset panics in `sig_for_dataset(..).expect(..)` before its first write;
rayon lets the tasks that are running finish and drops what follows a panicking task in its sequential
chunk, then the panic leaves the parallel loop — `save_collection` is not reached, the stored manifest
stays the old one.  `done` = the datasets whose tasks ran (any subset of the datasets still to do). -/
def abortedBuild (c : ManyCodec) (db : Db) (C : List (List Nat)) (done : List Nat)
    (choices : List Nat) (g : Grouping) : Db :=
  applyWrites c db (runSchedule (programs C done) choices) g

/-- full scan of HASHES: `(h, ids)` ascending in `h` -/
def Db.scan (c : ManyCodec) (db : Db) : List (Nat × List Nat) :=
  db.keys.filterMap (fun h => (db.hashes h).map (fun b => (h, (Datasets.fromSlice c b).ids)))

/-- a grouping used by the driver: full merges of `k1` operands at a time, inside a group partial
merges of `k2` adjacent operands, nested once more when `deep` -/
def chunks {α : Type} (k : Nat) (l : List α) : List (List α) :=
  if k = 0 then (if l.isEmpty then [] else [l]) else
  let rec go (fuel : Nat) (l : List α) : List (List α) :=
    match fuel, l with
    | 0, _ => []
    | _, [] => []
    | fuel + 1, l => l.take k :: go fuel (l.drop k)
  go l.length l

/-- one run of adjacent operands: a single operand stays a leaf, several are partially merged -/
def partTree (deep : Bool) (part : List Bytes) : MTree :=
  match part with
  | [b] => MTree.leaf b
  | bs => if deep then MTree.node [MTree.node (bs.map MTree.leaf)] else MTree.node (bs.map MTree.leaf)

def chunkGrouping (k1 k2 : Nat) (deep : Bool) : Grouping := fun _ ops =>
  (chunks k1 ops).map (fun grp => (chunks k2 grp).map (partTree deep))

/-! ### counters and threshold search (all three index types) -/

/-- `Counter<Idx>` as an association list ascending in the id; `counter[d] += 1` -/
def counterAdd (d : Nat) : List (Nat × Nat) → List (Nat × Nat)
  | [] => [(d, 1)]
  | (e, n) :: t => if d < e then (d, 1) :: (e, n) :: t else if d = e then (e, n + 1) :: t else (e, n) :: counterAdd d t

/-- `iter.collect::<Counter<_>>()` -/
def tally (ids : List Nat) : List (Nat × Nat) := ids.foldl (fun acc d => counterAdd d acc) []

/-- disk `counter_for_query`: multi-get of every query hash, flat-map the decoded ids, collect -/
def diskCounter (c : ManyCodec) (db : Db) (Q : List Nat) : List (Nat × Nat) :=
  tally (Q.flatMap (fun h => lookupIds c (db.hashes h)))

/-- insertion into a list kept non-increasing in the count (ties: smaller id first — the code's tie
order comes from a hash map and is unspecified) -/
def insertDesc (e : Nat × Nat) : List (Nat × Nat) → List (Nat × Nat)
  | [] => [e]
  | f :: t => if f.2 < e.2 || (f.2 == e.2 && e.1 < f.1) then e :: f :: t else f :: insertDesc e t

/-- `Counter::most_common()` -/
def mostCommon (cnt : List (Nat × Nat)) : List (Nat × Nat) := cnt.foldr insertDesc []

/-- disk `matches_from_counter`: `most_common().filter(size >= threshold)`, the id standing for the
record's name -/
def matchesFromCounter (cnt : List (Nat × Nat)) (t : Nat) : List (Nat × Nat) :=
  (mostCommon cnt).filter (fun e => t ≤ e.2)

/-- `LinearIndex::search` (and the loop of mem `find_signatures`): walk `most_common()` and `break` at
the first entry below the threshold -/
def linearSearch (cnt : List (Nat × Nat)) (t : Nat) : List (Nat × Nat) :=
  (mostCommon cnt).takeWhile (fun e => t ≤ e.2)

/-- `intersection_size` of two sorted duplicate-free sketches -/
def isectSize (small large : List Nat) : Nat := (small.filter (fun h => large.contains h)).length

/-- `LinearIndex::counter_for_query`: per dataset the intersection size of the smaller sketch against
the larger, zeros omitted; the per-dataset counters are summed (`Counter::extend`) -/
def linearCounter (C : List (List Nat)) (Q : List Nat) : List (Nat × Nat) :=
  (List.range C.length).filterMap (fun i =>
    let D := C.getD i []
    let size := if Q.length > D.length then isectSize D Q else isectSize Q D
    if size = 0 then none else some (i, size))

/-- mem `find_signatures`: `threshold = (t * mh.size() as f64) as usize` for a dyadic `t = num / 2^k`
(exact in binary64 for the sizes that occur) -/
def findThreshold (num k size : Nat) : Nat := num * size / 2 ^ k

/-! ### in-memory inverted index -/

/-- a colour is identified with its id set (recorded assumption: `compute_color`, xxh3 of the ids, is
injective on the id sets that occur; the code asserts it) -/
abbrev Color := List Nat
/-- `Colors` = `HashMap<Color, (ids, refcount)>`: colour ↦ refcount, `0` = not in the map (the code
inserts at 1 and removes an entry when its count reaches 0; the id set of a colour is its key) -/
abbrev Colors := Color → Nat
/-- `HashToColor`: hash ↦ colour -/
abbrev H2C := List (Nat × Color)

def Colors.empty : Colors := fun _ => 0

/-- `entry(color).and_modify(|e| e.1 += 1).or_insert((ids, 1))` -/
def Colors.bump (cs : Colors) (col : Color) : Colors := fun c => if c = col then cs c + 1 else cs c

/-- `colors[color].1 -= 1; if == 0 { remove }` -/
def Colors.release (cs : Colors) (col : Color) : Colors := fun c => if c = col then cs c - 1 else cs c

/-- `Colors::indices(color)`; `none` = the `unwrap()` panic on an unknown colour -/
def Colors.indices (cs : Colors) (col : Color) : Option (List Nat) :=
  if cs col = 0 then none else some col

/-- `Colors::update(current_color, new_idxs)`; `none` = the `unimplemented!` panic when the current
colour does not exist -/
def Colors.update (cs : Colors) (cur : Option Color) (new : List Nat) : Option (Colors × Color) :=
  match cur with
  | some color =>
    if cs color = 0 then none
    else
      let toAdd := new.filter (fun i => !color.contains i)
      if toAdd.isEmpty then some (cs.bump color, color)
      else
        let idxs := insertAll color toAdd
        let cs' := if idxs ≠ color then cs.release color else cs
        some (cs'.bump idxs, idxs)
  | none =>
    let idxs := insertAll [] new
    some (cs.bump idxs, idxs)

def H2C.get (m : H2C) (h : Nat) : Option Color := m.lookup h

/-- `HashMap::insert` -/
def H2C.insert : H2C → Nat → Color → H2C
  | [], h, col => [(h, col)]
  | (k, v) :: t, h, col => if k = h then (k, col) :: t else (k, v) :: H2C.insert t h col

/-- the loop of `add_to`: one colour threaded through the hashes -/
def addToGo (d : Nat) (m : H2C) (cs : Colors) (color : Option Color) : List Nat → Option (H2C × Colors)
  | [] => some (m, cs)
  | h :: t =>
    match cs.update color [d] with
    | none => none
    | some r => addToGo d (m.insert h r.2) r.1 (some r.2) t

/-- `HashToColor::add_to(colors, dataset_id, matched_hashes)` -/
def addTo (m : H2C) (cs : Colors) (d : Nat) (hashes : List Nat) : Option (H2C × Colors) :=
  addToGo d m cs none hashes

/-- body of `reduce_hashes_colors` for one entry `(hash, color)` of the smaller map -/
def reduceEntry (smallColors : Colors) (acc : H2C × Colors) (e : Nat × Color) : Option (H2C × Colors) :=
  match smallColors.indices e.2 with
  | none => none
  | some ids =>
    match acc.1.get e.1 with
    | some entry =>
      match acc.2.update (some entry) ids with
      | none => none
      | some r => some (acc.1.insert e.1 r.2, r.1)
    | none =>
      match acc.2.update none ids with
      | none => none
      | some r =>
        if r.2 ≠ e.2 then none   -- assert_eq!(new_color, color)
        else some (acc.1.insert e.1 r.2, r.1)

def foldOpt {α β : Type} (f : α → β → Option α) : α → List β → Option α
  | a, [] => some a
  | a, b :: t => match f a b with
    | none => none
    | some a' => foldOpt f a' t

/-- `HashToColor::reduce_hashes_colors(a, b)`: fold the smaller map into the larger -/
def reduceHC (a b : H2C × Colors) : Option (H2C × Colors) :=
  if a.1.length > b.1.length then foldOpt (reduceEntry b.2) a b.1
  else foldOpt (reduceEntry a.2) b a.1

/-- mem `map_hashes_colors` without queries: `None` for an empty sketch -/
def memLeaf (d : Nat) (hs : List Nat) : Option (Option (H2C × Colors)) :=
  if hs.isEmpty then some none
  else match addTo [] Colors.empty d hs with
    | none => none
    | some r => some (some r)

/-- mem `map_hashes_colors` with `queries = Some(qs)`: with `threshold == 0` the sketch is intersected
with the merged query once; otherwise with every query in turn, each non-empty intersection going
through `add_to` on the same maps (the `|| intersection > threshold` disjunct never filters) -/
def memLeafQueries (d : Nat) (D : List Nat) (qs : List (List Nat)) (threshold : Nat) : Option (Option (H2C × Colors)) :=
  let common (q : List Nat) : List Nat := q.filter (fun h => D.contains h)
  let parts := if threshold = 0 then [common (insertAll [] qs.flatten)] else qs.map common
  match foldOpt (fun (acc : H2C × Colors) (part : List Nat) =>
      if part.isEmpty then some acc else addTo acc.1 acc.2 d part) ([], Colors.empty) parts with
  | none => none
  | some r => if r.1.isEmpty then some none else some (some r)

/-- shape of rayon's `reduce(identity, op)` over the per-dataset leaves -/
inductive RTree where
  | ident
  | leaf (d : Nat)
  | node (l r : RTree)
  deriving Repr, Inhabited

/-- evaluate a reduction tree; `none` = a panic somewhere -/
def RTree.eval (C : List (List Nat)) : RTree → Option (H2C × Colors)
  | .ident => some ([], Colors.empty)
  | .leaf d =>
    match memLeaf d (C.getD d []) with
    | none => none
    | some none => some ([], Colors.empty)      -- filtered out by `filter_map`: contributes nothing
    | some (some r) => some r
  | .node l r =>
    match l.eval C, r.eval C with
    | some a, some b => reduceHC a b
    | _, _ => none

/-- the same with the leaves of `memLeafQueries` -/
def RTree.evalQ (C : List (List Nat)) (qs : List (List Nat)) (threshold : Nat) : RTree → Option (H2C × Colors)
  | .ident => some ([], Colors.empty)
  | .leaf d =>
    match memLeafQueries d (C.getD d []) qs threshold with
    | none => none
    | some none => some ([], Colors.empty)
    | some (some r) => some r
  | .node l r =>
    match l.evalQ C qs threshold, r.evalQ C qs threshold with
    | some a, some b => reduceHC a b
    | _, _ => none

def RTree.leaves : RTree → List Nat
  | .ident => []
  | .leaf d => [d]
  | .node l r => l.leaves ++ r.leaves

/-- `h2c_dump`: hash ↦ ids of its colour, ascending in the hash -/
def dumpHC (r : H2C × Colors) : List (Nat × List Nat) :=
  (insertAll [] (r.1.map (·.1))).filterMap (fun h => (r.1.get h).map (fun col => (h, col)))

/-- what the in-memory index answers for one hash: the ids of its colour
(`hash_to_color.get(hash)` then `colors.indices(color)`) -/
def memIds (r : H2C × Colors) (h : Nat) : List Nat :=
  match r.1.get h with
  | some col => (r.2.indices col).getD []
  | none => []

/-- mem `counter_for_query` -/
def memCounter (r : H2C × Colors) (Q : List Nat) : List (Nat × Nat) :=
  tally (Q.flatMap (memIds r))

/-! ### mixed collections, selection, and the history of a `LinearIndex`

A collection of single-sketch signatures as selection (`impl Select for Manifest`, manifest.rs:263),
`CollectionSet::try_from` (collection.rs:44), `KmerMinHash::check_compatible` (minhash.rs:887) and the
three indexes see it.  Dataset ids are *positions in the manifest*: `Collection::iter` enumerates the
rows (collection.rs:91), so after a `select` the surviving datasets are renumbered 0, 1, … in their old
order while every record keeps its internal location.  All sketches use seed 42 (the seed comparison of
`check_compatible` is not modelled).  The num-style branch of `intersection_size` (smaller sketch with
`num ≠ 0`) belongs to property C03 and is not modelled: queries are scaled sketches, and a sketch
compatible with a scaled query has `max_hash ≠ 0`. -/

/-- what selection, compatibility checks and the indexes observe of one single-sketch signature -/
structure Rec where
  loc : Nat                 -- position in `Collection::from_sigs`: internal location, and the `d<loc>` of its name
  ksize : Nat               -- the sketch's stored k (three times the manifest row's for the protein family)
  mol : Nat                 -- 0 DNA, 1 protein, 2 dayhoff, 3 hp
  tracked : Bool
  num : Nat
  maxHash : Nat
  scaled : Nat              -- `scaled_for_max_hash(max_hash)`: what the manifest row holds (0 for num sketches)
  hashes : List Nat
  deriving DecidableEq, Repr, Inhabited

/-- `Selection` (picklist and containment play no role in `select`) -/
structure Sel where
  ksize : Option Nat := none
  abund : Option Bool := none
  moltype : Option Nat := none
  scaled : Option Nat := none
  num : Option Nat := none
  deriving DecidableEq, Repr, Inhabited

/-- `Record::from_sig`: `ksize / 3` for the protein family -/
def Rec.rowKsize (r : Rec) : Nat := if r.mol = 0 then r.ksize else r.ksize / 3

/-- the `filter` closure of `impl Select for Manifest`, criterion by criterion in the order of the code
(the ksize arm overwrites `valid`, the others conjoin) -/
def rowValid (sel : Sel) (r : Rec) : Bool :=
  let valid := true
  let valid := match sel.ksize with
    | some k => r.rowKsize == k
    | none => valid
  let valid := match sel.abund with
    | some a => valid && r.tracked == a
    | none => valid
  let valid := match sel.moltype with
    | some m => valid && r.mol == m
    | none => valid
  let valid := match sel.scaled with
    | some sc => valid && r.scaled != 0 && decide (r.scaled ≤ sc)
    | none => valid
  let valid := match sel.num with
    | some n => valid && r.num == n
    | none => valid
  valid

/-- `Collection::select` = `Manifest::select`: the rows that pass, in order (never an error) -/
def selectRecs (sel : Sel) (rs : List Rec) : List Rec := rs.filter (rowValid sel)

/-- `CollectionSet::try_from`: every row `check_compatible` with the first (ksize, then molecule).
`0` = Ok, `1` = `MismatchKSizes`, `2` = `MismatchDNAProt` -/
def setCheck : List Rec → Nat
  | [] => 0
  | first :: rest =>
    match rest.find? (fun r => r.rowKsize != first.rowKsize || r.mol != first.mol) with
    | none => 0
    | some r => if r.rowKsize != first.rowKsize then 1 else 2

/-- `KmerMinHash::check_compatible` (ksize, hash function, max_hash; seeds are all 42) -/
def Rec.compat (a b : Rec) : Bool := a.ksize == b.ksize && a.mol == b.mol && a.maxHash == b.maxHash

/-- `LinearIndex`: the collection and the template sketch taken from dataset 0 *when the index was made* -/
structure Lin where
  template : Rec
  recs : List Rec
  deriving Repr, Inhabited

/-- `LinearIndex::from_collection`; `none` = the index panic of `sig_for_dataset(0)` on an empty collection -/
def Lin.make : List Rec → Option Lin
  | [] => none
  | r :: rs => some { template := r, recs := r :: rs }

/-- `impl Select for LinearIndex`: select the collection, re-validate as a `CollectionSet`; the template
is carried over unchanged.  `Except.error` = the code of `setCheck`. -/
def Lin.select (sel : Sel) (l : Lin) : Except Nat Lin :=
  let rs := selectRecs sel l.recs
  match setCheck rs with
  | 0 => .ok { l with recs := rs }
  | e => .error e

/-- `LinearIndex::counter_for_query`; `none` = a panic: some dataset's sketch is not compatible with the
template (`select_sketch` → "Couldn't find a compatible MinHash") or with the query (`intersection_size`) -/
def Lin.counter (l : Lin) (q : Rec) : Option (List (Nat × Nat)) :=
  if l.recs.all (fun r => r.compat l.template && r.compat q) then
    some (linearCounter (l.recs.map (·.hashes)) q.hashes)
  else none

/-- the internal locations in id order (`collection().iter()`) -/
def locsOf (rs : List Rec) : List Nat := rs.map (·.loc)

end RevIdx
