import Sourmash.Generated.C06
import Sourmash.Model.Scaled
/-!
Model/Json.lean — the signature file format as the serde code of `/repo/src/core` reads and writes it
(property C06).  Written from

* `impl Serialize / Deserialize for KmerMinHash` and `… for KmerMinHashBTree` (sketch/minhash.rs),
* `#[serde(untagged)] enum Sketch` (sketch/mod.rs), `#[derive(Serialize, Deserialize)] struct HyperLogLog`,
* `#[derive(Serialize, Deserialize)] struct Signature`, `from_reader`, `load_signatures`, `to_writer`
  (signature.rs) and `signatures_save_buffer` (ffi/signature.rs).

The *text* layer (serde_json's printer and parser, niffler/flate2, `Lean.Json`) is not modelled; the model
starts at an abstract JSON tree.  Strings are lists of Unicode code points so that `decide` and `simp`
evaluate comparisons with the field names; objects are **ordered** association lists (serde writes
fields in a fixed order; duplicates of a known key are an error on load).

Field order and names on the writing side come from the generated tables
(`Sourmash.Generated.C06`, re-read from the Rust sources by `translator/c06.py` on every run); the
value stored under a name is looked up by the name the reading side uses (`K.*`, below), so a rename on
either side shows up in `T-field_names`/`T-roundtrip`.

Faithfulness notes (each one is a place where a tidier model would differ from the code):
* `Deserialize for KmerMinHash`: `num := 0` when `max_hash ≠ 0`; `molecule` is lower-cased
  (`str::to_lowercase`; only ASCII letters can produce an ASCII match, the Kelvin sign lower-cases to `k`,
  which no accepted name contains) and an unknown name hits `unimplemented!()` — error `panic`;
  with abundances the zipped pairs are sorted (`zip` truncates to the shorter list), without them the
  hashes are sorted.  Sorting a list under a total order has one result, so insertion sort stands for
  `sort`/`sort_unstable`.
* `Deserialize for KmerMinHashBTree`: same `TempSig`; hashes go into a `BTreeSet` (duplicates vanish),
  the pairs into a `BTreeMap` (the last = largest abundance of a duplicated hash wins).
* `Sketch` is untagged: `KmerMinHash` is tried first, so a tree-backed sketch comes back vector-backed,
  `KmerMinHashBTree` is tried on the same buffered content (it fails whenever the first one failed
  without panicking), then `HyperLogLog`.  A panic is not caught by the variant search.
* `md5sum`: written as `md5sum()` reports it, stored as the file gives it (never recomputed on load).
* `Signature`: `filename: null` when absent, `name` omitted when absent
  (`skip_serializing_if`), `class/email/license/version` default when missing, `hash_function` and
  `signatures` required, unknown keys ignored, `version` is an `f64` (an integer literal is converted).
* Not modelled: a struct given as a JSON *array* (serde-derive also accepts the positional form), and
  which error wins when one object has several defects (serde stops at the first one in textual order;
  the model checks in declaration order).  The generators produce neither.
-/
namespace SigJson
open Sourmash.Generated.C06 (Ty Dflt SigField)
namespace G
export Sourmash.Generated.C06 (kmhSer btreeSer kmhTemp btreeTemp hllFields sigFields)
end G

abbrev Str := List Nat

/-- code points of a string literal (evaluates under `decide`) -/
def str (s : String) : Str := s.toList.map Char.toNat

inductive Json where
  | null
  | bool (b : Bool)
  | num (n : Nat)          -- a non-negative integer literal of any size
  | flt (bits : Nat)       -- any other number, as the binary64 it denotes
  | str (s : Str)
  | arr (xs : List Json)
  | obj (kvs : List (Str × Json))
  deriving Inhabited

inductive Err where
  | serde      -- `Error::SerdeError`
  | niffler    -- `Error::NifflerError` (text layer: fewer than 5 bytes)
  | panic      -- `unimplemented!()`
  deriving DecidableEq, Repr, Inhabited

/-! ### state -/

/-- `HashFunctions` -/
inductive Mol where
  | dna | protein | dayhoff | hp
  | custom (s : Str)
  deriving DecidableEq, Repr, Inhabited

/-- what serde sees of a `KmerMinHash` / `KmerMinHashBTree` (`mins` in iteration order, `abunds` = the
    vector / the map's values in key order, `md5` = what `md5sum()` reports) -/
structure MinHash where
  num : Nat
  ksize : Nat
  seed : Nat
  maxHash : Nat
  mins : List Nat
  abunds : Option (List Nat)
  md5 : Str
  mol : Mol
  deriving DecidableEq, Repr, Inhabited

inductive Sketch where
  | vec (m : MinHash)                              -- `Sketch::MinHash(KmerMinHash)`
  | tree (m : MinHash)                             -- `Sketch::LargeMinHash(KmerMinHashBTree)`
  | hll (regs : List Nat) (p q ksize : Nat)        -- `Sketch::HyperLogLog`
  deriving DecidableEq, Repr, Inhabited

structure Signature where
  cls : Str
  email : Str
  hashFunction : Str
  filename : Option Str
  name : Option Str
  license : Str
  sketches : List Sketch
  version : Nat                                    -- binary64 bits
  deriving DecidableEq, Repr, Inhabited

/-! ### the names the reading side uses (`TempSig`, `Signature`, `HyperLogLog` field identifiers) -/
namespace K
def num : Str := [110, 117, 109]
def ksize : Str := [107, 115, 105, 122, 101]
def seed : Str := [115, 101, 101, 100]
def max_hash : Str := [109, 97, 120, 95, 104, 97, 115, 104]
def mins : Str := [109, 105, 110, 115]
def md5sum : Str := [109, 100, 53, 115, 117, 109]
def abundances : Str := [97, 98, 117, 110, 100, 97, 110, 99, 101, 115]
def molecule : Str := [109, 111, 108, 101, 99, 117, 108, 101]
def class_ : Str := [99, 108, 97, 115, 115]
def email : Str := [101, 109, 97, 105, 108]
def hash_function : Str := [104, 97, 115, 104, 95, 102, 117, 110, 99, 116, 105, 111, 110]
def filename : Str := [102, 105, 108, 101, 110, 97, 109, 101]
def name : Str := [110, 97, 109, 101]
def license : Str := [108, 105, 99, 101, 110, 115, 101]
def signatures : Str := [115, 105, 103, 110, 97, 116, 117, 114, 101, 115]
def version : Str := [118, 101, 114, 115, 105, 111, 110]
def registers : Str := [114, 101, 103, 105, 115, 116, 101, 114, 115]
def p : Str := [112]
def q : Str := [113]
-- values
def DNA : Str := [68, 78, 65]
def dna : Str := [100, 110, 97]
def protein : Str := [112, 114, 111, 116, 101, 105, 110]
def dayhoff : Str := [100, 97, 121, 104, 111, 102, 102]
def hp : Str := [104, 112]
end K

/-- `Display for HashFunctions` -/
def Mol.display : Mol → Str
  | .dna => K.DNA
  | .protein => K.protein
  | .dayhoff => K.dayhoff
  | .hp => K.hp
  | .custom s => s

/-! ### writing -/

def u64s (l : List Nat) : Json := .arr (l.map .num)

/-- the value `serialize_field(k, …)` is given for a sketch -/
def mhField (m : MinHash) (k : Str) : Option Json :=
  if k = K.num then some (.num m.num)
  else if k = K.ksize then some (.num m.ksize)
  else if k = K.seed then some (.num m.seed)
  else if k = K.max_hash then some (.num m.maxHash)
  else if k = K.mins then some (u64s m.mins)
  else if k = K.md5sum then some (.str m.md5)
  else if k = K.abundances then m.abunds.map u64s          -- `if let Some(abunds) = &self.abunds`
  else if k = K.molecule then some (.str m.mol.display)
  else none

/-- fields in table order; a field without a value is not written -/
def serFields (tbl : List (Str × Bool)) (f : Str → Option Json) : List (Str × Json) :=
  tbl.filterMap fun kc => (f kc.1).map fun v => (kc.1, v)

def toJsonMH (tbl : List (Str × Bool)) (m : MinHash) : Json := .obj (serFields tbl (mhField m))

def hllField (regs : List Nat) (p q ksize : Nat) (k : Str) : Option Json :=
  if k = K.registers then some (u64s regs)
  else if k = K.p then some (.num p)
  else if k = K.q then some (.num q)
  else if k = K.ksize then some (.num ksize)
  else none

def toJsonSketch : Sketch → Json
  | .vec m => toJsonMH G.kmhSer m
  | .tree m => toJsonMH G.btreeSer m
  | .hll regs p q ksize => .obj (G.hllFields.filterMap fun kt => (hllField regs p q ksize kt.1).map fun v => (kt.1, v))

/-- `Option<String>`: `None` is `null`, or nothing at all under `skip_serializing_if = "Option::is_none"` -/
def optStrJson (skip : Bool) : Option Str → Option Json
  | some s => some (.str s)
  | none => if skip then none else some .null

def sigField (s : Signature) (f : SigField) : Option Json :=
  let k := f.name
  if k = K.class_ then some (.str s.cls)
  else if k = K.email then some (.str s.email)
  else if k = K.hash_function then some (.str s.hashFunction)
  else if k = K.filename then optStrJson f.skipIfNone s.filename
  else if k = K.name then optStrJson f.skipIfNone s.name
  else if k = K.license then some (.str s.license)
  else if k = K.signatures then some (.arr (s.sketches.map toJsonSketch))
  else if k = K.version then some (.flt s.version)
  else none

def toJsonSig (s : Signature) : Json :=
  .obj (G.sigFields.filterMap fun f => (sigField s f).map fun v => (f.name, v))

/-- `serde_json::to_writer(w, &vec![&sig])` / `signatures_save_buffer`: a JSON array of signature objects -/
def toJson (sigs : List Signature) : Json := .arr (sigs.map toJsonSig)

/-! ### reading: primitives -/

def lookup (k : Str) : List (Str × Json) → Option Json
  | [] => none
  | kv :: t => if kv.1 = k then some kv.2 else lookup k t

def count (k : Str) : List (Str × Json) → Nat
  | [] => 0
  | kv :: t => (if kv.1 = k then 1 else 0) + count k t

/-- serde-derive: a known key seen twice is `duplicate field` -/
def dupKnown (known : List Str) (kvs : List (Str × Json)) : Bool :=
  known.any fun k => decide (1 < count k kvs)

def getU (bound : Nat) : Json → Except Err Nat
  | .num n => if n < bound then .ok n else .error .serde
  | _ => .error .serde

def getStr : Json → Except Err Str
  | .str s => .ok s
  | _ => .error .serde

def getNums (bound : Nat) : List Json → Except Err (List Nat)
  | [] => .ok []
  | j :: t =>
    match getU bound j with
    | .ok n => match getNums bound t with
      | .ok r => .ok (n :: r)
      | .error e => .error e
    | .error e => .error e

def getNumArr (bound : Nat) : Json → Except Err (List Nat)
  | .arr xs => getNums bound xs
  | _ => .error .serde

def req (kvs : List (Str × Json)) (k : Str) : Except Err Json :=
  match lookup k kvs with
  | some v => .ok v
  | none => .error .serde          -- `missing field`

def reqU (kvs : List (Str × Json)) (k : Str) (bound : Nat) : Except Err Nat :=
  match lookup k kvs with
  | some v => getU bound v
  | none => .error .serde

def reqStr (kvs : List (Str × Json)) (k : Str) : Except Err Str :=
  match lookup k kvs with
  | some v => getStr v
  | none => .error .serde

def reqNums (kvs : List (Str × Json)) (k : Str) (bound : Nat) : Except Err (List Nat) :=
  match lookup k kvs with
  | some v => getNumArr bound v
  | none => .error .serde

/-- `Option<Vec<u64>>`: absent or `null` is `None` -/
def optNums (kvs : List (Str × Json)) (k : Str) (bound : Nat) : Except Err (Option (List Nat)) :=
  match lookup k kvs with
  | none => .ok none
  | some .null => .ok none
  | some v => match getNumArr bound v with
    | .ok l => .ok (some l)
    | .error e => .error e

/-- `Option<String>`: absent or `null` is `None` -/
def optStr (kvs : List (Str × Json)) (k : Str) : Except Err (Option Str) :=
  match lookup k kvs with
  | none => .ok none
  | some .null => .ok none
  | some (.str s) => .ok (some s)
  | some _ => .error .serde

/-- `#[serde(default …)] String` -/
def dfltStr (kvs : List (Str × Json)) (k : Str) (d : Str) : Except Err Str :=
  match lookup k kvs with
  | none => .ok d
  | some v => getStr v

/-- binary64 bits of a non-negative integer literal (round to nearest even; `none` past the finite range) -/
def f64BitsOfNat (n : Nat) : Option Nat :=
  if n = 0 then some 0 else
  let me := Scaled.ofNat n          -- mantissa in [2^52, 2^53) (2^53 after a carry), exponent
  let m := if me.1 = 2^53 then 2^52 else me.1
  let e : Int := if me.1 = 2^53 then me.2 + 1 else me.2
  let biased : Int := e + 52 + 1023
  if biased ≥ 2047 then none else some (biased.toNat * 2^52 + (m - 2^52))

/-- an `f64` field -/
def getF64 : Json → Except Err Nat
  | .flt b => .ok b
  | .num n => match f64BitsOfNat n with
    | some b => .ok b
    | none => .error .serde        -- serde_json: `number out of range`
  | _ => .error .serde

def dfltF64 (kvs : List (Str × Json)) (k : Str) (d : Nat) : Except Err Nat :=
  match lookup k kvs with
  | none => .ok d
  | some v => getF64 v

/-! ### reading: sketches -/

/-- `struct TempSig` -/
structure Temp where
  num : Nat
  ksize : Nat
  seed : Nat
  maxHash : Nat
  md5 : Str
  mins : List Nat
  abunds : Option (List Nat)
  molecule : Str
  deriving DecidableEq, Repr, Inhabited

def u32 : Nat := 2^32
def u64 : Nat := 2^64

/-- `TempSig::deserialize` (the same struct in both impls; `known` = its generated field list) -/
def parseTemp (known : List (Str × Ty)) : Json → Except Err Temp
  | .obj kvs =>
    if dupKnown (known.map (·.1)) kvs then .error .serde else do
      let num ← reqU kvs K.num u32
      let ksize ← reqU kvs K.ksize u32
      let seed ← reqU kvs K.seed u64
      let maxHash ← reqU kvs K.max_hash u64
      let md5 ← reqStr kvs K.md5sum
      let mins ← reqNums kvs K.mins u64
      let abunds ← optNums kvs K.abundances u64
      let molecule ← reqStr kvs K.molecule
      pure { num, ksize, seed, maxHash, md5, mins, abunds, molecule }
  | _ => .error .serde

/-- ASCII lower-casing (see the note on `to_lowercase` at the top) -/
def lower (s : Str) : Str := s.map fun c => if 65 ≤ c ∧ c ≤ 90 then c + 32 else c

/-- `match tmpsig.molecule.to_lowercase().as_ref() { … _ => unimplemented!() }` -/
def molOfString (s : Str) : Except Err Mol :=
  let l := lower s
  if l = K.protein then .ok .protein
  else if l = K.dayhoff then .ok .dayhoff
  else if l = K.hp then .ok .hp
  else if l = K.dna then .ok .dna
  else .error .panic

def insertBy (le : α → α → Bool) (x : α) : List α → List α
  | [] => [x]
  | y :: t => if le x y then x :: y :: t else y :: insertBy le x t

/-- the sorted arrangement of a list under a total order -/
def isortBy (le : α → α → Bool) : List α → List α
  | [] => []
  | x :: t => insertBy le x (isortBy le t)

def natLe (a b : Nat) : Bool := decide (a ≤ b)
/-- `Ord for (&u64, &u64)`: lexicographic -/
def lexLe (a b : Nat × Nat) : Bool := decide (a.1 < b.1) || (decide (a.1 = b.1) && decide (a.2 ≤ b.2))

def sortNats (l : List Nat) : List Nat := isortBy natLe l
def sortPairs (l : List (Nat × Nat)) : List (Nat × Nat) := isortBy lexLe l

/-- the part of `Deserialize for KmerMinHash` after `TempSig` -/
def vecOfTemp (t : Temp) : Except Err MinHash :=
  match molOfString t.molecule with
  | .error e => .error e
  | .ok mol =>
    let num := if t.maxHash ≠ 0 then 0 else t.num
    match t.abunds with
    | some ab =>
      let ps := sortPairs (t.mins.zip ab)
      .ok { num, ksize := t.ksize, seed := t.seed, maxHash := t.maxHash, md5 := t.md5, mol,
            mins := ps.map (·.1), abunds := some (ps.map (·.2)) }
    | none =>
      .ok { num, ksize := t.ksize, seed := t.seed, maxHash := t.maxHash, md5 := t.md5, mol,
            mins := sortNats t.mins, abunds := none }

/-- consecutive duplicates of a sorted list removed (`BTreeSet` from a sorted sequence) -/
def dedupSorted : List Nat → List Nat
  | [] => []
  | [x] => [x]
  | x :: y :: t => if x = y then dedupSorted (y :: t) else x :: dedupSorted (y :: t)

/-- `BTreeMap` from sorted pairs: the last pair of a key wins; its values in key order -/
def lastPerKey : List (Nat × Nat) → List Nat
  | [] => []
  | [x] => [x.2]
  | x :: y :: t => if x.1 = y.1 then lastPerKey (y :: t) else x.2 :: lastPerKey (y :: t)

/-- the part of `Deserialize for KmerMinHashBTree` after `TempSig` -/
def treeOfTemp (t : Temp) : Except Err MinHash :=
  match molOfString t.molecule with
  | .error e => .error e
  | .ok mol =>
    let num := if t.maxHash ≠ 0 then 0 else t.num
    match t.abunds with
    | some ab =>
      let ps := sortPairs (t.mins.zip ab)
      .ok { num, ksize := t.ksize, seed := t.seed, maxHash := t.maxHash, md5 := t.md5, mol,
            mins := dedupSorted (ps.map (·.1)), abunds := some (lastPerKey ps) }
    | none =>
      .ok { num, ksize := t.ksize, seed := t.seed, maxHash := t.maxHash, md5 := t.md5, mol,
            mins := dedupSorted (sortNats t.mins), abunds := none }

def fromJsonVec (j : Json) : Except Err MinHash :=
  match parseTemp G.kmhTemp j with
  | .ok t => vecOfTemp t
  | .error e => .error e

def fromJsonTree (j : Json) : Except Err MinHash :=
  match parseTemp G.btreeTemp j with
  | .ok t => treeOfTemp t
  | .error e => .error e

/-- `HyperLogLog` (derive): `registers: Vec<u8>`, `p q ksize: usize` -/
def fromJsonHll : Json → Except Err Sketch
  | .obj kvs =>
    if dupKnown (G.hllFields.map (·.1)) kvs then .error .serde else do
      let regs ← reqNums kvs K.registers 256
      let p ← reqU kvs K.p u64
      let q ← reqU kvs K.q u64
      let ksize ← reqU kvs K.ksize u64
      pure (.hll regs p q ksize)
  | _ => .error .serde

/-- `#[serde(untagged)] enum Sketch { MinHash, LargeMinHash, HyperLogLog }` -/
def fromJsonSketch (j : Json) : Except Err Sketch :=
  match fromJsonVec j with
  | .ok m => .ok (.vec m)
  | .error .panic => .error .panic
  | .error _ =>
    match fromJsonTree j with
    | .ok m => .ok (.tree m)
    | .error .panic => .error .panic
    | .error _ =>
      match fromJsonHll j with
      | .ok h => .ok h
      | .error _ => .error .serde      -- `data did not match any variant of untagged enum Sketch`

def fromJsonSketches : List Json → Except Err (List Sketch)
  | [] => .ok []
  | j :: t =>
    match fromJsonSketch j with
    | .ok s => match fromJsonSketches t with
      | .ok r => .ok (s :: r)
      | .error e => .error e
    | .error e => .error e

/-! ### reading: signatures -/

def dfltOf (k : Str) : Dflt :=
  match G.sigFields.find? (fun f => f.name = k) with
  | some f => f.dflt
  | none => .required

def dfltStrOf (k : Str) : Str :=
  match dfltOf k with
  | .str s => s
  | _ => []

def dfltF64Of (k : Str) : Nat :=
  match dfltOf k with
  | .f64 b => b
  | _ => 0

def fromJsonSig : Json → Except Err Signature
  | .obj kvs =>
    if dupKnown (G.sigFields.map (·.name)) kvs then .error .serde else do
      let cls ← dfltStr kvs K.class_ (dfltStrOf K.class_)
      let email ← dfltStr kvs K.email (dfltStrOf K.email)
      let hashFunction ← reqStr kvs K.hash_function
      let filename ← optStr kvs K.filename
      let name ← optStr kvs K.name
      let license ← dfltStr kvs K.license (dfltStrOf K.license)
      let sks ← req kvs K.signatures
      let sketches ← match sks with
        | .arr xs => fromJsonSketches xs
        | _ => .error .serde
      let version ← dfltF64 kvs K.version (dfltF64Of K.version)
      pure { cls, email, hashFunction, filename, name, license, sketches, version }
  | _ => .error .serde

def fromJsonSigs : List Json → Except Err (List Signature)
  | [] => .ok []
  | j :: t =>
    match fromJsonSig j with
    | .ok s => match fromJsonSigs t with
      | .ok r => .ok (s :: r)
      | .error e => .error e
    | .error e => .error e

/-- `serde_json::from_reader::<Vec<Signature>>` on the tree -/
def fromJson : Json → Except Err (List Signature)
  | .arr xs => fromJsonSigs xs
  | _ => .error .serde

/-! ### `normalise`: the only thing a save/load round trip changes -/

def Sketch.normalise : Sketch → Sketch
  | .tree m => .vec m
  | s => s

def Signature.normalise (s : Signature) : Signature := { s with sketches := s.sketches.map Sketch.normalise }

/-! ### `Signature::load_signatures(buf, ksize, moltype, _)` after `from_reader` -/

/-- the `filter` closure: `Some(b)` keep/drop, `none` = `unimplemented!()` (HyperLogLog) -/
def sketchMatches (k : Option Nat) (m : Option Mol) : Sketch → Option Bool
  | .vec mh | .tree mh =>
    some (
      (match k with
        | some k => if k ≠ mh.ksize then false else true
        | none => true) &&
      (match m with
        | some x => decide (mh.mol = x)
        | none => true))
  | .hll .. => none

/-- `flat_sigs`: one copy of the signature per sketch -/
def flatten (sigs : List Signature) : List Signature :=
  sigs.flatMap fun s => s.sketches.map fun sk => { s with sketches := [sk] }

/-- `filtered_sigs` over one flattened signature: `Ok(None)` dropped, `Ok(Some)` kept, panic -/
def filterOne (k : Option Nat) (m : Option Mol) (s : Signature) : Except Err (Option Signature) :=
  let rec go : List Sketch → Except Err (List Sketch)
    | [] => .ok []
    | sk :: t =>
      match sketchMatches k m sk with
      | none => .error .panic
      | some b => match go t with
        | .ok r => .ok (if b then sk :: r else r)
        | .error e => .error e
  match go s.sketches with
  | .error e => .error e
  | .ok good => .ok (if good.isEmpty then none else some { s with sketches := good })

def filterAll (k : Option Nat) (m : Option Mol) : List Signature → Except Err (List Signature)
  | [] => .ok []
  | s :: t =>
    match filterOne k m s with
    | .error e => .error e
    | .ok o => match filterAll k m t with
      | .ok r => .ok (match o with | some s' => s' :: r | none => r)
      | .error e => .error e

def loadSignatures (k : Option Nat) (m : Option Mol) (j : Json) : Except Err (List Signature) :=
  match fromJson j with
  | .error e => .error e
  | .ok sigs => filterAll k m (flatten sigs)

end SigJson
