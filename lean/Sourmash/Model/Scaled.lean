/-! Model/Scaled.lean — binary64 round-to-nearest-even on Nat/Int only (no Float, no Mathlib) -/
namespace Scaled

/-- round-to-nearest-even of n0/d0 scaled so that the quotient has exactly 53 significant bits.
    Returns (mantissa, exp2) meaning mantissa * 2^exp2, for n0,d0 > 0. -/
def rnDiv (n d : Nat) : Nat × Int :=
  -- e = floor(log2 (n/d)) : find via bit lengths then adjust
  let ln := Nat.log2 n
  let ld := Nat.log2 d
  -- candidate e0 = ln - ld ; true e is e0 or e0-1
  let e0 : Int := (ln : Int) - (ld : Int)
  -- test n >= d * 2^e0  (as cross-multiplied naturals)
  let ge : Bool := if e0 ≥ 0 then n ≥ d * 2 ^ e0.toNat else n * 2 ^ (-e0).toNat ≥ d
  let e : Int := if ge then e0 else e0 - 1
  let sc : Int := 52 - e            -- multiply by 2^sc to get mantissa in [2^52, 2^53)
  let n' := if sc ≥ 0 then n * 2 ^ sc.toNat else n
  let d' := if sc ≥ 0 then d else d * 2 ^ (-sc).toNat
  let q := n' / d'
  let r := n' % d'
  let q' := if 2 * r > d' then q + 1 else if 2 * r == d' then (if q % 2 == 1 then q + 1 else q) else q
  (q', -sc)

/-- u64 → f64 conversion (RN-even), value returned as (mantissa, exp2); n > 0 -/
def ofNat (n : Nat) : Nat × Int := rnDiv n 1

def toNatTrunc (x : Nat × Int) : Nat :=
  let v := if x.2 ≥ 0 then x.1 * 2 ^ x.2.toNat else x.1 / 2 ^ (-x.2).toNat
  if v ≥ 2^64 then 2^64 - 1 else v

/-- round half away from zero then saturating cast -/
def toNatRound (x : Nat × Int) : Nat :=
  let v := if x.2 ≥ 0 then x.1 * 2 ^ x.2.toNat
           else (x.1 * 2 + 2 ^ (-x.2).toNat) / (2 ^ ((-x.2).toNat + 1))
  if v ≥ 2^64 then 2^64 - 1 else v

/-- f64 division of two f64 values given as (m,e) -/
def fdiv (a b : Nat × Int) : Nat × Int :=
  -- a.1*2^a.2 / (b.1*2^b.2)
  let sh : Int := a.2 - b.2
  if sh ≥ 0 then rnDiv (a.1 * 2 ^ sh.toNat) b.1 else rnDiv a.1 (b.1 * 2 ^ (-sh).toNat)

def u64max : Nat := 2^64 - 1

def maxHashForScaled (s : Nat) : Nat :=
  match s with
  | 0 => 0
  | 1 => u64max
  | _ => toNatTrunc (fdiv (ofNat u64max) (ofNat s))

/-- `scaled_for_max_hash` as it is in /repo now: `(u64::MAX as f64 / max_hash as f64).round() as u64` -/
def scaledForMaxHash (m : Nat) : Nat :=
  match m with
  | 0 => 0
  | _ => toNatRound (fdiv (ofNat u64max) (ofNat m))

/-- the code before the repair (truncating cast); kept for the counter-example theorem -/
def scaledForMaxHashTrunc (m : Nat) : Nat :=
  match m with
  | 0 => 0
  | _ => toNatTrunc (fdiv (ofNat u64max) (ofNat m))

end Scaled
