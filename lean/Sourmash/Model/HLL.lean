/-! Model/HLL.lean (prototype) — registers, histogram and the MLE secant iteration over Float; bit-identical to Rust -/
namespace Hll

def clz64 (v : UInt64) : Nat :=
  let rec go (i : Nat) (fuel : Nat) : Nat :=
    match fuel with
    | 0 => 64
    | f+1 => if (v >>> (UInt64.ofNat (63 - i))) &&& 1 == 1 then i else go (i+1) f
  go 0 64

structure H where
  p : Nat
  q : Nat
  regs : Array UInt8

def H.new (p : Nat) : H := { p := p, q := 64 - p, regs := Array.replicate (2^p) 0 }

def H.add (s : H) (h : UInt64) : H :=
  let value := h >>> (UInt64.ofNat s.p)
  let index := (h - (value <<< (UInt64.ofNat s.p))).toNat
  let leftmost := clz64 value + 1 - s.p
  let old := s.regs[index]!
  { s with regs := s.regs.set! index (if old.toNat ≥ leftmost then old else UInt8.ofNat leftmost) }

def counts (regs : Array UInt8) (q : Nat) : Array Nat :=
  regs.foldl (fun c k => c.modify k.toNat (· + 1)) (Array.replicate (q+2) 0)

/-- indices hi, hi-1, …, lo (inclusive) as naturals; empty when hi < lo (i32 range_step_inclusive … -1) -/
def down (hi : Int) (lo : Nat) : List Nat :=
  if hi < (lo : Int) then [] else (List.range (hi.toNat - lo + 1)).map (fun j => hi.toNat - j)

def pow2i (e : Int) : Float := Float.scaleB 1.0 e    -- exact power of two

/-- az::saturating_cast::<usize>(x) for finite x: truncation toward zero, negative → 0 -/
def satUsize (x : Float) : Nat := if x.isNaN then 0 else if x ≤ 0 then 0 else x.floor.toUInt64.toNat

partial def mleLoop (counts : Array Nat) (kMinP kMaxP q : Nat) (cPrime a mPrime del : Float)
    (x deltaX gPrev : Float) : Float :=
  if !(deltaX > x * del) then x else
    let kappa : Nat := satUsize (2.0 + (Float.log2 x).floor)
    let e : Int := -((max kMaxP kappa : Nat) : Int) - 1
    let xPrime0 := x * pow2i e
    let xpp := xPrime0 * xPrime0
    let h0 := xPrime0 - (xpp / 3.0) + (xpp * xpp) * (1.0 / 45.0 - xpp / 472.5)
    -- first loop: k from kappa-1 down to kMaxP (inclusive), as i32 range
    let (h1, xP1) := (down ((kappa : Int) - 1) kMaxP).foldl (fun (acc : Float × Float) _ =>
        let (h, xP) := acc
        let hp := 1.0 - h
        ((xP + h * hp) / (xP + hp), xP + xP)) (h0, xPrime0)
    let g0 := cPrime * h1
    let (_, _, g1) := (down ((kMaxP : Int) - 1) kMinP).foldl (fun (acc : Float × Float × Float) k =>
        let (h, xP, g) := acc
        let hp := 1.0 - h
        let h' := (xP + h * hp) / (xP + hp)
        (h', xP + xP, g + (Float.ofNat (counts[k]!)) * h')) (h1, xP1, g0)
    let g := g1 + x * a
    let deltaX' := if (g > gPrev) || (mPrime ≥ g) then deltaX * (mPrime - g) / (g - gPrev) else 0.0
    mleLoop counts kMinP kMaxP q cPrime a mPrime del (x + deltaX') deltaX' g

def mle (counts : Array Nat) (p q : Nat) (relerr : Float) : Float :=
  let m := 2^p
  if counts[0]! == m then 0.0 else
  if counts[q+1]! == m then (1.0/0.0) else
  let kMin := (List.range (q+2)).find? (fun i => counts[i]! != 0) |>.getD 0
  let kMinP := max 1 kMin
  let kMax := (List.range (q+2)).reverse.find? (fun i => counts[i]! != 0) |>.getD 0
  let kMaxP := min q kMax
  -- z loop from kMaxP down to kMinP
  let z := (down (kMaxP : Int) kMinP).foldl (fun z i => 0.5 * z + Float.ofNat (counts[i]!)) 0.0
  let z := z * pow2i (-(kMinP : Int))
  let cP := counts[q+1]! + (if q ≥ 1 then counts[kMaxP]! else 0)
  let a := z + Float.ofNat counts[0]!
  let b := z + (Float.ofNat counts[q+1]!) * pow2i (-(q : Int))
  let mPrime := Float.ofNat (m - counts[0]!)
  let x := if b ≤ 1.5 * a then mPrime / (0.5 * b + a) else mPrime / (b * (Float.log (1.0 + b / a)))
  let del := relerr / (Float.sqrt (Float.ofNat m))
  let xf := mleLoop counts kMinP kMaxP q (Float.ofNat cP) a mPrime del x x 0.0
  (Float.ofNat m) * xf

def cardinality (s : H) : Nat :=
  let c := counts s.regs s.q
  let r := if s.p < 8 then mle c s.p s.q 0.01 else if s.p < 16 then mle c s.p s.q 0.05 else mle c s.p s.q 0.1
  satUsize r

end Hll
