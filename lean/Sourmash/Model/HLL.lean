/-!
Model/HLL.lean — integer model of `sketch/hyperloglog/mod.rs` and of the integer parts of
`sketch/hyperloglog/estimators.rs` (registers, `add_hash`, `merge`, `check_compatible`, `new`,
`save_to_writer` / `from_reader`, `counts`, the histogram loop of `joint_mle_dispatch`).
Everything the theorems of C17 / C18 talk about lives here; the floating-point MLE is in
`Model/HLLFloat.lean`.  Core Lean only (linked into `drv_c17` / `drv_c18`).

Hashes are `Nat` with the hypothesis `h < 2^64` where it matters: `value = hash >> p` is below
`2^(64-p)`, hence `value << p ≤ hash < 2^64` and neither the shift nor the subtraction of
`add_hash` wraps, so the `u64` arithmetic of the code coincides with the unbounded one.
Registers are `UInt8` (`CounterType = u8`), as in the code.
-/
namespace Hll

/-- `u64::leading_zeros` (for `v < 2^64`) -/
def clz64 (v : Nat) : Nat := if v = 0 then 64 else 63 - v.log2

/-- `cmp::max` on `u8` -/
def umax (a b : UInt8) : UInt8 := if a ≤ b then b else a

structure H where
  p : Nat
  q : Nat
  ksize : Nat
  regs : Array UInt8
deriving DecidableEq, Repr

inductive Err where
  | precisionBounds                 -- Error::HLLPrecisionBounds
  | mismatchKSizes                  -- Error::MismatchKSizes
  | mismatchNum (n1 n2 : Nat)       -- Error::MismatchNum { n1, n2 }
deriving DecidableEq, Repr

def Err.name : Err → String
  | .precisionBounds => "HLLPrecisionBounds"
  | .mismatchKSizes => "MismatchKSizes"
  | .mismatchNum .. => "MismatchNum"

/-- the value `new` builds: `registers = vec![0; 1 << p]`, `q = 64 - p` -/
def H.empty (p ksize : Nat) : H :=
  { p := p, q := 64 - p, ksize := ksize, regs := Array.replicate (2 ^ p) 0 }

/-- `HyperLogLog::new`: `(4..=18).contains(&p)` else `HLLPrecisionBounds`; `q = 64 - p` -/
def H.new (p ksize : Nat) : Except Err H :=
  if 4 ≤ p ∧ p ≤ 18 then .ok (H.empty p ksize) else .error .precisionBounds

/-- `index = (hash - ((hash >> p) << p)) as usize` -/
def index (p h : Nat) : Nat := h - ((h >>> p) <<< p)

/-- `leftmost = (hash >> p).leading_zeros() + 1 - p` -/
def rank (p h : Nat) : Nat := clz64 (h >>> p) + 1 - p

/-- `add_hash`.  (`registers[index]` panics when out of bounds; that needs a sketch that does not
    come from `new` — `HyperLogLog::default()` — and belongs to C20.  `[i]!`/`set!` are then a no-op.) -/
def H.add (s : H) (h : Nat) : H :=
  let i := index s.p h
  { s with regs := s.regs.set! i (umax s.regs[i]! (UInt8.ofNat (rank s.p h))) }

/-- `add_many` / a sequence of `add_hash` calls -/
def H.addMany (s : H) (hs : List Nat) : H := hs.foldl H.add s

/-- `impl Update<HyperLogLog> for KmerMinHash` (also behind `hll_update_mh`):
    `for h in self.mins() { other.add_hash(h) }` — on whatever the receiver already holds -/
def H.update (s : H) (mins : List Nat) : H := mins.foldl H.add s

/-- `check_compatible`: ksize first, then the register count -/
def checkCompatible (a b : H) : Except Err Unit :=
  if a.ksize ≠ b.ksize then .error .mismatchKSizes
  else if a.regs.size ≠ b.regs.size then .error (.mismatchNum a.regs.size b.regs.size)
  else .ok ()

/-- `merge`: `check_compatible`, then register-wise `cmp::max` over the zipped registers -/
def H.merge (a b : H) : Except Err H :=
  match checkCompatible a b with
  | .error e => .error e
  | .ok () => .ok { a with regs := Array.zipWith umax a.regs b.regs }

/-! ### file format -/

/-- `save_to_writer`: "HLL", version 1, `p as u8`, `q as u8`, `ksize as u8`, the registers -/
def H.save (s : H) : List UInt8 :=
  [0x48, 0x4c, 0x4c, 1, UInt8.ofNat s.p, UInt8.ofNat s.q, UInt8.ofNat s.ksize] ++ s.regs.toList

inductive LoadErr where
  | tooShort      -- niffler: fewer than 5 bytes to sniff (`Error::NifflerError`)
  | badMagic      -- `assert_eq!(signature, 0x484c4c)` panics
  | badVersion    -- `assert_eq!(version, 1)` panics
  | shiftOverflow -- `1 << p` with p ≥ 64 panics (overflow checks on)
  | eof           -- `read_u8` / `read_exact` hit the end (`Error::IOError`)
deriving DecidableEq, Repr

/-- `from_reader` on the (already decompressed) byte stream.  Bytes after the registers are ignored. -/
def load (bs : List UInt8) : Except LoadErr H :=
  if bs.length < 5 then .error .tooShort else
  match bs with
  | b0 :: b1 :: b2 :: v :: rest =>
    if !(b0 == 0x48 && b1 == 0x4c && b2 == 0x4c) then .error .badMagic
    else if v != 1 then .error .badVersion
    else match rest with
      | p :: q :: k :: body =>
        if p.toNat ≥ 64 then .error .shiftOverflow
        else if body.length < 2 ^ p.toNat then .error .eof
        else .ok { p := p.toNat, q := q.toNat, ksize := k.toNat,
                   regs := (body.take (2 ^ p.toNat)).toArray }
      | _ => .error .eof
  | _ => .error .tooShort

/-! ### integer side of the estimators -/

/-- `counts[k] += 1` (index out of range panics in the code; registers of a sketch built by
    `new`/`add_hash`/`merge` are ≤ q+1, see `Sourmash.C18.counts_hist`) -/
def bump (c : Array Nat) (k : Nat) : Array Nat := c.modify k (· + 1)

/-- `estimators::counts` -/
def counts (regs : Array UInt8) (q : Nat) : Array Nat :=
  regs.foldl (fun c k => bump c k.toNat) (Array.replicate (q + 2) 0)

/-- the multiplicity type chosen by `cardinality` / `joint_mle`: u8 for p < 8, u16 for p < 16, u32 above -/
def multWidth (p : Nat) : Nat := if p < 8 then 2 ^ 8 else if p < 16 then 2 ^ 16 else 2 ^ 32

/-- which way `mle` leaves: `counts[0] == m` → 0.0, `counts[q+1] == m` → +∞, otherwise the iteration -/
inductive MleCase where
  | zero | inf | iter
deriving DecidableEq, Repr

def mleCase (counts : Array Nat) (p q : Nat) : MleCase :=
  if counts[0]! == 2 ^ p then .zero else if counts[q + 1]! == 2 ^ p then .inf else .iter

/-- the six histograms of the first loop of `joint_mle_dispatch` -/
structure JointHist where
  c1 : Array Nat
  c2 : Array Nat
  cu : Array Nat
  cg1 : Array Nat
  cg2 : Array Nat
  ceq : Array Nat
deriving Repr

def JointHist.init (q : Nat) : JointHist :=
  let z := Array.replicate (q + 2) 0
  { c1 := z, c2 := z, cu := z, cg1 := z, cg2 := z, ceq := z }

/-- one iteration of `for (k1_, k2_) in k1.iter().zip(k2.iter())` -/
def JointHist.step (J : JointHist) (ab : UInt8 × UInt8) : JointHist :=
  let a := ab.1; let b := ab.2
  let J := if a < b then { J with c1 := bump J.c1 a.toNat, cg2 := bump J.cg2 b.toNat }
           else if b < a then { J with cg1 := bump J.cg1 a.toNat, c2 := bump J.c2 b.toNat }
           else { J with ceq := bump J.ceq a.toNat }
  { J with cu := bump J.cu (umax a b).toNat }

def jointLoop (k1 k2 : Array UInt8) (q : Nat) : JointHist :=
  (k1.toList.zip k2.toList).foldl JointHist.step (JointHist.init q)

/-- `for (i, (&v, &u)) in cg.iter().zip(ceq.iter()).enumerate() { c[i] += v + u }` -/
def addInto (c cg ceq : Array Nat) : Array Nat :=
  (List.range (min cg.size ceq.size)).foldl (fun c i => c.modify i (· + (cg[i]! + ceq[i]!))) c

/-- the `for _q in 0..q` loop: `half[_q] = cgA[_q] + ceq[_q] + cgB[_q+1]`, `half[q] -= half[_q]`,
    starting from `half[q] = len` -/
def halfHist (cgA cgB ceq : Array Nat) (q len : Nat) : Array Nat :=
  (List.range q).foldl (fun h i =>
      let v := cgA[i]! + ceq[i]! + cgB[i + 1]!
      let h := h.set! i v
      h.set! q (h[q]! - v))
    ((Array.replicate (q + 2) 0).set! q len)

/-- the five histograms handed to `mle` by `joint_mle_dispatch` -/
structure Five where
  c1 : Array Nat        -- → c_ax
  c2 : Array Nat        -- → c_bx
  cu : Array Nat        -- → c_abx
  axbHalf : Array Nat   -- → c_axb_half (with q-1)
  bxaHalf : Array Nat   -- → c_bxa_half (with q-1)
deriving Repr

def five (k1 k2 : Array UInt8) (q : Nat) : Five :=
  let J := jointLoop k1 k2 q
  { c1 := addInto J.c1 J.cg1 J.ceq,
    c2 := addInto J.c2 J.cg2 J.ceq,
    cu := J.cu,
    axbHalf := halfHist J.cg1 J.cg2 J.ceq q k1.size,
    bxaHalf := halfHist J.cg2 J.cg1 J.ceq q k2.size }

end Hll
