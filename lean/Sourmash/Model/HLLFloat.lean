import Sourmash.Model.HLL
/-!
Model/HLLFloat.lean — the floating-point side of `sketch/hyperloglog/estimators.rs`.

Two sections:

* **generic in the iteration** (`…G` functions): `mle`, `cardinality`, `joint_mle_dispatch`,
  `union` / `intersection` / `similarity` / `containment` written with the secant iteration as a
  parameter `iter`.  These are total definitions; the theorems of C18 quantify over every `iter`
  and so say nothing about floating point — only about the branch structure and the integer
  bookkeeping around it.
* **binary64 instance**: `mleIter`, the transcription of the `while delta_x > x * del` loop of
  `mle` over Lean's `Float` (IEEE-754 binary64, same libm as the Rust build).  It is a
  `partial def` (the code's loop has no bound either); *no theorem mentions it*.  The driver
  `drv_c18` instantiates the generic functions with it and the result is compared bit for bit
  with the crate on every run.
-/
namespace Hll

/-! ## generic in the iteration -/

/-- the tail of `mle` after the two early returns: `counts p q relerr ↦ m · x` -/
abbrev Iter := Array Nat → Nat → Nat → Float → Float

/-- `estimators::mle` -/
def mleG (iter : Iter) (c : Array Nat) (p q : Nat) (relerr : Float) : Float :=
  match mleCase c p q with
  | .zero => 0.0
  | .inf => 1.0 / 0.0
  | .iter => iter c p q relerr

/-- the `relerr` argument `cardinality` passes for each multiplicity width -/
def relerrOf (p : Nat) : Float := if p < 8 then 0.01 else if p < 16 then 0.05 else 0.1

/-- `x as usize` (saturating, NaN → 0) -/
def satUsize (x : Float) : Nat :=
  if x.isNaN then 0 else if x ≤ 0 then 0 else x.floor.toUInt64.toNat

/-- `HyperLogLog::cardinality`: `mle(counts(registers, q), p, q, relerr) as usize`.  The two early
    returns of `mle` are cast here (`0.0 as usize = 0`, `f64::INFINITY as usize = usize::MAX`). -/
def cardinalityG (iter : Iter) (s : H) : Nat :=
  let c := counts s.regs s.q
  match mleCase c s.p s.q with
  | .zero => 0
  | .inf => 2 ^ 64 - 1
  | .iter => satUsize (iter c s.p s.q (relerrOf s.p))

/-- `joint_mle_dispatch`: (only in A, only in B, intersection) -/
def jointG (iter : Iter) (k1 k2 : Array UInt8) (p q : Nat) : Nat × Nat × Nat :=
  let f := five k1 k2 q
  let cax := mleG iter f.c1 p q 0.01
  let cbx := mleG iter f.c2 p q 0.01
  let cabx := mleG iter f.cu p q 0.01
  let caxbHalf := mleG iter f.axbHalf p (q - 1) 0.01
  let cbxaHalf := mleG iter f.bxaHalf p (q - 1) 0.01
  let cx1 := 1.5 * cbx + 1.5 * cax - cbxaHalf - caxbHalf
  let cx2 := 2.0 * (cbxaHalf + caxbHalf) - 3.0 * cabx
  (satUsize (cabx - cbx), satUsize (cabx - cax), satUsize (0.5 * (cx1 + cx2)))

/-- the triple every overlap method starts from: `joint_mle(&self.registers, &other.registers, self.p, self.q)` -/
def tripleG (iter : Iter) (a b : H) : Nat × Nat × Nat := jointG iter a.regs b.regs a.p a.q

def unionG (iter : Iter) (a b : H) : Nat :=
  let t := tripleG iter a b
  t.1 + t.2.1 + t.2.2

def intersectionG (iter : Iter) (a b : H) : Nat := (tripleG iter a b).2.2

/-- `similarity` as the pair (numerator, denominator) of integers the code divides -/
def similarityFrac (iter : Iter) (a b : H) : Nat × Nat :=
  let t := tripleG iter a b
  (t.2.2, t.1 + t.2.1 + t.2.2)

/-- `containment` as the pair (numerator, denominator) -/
def containmentFrac (iter : Iter) (a b : H) : Nat × Nat :=
  let t := tripleG iter a b
  (t.2.2, t.1 + t.2.2)

/-- `x as f64 / y as f64` -/
def ratio (f : Nat × Nat) : Float := Float.ofNat f.1 / Float.ofNat f.2

def similarityG (iter : Iter) (a b : H) : Float := ratio (similarityFrac iter a b)
def containmentG (iter : Iter) (a b : H) : Float := ratio (containmentFrac iter a b)

/-! ## binary64 instance (driver only) -/
namespace F

/-- indices hi, hi-1, …, lo (inclusive); empty when hi < lo (`range_step_inclusive(hi as i32, lo as i32, -1)`) -/
def down (hi : Int) (lo : Nat) : List Nat :=
  if hi < (lo : Int) then [] else (List.range (hi.toNat - lo + 1)).map (fun j => hi.toNat - j)

/-- `2f64.powi(e)`: an exact power of two -/
def pow2i (e : Int) : Float := Float.scaleB 1.0 e

partial def mleLoop (counts : Array Nat) (kMinP kMaxP : Nat) (cPrime a mPrime del : Float)
    (x deltaX gPrev : Float) : Float :=
  if !(deltaX > x * del) then x else
    let kappa : Nat := satUsize (2.0 + (Float.log2 x).floor)
    let e : Int := -((max kMaxP kappa : Nat) : Int) - 1
    let xPrime0 := x * pow2i e
    let xpp := xPrime0 * xPrime0
    let h0 := xPrime0 - (xpp / 3.0) + (xpp * xpp) * (1.0 / 45.0 - xpp / 472.5)
    let (h1, xP1) := (down ((kappa : Int) - 1) kMaxP).foldl (fun (acc : Float × Float) _ =>
        let (h, xP) := acc
        let hp := 1.0 - h
        ((xP + h * hp) / (xP + hp), xP + xP)) (h0, xPrime0)
    let g0 := cPrime * h1
    let (_, _, g1) := (down ((kMaxP : Int) - 1) kMinP).foldl (fun (acc : Float × Float × Float) k =>
        let (h, xP, g) := acc
        let hp := 1.0 - h
        let h' := (xP + h * hp) / (xP + hp)
        (h', xP + xP, g + (Float.ofNat (counts[k]!)) * h')) (h1, xP1, g0)
    let g := g1 + x * a
    let deltaX' := if (g > gPrev) || (mPrime ≥ g) then deltaX * (mPrime - g) / (g - gPrev) else 0.0
    mleLoop counts kMinP kMaxP cPrime a mPrime del (x + deltaX') deltaX' g

/-- `mle` from `let (k_min, _) = …` to the end -/
def mleIter : Iter := fun counts p q relerr =>
  let m := 2 ^ p
  let n := counts.size
  let kMin := (List.range n).find? (fun i => counts[i]! != 0) |>.getD 0
  let kMinP := max 1 kMin
  let kMax := (List.range n).reverse.find? (fun i => counts[i]! != 0) |>.getD 0
  let kMaxP := min q kMax
  let z := (down (kMaxP : Int) kMinP).foldl (fun z i => 0.5 * z + Float.ofNat (counts[i]!)) 0.0
  let z := z * pow2i (-(kMinP : Int))
  let cP := counts[q + 1]! + (if q ≥ 1 then counts[kMaxP]! else 0)
  let a := z + Float.ofNat counts[0]!
  let b := z + (Float.ofNat counts[q + 1]!) * pow2i (-(q : Int))
  let mPrime := Float.ofNat (m - counts[0]!)
  let x := if b ≤ 1.5 * a then mPrime / (0.5 * b + a) else mPrime / (b * (Float.log (1.0 + b / a)))
  let del := relerr / (Float.sqrt (Float.ofNat m))
  let xf := mleLoop counts kMinP kMaxP (Float.ofNat cP) a mPrime del x x 0.0
  (Float.ofNat m) * xf

def mle : Array Nat → Nat → Nat → Float → Float := mleG mleIter
def cardinality : H → Nat := cardinalityG mleIter
def joint : Array UInt8 → Array UInt8 → Nat → Nat → Nat × Nat × Nat := jointG mleIter

end F
end Hll
