/-! Model/Gather.lean — the disk `RevIndex::gather` loop, `prepare_gather_counters` and
`calculate_gather_stats` (src/core/src/index/revindex/disk_revindex.rs, src/core/src/index/mod.rs),
branch for branch.  Core Lean only (linked into `drv_c08`).

Data: a collection is a list of datasets, dataset `d` = `dsets[d]`, each a strictly increasing hash list
(a scaled `KmerMinHash`); the query is a strictly increasing list of `(hash, abundance)`.
The counter (`counter::Counter<Idx>`, a hash map) is an association list `dataset ↦ count`.
Every `f64` field of `GatherResult` that is a quotient `a as f64 / b as f64` is the pair `(a, b)`.

The loop is written as a one-round function `step` (everything between `while` and the closing brace)
iterated by `run` with fuel; `run` also records the state each round started from, which is what the
theorems in `Theorems/C08.lean` talk about.  `gather` projects the rows. -/
namespace Gather

/-- `a ∩ b` in the order of `a` (both sorted in the code, so this is the sorted intersection that
    `KmerMinHash::intersection` returns) -/
def isectL (a b : List Nat) : List Nat := a.filter (fun x => b.contains x)

/-- `collection.sig_for_dataset(d)` → its hashes -/
def dsOf (dsets : List (List Nat)) (d : Nat) : List Nat := dsets.getD d []

structure Cfg where
  dsets : List (List Nat)
  scaled : Nat
  threshold : Nat
  /-- `orig_query.track_abundance()` -/
  track : Bool
  /-- `orig_query` as `(hash, abundance)`; abundances are ignored when `track = false` -/
  orig : List (Nat × Nat)

/-- `orig_query.sum_abunds()`: Σ abundances, or the size of an untracked sketch -/
def Cfg.totalW (c : Cfg) : Nat := if c.track then (c.orig.map (·.2)).sum else c.orig.length

structure Row where
  /-- dataset id of the match (`name` = `d<id>` in the harness) -/
  d : Nat
  /-- `gather_result_rank` -/
  rank : Nat
  /-- the counter value of the match (`match_size`, numerator of `f_match`) -/
  size : Nat
  /-- second component of `calculate_gather_stats`: `match ∩ remaining query` -/
  isect : List Nat
  intersectBp : Nat
  uniqueBp : Nat
  remainingBp : Nat
  nUniqueW : Nat
  sumW : Nat
  totalW : Nat
  fOrig : Nat × Nat
  fMatch : Nat × Nat
  fUnique : Nat × Nat
  fUniqueW : Nat × Nat
  fMatchOrig : Nat × Nat
  avgAbund : Nat × Nat
  medianAbund : Nat × Nat
  /-- abundances of the intersection taken from the remaining query (input of `stddev`); `[]` untracked -/
  abunds : List Nat

/-- `prepare_gather_counters`: every query hash found in the index adds 1 to each dataset holding it;
    datasets sharing no hash never enter the counter. -/
def prepareCounter (dsets : List (List Nat)) (qk : List Nat) : List (Nat × Nat) :=
  (List.range dsets.length).filterMap (fun d =>
    let n := (qk.filter (fun h => (dsOf dsets d).contains h)).length
    if n = 0 then none else some (d, n))

/-- order of `k_most_common_ordered`: larger count first, equal counts by ascending key -/
def better (y best : Nat × Nat) : Bool := y.2 > best.2 || (y.2 == best.2 && y.1 < best.1)

/-- `counter.k_most_common_ordered(1)[0]` -/
def argmax : List (Nat × Nat) → Option (Nat × Nat)
  | [] => none
  | x :: xs => some (xs.foldl (fun best y => if better y best then y else best) x)

/-- one hash of the intersection: `counter.entry(dataset).and_modify(|e| *e -= 1)` for every dataset of
    the hash's colour (= every dataset holding the hash); absent entries stay absent -/
def decOne (dsets : List (List Nat)) (h : Nat) (c : List (Nat × Nat)) : List (Nat × Nat) :=
  c.map (fun e => if (dsOf dsets e.1).contains h then (e.1, e.2 - 1) else e)

def decrement (dsets : List (List Nat)) (isect : List Nat) (c : List (Nat × Nat)) : List (Nat × Nat) :=
  isect.foldl (fun c h => decOne dsets h c) c

/-- `stats::median` as (numerator, denominator); the code panics on an empty list (unreachable: the
    intersection of a reported match is never empty, theorem `unique_eq_counter`) -/
def medianPair (xs : List Nat) : Nat × Nat :=
  let s := xs.mergeSort (fun a b => decide (a ≤ b))
  let n := s.length
  if n = 0 then (0, 0)
  else if n % 2 = 0 then (s.getD (n / 2 - 1) 0 + s.getD (n / 2) 0, 2)
  else (s.getD (n / 2) 0, 1)

/-- `calculate_gather_stats` (same scaled on both sides, `calc_ani_ci = false`) -/
def stats (c : Cfg) (remaining : List (Nat × Nat)) (d size rank sumW : Nat) : Row :=
  let m := dsOf c.dsets d
  let remKeys := remaining.map (·.1)
  let origKeys := c.orig.map (·.1)
  let isect := isectL m remKeys
  let interOrig := (isectL m origKeys).length
  -- `match_mh.inflated_abundances(&remaining_query)`
  let abunds := (remaining.filter (fun p => m.contains p.1)).map (·.2)
  let nUW := if c.track then abunds.sum else 0
  { d := d, rank := rank, size := size, isect := isect
    intersectBp := c.scaled * interOrig
    uniqueBp := c.scaled * isect.length
    remainingBp := (remKeys.length - isect.length) * c.scaled
    nUniqueW := nUW
    sumW := if c.track then sumW + nUW else 0
    totalW := c.totalW
    fOrig := (interOrig, origKeys.length)
    fMatch := (size, m.length)
    fUnique := (isect.length, origKeys.length)
    fUniqueW := if c.track then (nUW, c.totalW) else (isect.length, origKeys.length)
    fMatchOrig := (interOrig, m.length)
    avgAbund := if c.track then (nUW, abunds.length) else (1, 1)
    medianAbund := if c.track then medianPair abunds else (1, 1)
    abunds := if c.track then abunds else [] }

/-- loop state -/
structure St where
  counter : List (Nat × Nat)
  /-- `query`: the not yet explained part of the original query -/
  remaining : List (Nat × Nat)
  matchSize : Nat
  sumW : Nat
  /-- dataset ids of `matches`, in order (`matches.len()` is the next rank) -/
  reported : List Nat

/-- one round of `while match_size > threshold && !counter.is_empty() { … }`; `none` = the loop ends
    here (condition false, or one of the two `break`s) -/
def step (c : Cfg) (s : St) : Option (Row × St) :=
  if ¬ (s.matchSize > c.threshold ∧ s.counter ≠ []) then none else
  match argmax s.counter with
  | none => none
  | some (d, size) =>
    -- `match_size = if size >= threshold { size } else { break }`
    if ¬ (size ≥ c.threshold) then none else
    -- `if match_size == 0 { break }`
    if size = 0 then none else
    let row := stats c s.remaining d size s.reported.length s.sumW
    some (row,
      { -- decrement per intersection hash, then `counter.remove(&dataset_id)`
        counter := (decrement c.dsets row.isect s.counter).filter (fun e => e.1 != d)
        -- `query.remove_many(match_mh.iter_mins())`
        remaining := s.remaining.filter (fun p => !(dsOf c.dsets d).contains p.1)
        matchSize := size
        sumW := row.sumW
        reported := s.reported ++ [d] })

/-- the rounds, each with the state it started from -/
def run (c : Cfg) : Nat → St → List (St × Row)
  | 0, _ => []
  | f + 1, s =>
    match step c s with
    | none => []
    | some (row, s') => (s, row) :: run c f s'

/-- the state the loop stops in -/
def final (c : Cfg) : Nat → St → St
  | 0, s => s
  | f + 1, s =>
    match step c s with
    | none => s
    | some (_, s') => final c f s'

/-- state on entry: counters from the index, whole query, `match_size = usize::MAX` -/
def init (c : Cfg) : St :=
  { counter := prepareCounter c.dsets (c.orig.map (·.1)), remaining := c.orig,
    matchSize := 2 ^ 64 - 1, sumW := 0, reported := [] }

/-- each round removes one dataset from the counter, so `#datasets + 1` rounds always suffice
    (theorem `fuel_irrelevant`) -/
def fuel (c : Cfg) : Nat := c.dsets.length + 1

def trace (c : Cfg) : List (St × Row) := run c (fuel c) (init c)

/-- the state `gather` stops in -/
def stopState (c : Cfg) : St := final c (fuel c) (init c)

/-- `prepare_gather_counters` + `gather` -/
def gather (c : Cfg) : List Row := (trace c).map (·.2)

end Gather
