/-! Model/Gather.lean (prototype) — disk gather loop + statistics; output identical to the real index on 400 cases -/
namespace Gather

def isectL (a b : List Nat) : List Nat := a.filter (fun x => b.contains x)

structure Row where
  d : Nat
  rank : Nat
  intersectBp : Nat
  uniqueBp : Nat
  remainingBp : Nat
  nUniqueW : Nat
  sumW : Nat
  totalW : Nat
  fOrig : Nat × Nat
  fMatch : Nat × Nat
  fUnique : Nat × Nat
  fUniqueW : Nat × Nat
  fMatchOrig : Nat × Nat

/-- counter as association list dataset ↦ count (only datasets with ≥1 shared hash initially) -/
def argmax (c : List (Nat × Nat)) : Option (Nat × Nat) :=
  c.foldl (fun best (d, n) => match best with
    | none => some (d, n)
    | some (bd, bn) => if n > bn || (n == bn && d < bd) then some (d, n) else some (bd, bn)) none

def gatherLoop (dsets : List (List Nat)) (scaled threshold : Nat) (track : Bool)
    (orig : List (Nat × Nat)) (totalW : Nat) :
    Nat → List (Nat × Nat) → List (Nat × Nat) → Nat → Nat → List Row → List Row
  | 0, _, _, _, _, acc => acc.reverse
  | fuel+1, counter, remaining, matchSize, sumW, acc =>
    if !(matchSize > threshold && !counter.isEmpty) then acc.reverse else
    match argmax counter with
    | none => acc.reverse
    | some (d, size) =>
      if !(size ≥ threshold) then acc.reverse else
      if size == 0 then acc.reverse else
      let m := dsets.getD d []
      let remKeys := remaining.map (·.1)
      let origKeys := orig.map (·.1)
      let isect := isectL m remKeys
      let interOrig := (isectL m origKeys).length
      let nUW := if track then (remaining.filter (fun (h, _) => m.contains h)).foldl (fun s (_, a) => s + a) 0 else 0
      let sumW' := if track then sumW + nUW else 0
      let row : Row := {
        d := d, rank := acc.length, intersectBp := scaled * interOrig, uniqueBp := scaled * isect.length,
        remainingBp := (remKeys.length - isect.length) * scaled, nUniqueW := nUW, sumW := sumW', totalW := totalW,
        fOrig := (interOrig, origKeys.length), fMatch := (size, m.length), fUnique := (isect.length, origKeys.length),
        fUniqueW := if track then (nUW, totalW) else (isect.length, origKeys.length), fMatchOrig := (interOrig, m.length) }
      let remaining' := remaining.filter (fun (h, _) => !m.contains h)
      -- decrement every dataset containing each isect hash
      let counter' := isect.foldl (fun c h =>
        c.map (fun (d', n) => if (dsets.getD d' []).contains h then (d', n - 1) else (d', n))) counter
      let counter'' := counter'.filter (fun (d', _) => d' != d)
      gatherLoop dsets scaled threshold track orig totalW fuel counter'' remaining' size sumW' (row :: acc)

def gather (dsets : List (List Nat)) (scaled threshold : Nat) (track : Bool) (q : List (Nat × Nat)) : List Row :=
  let qk := q.map (·.1)
  let counter := (List.range dsets.length).filterMap (fun d =>
    let n := (isectL (dsets.getD d []) qk).length
    if n == 0 then none else some (d, n))
  let totalW := if track then q.foldl (fun s (_, a) => s + a) 0 else q.length
  -- usize::MAX start value
  gatherLoop dsets scaled threshold track q totalW (dsets.length + 1) counter q (2^64 - 1) 0 []

end Gather
