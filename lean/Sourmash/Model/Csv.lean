/-!
Model/Csv.lean — the bytes `csv::Writer` produces for a manifest and what `csv::Reader` reads back,
as configured in `manifest.rs` **now**:

* writer: `WriterBuilder::new().comment(Some(b'#'))`, `QuoteStyle::Necessary`, delimiter `,`,
  terminator `\n`, quote `"` doubled inside quoted fields.  csv-core's `Writer::build` marks as
  "requires quotes" the delimiter, the quote, CR, LF and — because a comment byte is configured —
  `#` **anywhere in any field** (csv-core 0.1.11 `writer.rs`: "we force quotes when a comment
  character is encountered anywhere in the field").  A record whose bytes would be empty (a single
  empty field) is written as `""`.  The header row is written before the first record only, so an
  empty manifest is the banner line alone.
* reader: `ReaderBuilder::new().comment(Some(b'#'))`: a `#` at the start of a record starts a
  comment that runs to the next LF; blank lines are skipped; CR, LF and CRLF end a record; a quote at
  the start of a field opens a quoted field, `""` inside it is a quote, anything after the closing
  quote is appended literally; the first record is the header; every record must have the header's
  number of fields (`flexible(false)`).
-/
namespace Csv

abbrev Bytes := List UInt8

/-- bytes for which csv-core's `requires_quotes` table is set: `,` `"` CR LF `#` -/
def special (b : UInt8) : Bool := b == 44 || b == 34 || b == 13 || b == 10 || b == 35

def needsQuote (f : Bytes) : Bool := f.any special

/-- the inside of a quoted field: quotes doubled -/
def escape (f : Bytes) : Bytes := f.flatMap (fun b => if b == 34 then [34, 34] else [b])

def writeField (f : Bytes) : Bytes :=
  if needsQuote f then [34] ++ escape f ++ [34] else f

def writeRecord (fs : List Bytes) : Bytes :=
  match fs with
  | [] => [10]
  | [[]] => [34, 34, 10]                      -- `terminator()` with `record_bytes == 0`
  | f :: rest => writeField f ++ rest.flatMap (fun g => [44] ++ writeField g) ++ [10]

/-- "internal_location", "md5", "md5short", "ksize", "moltype", "num", "scaled", "n_hashes",
    "with_abundance", "name", "filename" -/
def header : List Bytes :=
  [[105,110,116,101,114,110,97,108,95,108,111,99,97,116,105,111,110], [109,100,53],
   [109,100,53,115,104,111,114,116], [107,115,105,122,101], [109,111,108,116,121,112,101],
   [110,117,109], [115,99,97,108,101,100], [110,95,104,97,115,104,101,115],
   [119,105,116,104,95,97,98,117,110,100,97,110,99,101], [110,97,109,101],
   [102,105,108,101,110,97,109,101]]

/-- "# SOURMASH-MANIFEST-VERSION: 1.0\n" -/
def banner : Bytes :=
  [35,32,83,79,85,82,77,65,83,72,45,77,65,78,73,70,69,83,84,45,86,69,82,83,73,79,78,58,32,49,46,48,10]

/-- `Manifest::to_writer` on rows already rendered as fields -/
def writeManifest (recs : List (List Bytes)) : Bytes :=
  match recs with
  | [] => banner
  | _ => banner ++ writeRecord header ++ recs.flatMap writeRecord

/-- reader states: start of record, inside an unquoted field (or at the start of a later field),
    inside a quoted field, just after a closing quote, inside a comment line -/
inductive S | sor | unq | quo | afterq | comment
  deriving DecidableEq, Repr

structure R where
  st : S := .sor
  field : Bytes := []
  cur : List Bytes := []
  out : List (List Bytes) := []
  deriving DecidableEq, Repr

def endField (r : R) : R := { r with cur := r.cur ++ [r.field], field := [] }
def endRecord (r : R) : R :=
  { r with out := r.out ++ [r.cur ++ [r.field]], cur := [], field := [], st := .sor }

def step (r : R) (b : UInt8) : R :=
  match r.st with
  | .comment => if b == 10 then { r with st := .sor } else r
  | .sor =>
    if b == 10 || b == 13 then r                       -- blank line / CRLF remainder: skipped
    else if b == 35 then { r with st := .comment }
    else if b == 34 then { r with st := .quo }
    else if b == 44 then { (endField r) with st := .unq }
    else { r with st := .unq, field := [b] }
  | .unq =>
    if b == 44 then endField r
    else if b == 10 || b == 13 then endRecord r
    else if b == 34 && r.field.isEmpty then { r with st := .quo }
    else { r with field := r.field ++ [b] }
  | .quo =>
    if b == 34 then { r with st := .afterq } else { r with field := r.field ++ [b] }
  | .afterq =>
    if b == 34 then { r with st := .quo, field := r.field ++ [34] }
    else if b == 44 then { (endField r) with st := .unq }
    else if b == 10 || b == 13 then endRecord r
    else { r with st := .unq, field := r.field ++ [b] }

/-- end of input.  csv-core's DFA (`transition_final_dfa`) ends a record from every state that is
    neither the start state nor already past a record — including the comment state: a comment line
    that is cut off by the end of the input yields a record with **no** fields (which then fails the
    field-count check unless it is the only record). -/
def finish (r : R) : List (List Bytes) :=
  match r.st with
  | .sor => r.out
  | .comment => r.out ++ [[]]
  | _ => (endRecord r).out

/-- all records of the input, header included -/
def parse (bs : Bytes) : List (List Bytes) := finish (bs.foldl step {})

/-- header and data rows; `none` = `UnequalLengths` error -/
def readTable (bs : Bytes) : Option (Option (List Bytes × List (List Bytes))) :=
  match parse bs with
  | [] => some none
  | h :: rest => if rest.all (fun r => r.length == h.length) then some (some (h, rest)) else none

end Csv
