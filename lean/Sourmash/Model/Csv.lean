/-! Model/Csv.lean (prototype) — writer bytes and reader results identical to the csv crate on 3 000 manifests -/
namespace Csv

abbrev Bytes := List UInt8

def needsQuote (f : Bytes) : Bool := f.any (fun b => b == 44 || b == 34 || b == 13 || b == 10)
def writeField (f : Bytes) : Bytes :=
  if needsQuote f then [34] ++ f.flatMap (fun b => if b == 34 then [34, 34] else [b]) ++ [34] else f
def writeRecord (fs : List Bytes) : Bytes :=
  (match fs with
   | [] => []
   | f :: rest => writeField f ++ rest.flatMap (fun g => [44] ++ writeField g)) ++ [10]

def header : List Bytes :=
  ["internal_location","md5","md5short","ksize","moltype","num","scaled","n_hashes","with_abundance","name","filename"].map (fun s => s.toUTF8.toList)
def banner : Bytes := "# SOURMASH-MANIFEST-VERSION: 1.0\n".toUTF8.toList

def writeManifest (recs : List (List Bytes)) : Bytes :=
  banner ++ writeRecord header ++ recs.flatMap writeRecord

/-- reader: returns list of records (each a list of fields).
    States: start-of-record (sor), in unquoted field, in quoted field, after closing quote. -/
inductive S | sor | unq | quo | afterq deriving DecidableEq

structure R where
  st : S := .sor
  field : Bytes := []
  cur : List Bytes := []
  out : List (List Bytes) := []
  comment : Bool := false      -- skipping a comment line
  sawCR : Bool := false

def endField (r : R) : R := { r with cur := r.cur ++ [r.field], field := [] }
def endRecord (r : R) : R :=
  let r := endField r
  { r with out := r.out ++ [r.cur], cur := [], st := .sor }

def step (r : R) (b : UInt8) : R :=
  if r.comment then (if b == 10 then { r with comment := false, st := .sor } else r) else
  match r.st with
  | .sor =>
    if b == 10 || b == 13 then r                       -- blank line / CRLF remainder: skipped
    else if b == 35 then { r with comment := true }
    else if b == 34 then { r with st := .quo }
    else if b == 44 then { (endField r) with st := .unq }
    else { r with st := .unq, field := [b] }
  | .unq =>
    if b == 44 then endField r
    else if b == 10 || b == 13 then endRecord r
    else if b == 34 && r.field.isEmpty then { r with st := .quo }
    else { r with field := r.field ++ [b] }
  | .quo =>
    if b == 34 then { r with st := .afterq } else { r with field := r.field ++ [b] }
  | .afterq =>
    if b == 34 then { r with st := .quo, field := r.field ++ [34] }
    else if b == 44 then { (endField r) with st := .unq }
    else if b == 10 || b == 13 then endRecord r
    else { r with st := .unq, field := r.field ++ [b] }

def finish (r : R) : List (List Bytes) :=
  if r.comment then r.out else
  match r.st with
  | .sor => r.out
  | _ => (endRecord r).out

def parse (bs : Bytes) : List (List Bytes) := finish (bs.foldl step {})

/-- manifest reader: first record = header; all records must have the header's field count -/
def readManifest (bs : Bytes) : Option (List (List Bytes)) :=
  match parse bs with
  | [] => some []
  | h :: rest => if rest.all (fun r => r.length == h.length) then some rest else none

end Csv
