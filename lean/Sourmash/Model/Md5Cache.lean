import Sourmash.Model.MinHash
import Sourmash.Model.Scaled
/-!
Model/Md5Cache.lean — the two-sketch machine of property C13: every operation that the property's
quantifier names (md5sum / clone / == interleaved with EVERY mutating entry point of the two sketch
types) acting on a *target* sketch with a second sketch as the operand of the binary ones.

Mutating entry points covered (`minhash.rs`, `signature.rs` `SigsTrait`, `ffi/minhash.rs`):
add_hash / add_hash_with_abundance, set_hash_with_abundance, add_many, add_many_with_abund,
add_from, remove_hash, remove_many, remove_from, add_word / add_sequence / add_protein (a list of
hashes added in order, possibly followed by a failure that leaves the hashes already added in the
sketch), clear, merge, inflate, enable/disable abundance, downsample_scaled / downsample_max_hash
(a NEW sketch, or the moved one), the serde round trip, the `From` conversions vector↔tree, and the
C entry point `kmerminhash_set_abundances` (the other `kmerminhash_*` mutators delegate one-to-one
to a method above).

The register machine at the end (`Sk`, `RCmd`, `regsStep`) runs the same ops over ANY number of live
sketches of either type, with copies (`Clone`, serde, `From`) landing next to their sources.

The driver `Driver/C13.lean` runs exactly these step functions; `Theorems/C13.lean` quantifies over
all command lists.
-/
namespace MH

/-! ### entry points that need `scaled_for_max_hash` / `max_hash_for_scaled` -/

/-- the `max_hash` of `KmerMinHash::new(other.scaled(), …)`: `max_hash_for_scaled(scaled_for_max_hash(m))` -/
def reMaxHash (m : Nat) : Nat := Scaled.maxHashForScaled (Scaled.scaledForMaxHash m)

/-- `downsample_scaled(self, scaled)`: the moved sketch itself (cache and all) when nothing changes,
    an error when `scaled` is smaller, else a NEW sketch filled through `add_many[_with_abund]` -/
def Vec.downsampleScaled (s : Vec) (scaled : Nat) : Except String Vec :=
  let cur := Scaled.scaledForMaxHash s.maxHash
  if cur == scaled || cur == 0 then .ok s
  else if cur > scaled then .error "CannotUpsampleScaled"
  else
    let n := Vec.new s.num (Scaled.maxHashForScaled scaled) s.abunds.isSome s.ksize
    .ok (if s.abunds.isSome then n.addManyAbund s.toVecAbunds else n.addMany s.mins)

/-- `downsample_max_hash(self, max_hash)` -/
def Vec.downsampleMaxHash (s : Vec) (mh : Nat) : Except String Vec :=
  if s.maxHash == 0 then .ok s else s.downsampleScaled (Scaled.scaledForMaxHash mh)

def Tree.downsampleScaled (s : Tree) (scaled : Nat) : Except String Tree :=
  let cur := Scaled.scaledForMaxHash s.maxHash
  if cur == scaled || cur == 0 then .ok s
  else if cur > scaled then .error "CannotUpsampleScaled"
  else
    let n := Tree.new s.num (Scaled.maxHashForScaled scaled) s.abunds.isSome s.ksize
    .ok (if s.abunds.isSome then n.addManyAbund s.toVecAbunds else n.addMany s.mins)

def Tree.downsampleMaxHash (s : Tree) (mh : Nat) : Except String Tree :=
  if s.maxHash == 0 then .ok s else s.downsampleScaled (Scaled.scaledForMaxHash mh)

/-- `impl From<KmerMinHashBTree> for KmerMinHash` (and `From<&KmerMinHashBTree>`): a new sketch
    (empty cache) that is handed the hashes and the abundance values -/
def Tree.toVec (t : Tree) : Vec :=
  { num := t.num, maxHash := reMaxHash t.maxHash, ksize := t.ksize, mins := t.mins,
    abunds := t.abundVals, md5 := none }

/-- `impl From<KmerMinHash> for KmerMinHashBTree` -/
def Vec.toTree (v : Vec) : Tree :=
  { num := v.num, maxHash := reMaxHash v.maxHash, ksize := v.ksize, mins := v.mins,
    abunds := v.abunds.map (fun a => v.mins.zip a), currentMax := lastOr0 v.mins, md5 := none }

/-- serde round trip `from_str(to_string(self))`: `(loaded, self after serialising)`.  `Serialize`
    writes `self.md5sum()` (filling the cache); `Deserialize` stores the string it reads as the
    cache and sets `num = 0` when `max_hash != 0`. -/
def Vec.serde (s : Vec) : Vec × Vec :=
  let (d, s') := s.md5sum
  ({ s with md5 := some d, num := if s.maxHash != 0 then 0 else s.num }, s')

def Tree.serde (s : Tree) : Tree × Tree :=
  let (d, s') := s.md5sum
  ({ s with md5 := some d, num := if s.maxHash != 0 then 0 else s.num, currentMax := lastOr0 s.mins }, s')

/-- `pairs.sort_unstable()` on `(hash, abundance)` tuples -/
def sortPairs (ps : List (Nat × Nat)) : List (Nat × Nat) :=
  ps.mergeSort (fun a b => a.1 < b.1 || (a.1 == b.1 && a.2 ≤ b.2))

/-- `kmerminhash_set_abundances(ptr, hashes, abunds, n, clear)`: sort the pairs, `clear()` when asked,
    `add_many_with_abund` -/
def Vec.setAbundances (s : Vec) (ps : List (Nat × Nat)) (clear : Bool) : Vec :=
  (if clear then s.clear else s).addManyAbund (sortPairs ps)

end MH

namespace Md5Cache
open MH

inductive Op
  | add (h a : Nat)
  | set (h a : Nat)            -- vector type only
  | remove (h : Nat)
  | removeMany (hs : List Nat)
  | clear
  | merge                      -- target.merge(&operand)
  | enable
  | disable
  | inflate                    -- vector type only: target.inflate(&operand)
  | md5                        -- target.md5sum()
  | clone                      -- target := target.clone()
  | copy                       -- operand := target.clone()
  | addMany (hs : List Nat)                    -- add_many / kmerminhash_add_many
  | addManyAbund (ps : List (Nat × Nat))       -- add_many_with_abund
  | addFrom                                    -- target.add_from(&operand)
  | removeFrom                                 -- vector type only: target.remove_from(&operand)
  | addSeq (hs : List Nat) (err : Option String)
      -- add_sequence / add_protein / add_word: the hashes the input contributes, added in order;
      -- `err = some e`: the call then fails with `e` (the hashes before the failure stay)
  | setAbundances (ps : List (Nat × Nat)) (clear : Bool)   -- C API, vector type only
  | downScaled (scaled : Nat)  -- target := target.clone().downsample_scaled(scaled)   (target kept on error)
  | downMaxHash (mh : Nat)     -- target := target.clone().downsample_max_hash(mh)
  | downMove (scaled : Nat)    -- target := target.downsample_scaled(scaled), a new empty sketch on error
  | serde                      -- target := from_str(to_string(&target))

/-- a command: an op on the main sketch (`onOther = false`) or on the second one, `main == other`, or
    `other == main` -/
inductive Cmd
  | on (onOther : Bool) (op : Op)
  | eq
  | eqRev

inductive Out
  | mins (l : List Nat)
  | err (e : String)
  | digest (d : Digest)
  | bool (b : Bool)
  | badOp
  | errMins (e : String) (l : List Nat)   -- a failed call and what the sketch holds afterwards
  | mins2 (a b : List Nat)

/-! ### vector type -/

def vecOp (t s : Vec) : Op → Vec × Vec × Out
  | .add h a => let t' := t.add h a; (t', s, .mins t'.mins)
  | .set h a => let t' := t.set h a; (t', s, .mins t'.mins)
  | .remove h => let t' := t.remove h; (t', s, .mins t'.mins)
  | .removeMany hs => let t' := t.removeMany hs; (t', s, .mins t'.mins)
  | .clear => let t' := t.clear; (t', s, .mins t'.mins)
  | .merge =>
    match t.mergeChecked s with
    | .ok t' => (t', s, .mins t'.mins)
    | .error e => (t, s, .err e)
  | .enable =>
    match t.enableAbundance with
    | .ok t' => (t', s, .mins t'.mins)
    | .error e => (t, s, .err e)
  | .disable => let t' := t.disableAbundance; (t', s, .mins t'.mins)
  | .inflate =>
    match compatErr t.ksize t.maxHash s.ksize s.maxHash with
    | some e => (t, s, .err e)
    | none =>
      match t.inflate s with
      | .ok t' => (t', s, .mins t'.mins)
      | .error e => (t, s, .err e)
  | .md5 => let r := t.md5sum; (r.2, s, .digest r.1)
  | .clone => let c := t.clone.1; (c, s, .digest c.md5sum.1)
  | .copy => let r := t.clone; (r.2, r.1, .digest r.1.md5sum.1)
  | .addMany hs => let t' := t.addMany hs; (t', s, .mins t'.mins)
  | .addManyAbund ps => let t' := t.addManyAbund ps; (t', s, .mins t'.mins)
  | .addFrom => let t' := t.addFrom s; (t', s, .mins t'.mins)
  | .removeFrom => let t' := t.removeFrom s; (t', s, .mins t'.mins)
  | .addSeq hs err =>
    let t' := t.addMany hs
    match err with
    | none => (t', s, .mins t'.mins)
    | some e => (t', s, .errMins e t'.mins)
  | .setAbundances ps c => let t' := t.setAbundances ps c; (t', s, .mins t'.mins)
  | .downScaled sc =>
    let r := t.clone
    match r.1.downsampleScaled sc with
    | .ok t' => (t', s, .mins t'.mins)
    | .error e => (r.2, s, .err e)
  | .downMaxHash mh =>
    let r := t.clone
    match r.1.downsampleMaxHash mh with
    | .ok t' => (t', s, .mins t'.mins)
    | .error e => (r.2, s, .err e)
  | .downMove sc =>
    match t.downsampleScaled sc with
    | .ok t' => (t', s, .mins t'.mins)
    | .error e => (Vec.new t.num (reMaxHash t.maxHash) t.abunds.isSome t.ksize, s, .errMins e [])
  | .serde => let t' := t.serde.1; (t', s, .mins t'.mins)

structure VPair where
  main : Vec
  other : Vec

def VPair.step (p : VPair) : Cmd → VPair × Out
  | .on false op => let r := vecOp p.main p.other op; (⟨r.1, r.2.1⟩, r.2.2)
  | .on true op => let r := vecOp p.other p.main op; (⟨r.2.1, r.1⟩, r.2.2)
  | .eq => let r := p.main.eq p.other; (⟨r.2.1, r.2.2⟩, .bool r.1)
  | .eqRev => let r := p.other.eq p.main; (⟨r.2.2, r.2.1⟩, .bool r.1)

def VPair.run (p : VPair) (cs : List Cmd) : VPair := cs.foldl (fun p c => (p.step c).1) p

/-! ### tree type -/

def treeOp (t s : Tree) : Op → Tree × Tree × Out
  | .add h a => let t' := t.add h a; (t', s, .mins t'.mins)
  | .set _ _ => (t, s, .badOp)
  | .remove h => let t' := t.remove h; (t', s, .mins t'.mins)
  | .removeMany hs => let t' := t.removeMany hs; (t', s, .mins t'.mins)
  | .clear => let t' := t.clear; (t', s, .mins t'.mins)
  | .merge =>
    match t.mergeChecked s with
    | .ok t' => (t', s, .mins t'.mins)
    | .error e => (t, s, .err e)
  | .enable =>
    match t.enableAbundance with
    | .ok t' => (t', s, .mins t'.mins)
    | .error e => (t, s, .err e)
  | .disable => let t' := t.disableAbundance; (t', s, .mins t'.mins)
  | .inflate => (t, s, .badOp)
  | .md5 => let r := t.md5sum; (r.2, s, .digest r.1)
  | .clone => let c := t.clone.1; (c, s, .digest c.md5sum.1)
  | .copy => let r := t.clone; (r.2, r.1, .digest r.1.md5sum.1)
  | .addMany hs => let t' := t.addMany hs; (t', s, .mins t'.mins)
  | .addManyAbund ps => let t' := t.addManyAbund ps; (t', s, .mins t'.mins)
  | .addFrom => let t' := t.addFrom s; (t', s, .mins t'.mins)
  | .removeFrom => (t, s, .badOp)
  | .addSeq hs err =>
    let t' := t.addMany hs
    match err with
    | none => (t', s, .mins t'.mins)
    | some e => (t', s, .errMins e t'.mins)
  | .setAbundances _ _ => (t, s, .badOp)
  | .downScaled sc =>
    let r := t.clone
    match r.1.downsampleScaled sc with
    | .ok t' => (t', s, .mins t'.mins)
    | .error e => (r.2, s, .err e)
  | .downMaxHash mh =>
    let r := t.clone
    match r.1.downsampleMaxHash mh with
    | .ok t' => (t', s, .mins t'.mins)
    | .error e => (r.2, s, .err e)
  | .downMove sc =>
    match t.downsampleScaled sc with
    | .ok t' => (t', s, .mins t'.mins)
    | .error e => (Tree.new t.num (reMaxHash t.maxHash) t.abunds.isSome t.ksize, s, .errMins e [])
  | .serde => let t' := t.serde.1; (t', s, .mins t'.mins)

structure TPair where
  main : Tree
  other : Tree

def TPair.step (p : TPair) : Cmd → TPair × Out
  | .on false op => let r := treeOp p.main p.other op; (⟨r.1, r.2.1⟩, r.2.2)
  | .on true op => let r := treeOp p.other p.main op; (⟨r.2.1, r.1⟩, r.2.2)
  | .eq => let r := p.main.eq p.other; (⟨r.2.1, r.2.2⟩, .bool r.1)
  | .eqRev => let r := p.other.eq p.main; (⟨r.2.2, r.2.1⟩, .bool r.1)

def TPair.run (p : TPair) (cs : List Cmd) : TPair := cs.foldl (fun p c => (p.step c).1) p

/-! ### both types, with the `From` conversions between them -/

inductive Pair
  | v (p : VPair)
  | t (p : TPair)

/-- a command of the mixed machine: a command on the pair as it is, or "convert both sketches to the
    other type" (`KmerMinHash::from(tree)` / `KmerMinHashBTree::from(vec)`) -/
inductive PCmd
  | cmd (c : Cmd)
  | conv

def Pair.step : Pair → PCmd → Pair × Out
  | .v q, .cmd c => let r := q.step c; (.v r.1, r.2)
  | .t q, .cmd c => let r := q.step c; (.t r.1, r.2)
  | .v q, .conv => (.t ⟨q.main.toTree, q.other.toTree⟩, .mins2 q.main.mins q.other.mins)
  | .t q, .conv => (.v ⟨q.main.toVec, q.other.toVec⟩, .mins2 q.main.mins q.other.mins)

def Pair.run (p : Pair) (cs : List PCmd) : Pair := cs.foldl (fun p c => (p.step c).1) p

/-! ### a register file of independent sketches (value semantics)

Any number of live sketches of either type.  A copy (`Clone`, the serde round trip, a `From`
conversion) lands in ANOTHER register while its source stays alive; afterwards both are ordinary
registers: each can be mutated, copied again and observed at any time, in any order.  There is no
sharing in the model — a register's cache belongs to that register alone — which is exactly what the
property demands of the code: every object reports the digest of ITS OWN current contents. -/

inductive Sk
  | v (x : Vec)
  | t (x : Tree)

def Sk.ksize : Sk → Nat
  | .v x => x.ksize
  | .t x => x.ksize

def Sk.mins : Sk → List Nat
  | .v x => x.mins
  | .t x => x.mins

/-- `md5sum()`: `(digest, self after the call)` -/
def Sk.md5sum : Sk → Digest × Sk
  | .v x => (x.md5sum.1, .v x.md5sum.2)
  | .t x => (x.md5sum.1, .t x.md5sum.2)

/-- `Clone`: `(copy, self after the call)` -/
def Sk.clone : Sk → Sk × Sk
  | .v x => (.v x.clone.1, .v x.clone.2)
  | .t x => (.t x.clone.1, .t x.clone.2)

/-- `from_str(to_string(&self))`: `(loaded, self after serialising)` -/
def Sk.serde : Sk → Sk × Sk
  | .v x => (.v x.serde.1, .v x.serde.2)
  | .t x => (.t x.serde.1, .t x.serde.2)

/-- the `From` conversion to the other type -/
def Sk.conv : Sk → Sk
  | .v x => .t x.toTree
  | .t x => .v x.toVec

def Sk.isTree : Sk → Bool
  | .v _ => false
  | .t _ => true

/-- ops that read the operand sketch (or, `copy`, overwrite it) -/
def Op.binary : Op → Bool
  | .merge | .inflate | .addFrom | .removeFrom | .copy => true
  | _ => false

/-- a command of the register machine -/
inductive RCmd
  | on (i j : Nat) (op : Op)     -- `op` on register `i`, register `j ≠ i` as its operand (a binary op
                                 -- needs both of one type; `copy` then puts the clone into `j`)
  | eq (i j : Nat)               -- `reg i == reg j` (one type)
  | dup (i j : Nat)              -- `reg j := reg i .clone()`; nothing is observed, both stay alive
  | serdeTo (i j : Nat)          -- `reg j := from_str(to_string(&reg i))`
  | convTo (i j : Nat) (viaClone : Bool)
      -- `reg j := From(reg i .clone())`, or (tree sources only) `reg j := KmerMinHash::from(&reg i)`
  | conv (i : Nat)               -- `reg i := From(reg i)`

def regsStep (rs : List Sk) : RCmd → List Sk × Out
  | .on i j op =>
    if i == j then (rs, .badOp) else
    match rs[i]?, rs[j]? with
    | some (.v t), some (.v s) => let r := vecOp t s op; ((rs.set i (.v r.1)).set j (.v r.2.1), r.2.2)
    | some (.t t), some (.t s) => let r := treeOp t s op; ((rs.set i (.t r.1)).set j (.t r.2.1), r.2.2)
    | some (.v t), some (.t _) =>
      if op.binary then (rs, .badOp) else let r := vecOp t t op; (rs.set i (.v r.1), r.2.2)
    | some (.t t), some (.v _) =>
      if op.binary then (rs, .badOp) else let r := treeOp t t op; (rs.set i (.t r.1), r.2.2)
    | _, _ => (rs, .badOp)
  | .eq i j =>
    if i == j then (rs, .badOp) else
    match rs[i]?, rs[j]? with
    | some (.v a), some (.v b) => let r := a.eq b; ((rs.set i (.v r.2.1)).set j (.v r.2.2), .bool r.1)
    | some (.t a), some (.t b) => let r := a.eq b; ((rs.set i (.t r.2.1)).set j (.t r.2.2), .bool r.1)
    | _, _ => (rs, .badOp)
  | .dup i j =>
    if i == j || rs.length ≤ j then (rs, .badOp) else
    match rs[i]? with
    | some s => let r := s.clone; ((rs.set i r.2).set j r.1, .mins r.1.mins)
    | none => (rs, .badOp)
  | .serdeTo i j =>
    if i == j || rs.length ≤ j then (rs, .badOp) else
    match rs[i]? with
    | some s => let r := s.serde; ((rs.set i r.2).set j r.1, .mins r.1.mins)
    | none => (rs, .badOp)
  | .convTo i j viaClone =>
    if i == j || rs.length ≤ j then (rs, .badOp) else
    match rs[i]? with
    | some s =>
      if viaClone then ((rs.set i s.clone.2).set j s.clone.1.conv, .mins s.mins)
      else if s.isTree then (rs.set j s.conv, .mins s.mins)
      else (rs, .badOp)
    | none => (rs, .badOp)
  | .conv i =>
    match rs[i]? with
    | some s => (rs.set i s.conv, .mins s.mins)
    | none => (rs, .badOp)

def regsRun (rs : List Sk) (cs : List RCmd) : List Sk := cs.foldl (fun rs c => (regsStep rs c).1) rs

end Md5Cache
