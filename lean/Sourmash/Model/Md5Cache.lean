import Sourmash.Model.MinHash
/-!
Model/Md5Cache.lean — the two-sketch machine of property C13: every operation that the property's
quantifier names (md5sum / clone / == interleaved with add, add-with-abundance, set, remove,
remove_many, clear, merge, inflate, enable/disable abundance) acting on a *target* sketch with a
second sketch as the operand of the binary ones.  The driver `Driver/C13.lean` runs exactly these
step functions; `Theorems/C13.lean` quantifies over all command lists.
-/
namespace Md5Cache
open MH

inductive Op
  | add (h a : Nat)
  | set (h a : Nat)            -- vector type only
  | remove (h : Nat)
  | removeMany (hs : List Nat)
  | clear
  | merge                      -- target.merge(&operand)
  | enable
  | disable
  | inflate                    -- vector type only: target.inflate(&operand)
  | md5                        -- target.md5sum()
  | clone                      -- target := target.clone()
  | copy                       -- operand := target.clone()

/-- a command: an op on the main sketch (`onOther = false`) or on the second one, or `main == other` -/
inductive Cmd
  | on (onOther : Bool) (op : Op)
  | eq

inductive Out
  | mins (l : List Nat)
  | err (e : String)
  | digest (d : Digest)
  | bool (b : Bool)
  | badOp

/-! ### vector type -/

def vecOp (t s : Vec) : Op → Vec × Vec × Out
  | .add h a => let t' := t.add h a; (t', s, .mins t'.mins)
  | .set h a => let t' := t.set h a; (t', s, .mins t'.mins)
  | .remove h => let t' := t.remove h; (t', s, .mins t'.mins)
  | .removeMany hs => let t' := t.removeMany hs; (t', s, .mins t'.mins)
  | .clear => let t' := t.clear; (t', s, .mins t'.mins)
  | .merge =>
    match t.mergeChecked s with
    | .ok t' => (t', s, .mins t'.mins)
    | .error e => (t, s, .err e)
  | .enable =>
    match t.enableAbundance with
    | .ok t' => (t', s, .mins t'.mins)
    | .error e => (t, s, .err e)
  | .disable => let t' := t.disableAbundance; (t', s, .mins t'.mins)
  | .inflate =>
    match compatErr t.ksize t.maxHash s.ksize s.maxHash with
    | some e => (t, s, .err e)
    | none =>
      match t.inflate s with
      | .ok t' => (t', s, .mins t'.mins)
      | .error e => (t, s, .err e)
  | .md5 => let r := t.md5sum; (r.2, s, .digest r.1)
  | .clone => let c := t.clone.1; (c, s, .digest c.md5sum.1)
  | .copy => let r := t.clone; (r.2, r.1, .digest r.1.md5sum.1)

structure VPair where
  main : Vec
  other : Vec

def VPair.step (p : VPair) : Cmd → VPair × Out
  | .on false op => let r := vecOp p.main p.other op; (⟨r.1, r.2.1⟩, r.2.2)
  | .on true op => let r := vecOp p.other p.main op; (⟨r.2.1, r.1⟩, r.2.2)
  | .eq => let r := p.main.eq p.other; (⟨r.2.1, r.2.2⟩, .bool r.1)

def VPair.run (p : VPair) (cs : List Cmd) : VPair := cs.foldl (fun p c => (p.step c).1) p

/-! ### tree type -/

def treeOp (t s : Tree) : Op → Tree × Tree × Out
  | .add h a => let t' := t.add h a; (t', s, .mins t'.mins)
  | .set _ _ => (t, s, .badOp)
  | .remove h => let t' := t.remove h; (t', s, .mins t'.mins)
  | .removeMany hs => let t' := t.removeMany hs; (t', s, .mins t'.mins)
  | .clear => let t' := t.clear; (t', s, .mins t'.mins)
  | .merge =>
    match t.mergeChecked s with
    | .ok t' => (t', s, .mins t'.mins)
    | .error e => (t, s, .err e)
  | .enable =>
    match t.enableAbundance with
    | .ok t' => (t', s, .mins t'.mins)
    | .error e => (t, s, .err e)
  | .disable => let t' := t.disableAbundance; (t', s, .mins t'.mins)
  | .inflate => (t, s, .badOp)
  | .md5 => let r := t.md5sum; (r.2, s, .digest r.1)
  | .clone => let c := t.clone.1; (c, s, .digest c.md5sum.1)
  | .copy => let r := t.clone; (r.2, r.1, .digest r.1.md5sum.1)

structure TPair where
  main : Tree
  other : Tree

def TPair.step (p : TPair) : Cmd → TPair × Out
  | .on false op => let r := treeOp p.main p.other op; (⟨r.1, r.2.1⟩, r.2.2)
  | .on true op => let r := treeOp p.other p.main op; (⟨r.2.1, r.1⟩, r.2.2)
  | .eq => let r := p.main.eq p.other; (⟨r.2.1, r.2.2⟩, .bool r.1)

def TPair.run (p : TPair) (cs : List Cmd) : TPair := cs.foldl (fun p c => (p.step c).1) p

end Md5Cache
