import Sourmash.Model.Ani
/-!
`Float` instance of the ANI model — **driver only** (Lean's `Float` is opaque to the kernel; no theorem
mentions this file).  `Float.pow`, `Float.sqrt`, `Float.log`, `Float.exp` call the same libm as Rust's
`powf`, `sqrt`, `ln`, `exp`; `+ − × ÷` are IEEE binary64; `UInt64.toFloat` is the C cast
(round to nearest even), as `u64 as f64`.
-/
namespace Sourmash.Ani

instance : RealLike Float where
  ofNat n := n.toUInt64.toFloat
  ofDec m e := OfScientific.ofScientific m true e
  powf := Float.pow
  sqrt := Float.sqrt
  beq a b := a == b
  blt a b := decide (a < b)

/-- `get_exp_probability_nothing_common` (dead code in the crate, kept for `ln`/`exp`) -/
def expProbabilityNothingCommon (ani : Float) (k : Nat) (fScaled : Float) (n : Nat) : Float :=
  if ani == 0.0 || ani == 1.0 then 1.0 - ani
  else
    let expNmut := expNMutated (lit n : Float) k (1.0 - ani)
    let elp := ((lit n : Float) - expNmut) * Float.log (1.0 - fScaled)
    let elp := if elp.isInf then Float.log 0.0 else elp   -- NEG_INFINITY
    Float.exp elp

end Sourmash.Ani
