import Sourmash.Lemmas.DatasetsMerge
import Sourmash.Lemmas.IndexExtend
import Sourmash.Lemmas.IndexFault
import Sourmash.Lemmas.IndexReduce
import Sourmash.Lemmas.IndexGrouping
/-! Property C09 — index construction is independent of scheduling and of build increments.
Property theorems only; helper lemmas live in `Sourmash/Lemmas/Datasets*.lean`, `Lemmas/Index*.lean`.

Throughout, `c : ManyCodec` is the roaring byte format of `Datasets::Many`, a parameter; `c.Lawful`
are the two recorded assumptions about it (round trip, length ∉ {1, 8}); they are checked against
the real crate by the `enc`/`dec` requests of the correspondence run and are satisfiable
(`listCodec_lawful`). -/
namespace Sourmash.C09
open RevIdx RevIdx.Datasets

/-- the two roaring assumptions are satisfiable (a transparent length-prefixed codec meets them), so no
theorem below is vacuous in `c.Lawful` -/
theorem assumptions_satisfiable : listCodec.Lawful := listCodec_lawful

/-! ### T-datasets_wf — `Many` always holds ≥ 2 ids, so the length-discriminated codec decodes what was encoded -/

/-- T-datasets_wf (constructor): `Datasets::new` yields a well-formed value whenever it does not panic -/
theorem datasets_wf_new {vals : List Nat} {d : Datasets} (h : Datasets.new vals = some d) : d.WF :=
  new_wf h
example : Datasets.new [3, 9] = some (many [3, 9]) := by decide

/-- T-datasets_wf (union) -/
theorem datasets_wf_union {a b : Datasets} (ha : a.WF) (hb : b.WF) : (a.union b).WF := union_wf ha hb
example : (unique 4).WF ∧ (many [1, 2]).WF := ⟨trivial, by decide, by decide⟩

/-- T-datasets_wf (extend) -/
theorem datasets_wf_extend {a : Datasets} (it : List Nat) (ha : a.WF) : (a.extend it).WF := extend_wf ha
example : (Datasets.empty.extend [5, 5, 2]) = many [2, 5] := by decide

/-- T-datasets_wf (consequence): on well-formed `u32` values the codec round-trips, i.e. the length test
of `from_slice` picks the variant that `as_bytes` wrote -/
theorem datasets_codec_roundtrip {c : ManyCodec} (hc : c.Lawful) {d : Datasets} (hw : d.WF) (hb : d.Bounded) :
    fromSlice c (asBytes c d) = d := fromSlice_asBytes hc hw hb
example : fromSlice listCodec (asBytes listCodec (many [1, 70000])) = many [1, 70000] := by decide

/-- why T-datasets_wf matters: a `Many` that violated the invariant with an 8-byte encoding would be read
back as `Unique` (roaring writes an *empty* bitmap as exactly 8 bytes, cookie 12346 first) -/
theorem ill_formed_many_misdecodes : fromSlice roaringCodec (asBytes roaringCodec (many [])) = unique 12346 := by
  decide

/-! ### T-union_aci — union is associative, commutative and idempotent -/

/-- T-union_aci (denoted sets; no hypothesis): membership in a union is the disjunction -/
theorem union_mem (a b : Datasets) (x : Nat) : x ∈ (a.union b).ids ↔ x ∈ a.ids ∨ x ∈ b.ids := mem_union

/-- T-union_aci, associativity as an equality of values -/
theorem union_assoc {a b d : Datasets} (ha : a.WF) (hb : b.WF) (hd : d.WF) :
    (a.union b).union d = a.union (b.union d) :=
  canonical (union_wf (union_wf ha hb) hd) (union_wf ha (union_wf hb hd))
    (fun x => by simp only [mem_union, or_assoc])

/-- T-union_aci, commutativity -/
theorem union_comm {a b : Datasets} (ha : a.WF) (hb : b.WF) : a.union b = b.union a :=
  canonical (union_wf ha hb) (union_wf hb ha) (fun x => by simp only [mem_union, or_comm])

/-- T-union_aci, idempotence -/
theorem union_idem {a : Datasets} (ha : a.WF) : a.union a = a :=
  canonical (union_wf ha ha) ha (fun x => by simp only [mem_union, or_self])
example : (many [1, 5]).union (unique 3) = (unique 3).union (many [1, 5]) := by decide

/-! ### T-merge_tree — every grouping and order of merge operands stores the union -/

/-- T-merge_tree.  `ex` is the value already stored under the key (if any), `ops` the operands written to
the key; RocksDB may apply the associative operator along any forest `groups` (nested partial merges,
successive full merges) whose leaves are the operands *in any order*.  The stored result is a valid
encoding and denotes `existing ∪ ⋃ operands`. -/
theorem merge_tree {c : ManyCodec} (hc : c.Lawful) (ex : Option Bytes) (ops : List Bytes)
    (groups : List (List MTree)) (hperm : (forestLeaves groups).Perm ops)
    (hex : ∀ e, ex = some e → Good c e) (hops : ∀ o ∈ ops, Good c o) :
    (∀ e, evalKey c ex groups = some e → Good c e) ∧
    ∀ x, x ∈ lookupIds c (evalKey c ex groups) ↔ (x ∈ lookupIds c ex ∨ ∃ o ∈ ops, x ∈ den c o) := by
  have h := evalKey_spec hc groups ex hex (fun b hb => hops b (hperm.mem_iff.mp hb))
  refine ⟨h.1, fun x => ?_⟩
  rw [h.2 x]
  constructor
  · rintro (h | ⟨b, hb, hx⟩)
    · exact Or.inl h
    · exact Or.inr ⟨b, hperm.mem_iff.mp hb, hx⟩
  · rintro (h | ⟨b, hb, hx⟩)
    · exact Or.inl h
    · exact Or.inr ⟨b, hperm.mem_iff.mpr hb, hx⟩

/-- T-merge_tree, corollary: two executions over the same operands (different order, different grouping)
store byte-identical values -/
theorem merge_tree_unique {c : ManyCodec} (hc : c.Lawful) (ex : Option Bytes)
    (g₁ g₂ : List (List MTree)) (hperm : (forestLeaves g₁).Perm (forestLeaves g₂))
    (hne : g₁ = [] ↔ g₂ = [])
    (hex : ∀ e, ex = some e → Good c e) (hops : ∀ o ∈ forestLeaves g₂, Good c o) :
    evalKey c ex g₁ = evalKey c ex g₂ := by
  have h1 := merge_tree hc ex _ g₁ hperm hex hops
  have h2 := merge_tree hc ex _ g₂ (List.Perm.refl _) hex hops
  have some_of_ne : ∀ (g : List (List MTree)) (e : Option Bytes), g ≠ [] → ∃ b, evalKey c e g = some b := by
    intro g
    induction g with
    | nil => intro _ h; exact absurd rfl h
    | cons a t ih =>
      intro e _
      cases t with
      | nil => exact ⟨_, rfl⟩
      | cons a' t' => exact ih (fullMerge c e a) (by simp)
  by_cases hg : g₁ = []
  · rw [hg, hne.mp hg]
  · obtain ⟨b1, e1⟩ := some_of_ne g₁ ex hg
    obtain ⟨b2, e2⟩ := some_of_ne g₂ ex (fun h => hg (hne.mpr h))
    rw [e1, e2]
    congr 1
    apply Good.ext hc (h1.1 b1 e1) (h2.1 b2 e2)
    intro x
    have a1 := h1.2 x
    have a2 := h2.2 x
    rw [e1] at a1; rw [e2] at a2
    exact a1.trans a2.symm

/-- non-vacuity of `merge_tree`: three operands {0},{1},{0}, grouped two ways and permuted -/
example :
    lookupIds listCodec (evalKey listCodec none
      [[.node [.leaf (asBytes listCodec (unique 0)), .leaf (asBytes listCodec (unique 1))]],
       [.leaf (asBytes listCodec (unique 0))]]) = [0, 1]
    ∧ lookupIds listCodec (evalKey listCodec none
      [[.leaf (asBytes listCodec (unique 1)), .leaf (asBytes listCodec (unique 0)),
        .leaf (asBytes listCodec (unique 0))]]) = [0, 1] := by decide

/-! ### T-disk_schedule_free — every schedule and every merge grouping gives the sequential reference build -/

/-- T-disk_schedule_free.  `sched` is any interleaving of the per-dataset write programs of
`map_hashes_colors` (one `merge(HASHES, h, {d})` per hash, then `merge(PROCESSED, {d})`), `g` any way
RocksDB groups, nests and orders the merge operands of each key.  Then every key of HASHES decodes to
exactly the ascending list of datasets containing the hash — `refIds C h`, the sequential reference
build — and PROCESSED to all dataset ids; every stored value is a valid encoding. -/
theorem disk_schedule_free {c : ManyCodec} (hc : c.Lawful) (C : Coll) (hn : C.length ≤ 2 ^ 32)
    (sched : List Write) (hs : Interleaving (programs C (List.range C.length)) sched)
    (g : Grouping) (hg : GroupingOK g) :
    (∀ h, lookupIds c ((applyWrites c {} sched g).hashes h) = refIds C h) ∧
    lookupIds c (applyWrites c {} sched g).processed = List.range C.length :=
  (build_from_scratch hc C hn sched hs g hg).2

/-- T-disk_schedule_free for `RevIndex::create` as modelled (`createDb`): whatever `choices` the scheduler
makes and however the operands are grouped, the index is the reference index -/
theorem create_schedule_free {c : ManyCodec} (hc : c.Lawful) (C : Coll) (hn : C.length ≤ 2 ^ 32)
    (choices : List Nat) (g : Grouping) (hg : GroupingOK g) :
    (∀ h, lookupIds c ((createDb c C choices g).hashes h) = refIds C h) ∧
    lookupIds c (createDb c C choices g).processed = List.range C.length := by
  rw [createDb_eq]
  exact disk_schedule_free hc C hn _ (runSchedule_interleaving choices _) g hg

/-- hence two builds of the same collection under different schedules and groupings answer every lookup alike -/
theorem create_deterministic {c : ManyCodec} (hc : c.Lawful) (C : Coll) (hn : C.length ≤ 2 ^ 32)
    (ch₁ ch₂ : List Nat) (g₁ g₂ : Grouping) (hg₁ : GroupingOK g₁) (hg₂ : GroupingOK g₂) (h : Nat) :
    lookupIds c ((createDb c C ch₁ g₁).hashes h) = lookupIds c ((createDb c C ch₂ g₂).hashes h) := by
  rw [(create_schedule_free hc C hn ch₁ g₁ hg₁).1 h, (create_schedule_free hc C hn ch₂ g₂ hg₂).1 h]

/-- the hypotheses are satisfiable: the sequential schedule is an interleaving, one flat full merge is a grouping -/
theorem sequential_is_schedule (ps : List (List Write)) : Interleaving ps ps.flatten := Interleaving.sequential ps
/-- every sequence of scheduler choices yields an interleaving -/
theorem run_is_schedule (ps : List (List Write)) (choices : List Nat) : Interleaving ps (runSchedule ps choices) :=
  runSchedule_interleaving choices ps
/-- one flat full merge of all operands is a grouping -/
theorem flat_grouping_ok : GroupingOK (fun _ ops => [ops.map MTree.leaf]) := by
  intro _ ops
  have : ∀ l : List Bytes, MTree.leavesList (l.map MTree.leaf) = l := by
    intro l
    induction l with
    | nil => rfl
    | cons a t ih => simp [MTree.leavesList, MTree.leaves, ih]
  simp [forestLeaves, this]
/-- the groupings the correspondence run drives the executable model with (full merges of `k1` operands,
partial merges of `k2` adjacent operands inside, optionally nested) are groupings, for all parameters -/
theorem chunk_grouping_ok (k1 k2 : Nat) (deep : Bool) : GroupingOK (chunkGrouping k1 k2 deep) :=
  chunkGrouping_ok k1 k2 deep
example : lookupIds listCodec ((createDb listCodec [[5, 7], [7], []] [1, 0, 0, 2] (fun _ ops => [ops.map MTree.leaf])).hashes 7)
    = [0, 1] := by decide

/-! ### T-extend — create(C₁) then update(C₁ ++ C₂) = create(C₁ ++ C₂) -/

/-- T-extend.  `old` are the records of the indexed collection `C₁`, the new collection's records start
with them (`old ++ ext`).  Under any schedules and groupings of both builds, `update` is accepted and the
result has the HASHES and PROCESSED of the sequential reference build of `C₁ ++ C₂` … -/
theorem extend_is_reference {c : ManyCodec} (hc : c.Lawful) (C₁ C₂ : Coll) (hn : (C₁ ++ C₂).length ≤ 2 ^ 32)
    {ρ : Type} [BEq ρ] [LawfulBEq ρ] (old ext : List ρ) (hold : old.length = C₁.length)
    (ch₁ ch₂ : List Nat) (g₁ g₂ : Grouping) (hg₁ : GroupingOK g₁) (hg₂ : GroupingOK g₂) :
    ∃ db, updateDb c (createDb c C₁ ch₁ g₁) old (old ++ ext) (C₁ ++ C₂) ch₂ g₂ = some db ∧
      (∀ h, lookupIds c (db.hashes h) = refIds (C₁ ++ C₂) h) ∧
      lookupIds c db.processed = List.range (C₁ ++ C₂).length :=
  update_after_create hc C₁ C₂ hn old ext hold ch₁ ch₂ g₁ g₂ hg₁ hg₂

example :
    (updateDb listCodec (createDb listCodec [[5, 7]] [0] (chunkGrouping 1 0 false)) [10] [10, 11, 12]
        [[5, 7], [7], [5]] [1, 0, 1] (chunkGrouping 2 2 true)).map (fun db =>
      (lookupIds listCodec (db.hashes 5), lookupIds listCodec (db.hashes 7), lookupIds listCodec db.processed))
    = some ([0, 2], [0, 1], [0, 1, 2]) := by decide

/-- … i.e. it is indistinguishable from an index created from scratch over the larger collection -/
theorem extend_eq_create {c : ManyCodec} (hc : c.Lawful) (C₁ C₂ : Coll) (hn : (C₁ ++ C₂).length ≤ 2 ^ 32)
    {ρ : Type} [BEq ρ] [LawfulBEq ρ] (old ext : List ρ) (hold : old.length = C₁.length)
    (ch₁ ch₂ ch₃ : List Nat) (g₁ g₂ g₃ : Grouping) (hg₁ : GroupingOK g₁) (hg₂ : GroupingOK g₂) (hg₃ : GroupingOK g₃) :
    ∃ db, updateDb c (createDb c C₁ ch₁ g₁) old (old ++ ext) (C₁ ++ C₂) ch₂ g₂ = some db ∧
      (∀ h, lookupIds c (db.hashes h) = lookupIds c ((createDb c (C₁ ++ C₂) ch₃ g₃).hashes h)) ∧
      lookupIds c db.processed = lookupIds c (createDb c (C₁ ++ C₂) ch₃ g₃).processed := by
  obtain ⟨db, h1, h2, h3⟩ := extend_is_reference hc C₁ C₂ hn old ext hold ch₁ ch₂ g₁ g₂ hg₁ hg₂
  have hcr := create_schedule_free hc (C₁ ++ C₂) hn ch₃ g₃ hg₃
  exact ⟨db, h1, fun h => by rw [h2 h, hcr.1 h], by rw [h3, hcr.2]⟩

/-! ### T-fault_resume — an extension that aborts part-way, then the same extension again -/

/-- T-fault_resume.  The index of `C₁` is extended to `C₁ ++ C₂` by a run that ABORTS (the signatures of
some datasets cannot be loaded; `abortedBuild`): only the tasks of the datasets `done` ran — ANY subset of
the new datasets, so the processed set it leaves may have HOLES (a later dataset indexed and marked, an
earlier one not) — under any schedule and grouping, and the manifest was not written.  Then the index is
reopened and extended again with everything readable, under any schedule and grouping: `update` is
accepted and the result has the HASHES and PROCESSED of the sequential reference build of `C₁ ++ C₂` —
the datasets in the holes are indexed, the ones that were done are not indexed twice. -/
theorem fault_resume {c : ManyCodec} (hc : c.Lawful) (C₁ C₂ : Coll) (hn : (C₁ ++ C₂).length ≤ 2 ^ 32)
    {ρ : Type} [BEq ρ] [LawfulBEq ρ] (old ext : List ρ) (hold : old.length = C₁.length)
    (done : List Nat) (hdone : ∀ d ∈ done, C₁.length ≤ d ∧ d < (C₁ ++ C₂).length)
    (ch₁ chF ch₂ : List Nat) (g₁ gF g₂ : Grouping) (hg₁ : GroupingOK g₁) (hgF : GroupingOK gF) (hg₂ : GroupingOK g₂) :
    ∃ db, updateDb c (abortedBuild c (createDb c C₁ ch₁ g₁) (C₁ ++ C₂) done chF gF) old (old ++ ext)
        (C₁ ++ C₂) ch₂ g₂ = some db ∧
      (∀ h, lookupIds c (db.hashes h) = refIds (C₁ ++ C₂) h) ∧
      lookupIds c db.processed = List.range (C₁ ++ C₂).length :=
  update_after_aborted hc C₁ C₂ hn old ext hold done hdone ch₁ ch₂ g₁ gF g₂ hg₁ hgF hg₂ _
    (runSchedule_interleaving chF _)

/-- non-vacuity: one old dataset, three new ones; the aborted run indexed only the LAST one (processed =
{0, 3}: datasets 1 and 2 are a hole); the second run fills the hole -/
example :
    let dbF := abortedBuild listCodec (createDb listCodec [[5, 7]] [0] (chunkGrouping 1 0 false))
      [[5, 7], [7], [5], [7, 9]] [3] [0, 0] (chunkGrouping 2 2 true)
    lookupIds listCodec dbF.processed = [0, 3] ∧
    (updateDb listCodec dbF [10] [10, 11, 12, 13] [[5, 7], [7], [5], [7, 9]] [1, 0, 1] (chunkGrouping 2 2 true)).map
      (fun db => (lookupIds listCodec (db.hashes 5), lookupIds listCodec (db.hashes 7), lookupIds listCodec db.processed))
    = some ([0, 2], [0, 1, 3], [0, 1, 2, 3]) := by decide

/-! ### T-superset — an extension whose leading records differ is rejected -/

/-- T-superset: `check_superset` (zip + all) fails iff some leading record — a position present in both
collections — differs.  (A collection *shorter* than the indexed one with equal leading records is
accepted by the code: `zip` stops at the shorter list.) -/
theorem superset_fails_iff {ρ : Type} [BEq ρ] [LawfulBEq ρ] (self other : List ρ) :
    checkSuperset self other = false ↔ ∃ i, ∃ (h1 : i < self.length) (h2 : i < other.length), self[i] ≠ other[i] :=
  checkSuperset_false_iff self other

/-- T-superset, consequence: `update` returns the error and writes nothing exactly in that case -/
theorem update_rejected_iff {ρ : Type} [BEq ρ] [LawfulBEq ρ] (c : ManyCodec) (db : Db) (old new : List ρ)
    (C : Coll) (ch : List Nat) (g : Grouping) :
    updateDb c db old new C ch g = none ↔ ∃ i, ∃ (h1 : i < old.length) (h2 : i < new.length), old[i] ≠ new[i] := by
  rw [← superset_fails_iff]
  unfold updateDb
  cases checkSuperset old new <;> simp
example : checkSuperset [1, 2, 3] [1, 9, 3, 4] = false ∧ checkSuperset [1, 2] [1, 2, 5] = true
    ∧ checkSuperset [1, 2, 3] [1, 2] = true := by decide

/-! ### T-refcount_inv / T-mem_reduce — the in-memory build under every reduction tree

`Colors` is modelled as the refcount function colour ↦ count (0 = not in the map), a colour being
identified with its id set (recorded assumption: xxh3 `compute_color` is injective on the id sets that
occur — the code asserts it).  `MemInv` is the invariant: distinct hash keys, refcount of every colour ≥
number of hashes mapped to it, colours in use ascending. -/

/-- T-refcount_inv: the empty state satisfies the invariant, `add_to` (one dataset's leaf) and
`reduce_hashes_colors` preserve it and never hit the `unwrap`/`unimplemented!`/`assert_eq!` panics
(the model's `none`); consequently a colour in use always exists in `Colors` with a positive count -/
theorem refcount_inv_reduce {a b : H2C × Colors} (ha : MemInv a) (hb : MemInv b) :
    ∃ r, reduceHC a b = some r ∧ MemInv r :=
  let ⟨r, h1, h2, _⟩ := reduceHC_spec ha hb
  ⟨r, h1, h2⟩
/-- T-refcount_inv (leaf) -/
theorem refcount_inv_add_to (d : Nat) (hs : List Nat) :
    ∃ r, addTo [] Colors.empty d hs = some r ∧ MemInv r :=
  let ⟨r, h1, h2, _⟩ := addToGo_spec d hs [] Colors.empty none MemInv.empty (Or.inl rfl)
  ⟨r, h1, h2⟩
/-- T-refcount_inv (use): a colour some hash maps to is present with a positive refcount -/
theorem refcount_inv_in_use {r : H2C × Colors} (hr : MemInv r) {h : Nat} {col : Color} (hg : r.1.get h = some col) :
    r.2 col ≠ 0 ∧ 1 ≤ mapped r.1 col ∧ mapped r.1 col ≤ r.2 col :=
  ⟨hr.count_pos hg, mapped_pos_of_get hg, hr.refs col⟩
example : MemInv ([], Colors.empty) := MemInv.empty

/-- T-mem_reduce: `abs (reduce a b) = abs a ⊔ abs b` pointwise (`absHC r h` = the ids of the colour of `h`) -/
theorem mem_reduce {a b : H2C × Colors} (ha : MemInv a) (hb : MemInv b) :
    ∃ r, reduceHC a b = some r ∧ MemInv r ∧ ∀ h x, x ∈ absHC r h ↔ x ∈ absHC a h ∨ x ∈ absHC b h :=
  reduceHC_spec ha hb

/-- T-mem_reduce, hence: every reduction tree — any shape, any order of the per-dataset leaves, rayon's identity
element anywhere — whose leaves are the datasets of the collection (each once, in any order) evaluates
without panic to the map hash ↦ `{ d : h ∈ D_d }`, the sequential reference -/
theorem mem_tree_free (C : Coll) (t : RTree) (hperm : t.leaves.Perm (List.range C.length)) :
    ∃ r, t.eval C = some r ∧ MemInv r ∧ ∀ h, memIds r h = refIds C h := by
  obtain ⟨r, h1, h2, h3⟩ := RTree.eval_spec C t
  refine ⟨r, h1, h2, fun h => ?_⟩
  rw [memIds_eq_abs h2]
  apply eq_of_sorted_of_mem (sorted_abs h2 h) (sorted_refIds C h)
  intro x
  rw [h3 h x, mem_refIds, hperm.mem_iff, List.mem_range]
example : ((RTree.node (.leaf 1) (.node .ident (.leaf 0))).eval [[5, 7], [7]]).map (fun r => memIds r 7)
    = some [0, 1] := by decide

/-! ### the processed set: `extend` by one id (what `create` / `update` do) -/

/-- `processed.extend([dataset_id])` adds exactly that id -/
theorem processed_extend_single (p : Datasets) (d x : Nat) :
    x ∈ (p.extend [d]).ids ↔ x ∈ p.ids ∨ x = d := mem_extend_single

/-- Recorded observation about the code as it is (not reachable from `create`/`update`, which only ever
extend by one id): `Extend for Datasets` drops the element it pops after the value has turned into
`Many` inside the loop.  Replayed on the implementation by the `ext` requests of the run. -/
theorem extend_drops_third : Datasets.empty.extend [1, 2, 3, 4] = many [1, 2, 4] := by decide

end Sourmash.C09
