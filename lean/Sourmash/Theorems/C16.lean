import Sourmash.Lemmas.NodegraphRoundtrip
import Sourmash.Lemmas.NodegraphReach
/-! Property C16 — nodegraph files are khmer-compatible and round-trip for every table size.

The model (`NG.G.save`, `NG.G.load` in `Model/Nodegraph.lean`) is `save_to_writer` / `from_reader`
over 32-bit block lists; the format description is `Khmer.file` in `Spec/Khmer.lean` (bit sets, no
blocks).  All statements are for every table size (0 included), every bit pattern, every k < 2^32,
every occupied count < 2^64 and up to 255 tables.  Helper lemmas live in `Sourmash/Lemmas/Nodegraph*.lean`. -/
namespace Sourmash.C16
open NG

/-! ### what the format description says (sanity of the spec itself) -/

/-- the khmer data block of a table has exactly ⌊size/8⌋+1 bytes … -/
theorem spec_tableData_length (size : Nat) (bit : Nat → Bool) :
    (Khmer.tableData size bit).length = size / 8 + 1 := by simp [Khmer.tableData]

/-- … each a byte … -/
theorem spec_tableData_byte (size : Nat) (bit : Nat → Bool) : ∀ x ∈ Khmer.tableData size bit, x < 256 := by
  intro x hx
  simp only [Khmer.tableData, List.mem_map] at hx
  obtain ⟨m, _, rfl⟩ := hx
  exact byteOf_lt _

/-- … and bit b of the table is bit b%8 of byte b/8; positions at or above `size` hold 0. -/
theorem spec_tableData_bit (size : Nat) (bit : Nat → Bool) (b : Nat) :
    Khmer.dataBit (Khmer.tableData size bit) b = (decide (b < size) && bit b) := by
  unfold Khmer.dataBit Khmer.tableData
  rw [List.getD_eq_getElem?_getD, List.getElem?_map]
  by_cases hm : b / 8 < size / 8 + 1
  · rw [List.getElem?_range hm]
    simp only [Option.map_some, Option.getD_some]
    rw [byteOf_testBit]
    have e : 8 * (b / 8) + b % 8 = b := by omega
    have e3 : b % 8 < 8 := by omega
    simp [e, e3]
  · have : (List.range (size / 8 + 1))[b / 8]? = none := by simp; omega
    have hb : ¬ b < size := by omega
    simp [this, hb]

/-! ### T-save_total -/

/-- T-save_total: `save_to_writer` as it is now never indexes out of range — for every table size and
    every block content, as long as each table has its ⌈size/32⌉ blocks (the `FixedBitSet` invariant). -/
theorem save_total (g : G) (h : ∀ t ∈ g.tables, t.blocks.length = nblocks t.size) :
    ∃ bytes, g.save = some bytes :=
  ⟨_, G.save_eq g h⟩

example : ∃ bytes, (G.new [32, 64, 7, 0, 31] 21).save = some bytes :=
  save_total _ (by decide)

/-- the code before the repair (`count.as_slice()[div]`) panics for a table of 32 bits … -/
theorem save_pre_repair_cex : (G.new [32] 21).saveOld = none := by decide

/-- … and for every table whose size is a multiple of 32, whatever its contents … -/
theorem save_pre_repair_fails (t : Table) (hlen : t.blocks.length = nblocks t.size)
    (h32 : t.size % 32 = 0) : t.saveOld = none := by
  unfold Table.saveOld
  have hdiv : (t.size / 8 + 1) / 4 = t.blocks.length := by rw [hlen]; unfold nblocks; omega
  have hrem : (t.size / 8 + 1) % 4 = 1 := by omega
  simp [hdiv, hrem]

/-- … while for every other size it wrote what the repaired code writes. -/
theorem save_pre_repair_agrees (t : Table) (hlen : t.blocks.length = nblocks t.size)
    (h32 : t.size % 32 ≠ 0) : t.saveOld = t.save := by
  unfold Table.saveOld Table.save
  have hdiv : ¬ (t.size / 8 + 1) / 4 > t.blocks.length := by rw [hlen]; unfold nblocks; omega
  simp only [hdiv, if_false]
  by_cases hrem : (t.size / 8 + 1) % 4 = 0
  · simp [hrem]
  · have hlt : (t.size / 8 + 1) / 4 < t.blocks.length := by rw [hlen]; unfold nblocks; omega
    simp [hrem, List.getElem?_eq_getElem hlt, List.getD_eq_getElem?_getD]

example : (⟨33, [5, 1]⟩ : Table).saveOld = (⟨33, [5, 1]⟩ : Table).save :=
  save_pre_repair_agrees _ (by decide) (by decide)

/-- the repaired code on that input -/
theorem save_repaired_32 :
    (G.new [32] 21).save = some ([0x4f, 0x58, 0x4c, 0x49, 4, 2, 21, 0, 0, 0, 1, 0, 0, 0, 0, 0, 0, 0, 0,
      32, 0, 0, 0, 0, 0, 0, 0, 0, 0, 0, 0, 0]) := by decide

/-! ### T-layout -/

/-- T-layout: the bytes `save_to_writer` produces for a well-formed nodegraph are the khmer
    version-4 layout of its bit sets: `OXLI` 04 02, k as u32 le, table count as u8, occupied as u64 le,
    then per table the size as u64 le and ⌊size/8⌋+1 data bytes with bit b at byte b/8, bit b%8
    (`Khmer.file`; see `spec_tableData_*` for what that function says). -/
theorem layout (g : G) (hg : g.WF) :
    g.save = some (Khmer.file g.ksize g.occupied (g.tables.map (fun t => (t.size, t.get)))) := by
  obtain ⟨hn, _, _, ht⟩ := hg
  rw [G.save_eq g (fun t h => (ht t h).2.1), header_eq g hn, records_eq _ ht]
  simp [Khmer.file]

example : (G.new [32, 7] 21).save =
    some (Khmer.file 21 0 ((G.new [32, 7] 21).tables.map (fun t => (t.size, t.get)))) :=
  layout _ (new_wf _ _ (by decide) (by decide) (by decide))

/-! ### T-roundtrip -/

/-- T-roundtrip: loading what was saved gives back the same tables, k and occupied count
    (`unique_kmers` is not part of the file and is 0 after loading); trailing bytes do not matter. -/
theorem roundtrip (g : G) (hg : g.WF) (rest : List Nat) :
    ∃ bytes, g.save = some bytes ∧ G.load (bytes ++ rest) = some { g with unique := 0 } := by
  obtain ⟨hn, hk, ho, ht⟩ := hg
  refine ⟨_, G.save_eq g (fun t h => (ht t h).2.1), ?_⟩
  have hlen : g.tables.length % 256 = g.tables.length := by omega
  have e : g.header ++ g.tables.flatMap Table.record ++ rest =
      magic ++ le g.ksize 4 ++ [g.tables.length] ++ le g.occupied 8 ++ (g.tables.flatMap Table.record ++ rest) := by
    simp [G.header, hlen, List.append_assoc]
  rw [e, load_header _ _ _ hk ho, records_as_pairs]
  have hr := readTables_records (g.tables.map (fun t => (t.size, t.dataBytes))) rest (by
    intro r hr
    simp only [List.mem_map] at hr
    obtain ⟨t, htm, rfl⟩ := hr
    exact ⟨(ht t htm).1, dataBytes_length t⟩)
  simp only [List.length_map] at hr
  rw [hr]
  have hm : (g.tables.map (fun t => (t.size, t.dataBytes))).map (fun r => loadTable r.1 r.2) = g.tables := by
    rw [List.map_map]
    conv => rhs; rw [← List.map_id g.tables]
    apply List.map_congr_left
    intro t htm
    exact loadTable_dataBytes t (ht t htm)
  simp [hm]

example : ∃ bytes, (G.new [32, 33, 8, 1] 31).save = some bytes ∧
    G.load bytes = some { G.new [32, 33, 8, 1] 31 with unique := 0 } := by
  have := roundtrip (G.new [32, 33, 8, 1] 31) (new_wf _ _ (by decide) (by decide) (by decide)) []
  simpa using this

/-- T-roundtrip for everything the API can build: a nodegraph reached from `Nodegraph::new(sizes, k)`
    by any history of `count` / `count_kmer` / sketch and nodegraph `update`s (`NG.Reach`, the
    histories of C15) saves to the khmer layout of its bit sets and loads back to itself —
    for all size vectors with 1 ≤ size < 2^64 and at most 255 tables. -/
theorem roundtrip_reachable {sizes : List Nat} {g : G} {H : List Nat} {u : Nat} (r : Reach sizes g H u)
    (hs : ∀ s ∈ sizes, 1 ≤ s ∧ s < 2 ^ 64) (hn : sizes.length ≤ 255) (hk : g.ksize < 2 ^ 32) :
    g.save = some (Khmer.file g.ksize g.occupied (g.tables.map (fun t => (t.size, t.get)))) ∧
    ∃ bytes, g.save = some bytes ∧ G.load bytes = some { g with unique := 0 } := by
  have wf := r.wf hs hn hk
  refine ⟨layout g wf, ?_⟩
  have := roundtrip g wf []
  simpa using this

example : ∃ bytes, ((G.new [32, 7] 21).count 5).1.save = some bytes ∧
    G.load bytes = some { ((G.new [32, 7] 21).count 5).1 with unique := 0 } :=
  (roundtrip_reachable (sizes := [32, 7]) (Reach.count 5 (Reach.new 21)) (by decide) (by decide) (by decide)).2

/-! ### T-khmer_load -/

/-- T-khmer_load: any byte string in khmer layout — header, then per table a size and ⌊size/8⌋+1
    arbitrary data bytes, followed by anything — loads; the result has the recorded k, occupied count and
    sizes, is well formed, and table i contains bit b **iff** b < size_i and the file records it at byte
    b/8, bit b%8 (garbage at or above the size is masked away). -/
theorem khmer_load (k occ : Nat) (recs : List (Nat × List Nat)) (rest : List Nat)
    (hk : k < 2 ^ 32) (ho : occ < 2 ^ 64) (hn : recs.length ≤ 255)
    (hr : ∀ r ∈ recs, r.1 < 2 ^ 64 ∧ r.2.length = r.1 / 8 + 1 ∧ ∀ x ∈ r.2, x < 256) :
    ∃ g, G.load (Khmer.fileHeader k recs.length occ ++
            recs.flatMap (fun r => Khmer.tableRecord r.1 r.2) ++ rest) = some g ∧
      g.ksize = k ∧ g.occupied = occ ∧ g.unique = 0 ∧ g.WF ∧ g.tables.length = recs.length ∧
      ∀ (i : Nat) (r : Nat × List Nat), recs[i]? = some r → ∃ t : Table, g.tables[i]? = some t ∧ t.size = r.1 ∧
        ∀ b, t.get b = (decide (b < r.1) && Khmer.dataBit r.2 b) := by
  have e : Khmer.fileHeader k recs.length occ ++ recs.flatMap (fun r => Khmer.tableRecord r.1 r.2) ++ rest =
      magic ++ le k 4 ++ [recs.length] ++ le occ 8 ++
        (recs.flatMap (fun r => le r.1 8 ++ r.2) ++ rest) := by
    simp [Khmer.fileHeader, Khmer.tableRecord, magic, u32le_eq, u64le_eq, List.append_assoc]
  rw [e, load_header _ _ _ hk ho, readTables_records recs rest (fun r h => ⟨(hr r h).1, (hr r h).2.1⟩)]
  refine ⟨_, rfl, rfl, rfl, rfl, ?_, by simp, ?_⟩
  · refine ⟨by simpa using hn, hk, ho, ?_⟩
    intro t ht
    simp only [List.mem_map] at ht
    obtain ⟨r, hrm, rfl⟩ := ht
    exact loadTable_wf _ _ (hr r hrm).1 (hr r hrm).2.2
  · intro i r hi
    refine ⟨loadTable r.1 r.2, by simp [hi], rfl, ?_⟩
    intro b
    exact loadTable_get _ _ (hr r (List.mem_of_getElem? hi)).2.2 b

/-- a one-table file of size 9 whose second data byte has garbage above the size: bit 8 is kept, bits 9.. are dropped -/
example : ∃ g, G.load (Khmer.fileHeader 3 1 7 ++ [(9, [0x81, 0xff])].flatMap (fun r => Khmer.tableRecord r.1 r.2) ++ []) = some g ∧
    g.ksize = 3 ∧ g.occupied = 7 ∧ g.unique = 0 ∧ g.WF ∧ g.tables.length = 1 ∧
    ∀ (i : Nat) (r : Nat × List Nat), [(9, [0x81, 0xff])][i]? = some r → ∃ t : Table, g.tables[i]? = some t ∧ t.size = r.1 ∧
      ∀ b, t.get b = (decide (b < r.1) && Khmer.dataBit r.2 b) :=
  khmer_load 3 7 [(9, [0x81, 0xff])] [] (by decide) (by decide) (by decide) (by decide)

/-- the bundled khmer example (`RAW_DATA` of the crate's tests: sizes 19,17,13,11,7,5, k = 3) -/
def rawData : List Nat := [0x4f, 0x58, 0x4c, 0x49, 0x04, 0x02, 0x03, 0x00, 0x00, 0x00, 0x06, 0x03, 0x00, 0x00,
  0x00, 0x00, 0x00, 0x00, 0x00, 0x13, 0x00, 0x00, 0x00, 0x00, 0x00, 0x00, 0x00, 0x00, 0x09, 0x01,
  0x11, 0x00, 0x00, 0x00, 0x00, 0x00, 0x00, 0x00, 0x00, 0x0c, 0x01, 0x0d, 0x00, 0x00, 0x00,
  0x00, 0x00, 0x00, 0x00, 0x0a, 0x08, 0x0b, 0x00, 0x00, 0x00, 0x00, 0x00, 0x00, 0x00, 0x21,
  0x00, 0x07, 0x00, 0x00, 0x00, 0x00, 0x00, 0x00, 0x00, 0x54, 0x05, 0x00, 0x00, 0x00, 0x00,
  0x00, 0x00, 0x00, 0x06]

example : (G.load rawData).map (fun g => (g.tables.map Table.size, g.ksize, g.occupied)) =
    some ([19, 17, 13, 11, 7, 5], 3, 3) := by decide
example : (G.load rawData).bind G.save = some rawData := by decide

end Sourmash.C16
