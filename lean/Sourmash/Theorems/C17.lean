import Sourmash.Lemmas.HLLMerge
/-!
Property C17 — HyperLogLog sketches merge like set union and persist exactly.

Property theorems only (helper lemmas: `Lemmas/HLL.lean`, `Lemmas/HLLMerge.lean`).  The model
(`Model/HLL.lean`) transcribes `add_hash`, `merge`, `check_compatible`, `new`, `save_to_writer` and
`from_reader` of `src/core/src/sketch/hyperloglog/mod.rs`; the specification (`Spec/HLL.lean`)
is the property's own wording: register `i` = max over the inserted hashes with low p bits `i` of
the position of the first set bit among the remaining 64-p bits.

`sketch p k hs` = `new(p, k)` followed by `add_hash(h)` for every `h` of `hs` in list order.
`WF s` = what every sketch built through `new` / `add_hash` / `merge` satisfies
(4 ≤ p ≤ 18, q = 64 - p, 2^p registers).
-/
namespace Sourmash.C17
open Hll

/-! ## T-register -/

/-- T-register (routing): `hash - ((hash >> p) << p)` is the low `p` bits of the hash. -/
theorem index_is_low_bits (p h : Nat) : index p h = HllSpec.bucket p h := index_eq_mod p h

/-- T-register (rank): `leading_zeros(hash >> p) + 1 - p` is the position of the first set bit
    among the upper 64-p bits (64-p+1 when they are all zero), for every 64-bit hash. -/
theorem rank_is_rho (p h : Nat) (hp : p ≤ 64) (h64 : h < 2 ^ 64) : rank p h = HllSpec.rho p h :=
  rank_eq_rho p h hp h64
example : rank 4 0 = HllSpec.rho 4 0 := rank_is_rho 4 0 (by decide) (by decide)
example : rank 4 0 = 61 ∧ rank 18 (2 ^ 64 - 1) = 1 ∧ rank 4 15 = 61 ∧ rank 4 16 = 60 := by decide

/-- T-register (range): a rank fits a register byte and the `q + 2` histogram cells. -/
theorem rank_bounds (p h : Nat) (hp : p ≤ 64) (h64 : h < 2 ^ 64) :
    1 ≤ rank p h ∧ rank p h ≤ 64 - p + 1 :=
  ⟨rank_pos p h hp h64, rank_le p h h64⟩
example : 1 ≤ rank 18 7 ∧ rank 18 7 ≤ 64 - 18 + 1 := rank_bounds 18 7 (by decide) (by decide)

/-- T-register (commutation): two insertions commute, on every sketch value. -/
theorem add_commutes (s : H) (a b : Nat) : (s.add a).add b = (s.add b).add a := add_comm s a b

/-- T-register (idempotence): inserting the same hash twice is inserting it once. -/
theorem add_idempotent (s : H) (a : Nat) : (s.add a).add a = s.add a := add_idem s a

/-- T-register (order independence): any two insertion orders of the same multiset give the same
    sketch (all fields, every register). -/
theorem order_independent (s : H) {l₁ l₂ : List Nat} (h : l₁.Perm l₂) :
    s.addMany l₁ = s.addMany l₂ := addMany_perm s h
example : (H.empty 4 21).addMany [1, 2, 3] = (H.empty 4 21).addMany [3, 1, 2] :=
  order_independent _ (by decide)

/-- T-register (idempotence on multisets): re-inserting a hash that was already inserted changes
    nothing. -/
theorem reinsert_noop (s : H) (a : Nat) (l : List Nat) (h : a ∈ l) :
    (s.addMany l).add a = s.addMany l := addMany_add_mem s a l h
example : ((H.empty 4 21).addMany [5, 9]).add 9 = (H.empty 4 21).addMany [5, 9] :=
  reinsert_noop _ 9 [5, 9] (by decide)

/-- T-register: after inserting the hashes `hs` in any order into a fresh sketch, register `i`
    holds `max { ρ(h) : h ∈ hs, h mod 2^p = i }` (0 for an empty bucket). -/
theorem register_spec (p k : Nat) (hs : List Nat) (i : Nat) (hp : p ≤ 64) (hi : i < 2 ^ p)
    (h64 : ∀ h ∈ hs, h < 2 ^ 64) :
    ((sketch p k hs).regs[i]!).toNat = HllSpec.reg p hs i := sketch_get p k hs i hp hi h64
example : ((sketch 4 21 [0, 16, 35]).regs[0]!).toNat = HllSpec.reg 4 [0, 16, 35] 0 :=
  register_spec 4 21 _ 0 (by decide) (by decide) (by decide)
example : HllSpec.reg 4 [0, 16, 35] 0 = 61 ∧ HllSpec.reg 4 [0, 16, 35] 3 = 59 := by decide

/-- T-register (spec column of the driver): the array `HllSpec.regs` printed as the abstract
    specification's answer holds `HllSpec.reg p hs i` in cell `i`. -/
theorem spec_column (p : Nat) (hs : List Nat) (i : Nat) (hi : i < 2 ^ p) :
    (HllSpec.regs p hs)[i]! = HllSpec.reg p hs i := spec_regs_get p hs i hi
example : (HllSpec.regs 4 [16])[0]! = HllSpec.reg 4 [16] 0 := spec_column 4 [16] 0 (by decide)

/-! ## well-formedness is an invariant -/

/-- `new` succeeds exactly for 4 ≤ p ≤ 18 and then yields the all-zero well-formed sketch. -/
theorem new_bounds (p k : Nat) :
    (4 ≤ p ∧ p ≤ 18 → H.new p k = .ok (H.empty p k) ∧ WF (H.empty p k)) ∧
    (p < 4 ∨ 18 < p → H.new p k = .error .precisionBounds) :=
  ⟨fun h => ⟨new_ok p k h.1 h.2, WF.empty p k h.1 h.2⟩, new_err p k⟩
example : H.new 3 21 = .error .precisionBounds ∧ H.new 19 21 = .error .precisionBounds := by decide

/-- `add_hash` and `merge` keep a sketch well-formed. -/
theorem wf_invariant {a b c : H} (wa : WF a) :
    (∀ h, WF (a.add h)) ∧ (a.merge b = .ok c → WF c) :=
  ⟨fun h => wa.add h, fun h => wa.merge h⟩
example : WF ((H.empty 4 21).add 77) :=
  (wf_invariant (b := H.empty 4 21) (c := H.empty 4 21) (WF.empty 4 21 (by decide) (by decide))).1 77

/-! ## T-merge_hom -/

/-- T-merge_hom: the sketch of the concatenation (multiset union) of two inputs is the merge of
    their sketches. -/
theorem merge_hom (p k : Nat) (A B : List Nat) :
    (sketch p k A).merge (sketch p k B) = .ok (sketch p k (A ++ B)) := sketch_merge p k A B

/-- T-merge_hom, order-free form: any insertion order of the union gives the merged sketch. -/
theorem merge_hom_perm (p k : Nat) (A B U : List Nat) (h : U.Perm (A ++ B)) :
    (sketch p k A).merge (sketch p k B) = .ok (sketch p k U) := by
  rw [merge_hom]; unfold sketch; rw [addMany_perm _ h]
example : (sketch 5 31 [7, 40]).merge (sketch 5 31 [9]) = .ok (sketch 5 31 [9, 40, 7]) :=
  merge_hom_perm 5 31 _ _ _ (by decide)

/-! ## T-history
Every way content enters a sketch — `add_hash`/`add_many`/`add_word`/`add_sequence` (`Step.add`),
`Update<HyperLogLog> for KmerMinHash` / `hll_update_mh` (`Step.update`, with the MinHash's mins),
`merge` / `hll_merge` (`Step.merge`) — interleaved in any order, on empty and non-empty receivers. -/

/-- T-history (update): pushing a MinHash into a sketch is `add_hash` of each of its mins, on
    whatever the receiver already holds. -/
theorem update_is_add (s : H) (mins : List Nat) : s.update mins = s.addMany mins :=
  update_eq_addMany s mins

/-- T-history: a sketch that has received `A` and then goes through any history equals the sketch
    of the multiset union of `A` and everything the steps brought; no step is refused. -/
theorem history_union (p k : Nat) (A : List Nat) (steps : List Step) :
    runHistory p k (sketch p k A) steps = .ok (sketch p k (A ++ steps.flatMap Step.content)) :=
  runHistory_sketch p k A steps
example : runHistory 4 21 (sketch 4 21 [7]) [.update [40, 9], .add [3], .merge [9, 88]]
    = .ok (sketch 4 21 [7, 40, 9, 3, 9, 88]) := history_union 4 21 [7] _

/-- T-history (registers): after any history on a fresh sketch, register `i` is the max of ρ over
    the hashes of bucket `i` among everything that was fed in. -/
theorem history_registers (p k : Nat) (steps : List Step) (i : Nat) (hp : p ≤ 64) (hi : i < 2 ^ p)
    (h64 : ∀ h ∈ steps.flatMap Step.content, h < 2 ^ 64) :
    ∃ s, runHistory p k (H.empty p k) steps = .ok s ∧
      (s.regs[i]!).toNat = HllSpec.reg p (steps.flatMap Step.content) i :=
  ⟨_, by simpa [sketch] using history_union p k [] steps, register_spec p k _ i hp hi h64⟩
example : ∃ s, runHistory 4 21 (H.empty 4 21) [.add [16], .update [0, 35]] = .ok s ∧
    (s.regs[0]!).toNat = HllSpec.reg 4 ([Step.add [16], .update [0, 35]].flatMap Step.content) 0 :=
  history_registers 4 21 _ 0 (by decide) (by decide) (by decide)

/-- T-history (spec column of the driver, continued fold): the array a slot carries after more
    hashes arrive is the specification's array of the union. -/
theorem spec_accum (p : Nat) (A B : List Nat) :
    HllSpec.accum p (HllSpec.regs p A) B = HllSpec.regs p (A ++ B) := spec_accum_regs p A B

/-- T-history (spec column of the driver, merge): the register-wise max of two specification arrays
    holds, in every cell, the specification's register of the union. -/
theorem spec_merge (p : Nat) (A B : List Nat) (i : Nat) (hi : i < 2 ^ p) :
    (HllSpec.mergeRegs (HllSpec.regs p A) (HllSpec.regs p B))[i]! = HllSpec.reg p (A ++ B) i :=
  spec_merge_get p A B i hi
example : (HllSpec.mergeRegs (HllSpec.regs 4 [16]) (HllSpec.regs 4 [0]))[0]! = HllSpec.reg 4 ([16] ++ [0]) 0 :=
  spec_merge 4 [16] [0] 0 (by decide)

/-! ## T-merge_aci -/

/-- merge is the register-wise maximum (and keeps p, q, k of the receiver). -/
theorem merge_regs {a b c : H} (h : a.merge b = .ok c) (i : Nat) :
    c.regs[i]! = umax a.regs[i]! b.regs[i]! ∧ (umax a.regs[i]! b.regs[i]!).toNat
      = max (a.regs[i]!).toNat (b.regs[i]!).toNat ∧ c.p = a.p ∧ c.q = a.q ∧ c.ksize = a.ksize := by
  obtain ⟨_, hs, rfl⟩ := (merge_ok_iff a b c).1 h
  exact ⟨get!_zipWith_umax _ _ i hs, umax_toNat _ _, rfl, rfl, rfl⟩
example : (sketch 4 21 [1]).merge (sketch 4 21 [2]) = .ok (sketch 4 21 [1, 2]) := merge_hom 4 21 [1] [2]

/-- T-merge_aci (commutative): on well-formed sketches `a.merge b` and `b.merge a` succeed together
    and give the same sketch. -/
theorem merge_comm {a b c : H} (wa : WF a) (wb : WF b) (h : a.merge b = .ok c) :
    b.merge a = .ok c := by
  obtain ⟨hk, hs, rfl⟩ := (merge_ok_iff a b c).1 h
  obtain ⟨hp, hq⟩ := wa.same_pq wb hs
  rw [merge_eq_ok b a hk.symm hs.symm, zipWith_umax_comm]
  cases a; cases b; simp_all
example : (sketch 4 21 [2]).merge (sketch 4 21 [1]) = .ok (sketch 4 21 [1, 2]) :=
  merge_comm (sketch_wf 4 21 _ (by decide) (by decide)) (sketch_wf 4 21 _ (by decide) (by decide))
    (merge_hom 4 21 [1] [2])

/-- T-merge_aci (associative): `(a ∪ b) ∪ c` succeeds iff `a ∪ (b ∪ c)` can be formed, with the
    same result. -/
theorem merge_assoc {a b c ab abc : H} (h1 : a.merge b = .ok ab) (h2 : ab.merge c = .ok abc) :
    ∃ bc, b.merge c = .ok bc ∧ a.merge bc = .ok abc := by
  obtain ⟨hk1, hs1, rfl⟩ := (merge_ok_iff a b ab).1 h1
  obtain ⟨hk2, hs2, rfl⟩ := (merge_ok_iff _ c abc).1 h2
  simp only [Array.size_zipWith] at hs2
  have hbc : b.regs.size = c.regs.size := by omega
  refine ⟨_, merge_eq_ok b c (by simp_all) hbc, ?_⟩
  rw [merge_eq_ok a _ (by simp_all) (by simp only [Array.size_zipWith]; omega)]
  simp only [zipWith_umax_assoc]
example : ∃ bc, (sketch 4 21 [2]).merge (sketch 4 21 [3]) = .ok bc ∧
    (sketch 4 21 [1]).merge bc = .ok (sketch 4 21 [1, 2, 3]) :=
  merge_assoc (merge_hom 4 21 [1] [2]) (merge_hom 4 21 [1, 2] [3])

/-- T-merge_aci (idempotent): merging a sketch into itself changes nothing. -/
theorem merge_idem (a : H) : a.merge a = .ok a := by
  rw [merge_eq_ok a a rfl rfl, zipWith_umax_self]

/-! ## T-refuse
`merge` is `Except`-valued: the error arm carries no sketch, so "the receiver is unchanged" is the
shape of the function (the harness re-observes the real receiver after every refused merge). -/

/-- T-refuse (k): different k ⇒ `MismatchKSizes`. -/
theorem refuse_ksize (a b : H) (hk : a.ksize ≠ b.ksize) : a.merge b = .error .mismatchKSizes :=
  merge_err_ksize a b hk
example : (H.empty 4 21).merge (H.empty 4 31) = .error .mismatchKSizes := refuse_ksize _ _ (by decide)

/-- T-refuse (p): well-formed sketches of different precision never merge (`MismatchKSizes` when k
    differs too — that check comes first — else `MismatchNum` with the two register counts). -/
theorem refuse_precision {a b : H} (wa : WF a) (wb : WF b) (hp : a.p ≠ b.p) :
    a.merge b = .error (if a.ksize ≠ b.ksize then .mismatchKSizes else .mismatchNum (2 ^ a.p) (2 ^ b.p)) := by
  by_cases hk : a.ksize = b.ksize
  · have hs : a.regs.size ≠ b.regs.size := by
      rw [wa.size_eq, wb.size_eq]; exact fun h => hp (pow_two_inj h)
    rw [merge_err_size a b hk hs, wa.size_eq, wb.size_eq]; simp [hk]
  · rw [merge_err_ksize a b hk]; simp [hk]
example : (H.empty 4 21).merge (H.empty 5 21) = .error (.mismatchNum 16 32) :=
  refuse_precision (WF.empty 4 21 (by decide) (by decide)) (WF.empty 5 21 (by decide) (by decide))
    (by decide)

/-- T-refuse (converse): a merge of well-formed sketches succeeds only for equal p and equal k. -/
theorem merge_ok_same_params {a b c : H} (wa : WF a) (wb : WF b) (h : a.merge b = .ok c) :
    a.p = b.p ∧ a.ksize = b.ksize := by
  obtain ⟨hk, hs, _⟩ := (merge_ok_iff a b c).1 h
  exact ⟨(wa.same_pq wb hs).1, hk⟩
example : (sketch 4 21 [1]).p = (sketch 4 21 [2]).p ∧ (sketch 4 21 [1]).ksize = (sketch 4 21 [2]).ksize :=
  merge_ok_same_params (sketch_wf 4 21 _ (by decide) (by decide)) (sketch_wf 4 21 _ (by decide) (by decide))
    (merge_hom 4 21 [1] [2])

/-! ## T-persist -/

/-- T-persist: loading what was saved gives back the same sketch — precision, q, k and every
    register — provided k fits the header's single byte. -/
theorem persist {s : H} (w : WF s) (hk : s.ksize < 256) : load s.save = .ok s :=
  load_save s (by have := w.p_hi; omega) (by have := w.q_eq; omega) hk w.size_eq
example : load (sketch 4 21 [3, 99]).save = .ok (sketch 4 21 [3, 99]) :=
  persist (sketch_wf 4 21 _ (by decide) (by decide)) (by decide)

/-- T-persist without the hypothesis (what the code does for every k): the loaded sketch carries
    `k mod 256`.  For k ≥ 256 the round trip therefore fails — a limitation of the file format
    (`wtr.write_u8(self.ksize as u8)`), recorded as a known finding (corpus/C17/ksize256.ops). -/
theorem persist_ksize_mod {s : H} (w : WF s) :
    load s.save = .ok { s with ksize := s.ksize % 256 } :=
  load_save_ksize s (by have := w.p_hi; omega) (by have := w.q_eq; omega) w.size_eq
example : load (H.empty 4 300).save = .ok { H.empty 4 300 with ksize := 300 % 256 } :=
  persist_ksize_mod (WF.empty 4 300 (by decide) (by decide))

/-- the hypothesis of `persist` is necessary: k = 256 comes back as 0 -/
theorem persist_fails_256 : load (H.empty 4 256).save ≠ .ok (H.empty 4 256) := by decide

end Sourmash.C17
