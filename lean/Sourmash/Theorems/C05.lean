import Sourmash.Lemmas.SimilarityNum
import Sourmash.Lemmas.SimilarityAng
import Sourmash.Lemmas.SimilarityReal
import Sourmash.Lemmas.SimilarityDiv
import Sourmash.Theorems.C01
/-!
Property C05 — similarity, containment and angular similarity are exact on retained hashes.
Property theorems only; helper lemmas live in `Sourmash/Lemmas/Similarity*.lean`.

Model: `Sourmash/Model/Similarity.lean` (the code of `sketch/minhash.rs`, both containers);
specification: `Sourmash/Spec/Similarity.lean` (filter / contains / lookup over the retained hashes).
Hypotheses used throughout: the hash lists are strictly increasing (`Sorted`, what `mins` of either
container is by construction — C01's invariant) and, for abundance walks, the abundance list is as
long as the hash list.
-/
namespace Sourmash.C05
open Similarity SimilaritySpec

/-! ### witnesses for the non-vacuity examples -/

def exA : Sketch := { num := 0, ksize := 21, hf := 0, seed := 42, maxHash := 1000,
                      mins := [1, 5, 9, 12], abunds := some [2, 3, 4, 1] }
def exB : Sketch := { num := 0, ksize := 21, hf := 0, seed := 42, maxHash := 1000,
                      mins := [5, 7, 12, 40, 41], abunds := some [1, 1, 6, 2, 2] }
def exNA : Sketch := { exA with num := 3, maxHash := 0, mins := [1, 5, 9] }
def exNB : Sketch := { exB with num := 3, maxHash := 0, mins := [2, 5, 7] }

/-! ### T-jaccard_pair -/

/-- T-jaccard_pair (scaled): on two compatible scaled sketches `intersection_size` returns
    `(|A ∩ B|, |A ∪ B|)` of the retained hash sets — in both containers. -/
theorem jaccard_pair_scaled (c : Container) (a b : Sketch)
    (hc : checkCompatible a b = .ok ()) (hn : a.num = 0)
    (ha : Sorted a.mins) (hb : Sorted b.mins) :
    intersectionSize c a b = .ok ((inter a.mins b.mins).length, (union a.mins b.mins).length) := by
  unfold intersectionSize
  rw [hc]
  simp only [hn, ne_eq, not_true_eq_false, if_false]
  have := isize_eq_spec a.mins b.mins ha hb
  simp only [jaccardPair, if_true] at this
  rw [← this]; rfl

example : intersectionSize .vec exA exB = .ok (2, 7) := by
  rw [jaccard_pair_scaled .vec exA exB rfl rfl (by decide) (by decide)]; rfl

/-- T-jaccard_pair (num): on two compatible num sketches `intersection_size` — which merges both
    operands into a fresh sketch of `self.num` slots — returns
    `(|A ∩ B ∩ bottom_n(A ∪ B)|, |bottom_n(A ∪ B)|)` with `n = self.num`, in both containers. -/
theorem jaccard_pair_num (c : Container) (a b : Sketch)
    (hc : checkCompatible a b = .ok ()) (hn : a.num ≠ 0) (hm : a.maxHash = 0)
    (ha : Sorted a.mins) (hb : Sorted b.mins) :
    intersectionSize c a b = .ok (jaccardPair a.num a.mins b.mins) := by
  unfold intersectionSize
  rw [hc]
  have hs : Scaled.maxHashForScaled a.scaled = a.maxHash := by
    have h0 : a.scaled = 0 := by unfold Sketch.scaled; rw [hm]; rfl
    rw [h0, hm]; rfl
  simp only [hn, ne_eq, not_false_eq_true, if_true, hs, not_true_eq_false, if_false]
  rw [isizeNum_eq_spec c a.num hn a.mins b.mins ha hb]; rfl

example : intersectionSize .tree exNA exNB = .ok (1, 3) := by
  rw [jaccard_pair_num .tree exNA exNB rfl (by decide) rfl (by decide) (by decide)]; rfl

/-- the integer pair `jaccard` divides: `common / max(1, size)` of the pair above
    (the `Ok(0.0)` fallback of the code is unreachable on compatible scaled sketches) -/
theorem jaccard_core_scaled (c : Container) (a b : Sketch)
    (hc : checkCompatible a b = .ok ()) (hn : a.num = 0)
    (ha : Sorted a.mins) (hb : Sorted b.mins) :
    jaccardCore c a b = .ok (.jaccard (inter a.mins b.mins).length (union a.mins b.mins).length) := by
  unfold jaccardCore
  rw [hc, jaccard_pair_scaled c a b hc hn ha hb]; rfl

example : jaccardCore .vec exA exB = .ok (.jaccard 2 7) := by
  rw [jaccard_core_scaled .vec exA exB rfl rfl (by decide) (by decide)]; rfl

theorem jaccard_core_num (c : Container) (a b : Sketch)
    (hc : checkCompatible a b = .ok ()) (hn : a.num ≠ 0) (hm : a.maxHash = 0)
    (ha : Sorted a.mins) (hb : Sorted b.mins) :
    jaccardCore c a b = .ok (.jaccard (jaccardPair a.num a.mins b.mins).1
                                      (jaccardPair a.num a.mins b.mins).2) := by
  unfold jaccardCore
  rw [hc, jaccard_pair_num c a b hc hn hm ha hb]; rfl

example : jaccardCore .tree exNA exNB = .ok (.jaccard 1 3) := by
  rw [jaccard_core_num .tree exNA exNB rfl (by decide) rfl (by decide) (by decide)]; rfl

/-- `intersection` returns the common hashes themselves and the same size -/
theorem intersection_scaled (c : Container) (a b : Sketch)
    (hc : checkCompatible a b = .ok ()) (hn : a.num = 0)
    (ha : Sorted a.mins) (hb : Sorted b.mins) :
    intersection c a b = .ok (inter a.mins b.mins, (union a.mins b.mins).length) := by
  unfold intersection
  rw [hc]
  simp only [hn, ne_eq, not_true_eq_false, if_false]
  rw [← isect_eq_spec a.mins b.mins ha hb]; rfl

example : intersection .vec exA exB = .ok ([5, 12], 7) := by
  rw [intersection_scaled .vec exA exB rfl rfl (by decide) (by decide)]; rfl

/-! ### T-containment_pair -/

/-- T-containment_pair: `(count_common(other, false), size())` — what `Comparable::containment`
    divides — is `(|A ∩ B|, |A|)`, whichever operand is longer (the code hands the shorter list to the
    iterator first). -/
theorem containment_pair (a b : Sketch) (hc : checkCompatible a b = .ok ())
    (ha : Sorted a.mins) (hb : Sorted b.mins) :
    containmentPair a b = .ok (SimilaritySpec.containmentPair a.mins b.mins) := by
  unfold Similarity.containmentPair countCommon countCommonFlat
  simp only [Bool.false_eq_true, false_and, if_false]
  rw [hc, countCommonMins_eq, interIter_eq_inter a.mins b.mins ha hb]; rfl

example : Similarity.containmentPair exB exA = .ok (2, 5) := by
  rw [containment_pair exB exA rfl (by decide) (by decide)]; rfl

/-! ### T-sym (integer level) and independence of the container -/

/-- T-sym: `check_compatible` does not depend on the operand order (same error, too) -/
theorem compatible_symm (a b : Sketch) : checkCompatible a b = checkCompatible b a :=
  checkCompatible_comm a b

/-- T-sym: `intersection_size` (hence `jaccard`) gives the same pair in either operand order, for any
    two sketches with the same `num` — no hypothesis on the lists.  (With different `num` the code
    uses `self.num` and is *not* symmetric; `check_compatible` does not compare `num`.) -/
theorem intersectionSize_symm (c : Container) (a b : Sketch) (hnum : a.num = b.num) :
    intersectionSize c a b = intersectionSize c b a := by
  unfold intersectionSize
  rw [checkCompatible_comm a b]
  cases hcb : checkCompatible b a with
  | error e => rfl
  | ok u =>
    have hm := (checkCompatible_ok hcb).2.2.1
    by_cases hn : a.num = 0
    · have hn' : b.num = 0 := by omega
      simp [hn, hn', isize_comm a.mins b.mins]
    · have hn' : b.num ≠ 0 := by omega
      have hs : a.scaled = b.scaled := by simp [Sketch.scaled, hm]
      simp only [hn, hn', ne_eq, not_false_eq_true, if_true, hs, hm]
      rw [isizeNum_comm c a.num hn, hnum]

example : intersectionSize .vec exNA exNB = intersectionSize .vec exNB exNA :=
  intersectionSize_symm .vec exNA exNB rfl

theorem jaccardCore_symm (c : Container) (a b : Sketch) (hnum : a.num = b.num) :
    jaccardCore c a b = jaccardCore c b a := by
  unfold jaccardCore
  rw [checkCompatible_comm a b, intersectionSize_symm c a b hnum]

example : jaccardCore .tree exA exB = jaccardCore .tree exB exA := jaccardCore_symm .tree exA exB rfl

/-- T-sym: `count_common(other, false)` is symmetric -/
theorem countCommon_symm (a b : Sketch) : countCommon a b false = countCommon b a false := by
  unfold countCommon countCommonFlat
  simp only [Bool.false_eq_true, false_and, if_false]
  rw [checkCompatible_comm a b, countCommonMins_comm]

/-- the answer of `intersection_size` / `jaccard` does not depend on the sketch implementation -/
theorem intersectionSize_container (a b : Sketch) :
    intersectionSize .vec a b = intersectionSize .tree a b := by
  unfold intersectionSize
  rw [isizeNum_container]

theorem jaccardCore_container (a b : Sketch) : jaccardCore .vec a b = jaccardCore .tree a b := by
  unfold jaccardCore
  rw [intersectionSize_container]

/-! ### T-angular_triple -/

/-- T-angular_triple: on two compatible sketches that both track abundances (abundance lists as
    long as the hash lists) `angular_similarity` feeds its float expression with
    `(Σ_{h ∈ A∩B} a_h·b_h, Σ a², Σ b²)` — for every overlap shape, in both containers.  For the vector
    container this includes that the two `get_unchecked` accesses of the walk are always in range
    (the model's `[i]?` never yields `none`, i.e. the result is not `UncheckedIndexOutOfRange`). -/
theorem angular_triple (c : Container) (a b : Sketch) (aab bab : List Nat)
    (hc : checkCompatible a b = .ok ())
    (haa : a.abunds = some aab) (hbb : b.abunds = some bab)
    (ha : Sorted a.mins) (hb : Sorted b.mins)
    (hla : aab.length = a.mins.length) (hlb : bab.length = b.mins.length) :
    angularCore c a b = .ok (.angular (dot a.mins aab b.mins bab)
                                      (SimilaritySpec.sumSq aab) (SimilaritySpec.sumSq bab)) := by
  have hlook : dotLookup (a.mins.zip aab) (b.mins.zip bab) = dot a.mins aab b.mins bab :=
    dotLookup_eq_dot a.mins aab b.mins bab ha hlb hla
  unfold angularCore
  rw [hc]
  simp only [haa, hbb, sumSq_eq_spec]
  cases c with
  | vec =>
    have hw := angWalk_eq aab bab 0 a.mins 0 b.mins 0 ha (by simpa using hla) (by simpa using hlb)
    simp only [List.drop_zero, Nat.zero_add] at hw
    rw [dotMerge_eq_dotLookup _ _ (sortedK_zip _ _ ha) (sortedK_zip _ _ hb), hlook] at hw
    simp only [hw]; rfl
  | tree => simp only [hlook]; rfl

example : angularCore .vec exA exB = .ok (.angular 9 30 46) := by
  rw [angular_triple .vec exA exB [2, 3, 4, 1] [1, 1, 6, 2, 2] rfl rfl rfl (by decide) (by decide) rfl rfl]
  rfl

/-- the walk itself: in range at every step, whatever the overlap shape (statement about the loop
    started anywhere in the two sketches) -/
theorem angular_walk_in_range (aab bab : List Nat) (i j prod : Nat) (hs ks : List Nat)
    (hs' : Sorted hs) (ha : (aab.drop i).length = hs.length) (hb : (bab.drop j).length = ks.length) :
    ∃ r, angWalk aab bab i hs j ks prod = some r := ⟨_, angWalk_eq aab bab i hs j ks prod hs' ha hb⟩

example : ∃ r, angWalk [2, 3, 4, 1] [1, 1, 6, 2, 2] 0 [1, 5, 9, 12] 0 [5, 7, 12, 40, 41] 0 = some r :=
  angular_walk_in_range _ _ 0 0 0 _ _ (by decide) rfl rfl

/-- both containers compute the same triple -/
theorem angular_container (a b : Sketch) (aab bab : List Nat)
    (hc : checkCompatible a b = .ok ())
    (haa : a.abunds = some aab) (hbb : b.abunds = some bab)
    (ha : Sorted a.mins) (hb : Sorted b.mins)
    (hla : aab.length = a.mins.length) (hlb : bab.length = b.mins.length) :
    angularCore .vec a b = angularCore .tree a b := by
  rw [angular_triple .vec a b aab bab hc haa hbb ha hb hla hlb,
      angular_triple .tree a b aab bab hc haa hbb ha hb hla hlb]

example : angularCore .vec exA exB = angularCore .tree exA exB :=
  angular_container exA exB _ _ rfl rfl rfl (by decide) (by decide) rfl rfl

/-- T-sym (angular): swapping the operands swaps the two squared norms and keeps the product -/
theorem angular_symm (c : Container) (a b : Sketch) (aab bab : List Nat)
    (hc : checkCompatible a b = .ok ())
    (haa : a.abunds = some aab) (hbb : b.abunds = some bab)
    (ha : Sorted a.mins) (hb : Sorted b.mins)
    (hla : aab.length = a.mins.length) (hlb : bab.length = b.mins.length) :
    ∃ p, angularCore c a b = .ok (.angular p (SimilaritySpec.sumSq aab) (SimilaritySpec.sumSq bab)) ∧
         angularCore c b a = .ok (.angular p (SimilaritySpec.sumSq bab) (SimilaritySpec.sumSq aab)) := by
  have hc' : checkCompatible b a = .ok () := by rw [← checkCompatible_comm]; exact hc
  refine ⟨dot a.mins aab b.mins bab, angular_triple c a b aab bab hc haa hbb ha hb hla hlb, ?_⟩
  rw [angular_triple c b a bab aab hc' hbb haa hb ha hlb hla]
  have : dot b.mins bab a.mins aab = dot a.mins aab b.mins bab := by
    rw [← dotLookup_eq_dot _ _ _ _ hb hla hlb, ← dotLookup_eq_dot _ _ _ _ ha hlb hla,
        ← dotMerge_eq_dotLookup _ _ (sortedK_zip _ _ hb) (sortedK_zip _ _ ha),
        ← dotMerge_eq_dotLookup _ _ (sortedK_zip _ _ ha) (sortedK_zip _ _ hb), dotMerge_comm]
  rw [this]

example : ∃ p, angularCore .tree exA exB = .ok (.angular p 30 46) ∧
               angularCore .tree exB exA = .ok (.angular p 46 30) :=
  angular_symm .tree exA exB _ _ rfl rfl rfl (by decide) (by decide) rfl rfl

/-! ### T-refuse -/

/-- T-refuse (order of the checks): an incompatibility is reported first, with its own error -/
theorem angular_incompatible (c : Container) (a b : Sketch) (e : Err)
    (hc : checkCompatible a b = .error e) : angularCore c a b = .error e := by
  unfold angularCore; rw [hc]; rfl

example : angularCore .vec exA { exB with ksize := 31, abunds := none } = .error .MismatchKSizes :=
  angular_incompatible _ _ _ _ rfl

/-- T-refuse: `angular_similarity` is refused with `NeedsAbundanceTracking` exactly when the sketches
    are compatible and at least one of them tracks no abundances (no hypothesis on the lists) -/
theorem angular_refused_iff (c : Container) (a b : Sketch) :
    angularCore c a b = .error .NeedsAbundanceTracking ↔
      checkCompatible a b = .ok () ∧ (a.tracked = false ∨ b.tracked = false) := by
  unfold angularCore Sketch.tracked
  cases hcb : checkCompatible a b with
  | error e =>
    have : e ≠ .NeedsAbundanceTracking := by
      unfold checkCompatible at hcb
      intro he; subst he
      split at hcb <;> try split at hcb <;> try split at hcb <;> try split at hcb
      all_goals simp at hcb
    constructor
    · intro h; exact absurd (Except.error.inj h) this
    · rintro ⟨h, _⟩; cases h
  | ok u =>
    cases haa : a.abunds with
    | none => simp [bind, Except.bind]
    | some aab =>
      cases hbb : b.abunds with
      | none => simp [bind, Except.bind]
      | some bab =>
        cases c with
        | vec =>
          simp only [bind, Except.bind]
          cases angWalk aab bab 0 a.mins 0 b.mins 0 <;> simp
        | tree => simp [bind, Except.bind]

example : angularCore .tree exA { exB with abunds := none } = .error .NeedsAbundanceTracking :=
  (angular_refused_iff _ _ _).mpr ⟨rfl, Or.inr rfl⟩

/-- T-refuse, converse on well-formed sketches: with both sides tracked (and aligned) the call
    succeeds -/
theorem angular_ok_of_tracked (c : Container) (a b : Sketch) (aab bab : List Nat)
    (hc : checkCompatible a b = .ok ())
    (haa : a.abunds = some aab) (hbb : b.abunds = some bab)
    (ha : Sorted a.mins) (hb : Sorted b.mins)
    (hla : aab.length = a.mins.length) (hlb : bab.length = b.mins.length) :
    ∃ r, angularCore c a b = .ok r := ⟨_, angular_triple c a b aab bab hc haa hbb ha hb hla hlb⟩

example : ∃ r, angularCore .vec exA exB = .ok r :=
  angular_ok_of_tracked .vec exA exB _ _ rfl rfl rfl (by decide) (by decide) rfl rfl

/-! ### T-dispatch -/

/-- which definition an answer of `jaccard` / `angular_similarity` belongs to -/
theorem jaccardCore_kind (c : Container) (a b : Sketch) (r : SimCore)
    (h : jaccardCore c a b = .ok r) : (∃ p q, r = .jaccard p q) ∨ r = .zero := by
  unfold jaccardCore at h
  cases hcb : checkCompatible a b with
  | error e => rw [hcb] at h; cases h
  | ok u =>
    rw [hcb] at h
    simp only [bind, Except.bind] at h
    cases his : intersectionSize c a b with
    | error e => rw [his] at h; right; exact (Except.ok.inj h).symm
    | ok pq => rw [his] at h; left; exact ⟨pq.1, pq.2, (Except.ok.inj h).symm⟩

theorem angularCore_kind (c : Container) (a b : Sketch) (r : SimCore)
    (h : angularCore c a b = .ok r) : ∃ p x y, r = .angular p x y := by
  unfold angularCore at h
  cases hcb : checkCompatible a b with
  | error e => rw [hcb] at h; cases h
  | ok u =>
    rw [hcb] at h
    simp only [bind, Except.bind] at h
    cases haa : a.abunds with
    | none => rw [haa] at h; cases h
    | some aab =>
      cases hbb : b.abunds with
      | none => rw [haa, hbb] at h; cases h
      | some bab =>
        rw [haa, hbb] at h
        cases c with
        | vec =>
          simp only at h
          cases hw : angWalk aab bab 0 a.mins 0 b.mins 0 with
          | none => rw [hw] at h; cases h
          | some p => rw [hw] at h; exact ⟨p, _, _, (Except.ok.inj h).symm⟩
        | tree => exact ⟨_, _, _, (Except.ok.inj h).symm⟩

/-- T-dispatch (what is called): the dispatcher hands over to `jaccard` resp. `angular_similarity` -/
theorem similarity_calls (c : Container) (a b : Sketch) (ign : Bool) :
    similarityCore c a b ign false =
      if ign = true ∨ a.tracked = false ∨ b.tracked = false then jaccardCore c a b
      else angularCore c a b := by
  unfold similarityCore similarityFlat
  simp

/-- T-dispatch: an answer of `similarity(other, ignore_abundance, false)` is a Jaccard value iff
    `ignore_abundance ∨ ¬tracked a ∨ ¬tracked b`, and an angular value otherwise -/
theorem similarity_dispatch (c : Container) (a b : Sketch) (ign : Bool) (r : SimCore)
    (h : similarityCore c a b ign false = .ok r) :
    ((∃ p q, r = .jaccard p q) ∨ r = .zero) ↔ (ign = true ∨ a.tracked = false ∨ b.tracked = false) := by
  unfold similarityCore similarityFlat at h
  simp only [Bool.false_eq_true, false_and, if_false] at h
  by_cases hd : ign = true ∨ (!a.tracked) = true ∨ (!b.tracked) = true
  · rw [if_pos hd] at h
    constructor
    · intro _; simpa using hd
    · intro _; exact jaccardCore_kind c a b r h
  · rw [if_neg hd] at h
    obtain ⟨p, x, y, rfl⟩ := angularCore_kind c a b r h
    constructor
    · rintro (⟨p', q', h'⟩ | h') <;> cases h'
    · intro h'; exact absurd (by simpa using h') hd

example : similarityCore .vec exA exB true false = .ok (.jaccard 2 7) := by
  rw [similarity_calls, if_pos (Or.inl rfl),
      jaccard_core_scaled .vec exA exB rfl rfl (by decide) (by decide)]; rfl
example : similarityCore .vec exA exB false false = .ok (.angular 9 30 46) := by
  rw [similarity_calls, if_neg (by decide),
      angular_triple .vec exA exB [2, 3, 4, 1] [1, 1, 6, 2, 2] rfl rfl rfl (by decide) (by decide) rfl rfl]
  rfl

/-- T-dispatch (downsample flag): with equal `scaled()` the flag changes nothing … -/
theorem similarity_downsample_same (c : Container) (a b : Sketch) (ign : Bool)
    (hs : a.scaled = b.scaled) :
    similarityCore c a b ign true = similarityCore c a b ign false := by
  unfold similarityCore
  simp [hs]

/-- … and with different `scaled()` the sketch with the smaller `scaled()` is downsampled to the
    larger one and the comparison is made from the coarser sketch — in either operand order. -/
theorem similarity_downsample_diff (c : Container) (a b : Sketch) (ign : Bool)
    (hs : a.scaled > b.scaled) :
    similarityCore c a b ign true
      = (downsampleScaled b a.scaled >>= fun d => similarityFlat c a d ign) ∧
    similarityCore c b a ign true
      = (downsampleScaled b a.scaled >>= fun d => similarityFlat c a d ign) := by
  have h1 : a.scaled ≠ b.scaled := by omega
  have h2 : b.scaled ≠ a.scaled := by omega
  have h3 : ¬ b.scaled > a.scaled := by omega
  unfold similarityCore
  simp [h1, h2, h3, hs]

example : similarityCore .vec exA exB false true = similarityCore .vec exA exB false false :=
  similarity_downsample_same .vec exA exB false rfl

/-- T-sym (dispatcher): `similarity(.., ignore_abundance = true, false)` — what the `Comparable`
    impls call — is symmetric for sketches with the same `num` -/
theorem similarity_ignore_symm (c : Container) (a b : Sketch) (hnum : a.num = b.num) :
    similarityCore c a b true false = similarityCore c b a true false := by
  rw [similarity_calls, similarity_calls]
  simp [jaccardCore_symm c a b hnum]

/-! ### T-cauchy -/

/-- T-cauchy: `prod² ≤ a_sq · b_sq` for the triple of T-angular_triple (Cauchy–Schwarz on the finite
    sums), so in exact arithmetic the quotient `prod / (√a_sq·√b_sq)` never exceeds 1 and the
    `min(·, 1)` of the code only absorbs rounding -/
theorem cauchy (a b : Sketch) (aab bab : List Nat) (ha : Sorted a.mins) (hb : Sorted b.mins)
    (hla : aab.length = a.mins.length) (hlb : bab.length = b.mins.length) :
    dot a.mins aab b.mins bab * dot a.mins aab b.mins bab
      ≤ SimilaritySpec.sumSq aab * SimilaritySpec.sumSq bab :=
  dot_cauchy a.mins aab b.mins bab ha hb hla hlb

example : dot exA.mins [2, 3, 4, 1] exB.mins [1, 1, 6, 2, 2] * dot exA.mins [2, 3, 4, 1] exB.mins [1, 1, 6, 2, 2]
    ≤ SimilaritySpec.sumSq [2, 3, 4, 1] * SimilaritySpec.sumSq [1, 1, 6, 2, 2] :=
  cauchy exA exB _ _ (by decide) (by decide) rfl rfl

/-- identical sketches: the triple is `(n, n, n)` with `n = Σ a²` -/
theorem angular_triple_identical (a : Sketch) (aab : List Nat) (ha : Sorted a.mins)
    (hla : aab.length = a.mins.length) :
    dot a.mins aab a.mins aab = SimilaritySpec.sumSq aab := dot_self a.mins aab ha hla

/-- disjoint sketches: the product is 0 -/
theorem angular_triple_disjoint (a b : Sketch) (aab bab : List Nat)
    (hd : ∀ h ∈ a.mins, h ∉ b.mins) : dot a.mins aab b.mins bab = 0 :=
  dot_disjoint a.mins aab b.mins bab hd

/-! ### float tails in ideal arithmetic (ℝ); the distance to binary64 is a named runtime gap -/

/-- angular similarity, ideal value: in `[0, 1]` for every triple -/
theorem angular_real_mem (p a b : ℕ) :
    0 ≤ (angularTail p a b : ℝ) ∧ (angularTail p a b : ℝ) ≤ 1 := angularTail_mem p a b

/-- angular similarity, ideal value: it is the property's formula `1 − (2/π)·arccos(cos θ)`,
    `cos θ = Σ a_h b_h / √(Σa² · Σb²)` — the clamp is the identity by T-cauchy -/
theorem angular_real_formula (a b : Sketch) (aab bab : List Nat)
    (ha : Sorted a.mins) (hb : Sorted b.mins)
    (hla : aab.length = a.mins.length) (hlb : bab.length = b.mins.length)
    (hna : 0 < SimilaritySpec.sumSq aab) (hnb : 0 < SimilaritySpec.sumSq bab) :
    (angularTail (dot a.mins aab b.mins bab) (SimilaritySpec.sumSq aab) (SimilaritySpec.sumSq bab) : ℝ)
      = 1 - 2 / Real.pi * Real.arccos ((dot a.mins aab b.mins bab : ℝ)
          / Real.sqrt ((SimilaritySpec.sumSq aab : ℝ) * (SimilaritySpec.sumSq bab : ℝ))) :=
  angularTail_cosine _ _ _ hna hnb (cauchy a b aab bab ha hb hla hlb)

example : (angularTail 9 30 46 : ℝ) = 1 - 2 / Real.pi * Real.arccos ((9 : ℝ) / Real.sqrt (30 * 46)) := by
  have := angular_real_formula exA exB [2, 3, 4, 1] [1, 1, 6, 2, 2] (by decide) (by decide) rfl rfl
    (by decide) (by decide)
  have e1 : dot exA.mins [2, 3, 4, 1] exB.mins [1, 1, 6, 2, 2] = 9 := rfl
  have e2 : SimilaritySpec.sumSq [2, 3, 4, 1] = 30 := rfl
  have e3 : SimilaritySpec.sumSq [1, 1, 6, 2, 2] = 46 := rfl
  rw [e1, e2, e3] at this
  exact_mod_cast this

/-- angular similarity, ideal value: 1 for identical sketches with a non-zero abundance vector -/
theorem angular_real_identical (a : Sketch) (aab : List Nat) (ha : Sorted a.mins)
    (hla : aab.length = a.mins.length) (hn : 0 < SimilaritySpec.sumSq aab) :
    (angularTail (dot a.mins aab a.mins aab) (SimilaritySpec.sumSq aab) (SimilaritySpec.sumSq aab) : ℝ) = 1 := by
  rw [angular_triple_identical a aab ha hla]
  exact angularTail_self _ hn

example : (angularTail (dot exA.mins [2, 3, 4, 1] exA.mins [2, 3, 4, 1]) (SimilaritySpec.sumSq [2, 3, 4, 1])
    (SimilaritySpec.sumSq [2, 3, 4, 1]) : ℝ) = 1 :=
  angular_real_identical exA _ (by decide) rfl (by decide)

/-- angular similarity, ideal value: 0 for disjoint sketches -/
theorem angular_real_disjoint (a b : Sketch) (aab bab : List Nat) (hd : ∀ h ∈ a.mins, h ∉ b.mins) :
    (angularTail (dot a.mins aab b.mins bab) (SimilaritySpec.sumSq aab) (SimilaritySpec.sumSq bab) : ℝ) = 0 := by
  rw [angular_triple_disjoint a b aab bab hd]
  exact angularTail_zero_prod _ _

example : (angularTail (dot [1, 2] [3, 4] [5, 6] [7, 8]) (SimilaritySpec.sumSq [3, 4])
    (SimilaritySpec.sumSq [7, 8]) : ℝ) = 0 :=
  angular_real_disjoint { exA with mins := [1, 2] } { exB with mins := [5, 6] } _ _ (by decide)

/-- angular similarity, ideal value: symmetric in the operands (with T-sym for the triple) -/
theorem angular_real_symm (p a b : ℕ) : (angularTail p a b : ℝ) = (angularTail p b a : ℝ) :=
  angularTail_symm p a b

/-- Jaccard / containment, ideal value of the one division: in `[0, 1]` when `c ≤ s`, … -/
theorem ratio_real_mem (c s : ℕ) (hs : 0 < s) (hcs : c ≤ s) :
    0 ≤ (containmentTail c s : ℝ) ∧ (containmentTail c s : ℝ) ≤ 1 := ratio_mem c s hs hcs

/-- … 1 iff `c = s`, … -/
theorem ratio_real_eq_one (c s : ℕ) (hs : 0 < s) : (containmentTail c s : ℝ) = 1 ↔ c = s :=
  ratio_eq_one_iff c s hs

/-- … 0 iff `c = 0`, … -/
theorem ratio_real_eq_zero (c s : ℕ) (hs : 0 < s) : (containmentTail c s : ℝ) = 0 ↔ c = 0 :=
  ratio_eq_zero_iff c s hs

/-- … monotone in `c`. -/
theorem ratio_real_mono (c c' s : ℕ) (hs : 0 < s) (h : c ≤ c') :
    (containmentTail c s : ℝ) ≤ (containmentTail c' s : ℝ) := ratio_mono c c' s hs h

/-- `jaccard` divides by `max(1, size)`: the same quotient whenever the union is non-empty, 0 otherwise -/
theorem jaccard_real (c s : ℕ) :
    (jaccardTail c s : ℝ) = if s = 0 then (c : ℝ) else (containmentTail c s : ℝ) := by
  rw [jaccardTail_real, containmentTail_real]
  by_cases h : s = 0
  · simp [h]
  · have : max 1 s = s := by omega
    simp [h, this]

/-- the pairs the code divides satisfy `c ≤ s` (so the four facts above apply): scaled … -/
theorem pair_le_scaled (a b : List Nat) : (inter a b).length ≤ (union a b).length := by
  unfold inter union
  have := List.length_filter_le (fun h => b.contains h) a
  simp only [List.length_append]; omega

/-- … num … -/
theorem pair_le_num (n : Nat) (a b : List Nat) (ha : Sorted a) (hb : Sorted b) :
    (jaccardPair n a b).1 ≤ (jaccardPair n a b).2 := by
  by_cases hn : n = 0
  · simp only [jaccardPair, hn, if_true]; exact pair_le_scaled a b
  · simp only [jaccardPair, hn, if_false]
    -- the filtered intersection is a duplicate-free sub-collection of the bottom-n
    apply List.Subperm.length_le
    apply List.subperm_of_subset ((ha.filter _).filter _).nodup
    intro h hh
    simpa using (List.mem_filter.mp hh).2

/-- … containment. -/
theorem pair_le_containment (a b : List Nat) :
    (SimilaritySpec.containmentPair a b).1 ≤ (SimilaritySpec.containmentPair a b).2 :=
  List.length_filter_le _ _

/-- Jaccard / containment in binary arithmetic: the correctly rounded quotient mantissa at any scale
    `K` (`K = 2^53` for results in `[1/2, 1]`) never exceeds `K` (value ≤ 1), … -/
theorem ratio_rounded_le_one (c s K : ℕ) (hs : 0 < s) (hcs : c ≤ s) : rnStep (c * K) s ≤ K :=
  rn_le_one c s K hs hcs

/-- … equals `K` (value exactly 1.0) iff `c = s`, as long as `s ≤ K` (counts below 2^53), … -/
theorem ratio_rounded_eq_one (c s K : ℕ) (hs : 0 < s) (hcs : c ≤ s) (hK : s ≤ K) :
    rnStep (c * K) s = K ↔ c = s := rn_eq_one_iff c s K hs hcs hK

/-- … is monotone in `c`, … -/
theorem ratio_rounded_mono (c c' s K : ℕ) (hs : 0 < s) (h : c ≤ c') :
    rnStep (c * K) s ≤ rnStep (c' * K) s := rn_mono c c' s K hs h

/-- … is 0 for `c = 0` and not 0 for `c > 0` once the scale reaches the quotient's binade. -/
theorem ratio_rounded_zero (c s K : ℕ) (hs : 0 < s) :
    rnStep (0 * K) s = 0 ∧ (s ≤ c * K → 1 ≤ rnStep (c * K) s) :=
  ⟨rn_zero s K hs, rn_pos c s K hs⟩

example : rnStep (3 * 2 ^ 53) 3 = 2 ^ 53 := (ratio_rounded_eq_one 3 3 (2 ^ 53) (by decide) (by decide) (by decide)).mpr rfl

/-! ### the division on the exact integer model of binary64 (Model/Scaled.lean, as in C14) -/

/-- Jaccard / containment in binary64, exact model: for counts `0 < c ≤ s < 2^53` the value
    `c as f64 / s as f64` is `m·2^(−k)` with `m ≤ 2^k` (value ≤ 1), `m > 0` (value > 0), and
    `m = 2^k` (value exactly 1.0) iff `c = s`. -/
theorem ratio_binary64 (c s : ℕ) (hc : 0 < c) (hcs : c ≤ s) (hs : s < 2 ^ 53) :
    ∃ m k : ℕ, Scaled.fdiv (Scaled.ofNat c) (Scaled.ofNat s) = (m, -(k : ℤ)) ∧
      m ≤ 2 ^ k ∧ 0 < m ∧ (m = 2 ^ k ↔ c = s) := by
  obtain ⟨m, k, h, h1, h2, h3⟩ := rnDiv_le_one c s hc hcs
  refine ⟨m, k, ?_, h1, h2, h3 (Nat.le_of_lt hs)⟩
  rw [fdiv_ofNat c s hc (by omega) (by omega) hs]; exact h

example : ∃ m k : ℕ, Scaled.fdiv (Scaled.ofNat 2) (Scaled.ofNat 7) = (m, -(k : ℤ)) ∧
    m ≤ 2 ^ k ∧ 0 < m ∧ (m = 2 ^ k ↔ 2 = 7) := ratio_binary64 2 7 (by decide) (by decide) (by decide)

/-- … it is exactly 0 for `c = 0` … -/
theorem ratio_binary64_zero (s : ℕ) (hs : 0 < s) (hs' : s < 2 ^ 53) :
    (Scaled.fdiv (Scaled.ofNat 0) (Scaled.ofNat s)).1 = 0 := fdiv_zero s hs hs'

/-- … and monotone in `c`: `m/2^k ≤ m'/2^k'` for `c ≤ c'`. -/
theorem ratio_binary64_mono (c c' s : ℕ) (hc : 0 < c) (hcc : c ≤ c') (hcs : c' ≤ s) (hs : s < 2 ^ 53) :
    ∃ m k m' k' : ℕ, Scaled.fdiv (Scaled.ofNat c) (Scaled.ofNat s) = (m, -(k : ℤ)) ∧
      Scaled.fdiv (Scaled.ofNat c') (Scaled.ofNat s) = (m', -(k' : ℤ)) ∧ m * 2 ^ k' ≤ m' * 2 ^ k := by
  obtain ⟨m, k, m', k', h, h', hle⟩ := rnDiv_mono c c' s hc hcc hcs
  refine ⟨m, k, m', k', ?_, ?_, hle⟩
  · rw [fdiv_ofNat c s hc (by omega) (by omega) hs]; exact h
  · rw [fdiv_ofNat c' s (by omega) (by omega) (by omega) hs]; exact h'

example : ∃ m k m' k' : ℕ, Scaled.fdiv (Scaled.ofNat 2) (Scaled.ofNat 7) = (m, -(k : ℤ)) ∧
    Scaled.fdiv (Scaled.ofNat 5) (Scaled.ofNat 7) = (m', -(k' : ℤ)) ∧ m * 2 ^ k' ≤ m' * 2 ^ k :=
  ratio_binary64_mono 2 5 7 (by decide) (by decide) (by decide) (by decide)

/-! ### the C API

`kmerminhash_jaccard`, `_angular_similarity`, `_similarity` and `_count_common` pass the `Result` of
the method of the same name through the landing pad, so the theorems above are about them verbatim
(container `.vec`).  `kmerminhash_intersection_union_size` has a body of its own: -/

/-- C API, T-jaccard_pair (scaled): the pair written by `kmerminhash_intersection_union_size` -/
theorem ffi_intersection_union_size_scaled (a b : Sketch)
    (hc : checkCompatible a b = .ok ()) (hn : a.num = 0)
    (ha : Sorted a.mins) (hb : Sorted b.mins) :
    ffiIntersectionUnionSize a b = ((inter a.mins b.mins).length, (union a.mins b.mins).length) := by
  unfold ffiIntersectionUnionSize
  rw [jaccard_pair_scaled .vec a b hc hn ha hb]

example : ffiIntersectionUnionSize exA exB = (2, 7) := by
  rw [ffi_intersection_union_size_scaled exA exB rfl rfl (by decide) (by decide)]; rfl

/-- C API, T-jaccard_pair (num) -/
theorem ffi_intersection_union_size_num (a b : Sketch)
    (hc : checkCompatible a b = .ok ()) (hn : a.num ≠ 0) (hm : a.maxHash = 0)
    (ha : Sorted a.mins) (hb : Sorted b.mins) :
    ffiIntersectionUnionSize a b = jaccardPair a.num a.mins b.mins := by
  unfold ffiIntersectionUnionSize
  rw [jaccard_pair_num .vec a b hc hn hm ha hb]

example : ffiIntersectionUnionSize exNA exNB = (1, 3) := by
  rw [ffi_intersection_union_size_num exNA exNB rfl (by decide) rfl (by decide) (by decide)]; rfl

/-- C API: on incompatible sketches this export does not refuse, it answers `(0, 0)` (the error of
    `intersection_size` is dropped) — outside the property's parameter space, recorded as it is -/
theorem ffi_intersection_union_size_incompatible (a b : Sketch) (e : Err)
    (hc : checkCompatible a b = .error e) : ffiIntersectionUnionSize a b = (0, 0) := by
  unfold ffiIntersectionUnionSize intersectionSize
  rw [hc]; rfl

example : ffiIntersectionUnionSize exA { exB with ksize := 31 } = (0, 0) :=
  ffi_intersection_union_size_incompatible exA { exB with ksize := 31 } .MismatchKSizes rfl

/-! ### the standing hypotheses discharged by C01 for sketches built through the API

Every theorem above takes `Sorted a.mins` (hashes strictly increasing) and, for abundance walks,
`ab.length = a.mins.length`, as hypotheses: they are C01's representation invariant.  C01 proves it
(`Sourmash.C01.vec_refines`, `Sourmash.C01.tree_refines`) about *its* models of the two containers
(`Model/MinHash.lean`), this file is about operands of type `Similarity.Sketch`; the two are linked by
reading a C01 sketch as an operand (`ofVec`, `ofTree`: same `num`, `ksize`, ceiling, `mins()`,
`abunds()`; hash function and seed are not part of C01's model and are free).  For an operand obtained
this way from ANY history of `new / add / set / remove / remove_many / clear / merge` the hypotheses
hold, so every theorem of this file applies to it with the hash-list hypotheses discharged; one closed
instance (`jaccard_pair_scaled_of_histories`) is stated in full. -/

/-- a vector-backed sketch of C01's model read as an operand of this property's model -/
def ofVec (v : MH.Vec) (hf seed : Nat) : Sketch :=
  { num := v.num, ksize := v.ksize, hf := hf, seed := seed, maxHash := v.maxHash,
    mins := v.mins, abunds := v.abunds }
/-- a tree-backed sketch of C01's model read as an operand (`abunds()` = the map's values) -/
def ofTree (t : MH.Tree) (hf seed : Nat) : Sketch :=
  { num := t.num, ksize := t.ksize, hf := hf, seed := seed, maxHash := t.maxHash,
    mins := t.mins, abunds := t.abundVals }

/-- after any well-formed history the vector-backed operand satisfies both standing hypotheses
(`Sourmash.C01.vec_refines`) -/
theorem history_operand_vec (mh : Nat) (H : Sample.Hist) (hwf : H.WF mh) (hf seed : Nat) :
    Sorted (ofVec (Sample.runVec mh H) hf seed).mins ∧
    ∀ ab, (ofVec (Sample.runVec mh H) hf seed).abunds = some ab →
      ab.length = (ofVec (Sample.runVec mh H) hf seed).mins.length :=
  ⟨(Sourmash.C01.vec_refines mh H hwf).2.sorted, (Sourmash.C01.vec_refines mh H hwf).2.aligned⟩

/-- after any well-formed history without `set` (the tree type has none) the tree-backed operand does
(`Sourmash.C01.tree_refines`) -/
theorem history_operand_tree (mh : Nat) (H : Sample.Hist) (hwf : H.WF mh) (hns : H.NoSet) (hf seed : Nat) :
    Sorted (ofTree (Sample.runTree mh H) hf seed).mins ∧
    ∀ ab, (ofTree (Sample.runTree mh H) hf seed).abunds = some ab →
      ab.length = (ofTree (Sample.runTree mh H) hf seed).mins.length := by
  have inv := (Sourmash.C01.tree_refines mh H hwf hns).2
  refine ⟨inv.sorted, ?_⟩
  intro ab hab
  simp only [ofTree, MH.Tree.abundVals, Option.map_eq_some_iff] at hab
  obtain ⟨m, hm, rfl⟩ := hab
  have := congrArg List.length (inv.aligned m hm)
  simpa [ofTree] using this

/-- a history: a tracked scaled sketch (ceiling 1000) after `add 5 ×2`, `add 1`, `add 5` -/
def exHist : Sample.Hist := .op (.op (.op (.new 0 true) (.add 5 2)) (.add 1 1)) (.add 5 1)
example : exHist.WF 1000 ∧ exHist.NoSet ∧ (ofVec (Sample.runVec 1000 exHist) 0 42).mins = [1, 5] ∧
    (ofTree (Sample.runTree 1000 exHist) 0 42).abunds = some [1, 3] := by
  refine ⟨?_, ?_, by decide, by decide⟩ <;> simp [exHist, Sample.Hist.WF, Sample.Hist.NoSet, Sample.Op.noSet, Sample.WFp]

/-- T-jaccard_pair (scaled), closed over C01: for two scaled sketches produced by ANY two histories
(vector-backed; same ceiling, hence compatible when ksize, hash function and seed agree) the pair
`intersection_size` returns is `(|A ∩ B|, |A ∪ B|)` of the hash sets they hold — no hypothesis on the
lists is left. -/
theorem jaccard_pair_scaled_of_histories (c : Container) (mh : Nat) (H K : Sample.Hist)
    (hH : H.WF mh) (hK : K.WF mh) (hf seed : Nat)
    (hc : checkCompatible (ofVec (Sample.runVec mh H) hf seed) (ofVec (Sample.runVec mh K) hf seed) = .ok ())
    (hn : (Sample.runVec mh H).num = 0) :
    intersectionSize c (ofVec (Sample.runVec mh H) hf seed) (ofVec (Sample.runVec mh K) hf seed) =
      .ok ((inter (Sample.runVec mh H).mins (Sample.runVec mh K).mins).length,
           (union (Sample.runVec mh H).mins (Sample.runVec mh K).mins).length) :=
  jaccard_pair_scaled c _ _ hc hn (history_operand_vec mh H hH hf seed).1 (history_operand_vec mh K hK hf seed).1
example : exHist.WF 1000 ∧
    checkCompatible (ofVec (Sample.runVec 1000 exHist) 0 42) (ofVec (Sample.runVec 1000 exHist) 0 42) = .ok () ∧
    (Sample.runVec 1000 exHist).num = 0 := by
  refine ⟨?_, by decide, by decide⟩; simp [exHist, Sample.Hist.WF, Sample.WFp]

end Sourmash.C05
