import Sourmash.Lemmas.SimilarityNum
/-!
Property C05 — similarity, containment and angular similarity are exact on retained hashes.
Property theorems only; helper lemmas live in `Sourmash/Lemmas/Similarity*.lean`.

Model: `Sourmash/Model/Similarity.lean` (the code of `sketch/minhash.rs`, both containers);
specification: `Sourmash/Spec/Similarity.lean` (filter / contains / lookup over the retained hashes).
Hypotheses used throughout: the hash lists are strictly increasing (`Sorted`, what `mins` of either
container is by construction — C01's invariant) and, for abundance walks, the abundance list is as
long as the hash list.
-/
namespace Sourmash.C05
open Similarity SimilaritySpec

/-! ### witnesses for the non-vacuity examples -/

def exA : Sketch := { num := 0, ksize := 21, hf := 0, seed := 42, maxHash := 1000,
                      mins := [1, 5, 9, 12], abunds := some [2, 3, 4, 1] }
def exB : Sketch := { num := 0, ksize := 21, hf := 0, seed := 42, maxHash := 1000,
                      mins := [5, 7, 12, 40, 41], abunds := some [1, 1, 6, 2, 2] }
def exNA : Sketch := { exA with num := 3, maxHash := 0, mins := [1, 5, 9] }
def exNB : Sketch := { exB with num := 3, maxHash := 0, mins := [2, 5, 7] }

/-! ### T-jaccard_pair -/

/-- T-jaccard_pair (scaled): on two compatible scaled sketches `intersection_size` returns
    `(|A ∩ B|, |A ∪ B|)` of the retained hash sets — in both containers. -/
theorem jaccard_pair_scaled (c : Container) (a b : Sketch)
    (hc : checkCompatible a b = .ok ()) (hn : a.num = 0)
    (ha : Sorted a.mins) (hb : Sorted b.mins) :
    intersectionSize c a b = .ok ((inter a.mins b.mins).length, (union a.mins b.mins).length) := by
  unfold intersectionSize
  rw [hc]
  simp only [hn, ne_eq, not_true_eq_false, if_false]
  have := isize_eq_spec a.mins b.mins ha hb
  simp only [jaccardPair, if_true] at this
  rw [← this]; rfl

example : intersectionSize .vec exA exB = .ok (2, 7) := by
  rw [jaccard_pair_scaled .vec exA exB rfl rfl (by decide) (by decide)]; rfl

/-- T-jaccard_pair (num): on two compatible num sketches `intersection_size` — which merges both
    operands into a fresh sketch of `self.num` slots — returns
    `(|A ∩ B ∩ bottom_n(A ∪ B)|, |bottom_n(A ∪ B)|)` with `n = self.num`, in both containers. -/
theorem jaccard_pair_num (c : Container) (a b : Sketch)
    (hc : checkCompatible a b = .ok ()) (hn : a.num ≠ 0) (hm : a.maxHash = 0)
    (ha : Sorted a.mins) (hb : Sorted b.mins) :
    intersectionSize c a b = .ok (jaccardPair a.num a.mins b.mins) := by
  unfold intersectionSize
  rw [hc]
  have hs : Scaled.maxHashForScaled a.scaled = a.maxHash := by
    have h0 : a.scaled = 0 := by unfold Sketch.scaled; rw [hm]; rfl
    rw [h0, hm]; rfl
  simp only [hn, ne_eq, not_false_eq_true, if_true, hs, not_true_eq_false, if_false]
  rw [isizeNum_eq_spec c a.num hn a.mins b.mins ha hb]; rfl

example : intersectionSize .tree exNA exNB = .ok (1, 3) := by
  rw [jaccard_pair_num .tree exNA exNB rfl (by decide) rfl (by decide) (by decide)]; rfl

/-- the integer pair `jaccard` divides: `common / max(1, size)` of the pair above
    (the `Ok(0.0)` fallback of the code is unreachable on compatible scaled sketches) -/
theorem jaccard_core_scaled (c : Container) (a b : Sketch)
    (hc : checkCompatible a b = .ok ()) (hn : a.num = 0)
    (ha : Sorted a.mins) (hb : Sorted b.mins) :
    jaccardCore c a b = .ok (.jaccard (inter a.mins b.mins).length (union a.mins b.mins).length) := by
  unfold jaccardCore
  rw [hc, jaccard_pair_scaled c a b hc hn ha hb]; rfl

example : jaccardCore .vec exA exB = .ok (.jaccard 2 7) := by
  rw [jaccard_core_scaled .vec exA exB rfl rfl (by decide) (by decide)]; rfl

theorem jaccard_core_num (c : Container) (a b : Sketch)
    (hc : checkCompatible a b = .ok ()) (hn : a.num ≠ 0) (hm : a.maxHash = 0)
    (ha : Sorted a.mins) (hb : Sorted b.mins) :
    jaccardCore c a b = .ok (.jaccard (jaccardPair a.num a.mins b.mins).1
                                      (jaccardPair a.num a.mins b.mins).2) := by
  unfold jaccardCore
  rw [hc, jaccard_pair_num c a b hc hn hm ha hb]; rfl

example : jaccardCore .tree exNA exNB = .ok (.jaccard 1 3) := by
  rw [jaccard_core_num .tree exNA exNB rfl (by decide) rfl (by decide) (by decide)]; rfl

/-- `intersection` returns the common hashes themselves and the same size -/
theorem intersection_scaled (c : Container) (a b : Sketch)
    (hc : checkCompatible a b = .ok ()) (hn : a.num = 0)
    (ha : Sorted a.mins) (hb : Sorted b.mins) :
    intersection c a b = .ok (inter a.mins b.mins, (union a.mins b.mins).length) := by
  unfold intersection
  rw [hc]
  simp only [hn, ne_eq, not_true_eq_false, if_false]
  rw [← isect_eq_spec a.mins b.mins ha hb]; rfl

example : intersection .vec exA exB = .ok ([5, 12], 7) := by
  rw [intersection_scaled .vec exA exB rfl rfl (by decide) (by decide)]; rfl

/-! ### T-containment_pair -/

/-- T-containment_pair: `(count_common(other, false), size())` — what `Comparable::containment`
    divides — is `(|A ∩ B|, |A|)`, whichever operand is longer (the code hands the shorter list to the
    iterator first). -/
theorem containment_pair (a b : Sketch) (hc : checkCompatible a b = .ok ())
    (ha : Sorted a.mins) (hb : Sorted b.mins) :
    containmentPair a b = .ok (SimilaritySpec.containmentPair a.mins b.mins) := by
  unfold Similarity.containmentPair countCommon countCommonFlat
  simp only [Bool.false_eq_true, false_and, if_false]
  rw [hc, countCommonMins_eq, interIter_eq_inter a.mins b.mins ha hb]; rfl

example : Similarity.containmentPair exB exA = .ok (2, 5) := by
  rw [containment_pair exB exA rfl (by decide) (by decide)]; rfl

/-! ### T-sym (integer level) and independence of the container -/

/-- T-sym: `check_compatible` does not depend on the operand order (same error, too) -/
theorem compatible_symm (a b : Sketch) : checkCompatible a b = checkCompatible b a :=
  checkCompatible_comm a b

/-- T-sym: `intersection_size` (hence `jaccard`) gives the same pair in either operand order, for any
    two sketches with the same `num` — no hypothesis on the lists.  (With different `num` the code
    uses `self.num` and is *not* symmetric; `check_compatible` does not compare `num`.) -/
theorem intersectionSize_symm (c : Container) (a b : Sketch) (hnum : a.num = b.num) :
    intersectionSize c a b = intersectionSize c b a := by
  unfold intersectionSize
  rw [checkCompatible_comm a b]
  cases hcb : checkCompatible b a with
  | error e => rfl
  | ok u =>
    have hm := (checkCompatible_ok hcb).2.2.1
    by_cases hn : a.num = 0
    · have hn' : b.num = 0 := by omega
      simp [hn, hn', isize_comm a.mins b.mins]
    · have hn' : b.num ≠ 0 := by omega
      have hs : a.scaled = b.scaled := by simp [Sketch.scaled, hm]
      simp only [hn, hn', ne_eq, not_false_eq_true, if_true, hs, hm]
      rw [isizeNum_comm c a.num hn, hnum]

example : intersectionSize .vec exNA exNB = intersectionSize .vec exNB exNA :=
  intersectionSize_symm .vec exNA exNB rfl

theorem jaccardCore_symm (c : Container) (a b : Sketch) (hnum : a.num = b.num) :
    jaccardCore c a b = jaccardCore c b a := by
  unfold jaccardCore
  rw [checkCompatible_comm a b, intersectionSize_symm c a b hnum]

example : jaccardCore .tree exA exB = jaccardCore .tree exB exA := jaccardCore_symm .tree exA exB rfl

/-- T-sym: `count_common(other, false)` is symmetric -/
theorem countCommon_symm (a b : Sketch) : countCommon a b false = countCommon b a false := by
  unfold countCommon countCommonFlat
  simp only [Bool.false_eq_true, false_and, if_false]
  rw [checkCompatible_comm a b, countCommonMins_comm]

/-- the answer of `intersection_size` / `jaccard` does not depend on the sketch implementation -/
theorem intersectionSize_container (a b : Sketch) :
    intersectionSize .vec a b = intersectionSize .tree a b := by
  unfold intersectionSize
  rw [isizeNum_container]

theorem jaccardCore_container (a b : Sketch) : jaccardCore .vec a b = jaccardCore .tree a b := by
  unfold jaccardCore
  rw [intersectionSize_container]

end Sourmash.C05
