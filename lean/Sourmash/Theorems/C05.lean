import Sourmash.Lemmas.SimilarityNum
import Sourmash.Lemmas.SimilarityAng
/-!
Property C05 — similarity, containment and angular similarity are exact on retained hashes.
Property theorems only; helper lemmas live in `Sourmash/Lemmas/Similarity*.lean`.

Model: `Sourmash/Model/Similarity.lean` (the code of `sketch/minhash.rs`, both containers);
specification: `Sourmash/Spec/Similarity.lean` (filter / contains / lookup over the retained hashes).
Hypotheses used throughout: the hash lists are strictly increasing (`Sorted`, what `mins` of either
container is by construction — C01's invariant) and, for abundance walks, the abundance list is as
long as the hash list.
-/
namespace Sourmash.C05
open Similarity SimilaritySpec

/-! ### witnesses for the non-vacuity examples -/

def exA : Sketch := { num := 0, ksize := 21, hf := 0, seed := 42, maxHash := 1000,
                      mins := [1, 5, 9, 12], abunds := some [2, 3, 4, 1] }
def exB : Sketch := { num := 0, ksize := 21, hf := 0, seed := 42, maxHash := 1000,
                      mins := [5, 7, 12, 40, 41], abunds := some [1, 1, 6, 2, 2] }
def exNA : Sketch := { exA with num := 3, maxHash := 0, mins := [1, 5, 9] }
def exNB : Sketch := { exB with num := 3, maxHash := 0, mins := [2, 5, 7] }

/-! ### T-jaccard_pair -/

/-- T-jaccard_pair (scaled): on two compatible scaled sketches `intersection_size` returns
    `(|A ∩ B|, |A ∪ B|)` of the retained hash sets — in both containers. -/
theorem jaccard_pair_scaled (c : Container) (a b : Sketch)
    (hc : checkCompatible a b = .ok ()) (hn : a.num = 0)
    (ha : Sorted a.mins) (hb : Sorted b.mins) :
    intersectionSize c a b = .ok ((inter a.mins b.mins).length, (union a.mins b.mins).length) := by
  unfold intersectionSize
  rw [hc]
  simp only [hn, ne_eq, not_true_eq_false, if_false]
  have := isize_eq_spec a.mins b.mins ha hb
  simp only [jaccardPair, if_true] at this
  rw [← this]; rfl

example : intersectionSize .vec exA exB = .ok (2, 7) := by
  rw [jaccard_pair_scaled .vec exA exB rfl rfl (by decide) (by decide)]; rfl

/-- T-jaccard_pair (num): on two compatible num sketches `intersection_size` — which merges both
    operands into a fresh sketch of `self.num` slots — returns
    `(|A ∩ B ∩ bottom_n(A ∪ B)|, |bottom_n(A ∪ B)|)` with `n = self.num`, in both containers. -/
theorem jaccard_pair_num (c : Container) (a b : Sketch)
    (hc : checkCompatible a b = .ok ()) (hn : a.num ≠ 0) (hm : a.maxHash = 0)
    (ha : Sorted a.mins) (hb : Sorted b.mins) :
    intersectionSize c a b = .ok (jaccardPair a.num a.mins b.mins) := by
  unfold intersectionSize
  rw [hc]
  have hs : Scaled.maxHashForScaled a.scaled = a.maxHash := by
    have h0 : a.scaled = 0 := by unfold Sketch.scaled; rw [hm]; rfl
    rw [h0, hm]; rfl
  simp only [hn, ne_eq, not_false_eq_true, if_true, hs, not_true_eq_false, if_false]
  rw [isizeNum_eq_spec c a.num hn a.mins b.mins ha hb]; rfl

example : intersectionSize .tree exNA exNB = .ok (1, 3) := by
  rw [jaccard_pair_num .tree exNA exNB rfl (by decide) rfl (by decide) (by decide)]; rfl

/-- the integer pair `jaccard` divides: `common / max(1, size)` of the pair above
    (the `Ok(0.0)` fallback of the code is unreachable on compatible scaled sketches) -/
theorem jaccard_core_scaled (c : Container) (a b : Sketch)
    (hc : checkCompatible a b = .ok ()) (hn : a.num = 0)
    (ha : Sorted a.mins) (hb : Sorted b.mins) :
    jaccardCore c a b = .ok (.jaccard (inter a.mins b.mins).length (union a.mins b.mins).length) := by
  unfold jaccardCore
  rw [hc, jaccard_pair_scaled c a b hc hn ha hb]; rfl

example : jaccardCore .vec exA exB = .ok (.jaccard 2 7) := by
  rw [jaccard_core_scaled .vec exA exB rfl rfl (by decide) (by decide)]; rfl

theorem jaccard_core_num (c : Container) (a b : Sketch)
    (hc : checkCompatible a b = .ok ()) (hn : a.num ≠ 0) (hm : a.maxHash = 0)
    (ha : Sorted a.mins) (hb : Sorted b.mins) :
    jaccardCore c a b = .ok (.jaccard (jaccardPair a.num a.mins b.mins).1
                                      (jaccardPair a.num a.mins b.mins).2) := by
  unfold jaccardCore
  rw [hc, jaccard_pair_num c a b hc hn hm ha hb]; rfl

example : jaccardCore .tree exNA exNB = .ok (.jaccard 1 3) := by
  rw [jaccard_core_num .tree exNA exNB rfl (by decide) rfl (by decide) (by decide)]; rfl

/-- `intersection` returns the common hashes themselves and the same size -/
theorem intersection_scaled (c : Container) (a b : Sketch)
    (hc : checkCompatible a b = .ok ()) (hn : a.num = 0)
    (ha : Sorted a.mins) (hb : Sorted b.mins) :
    intersection c a b = .ok (inter a.mins b.mins, (union a.mins b.mins).length) := by
  unfold intersection
  rw [hc]
  simp only [hn, ne_eq, not_true_eq_false, if_false]
  rw [← isect_eq_spec a.mins b.mins ha hb]; rfl

example : intersection .vec exA exB = .ok ([5, 12], 7) := by
  rw [intersection_scaled .vec exA exB rfl rfl (by decide) (by decide)]; rfl

/-! ### T-containment_pair -/

/-- T-containment_pair: `(count_common(other, false), size())` — what `Comparable::containment`
    divides — is `(|A ∩ B|, |A|)`, whichever operand is longer (the code hands the shorter list to the
    iterator first). -/
theorem containment_pair (a b : Sketch) (hc : checkCompatible a b = .ok ())
    (ha : Sorted a.mins) (hb : Sorted b.mins) :
    containmentPair a b = .ok (SimilaritySpec.containmentPair a.mins b.mins) := by
  unfold Similarity.containmentPair countCommon countCommonFlat
  simp only [Bool.false_eq_true, false_and, if_false]
  rw [hc, countCommonMins_eq, interIter_eq_inter a.mins b.mins ha hb]; rfl

example : Similarity.containmentPair exB exA = .ok (2, 5) := by
  rw [containment_pair exB exA rfl (by decide) (by decide)]; rfl

/-! ### T-sym (integer level) and independence of the container -/

/-- T-sym: `check_compatible` does not depend on the operand order (same error, too) -/
theorem compatible_symm (a b : Sketch) : checkCompatible a b = checkCompatible b a :=
  checkCompatible_comm a b

/-- T-sym: `intersection_size` (hence `jaccard`) gives the same pair in either operand order, for any
    two sketches with the same `num` — no hypothesis on the lists.  (With different `num` the code
    uses `self.num` and is *not* symmetric; `check_compatible` does not compare `num`.) -/
theorem intersectionSize_symm (c : Container) (a b : Sketch) (hnum : a.num = b.num) :
    intersectionSize c a b = intersectionSize c b a := by
  unfold intersectionSize
  rw [checkCompatible_comm a b]
  cases hcb : checkCompatible b a with
  | error e => rfl
  | ok u =>
    have hm := (checkCompatible_ok hcb).2.2.1
    by_cases hn : a.num = 0
    · have hn' : b.num = 0 := by omega
      simp [hn, hn', isize_comm a.mins b.mins]
    · have hn' : b.num ≠ 0 := by omega
      have hs : a.scaled = b.scaled := by simp [Sketch.scaled, hm]
      simp only [hn, hn', ne_eq, not_false_eq_true, if_true, hs, hm]
      rw [isizeNum_comm c a.num hn, hnum]

example : intersectionSize .vec exNA exNB = intersectionSize .vec exNB exNA :=
  intersectionSize_symm .vec exNA exNB rfl

theorem jaccardCore_symm (c : Container) (a b : Sketch) (hnum : a.num = b.num) :
    jaccardCore c a b = jaccardCore c b a := by
  unfold jaccardCore
  rw [checkCompatible_comm a b, intersectionSize_symm c a b hnum]

example : jaccardCore .tree exA exB = jaccardCore .tree exB exA := jaccardCore_symm .tree exA exB rfl

/-- T-sym: `count_common(other, false)` is symmetric -/
theorem countCommon_symm (a b : Sketch) : countCommon a b false = countCommon b a false := by
  unfold countCommon countCommonFlat
  simp only [Bool.false_eq_true, false_and, if_false]
  rw [checkCompatible_comm a b, countCommonMins_comm]

/-- the answer of `intersection_size` / `jaccard` does not depend on the sketch implementation -/
theorem intersectionSize_container (a b : Sketch) :
    intersectionSize .vec a b = intersectionSize .tree a b := by
  unfold intersectionSize
  rw [isizeNum_container]

theorem jaccardCore_container (a b : Sketch) : jaccardCore .vec a b = jaccardCore .tree a b := by
  unfold jaccardCore
  rw [intersectionSize_container]

/-! ### T-angular_triple -/

/-- T-angular_triple: on two compatible sketches that both track abundances (abundance lists as
    long as the hash lists) `angular_similarity` feeds its float expression with
    `(Σ_{h ∈ A∩B} a_h·b_h, Σ a², Σ b²)` — for every overlap shape, in both containers.  For the vector
    container this includes that the two `get_unchecked` accesses of the walk are always in range
    (the model's `[i]?` never yields `none`, i.e. the result is not `UncheckedIndexOutOfRange`). -/
theorem angular_triple (c : Container) (a b : Sketch) (aab bab : List Nat)
    (hc : checkCompatible a b = .ok ())
    (haa : a.abunds = some aab) (hbb : b.abunds = some bab)
    (ha : Sorted a.mins) (hb : Sorted b.mins)
    (hla : aab.length = a.mins.length) (hlb : bab.length = b.mins.length) :
    angularCore c a b = .ok (.angular (dot a.mins aab b.mins bab)
                                      (SimilaritySpec.sumSq aab) (SimilaritySpec.sumSq bab)) := by
  have hlook : dotLookup (a.mins.zip aab) (b.mins.zip bab) = dot a.mins aab b.mins bab :=
    dotLookup_eq_dot a.mins aab b.mins bab ha hlb hla
  unfold angularCore
  rw [hc]
  simp only [haa, hbb, sumSq_eq_spec]
  cases c with
  | vec =>
    have hw := angWalk_eq aab bab 0 a.mins 0 b.mins 0 ha (by simpa using hla) (by simpa using hlb)
    simp only [List.drop_zero, Nat.zero_add] at hw
    rw [dotMerge_eq_dotLookup _ _ (sortedK_zip _ _ ha) (sortedK_zip _ _ hb), hlook] at hw
    simp only [hw]; rfl
  | tree => simp only [hlook]; rfl

example : angularCore .vec exA exB = .ok (.angular 9 30 46) := by
  rw [angular_triple .vec exA exB [2, 3, 4, 1] [1, 1, 6, 2, 2] rfl rfl rfl (by decide) (by decide) rfl rfl]
  rfl

/-- the walk itself: in range at every step, whatever the overlap shape (statement about the loop
    started anywhere in the two sketches) -/
theorem angular_walk_in_range (aab bab : List Nat) (i j prod : Nat) (hs ks : List Nat)
    (hs' : Sorted hs) (ha : (aab.drop i).length = hs.length) (hb : (bab.drop j).length = ks.length) :
    ∃ r, angWalk aab bab i hs j ks prod = some r := ⟨_, angWalk_eq aab bab i hs j ks prod hs' ha hb⟩

example : ∃ r, angWalk [2, 3, 4, 1] [1, 1, 6, 2, 2] 0 [1, 5, 9, 12] 0 [5, 7, 12, 40, 41] 0 = some r :=
  angular_walk_in_range _ _ 0 0 0 _ _ (by decide) rfl rfl

/-- both containers compute the same triple -/
theorem angular_container (a b : Sketch) (aab bab : List Nat)
    (hc : checkCompatible a b = .ok ())
    (haa : a.abunds = some aab) (hbb : b.abunds = some bab)
    (ha : Sorted a.mins) (hb : Sorted b.mins)
    (hla : aab.length = a.mins.length) (hlb : bab.length = b.mins.length) :
    angularCore .vec a b = angularCore .tree a b := by
  rw [angular_triple .vec a b aab bab hc haa hbb ha hb hla hlb,
      angular_triple .tree a b aab bab hc haa hbb ha hb hla hlb]

example : angularCore .vec exA exB = angularCore .tree exA exB :=
  angular_container exA exB _ _ rfl rfl rfl (by decide) (by decide) rfl rfl

/-- T-sym (angular): swapping the operands swaps the two squared norms and keeps the product -/
theorem angular_symm (c : Container) (a b : Sketch) (aab bab : List Nat)
    (hc : checkCompatible a b = .ok ())
    (haa : a.abunds = some aab) (hbb : b.abunds = some bab)
    (ha : Sorted a.mins) (hb : Sorted b.mins)
    (hla : aab.length = a.mins.length) (hlb : bab.length = b.mins.length) :
    ∃ p, angularCore c a b = .ok (.angular p (SimilaritySpec.sumSq aab) (SimilaritySpec.sumSq bab)) ∧
         angularCore c b a = .ok (.angular p (SimilaritySpec.sumSq bab) (SimilaritySpec.sumSq aab)) := by
  have hc' : checkCompatible b a = .ok () := by rw [← checkCompatible_comm]; exact hc
  refine ⟨dot a.mins aab b.mins bab, angular_triple c a b aab bab hc haa hbb ha hb hla hlb, ?_⟩
  rw [angular_triple c b a bab aab hc' hbb haa hb ha hlb hla]
  have : dot b.mins bab a.mins aab = dot a.mins aab b.mins bab := by
    rw [← dotLookup_eq_dot _ _ _ _ hb hla hlb, ← dotLookup_eq_dot _ _ _ _ ha hlb hla,
        ← dotMerge_eq_dotLookup _ _ (sortedK_zip _ _ hb) (sortedK_zip _ _ ha),
        ← dotMerge_eq_dotLookup _ _ (sortedK_zip _ _ ha) (sortedK_zip _ _ hb), dotMerge_comm]
  rw [this]

example : ∃ p, angularCore .tree exA exB = .ok (.angular p 30 46) ∧
               angularCore .tree exB exA = .ok (.angular p 46 30) :=
  angular_symm .tree exA exB _ _ rfl rfl rfl (by decide) (by decide) rfl rfl

/-! ### T-refuse -/

/-- T-refuse (order of the checks): an incompatibility is reported first, with its own error -/
theorem angular_incompatible (c : Container) (a b : Sketch) (e : Err)
    (hc : checkCompatible a b = .error e) : angularCore c a b = .error e := by
  unfold angularCore; rw [hc]; rfl

example : angularCore .vec exA { exB with ksize := 31, abunds := none } = .error .MismatchKSizes :=
  angular_incompatible _ _ _ _ rfl

/-- T-refuse: `angular_similarity` is refused with `NeedsAbundanceTracking` exactly when the sketches
    are compatible and at least one of them tracks no abundances (no hypothesis on the lists) -/
theorem angular_refused_iff (c : Container) (a b : Sketch) :
    angularCore c a b = .error .NeedsAbundanceTracking ↔
      checkCompatible a b = .ok () ∧ (a.tracked = false ∨ b.tracked = false) := by
  unfold angularCore Sketch.tracked
  cases hcb : checkCompatible a b with
  | error e =>
    have : e ≠ .NeedsAbundanceTracking := by
      unfold checkCompatible at hcb
      intro he; subst he
      split at hcb <;> try split at hcb <;> try split at hcb <;> try split at hcb
      all_goals simp at hcb
    constructor
    · intro h; exact absurd (Except.error.inj h) this
    · rintro ⟨h, _⟩; cases h
  | ok u =>
    cases haa : a.abunds with
    | none => simp [bind, Except.bind]
    | some aab =>
      cases hbb : b.abunds with
      | none => simp [bind, Except.bind]
      | some bab =>
        cases c with
        | vec =>
          simp only [bind, Except.bind]
          cases angWalk aab bab 0 a.mins 0 b.mins 0 <;> simp
        | tree => simp [bind, Except.bind]

example : angularCore .tree exA { exB with abunds := none } = .error .NeedsAbundanceTracking :=
  (angular_refused_iff _ _ _).mpr ⟨rfl, Or.inr rfl⟩

/-- T-refuse, converse on well-formed sketches: with both sides tracked (and aligned) the call
    succeeds -/
theorem angular_ok_of_tracked (c : Container) (a b : Sketch) (aab bab : List Nat)
    (hc : checkCompatible a b = .ok ())
    (haa : a.abunds = some aab) (hbb : b.abunds = some bab)
    (ha : Sorted a.mins) (hb : Sorted b.mins)
    (hla : aab.length = a.mins.length) (hlb : bab.length = b.mins.length) :
    ∃ r, angularCore c a b = .ok r := ⟨_, angular_triple c a b aab bab hc haa hbb ha hb hla hlb⟩

example : ∃ r, angularCore .vec exA exB = .ok r :=
  angular_ok_of_tracked .vec exA exB _ _ rfl rfl rfl (by decide) (by decide) rfl rfl

/-! ### T-dispatch -/

/-- which definition an answer of `jaccard` / `angular_similarity` belongs to -/
theorem jaccardCore_kind (c : Container) (a b : Sketch) (r : SimCore)
    (h : jaccardCore c a b = .ok r) : (∃ p q, r = .jaccard p q) ∨ r = .zero := by
  unfold jaccardCore at h
  cases hcb : checkCompatible a b with
  | error e => rw [hcb] at h; cases h
  | ok u =>
    rw [hcb] at h
    simp only [bind, Except.bind] at h
    cases his : intersectionSize c a b with
    | error e => rw [his] at h; right; exact (Except.ok.inj h).symm
    | ok pq => rw [his] at h; left; exact ⟨pq.1, pq.2, (Except.ok.inj h).symm⟩

theorem angularCore_kind (c : Container) (a b : Sketch) (r : SimCore)
    (h : angularCore c a b = .ok r) : ∃ p x y, r = .angular p x y := by
  unfold angularCore at h
  cases hcb : checkCompatible a b with
  | error e => rw [hcb] at h; cases h
  | ok u =>
    rw [hcb] at h
    simp only [bind, Except.bind] at h
    cases haa : a.abunds with
    | none => rw [haa] at h; cases h
    | some aab =>
      cases hbb : b.abunds with
      | none => rw [haa, hbb] at h; cases h
      | some bab =>
        rw [haa, hbb] at h
        cases c with
        | vec =>
          simp only at h
          cases hw : angWalk aab bab 0 a.mins 0 b.mins 0 with
          | none => rw [hw] at h; cases h
          | some p => rw [hw] at h; exact ⟨p, _, _, (Except.ok.inj h).symm⟩
        | tree => exact ⟨_, _, _, (Except.ok.inj h).symm⟩

/-- T-dispatch (what is called): the dispatcher hands over to `jaccard` resp. `angular_similarity` -/
theorem similarity_calls (c : Container) (a b : Sketch) (ign : Bool) :
    similarityCore c a b ign false =
      if ign = true ∨ a.tracked = false ∨ b.tracked = false then jaccardCore c a b
      else angularCore c a b := by
  unfold similarityCore similarityFlat
  simp

/-- T-dispatch: an answer of `similarity(other, ignore_abundance, false)` is a Jaccard value iff
    `ignore_abundance ∨ ¬tracked a ∨ ¬tracked b`, and an angular value otherwise -/
theorem similarity_dispatch (c : Container) (a b : Sketch) (ign : Bool) (r : SimCore)
    (h : similarityCore c a b ign false = .ok r) :
    ((∃ p q, r = .jaccard p q) ∨ r = .zero) ↔ (ign = true ∨ a.tracked = false ∨ b.tracked = false) := by
  unfold similarityCore similarityFlat at h
  simp only [Bool.false_eq_true, false_and, if_false] at h
  by_cases hd : ign = true ∨ (!a.tracked) = true ∨ (!b.tracked) = true
  · rw [if_pos hd] at h
    constructor
    · intro _; simpa using hd
    · intro _; exact jaccardCore_kind c a b r h
  · rw [if_neg hd] at h
    obtain ⟨p, x, y, rfl⟩ := angularCore_kind c a b r h
    constructor
    · rintro (⟨p', q', h'⟩ | h') <;> cases h'
    · intro h'; exact absurd (by simpa using h') hd

example : similarityCore .vec exA exB true false = .ok (.jaccard 2 7) := by
  rw [similarity_calls, if_pos (Or.inl rfl),
      jaccard_core_scaled .vec exA exB rfl rfl (by decide) (by decide)]; rfl
example : similarityCore .vec exA exB false false = .ok (.angular 9 30 46) := by
  rw [similarity_calls, if_neg (by decide),
      angular_triple .vec exA exB [2, 3, 4, 1] [1, 1, 6, 2, 2] rfl rfl rfl (by decide) (by decide) rfl rfl]
  rfl

/-- T-dispatch (downsample flag): with equal `scaled()` the flag changes nothing … -/
theorem similarity_downsample_same (c : Container) (a b : Sketch) (ign : Bool)
    (hs : a.scaled = b.scaled) :
    similarityCore c a b ign true = similarityCore c a b ign false := by
  unfold similarityCore
  simp [hs]

/-- … and with different `scaled()` the sketch with the smaller `scaled()` is downsampled to the
    larger one and the comparison is made from the coarser sketch — in either operand order. -/
theorem similarity_downsample_diff (c : Container) (a b : Sketch) (ign : Bool)
    (hs : a.scaled > b.scaled) :
    similarityCore c a b ign true
      = (downsampleScaled b a.scaled >>= fun d => similarityFlat c a d ign) ∧
    similarityCore c b a ign true
      = (downsampleScaled b a.scaled >>= fun d => similarityFlat c a d ign) := by
  have h1 : a.scaled ≠ b.scaled := by omega
  have h2 : b.scaled ≠ a.scaled := by omega
  have h3 : ¬ b.scaled > a.scaled := by omega
  unfold similarityCore
  simp [h1, h2, h3, hs]

example : similarityCore .vec exA exB false true = similarityCore .vec exA exB false false :=
  similarity_downsample_same .vec exA exB false rfl

/-- T-sym (dispatcher): `similarity(.., ignore_abundance = true, false)` — what the `Comparable`
    impls call — is symmetric for sketches with the same `num` -/
theorem similarity_ignore_symm (c : Container) (a b : Sketch) (hnum : a.num = b.num) :
    similarityCore c a b true false = similarityCore c b a true false := by
  rw [similarity_calls, similarity_calls]
  simp [jaccardCore_symm c a b hnum]

end Sourmash.C05
