import Sourmash.Lemmas.LookupExact
import Sourmash.Lemmas.IndexExtend
import Sourmash.Lemmas.IndexReduce
/-! Property C07 — index lookups report exact overlaps: no false negatives or positives.
Property theorems only; helper lemmas live in `Sourmash/Lemmas/LookupCounter.lean`, `LookupExact.lean`.

A collection `C : Coll` is the list of the datasets' hash lists (dataset id = position; the record's
name stands behind the id); a sketch's hashes are duplicate-free (`Nodup`).  The specification
(`Spec/Index.lean`): `refCounter C Q` = `(i, |Q ∩ D_i|)` for the datasets with `|Q ∩ D_i| > 0`, ascending
in `i`; `refMatches cnt t` = the entries of a counter whose count is ≥ `t`. -/
namespace Sourmash.C07
open RevIdx

/-- T-linear_exact: `LinearIndex::counter_for_query` (per dataset the intersection size of the smaller
sketch against the larger, zeros omitted) is the exact overlap counter -/
theorem linear_exact (C : Coll) (Q : List Nat) (hq : Q.Nodup) (hc : ∀ D ∈ C, D.Nodup) :
    linearCounter C Q = refCounter C Q := by
  unfold linearCounter refCounter
  apply filterMap_congr_mem
  intro i hi
  have hi' : i < C.length := List.mem_range.mp hi
  have hD : (C.getD i []).Nodup := hc _ (by
    rw [List.getD_eq_getElem?_getD, List.getElem?_eq_getElem hi']
    exact List.getElem_mem hi')
  have e : (if Q.length > (C.getD i []).length then isectSize (C.getD i []) Q else isectSize Q (C.getD i []))
      = overlap Q (C.getD i []) := by
    split
    · exact overlap_comm hD hq
    · rfl
  simp only [e]
example : linearCounter [[1, 2, 3], [7], [2, 9]] [2, 3, 9] = [(0, 2), (2, 2)] := by decide

/-- T-disk_exact: given that the HASHES column family maps each query hash to exactly the datasets
containing it (which is what every build produces — property C09, `Sourmash.C09.disk_schedule_free`),
disk `counter_for_query` is the exact overlap counter -/
theorem disk_exact (c : ManyCodec) (db : Db) (C : Coll) (Q : List Nat)
    (hidx : ∀ h ∈ Q, lookupIds c (db.hashes h) = refIds C h) :
    diskCounter c db Q = refCounter C Q :=
  tally_exact C Q _ hidx

/-- T-disk_exact, closed: for an index produced by `RevIndex::create` under *any* schedule of the build
tasks and *any* grouping of the merge operands (the conclusion of C09's T-disk_schedule_free), under the
two recorded roaring assumptions -/
theorem disk_exact_of_create {c : ManyCodec} (hc : c.Lawful) (C : Coll) (hn : C.length ≤ 2 ^ 32)
    (choices : List Nat) (g : Grouping) (hg : GroupingOK g) (Q : List Nat) :
    diskCounter c (createDb c C choices g) Q = refCounter C Q := by
  apply disk_exact
  intro h _
  rw [createDb_eq]
  exact (build_from_scratch hc C hn _ (runSchedule_interleaving choices _) g hg).2.1 h
example : diskCounter listCodec (createDb listCodec [[1, 2], [2, 3]] [1, 1, 0] (fun _ ops => [ops.map MTree.leaf])) [2, 3]
    = [(0, 1), (1, 2)] := by decide

/-- T-mem_exact: given that the hash→colour→ids maps send each query hash to exactly the datasets
containing it (property C09, `mem_reduce`), mem `counter_for_query` is the exact overlap counter -/
theorem mem_exact (r : H2C × Colors) (C : Coll) (Q : List Nat)
    (hidx : ∀ h ∈ Q, memIds r h = refIds C h) :
    memCounter r Q = refCounter C Q :=
  tally_exact C Q (memIds r) hidx

/-- T-mem_exact, closed: for an in-memory index produced along *any* reduction tree over the collection's
datasets (the conclusion of C09's T-mem_reduce) -/
theorem mem_exact_of_tree (C : Coll) (t : RTree) (hperm : t.leaves.Perm (List.range C.length)) (Q : List Nat) :
    ∃ r, t.eval C = some r ∧ memCounter r Q = refCounter C Q := by
  obtain ⟨r, h1, h2, h3⟩ := RTree.eval_spec C t
  refine ⟨r, h1, mem_exact r C Q (fun h _ => ?_)⟩
  rw [memIds_eq_abs h2]
  apply eq_of_sorted_of_mem (sorted_abs h2 h) (sorted_refIds C h)
  intro x
  rw [h3 h x, mem_refIds, hperm.mem_iff, List.mem_range]

/-- the exact counter, entry by entry: dataset `i` is reported iff it shares a hash with the query, and
then with `|Q ∩ D_i|` -/
theorem counter_entries (C : Coll) (Q : List Nat) (e : Nat × Nat) :
    e ∈ refCounter C Q ↔ e.1 < C.length ∧ e.2 = overlap Q (C.getD e.1 []) ∧ overlap Q (C.getD e.1 []) ≠ 0 := by
  have : refCounter C Q = countsOver (List.range C.length) (fun i => overlap Q (C.getD i [])) := rfl
  rw [this, mem_countsOver, List.mem_range]

/-- T-threshold (disk `matches_from_counter`): a permutation of the entries meeting the threshold … -/
theorem matches_perm (cnt : List (Nat × Nat)) (t : Nat) :
    (matchesFromCounter cnt t).Perm (refMatches cnt t) :=
  (perm_mostCommon cnt).filter _

/-- … in non-increasing order of overlap (the order among equal overlaps is unspecified) -/
theorem matches_desc (cnt : List (Nat × Nat)) (t : Nat) : CountDesc (matchesFromCounter cnt t) :=
  List.Pairwise.filter _ (desc_mostCommon cnt)

/-- T-threshold (`LinearIndex::search`, mem `RevIndex::search`, the loop of `find_signatures`): walking
`most_common()` and breaking at the first entry below the threshold returns the same list -/
theorem search_eq_matches (cnt : List (Nat × Nat)) (t : Nat) :
    linearSearch cnt t = matchesFromCounter cnt t :=
  takeWhile_eq_filter t (desc_mostCommon cnt)
example : linearSearch [(0, 2), (1, 5), (2, 2), (3, 1)] 2 = [(1, 5), (0, 2), (2, 2)] := by decide

/-- T-threshold, combined with exactness: the search over an exact counter returns dataset `i` iff
`|Q ∩ D_i| ≥ t` (and > 0), with that overlap -/
theorem search_exact (C : Coll) (Q : List Nat) (t : Nat) (e : Nat × Nat) :
    e ∈ matchesFromCounter (refCounter C Q) t ↔
      e.1 < C.length ∧ e.2 = overlap Q (C.getD e.1 []) ∧ overlap Q (C.getD e.1 []) ≠ 0 ∧ t ≤ e.2 := by
  rw [(matches_perm _ t).mem_iff]
  simp only [refMatches, List.mem_filter, counter_entries, decide_eq_true_eq]
  constructor
  · rintro ⟨⟨a, b, c⟩, d⟩; exact ⟨a, b, c, d⟩
  · rintro ⟨a, b, c, d⟩; exact ⟨⟨a, b, c⟩, d⟩

/-- mem `find_signatures`: a fractional threshold `t = num / 2^k ≤ 1` never exceeds the query size -/
theorem find_threshold_le (num k size : Nat) (h : num ≤ 2 ^ k) : findThreshold num k size ≤ size := by
  unfold findThreshold
  apply Nat.div_le_of_le_mul
  exact Nat.mul_le_mul_right size h
example : findThreshold 1 1 7 = 3 := by decide

/-- T-linear_history: `LinearIndex::select` keeps exactly the datasets whose manifest row passes the
selection, in their old order (a dataset's id is its position among the survivors) and carries the
template over; a lookup on the narrowed index that does not panic (every remaining sketch compatible
with the template and the query) reports the exact overlaps with the remaining datasets.  By induction
the same holds after any succession of selects and lookups: the model's index has no other state. -/
theorem linear_select_exact (l l' : Lin) (sel : Sel) (q : Rec) (cnt : List (Nat × Nat))
    (hs : l.select sel = .ok l') (hc : l'.counter q = some cnt)
    (hq : q.hashes.Nodup) (hd : ∀ r ∈ l.recs, r.hashes.Nodup) :
    l'.recs = l.recs.filter (rowValid sel) ∧ l'.template = l.template ∧
      cnt = refCounter (l'.recs.map (·.hashes)) q.hashes := by
  have hl : l'.recs = l.recs.filter (rowValid sel) ∧ l'.template = l.template := by
    unfold Lin.select at hs
    simp only at hs
    split at hs
    · injection hs with hs; subst hs; exact ⟨rfl, rfl⟩
    · cases hs
  refine ⟨hl.1, hl.2, ?_⟩
  unfold Lin.counter at hc
  split at hc
  · injection hc with hc
    rw [← hc]
    apply linear_exact _ _ hq
    intro D hD
    obtain ⟨r, hr, rfl⟩ := List.mem_map.mp hD
    rw [hl.1] at hr
    exact hd r (List.mem_filter.mp hr).1
  · cases hc
example : (Lin.make [⟨0, 21, 0, false, 0, 9, 1, [1, 2]⟩, ⟨1, 21, 0, true, 0, 9, 1, [2, 3]⟩, ⟨2, 21, 0, true, 0, 9, 1, [3]⟩]).bind
    (fun l => match l.select { abund := some true } with
      | .ok l' => l'.counter ⟨0, 21, 0, false, 0, 9, 1, [2, 3]⟩
      | .error _ => none) = some [(0, 2), (1, 1)] := by decide

end Sourmash.C07
