import Sourmash.Lemmas.HLLHist
/-!
Property C18 — HyperLogLog cardinality and overlap estimates stay within their error bound.
**PARTIAL by design.**

What is proved here (all statements are about the integer / rational bookkeeping of
`estimators.rs` as transcribed in `Model/HLL.lean` and the `…G` functions of `Model/HLLFloat.lean`,
universally quantified over the secant iteration `iter`, i.e. independent of floating point):

* T-empty       an all-zero sketch takes the `counts[0] == m` return: the estimate is exactly 0;
* T-counts      `counts` is the register histogram, adds up to 2^p, and every multiplicity fits the
                integer width (`u8` / `u16` / `u32`) chosen for that p;
* T-joint_hist  the five histograms `joint_mle_dispatch` hands to `mle` are the ones it is meant to
                build (A's, B's, the merged sketch's, and the two "half" histograms), with no
                underflow in `half[q] -= …`;
* T-consistent  union / intersection / similarity / containment are all functions of one
                `joint_mle` triple: union = onlyA + onlyB + inter, similarity = inter / union,
                containment = inter / (onlyA + inter).

What is **not decided by proof**: that the estimate lies within a multiple of 1.04/√m of the true
cardinality (and the corresponding statement for the overlap estimates).  That is a probabilistic
statement about an estimator evaluated in binary64 (`log2`, `ln`, `sqrt`, a data-dependent secant
iteration); Lean's `Float` is opaque to the kernel and no theorem below mentions the iteration
(`Hll.F.mleLoop`, a `partial def`).  The bound is used only as a run-time oracle: `./check C18`
feeds deterministic sample sets (splitmix64 of consecutive integers; n from 0 to 64·m; disjoint /
partial / nested / identical overlaps; every p in 4..18) to the real crate and checks a 6σ+1 window,
while the Float transcription of the estimator is compared bit for bit with the crate's answer.
-/
namespace Sourmash.C18
open Hll

/-! ## T-empty -/

/-- T-empty (histogram): a sketch whose registers are all zero has `counts[0] = m`. -/
theorem empty_counts (regs : Array UInt8) (q : Nat) (hz : ∀ r ∈ regs.toList, r = 0) :
    (counts regs q)[0]! = regs.size := by
  rw [counts_get regs q 0 (by omega), hist_map_toNat, List.countP_eq_length.2]
  · simp
  · intro r hr; simp [hz r hr]
example : (counts (H.empty 4 21).regs 60)[0]! = (H.empty 4 21).regs.size :=
  empty_counts _ _ (by simp [H.empty])

/-- T-empty: for every sketch with 2^p registers, all zero, `mle` returns through
    `if counts[0] == m { return 0.0 }`, so `cardinality()` is exactly 0 — whatever the iteration. -/
theorem empty_estimate_zero (iter : Iter) (s : H) (hs : s.regs.size = 2 ^ s.p)
    (hz : ∀ r ∈ s.regs.toList, r = 0) :
    mleCase (counts s.regs s.q) s.p s.q = .zero ∧
    cardinalityG iter s = 0 ∧
    (∀ relerr, mleG iter (counts s.regs s.q) s.p s.q relerr = 0.0) := by
  have hc : mleCase (counts s.regs s.q) s.p s.q = .zero :=
    (mleCase_zero_iff _ _ _).2 (by rw [empty_counts _ _ hz, hs])
  refine ⟨hc, ?_, ?_⟩
  · unfold cardinalityG; simp only; rw [hc]
  · intro r; unfold mleG; rw [hc]

example : mleCase (counts (H.empty 5 31).regs (H.empty 5 31).q) 5 (H.empty 5 31).q = .zero :=
  (empty_estimate_zero (fun _ _ _ _ => 7.0) (H.empty 5 31) (by simp [H.empty]) (by simp [H.empty])).1

/-- T-empty for `new(p, k)`. -/
theorem new_estimate_zero (iter : Iter) (p k : Nat) : cardinalityG iter (H.empty p k) = 0 :=
  (empty_estimate_zero iter (H.empty p k) (by simp [H.empty]) (by simp [H.empty])).2.1
example : cardinalityG (fun _ _ _ _ => 1.0) (H.empty 4 21) = 0 := new_estimate_zero _ 4 21

/-- T-empty (converse): only then — with a non-zero register the `counts[0] == m` return is not taken. -/
theorem nonempty_not_zero_case (s : H) (hs : s.regs.size = 2 ^ s.p) (r : UInt8)
    (hr : r ∈ s.regs.toList) (hnz : r ≠ 0) : mleCase (counts s.regs s.q) s.p s.q ≠ .zero := by
  intro hc
  rw [mleCase_zero_iff, counts_get _ _ 0 (by omega), hist_map_toNat, ← hs] at hc
  have hl : s.regs.toList.length = s.regs.size := by simp
  rw [← hl, List.countP_eq_length] at hc
  have := hc r hr
  simp at this
  exact hnz (UInt8.toNat_inj.1 (by simpa using this))

example : mleCase (counts (H.mk 1 63 21 #[0, 3]).regs 63) 1 63 ≠ .zero :=
  nonempty_not_zero_case (H.mk 1 63 21 #[0, 3]) (by decide) 3 (by simp) (by decide)

/-! ## T-counts -/

/-- T-counts (histogram): cell `k` of `counts` is the number of registers equal to `k`. -/
theorem counts_hist (regs : Array UInt8) (q k : Nat) (hk : k < q + 2) :
    (counts regs q).size = q + 2 ∧
    (counts regs q)[k]! = HllSpec.hist (regs.toList.map (·.toNat)) k :=
  ⟨size_counts regs q, counts_get regs q k hk⟩
example : (counts #[0, 3, 3, 1] 2)[3]! = HllSpec.hist [0, 3, 3, 1] 3 := (counts_hist _ 2 3 (by decide)).2

/-- Registers of a well-formed sketch built from 64-bit hashes never exceed q+1, so `counts[*k]`
    stays inside its `q + 2` cells (`Bounded` is preserved by `add_hash` and `merge`). -/
theorem registers_bounded (p k : Nat) (hs : List Nat) (h1 : 4 ≤ p) (h2 : p ≤ 18)
    (h64 : ∀ h ∈ hs, h < 2 ^ 64) :
    Bounded (sketch p k hs) ∧
    (∀ b c, Bounded b → (sketch p k hs).q = b.q → (sketch p k hs).merge b = .ok c → Bounded c) :=
  ⟨(Bounded.empty p k).addMany (WF.empty p k h1 h2) hs h64,
   fun _ _ bb hq hm => ((Bounded.empty p k).addMany (WF.empty p k h1 h2) hs h64).merge bb hq hm⟩
example : Bounded (sketch 4 21 [0, 5]) := (registers_bounded 4 21 _ (by decide) (by decide) (by decide)).1

/-- T-counts (total): for a well-formed sketch with registers ≤ q+1 the histogram adds up to 2^p. -/
theorem counts_total {s : H} (w : WF s) (b : Bounded s) :
    ((List.range (s.q + 2)).map (fun k => (counts s.regs s.q)[k]!)).sum = 2 ^ s.p := by
  rw [counts_sum s.regs s.q b.mem, w.size_eq]
example : ((List.range (60 + 2)).map (fun k => (counts (sketch 4 21 [0, 5]).regs 60)[k]!)).sum = 2 ^ 4 :=
  counts_total (s := sketch 4 21 [0, 5]) (sketch_wf 4 21 _ (by decide) (by decide))
    (registers_bounded 4 21 _ (by decide) (by decide) (by decide)).1

/-- T-counts (width): every multiplicity, and `m = 1 << p` itself, fits the integer type chosen for
    that precision — `u8` for p < 8, `u16` for p < 16, `u32` for p ≤ 18: no `+= 1` overflows. -/
theorem counts_fit {s : H} (w : WF s) (k : Nat) :
    (counts s.regs s.q)[k]! ≤ 2 ^ s.p ∧ 2 ^ s.p < multWidth s.p := by
  constructor
  · have := counts_le s.regs s.q k; rw [w.size_eq] at this; exact this
  · unfold multWidth
    have h1 := w.p_lo; have h2 := w.p_hi
    split
    · exact Nat.lt_of_le_of_lt (Nat.pow_le_pow_right (by omega) (by omega : s.p ≤ 7)) (by decide)
    · split
      · exact Nat.lt_of_le_of_lt (Nat.pow_le_pow_right (by omega) (by omega : s.p ≤ 15)) (by decide)
      · exact Nat.lt_of_le_of_lt (Nat.pow_le_pow_right (by omega) (by omega : s.p ≤ 18)) (by decide)
example : (counts (H.empty 7 21).regs 57)[0]! ≤ 2 ^ 7 ∧ 2 ^ 7 < multWidth 7 :=
  counts_fit (s := H.empty 7 21) (WF.empty 7 21 (by decide) (by decide)) 0

/-! ## T-joint_hist -/

/-- T-joint_hist (A, B): after `c1[i] += cg1[i] + ceq[i]` (resp. `c2`) the first two histograms are
    the register histograms of A and of B. -/
theorem joint_hist_ab (k1 k2 : Array UInt8) (q : Nat) (hs : k1.size = k2.size) :
    (five k1 k2 q).c1 = counts k1 q ∧ (five k1 k2 q).c2 = counts k2 q :=
  ⟨five_c1 k1 k2 q hs, five_c2 k1 k2 q hs⟩
example : (five #[1, 2] #[2, 0] 3).c1 = counts #[1, 2] 3 := (joint_hist_ab #[1, 2] #[2, 0] 3 (by simp)).1

/-- T-joint_hist (union): `cu` is the histogram of the merged sketch, so `c_abx` is the estimate of
    `merge a b` at relerr 0.01. -/
theorem joint_hist_union (iter : Iter) {a b m : H} (h : a.merge b = .ok m) (q : Nat) :
    (five a.regs b.regs q).cu = counts m.regs q ∧
    mleG iter (five a.regs b.regs q).cu a.p q 0.01 = mleG iter (counts m.regs q) m.p q 0.01 := by
  obtain ⟨_, _, rfl⟩ := (merge_ok_iff a b m).1 h
  have := five_cu a.regs b.regs q
  exact ⟨this, by rw [this]⟩
example : (five (sketch 4 21 [1]).regs (sketch 4 21 [2]).regs 60).cu = counts (sketch 4 21 [1, 2]).regs 60 :=
  (joint_hist_union (fun _ _ _ _ => 0.0) (sketch_merge 4 21 [1] [2]) 60).1

/-- T-joint_hist (halves): cell `i < q` of `counts_axb_half` counts the positions where A's register
    is `i` and ≥ B's, or B's is `i+1` and > A's; cell `q` is what is left of `k1.len()`; the running
    subtraction never underflows.  Symmetrically for `counts_bxa_half`. -/
theorem joint_hist_halves (k1 k2 : Array UInt8) (q : Nat) :
    (∀ i, i < q → (five k1 k2 q).axbHalf[i]! = HllSpec.halfCell (natPairs k1 k2) i) ∧
    (five k1 k2 q).axbHalf[q]! = k1.size - ((List.range q).map (HllSpec.halfCell (natPairs k1 k2))).sum ∧
    ((List.range q).map (HllSpec.halfCell (natPairs k1 k2))).sum ≤ k1.size ∧
    (∀ i, i < q → (five k1 k2 q).bxaHalf[i]! = HllSpec.halfCell (HllSpec.swap (natPairs k1 k2)) i) ∧
    (five k1 k2 q).bxaHalf[q]! =
      k2.size - ((List.range q).map (HllSpec.halfCell (HllSpec.swap (natPairs k1 k2)))).sum ∧
    ((List.range q).map (HllSpec.halfCell (HllSpec.swap (natPairs k1 k2)))).sum ≤ k2.size := by
  refine ⟨five_axbHalf_cell k1 k2 q, five_axbHalf_top k1 k2 q, ?_, five_bxaHalf_cell k1 k2 q,
    five_bxaHalf_top k1 k2 q, ?_⟩
  · have := halfCell_sum_le (natPairs k1 k2) q
    rw [natPairs_length] at this; omega
  · have := halfCell_sum_le (HllSpec.swap (natPairs k1 k2)) q
    have hl : (HllSpec.swap (natPairs k1 k2)).length = (natPairs k1 k2).length := by
      simp [HllSpec.swap]
    rw [hl, natPairs_length] at this; omega

/-! ## T-consistent -/

/-- T-consistent: `union`, `intersection`, `similarity` and `containment` are all read off one
    `joint_mle` triple (onlyA, onlyB, inter): union = onlyA + onlyB + inter, similarity = inter /
    union, containment = inter / (onlyA + inter), as integer numerators and denominators. -/
theorem overlap_consistent (iter : Iter) (a b : H) :
    let t := tripleG iter a b
    unionG iter a b = t.1 + t.2.1 + t.2.2 ∧
    intersectionG iter a b = t.2.2 ∧
    similarityFrac iter a b = (intersectionG iter a b, unionG iter a b) ∧
    containmentFrac iter a b = (intersectionG iter a b, t.1 + intersectionG iter a b) ∧
    similarityG iter a b = ratio (similarityFrac iter a b) ∧
    containmentG iter a b = ratio (containmentFrac iter a b) :=
  ⟨rfl, rfl, rfl, rfl, rfl, rfl⟩

/-- T-consistent (order): numerators never exceed denominators, and containment's denominator
    never exceeds similarity's: intersection ≤ onlyA + intersection ≤ union. -/
theorem overlap_ordered (iter : Iter) (a b : H) :
    (similarityFrac iter a b).1 ≤ (similarityFrac iter a b).2 ∧
    (containmentFrac iter a b).1 ≤ (containmentFrac iter a b).2 ∧
    (containmentFrac iter a b).2 ≤ (similarityFrac iter a b).2 ∧
    intersectionG iter a b ≤ unionG iter a b := by
  simp only [similarityFrac, containmentFrac, intersectionG, unionG]
  omega

end Sourmash.C18
