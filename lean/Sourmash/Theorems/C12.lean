import Sourmash.Lemmas.Select
import Sourmash.Lemmas.Csv
import Sourmash.Lemmas.Lookup
/-! Property C12 — manifests describe their sketches faithfully and round-trip through CSV.
Property theorems only; helper lemmas live in `Sourmash/Lemmas/Csv*.lean`, `Lemmas/Lookup.lean`. -/
namespace Sourmash.C12
open Select Scaled Manifest

/-! ## T-record_faithful -/

/-- "Every manifest record built from a signature reports that sketch's md5, ksize (in residues for
    the protein family), molecule type, num, scaled, hash count, abundance flag … and filename
    exactly": one record per sketch, in order, and each field is the sketch's observable. -/
theorem record_faithful (md5of : Sketch → Bytes) (sg : Sig) (path : Bytes) (recs : List Record)
    (h : fromSig md5of sg path = some recs) :
    recs.length = sg.sketches.length ∧
    ∀ i (hr : i < recs.length) (hs : i < sg.sketches.length),
      let r := recs[i]; let s := sg.sketches[i]
      r.internalLocation = path ∧ r.md5 = md5of s ∧ r.md5short = (md5of s).take 8 ∧
      r.ksize = (if s.mol.proteinFamily then s.ksize / 3 else s.ksize) ∧
      r.moltype = s.mol.name ∧ r.mol? = some s.mol ∧
      r.num = s.num ∧ r.scaled = s.scaled ∧ r.nHashes = s.mins.length ∧
      r.withAbundance = s.tracked ∧ r.filename = sg.filename.getD [] := by
  unfold fromSig at h
  split at h
  · cases h; rename_i h0; simp [h0]
  · split at h
    · cases h
    · cases h
      refine ⟨by simp, ?_⟩
      intro i hr hs
      simp only [List.getElem_map, mkRecord, Record.mol?, Mol.parse_name, Sketch.size, Sig.filenameStr,
        true_and]
      cases sg.filename <;> rfl
example : fromSig (fun _ => []) ⟨some [120], none, [default]⟩ [] ≠ none := by decide

/-- "… name …": the name fallback chain `name → filename → md5` (the last step only for a signature
    with exactly one sketch; with another number of sketches `Signature::name` panics and so does
    `Record::from_sig` — `fromSig = none`). -/
theorem record_name (md5of : Sketch → Bytes) (sg : Sig) (path : Bytes) (recs : List Record)
    (h : fromSig md5of sg path = some recs) (r : Record) (hr : r ∈ recs) :
    (∀ n, sg.name = some n → r.name = n) ∧
    (∀ f, sg.name = none → sg.filename = some f → r.name = f) ∧
    (sg.name = none → sg.filename = none → ∃ s, sg.sketches = [s] ∧ r.name = md5of s) := by
  unfold fromSig at h
  split at h
  · cases h; cases hr
  · split at h
    · cases h
    · rename_i nm hnm
      cases h
      obtain ⟨s, _, rfl⟩ := List.mem_map.1 hr
      simp only [mkRecord]
      unfold Sig.name? at hnm
      refine ⟨?_, ?_, ?_⟩
      · intro n hn; rw [hn] at hnm; cases hnm; rfl
      · intro f h1 h2; rw [h1, h2] at hnm; cases hnm; rfl
      · intro h1 h2
        rw [h1, h2] at hnm
        cases hsk : sg.sketches with
        | nil => simp [Sig.md5sum?, hsk] at hnm
        | cons a l =>
          cases l with
          | nil =>
            simp only [Sig.md5sum?, hsk, Option.some.injEq] at hnm
            exact ⟨a, rfl, hnm.symm⟩
          | cons b l' => simp [Sig.md5sum?, hsk] at hnm
example : fromSig (fun _ => [97]) ⟨none, none, [default]⟩ [] =
    some [mkRecord (fun _ => [97]) [97] [] [] default] := by decide

/-- the panic the chain ends in: no name, no filename, and not exactly one sketch -/
theorem record_name_panics (md5of : Sketch → Bytes) (s t : Sketch) (rest : List Sketch) (path : Bytes) :
    fromSig md5of ⟨none, none, s :: t :: rest⟩ path = none := rfl

/-! ## T-csv_roundtrip -/

/-- "writing a manifest to CSV and reading it back preserves every record whatever characters names
    and paths contain": for **arbitrary byte strings** in the seven string fields (commas, quotes,
    CR, LF, leading `#`, anything) `from_reader (to_writer m) = Ok m`.  The only hypothesis is that
    the integer fields fit their Rust types (`ksize`, `num` : u32; `scaled`, `n_hashes` : u64). -/
theorem csv_roundtrip (m : List Record)
    (hfit : ∀ r ∈ m, r.ksize < u32 ∧ r.num < u32 ∧ r.scaled < u64 ∧ r.nHashes < u64) :
    fromReader (toWriter m) = some m :=
  Manifest.roundtrip m hfit
example : (∀ r ∈ [(default : Record)], r.ksize < u32 ∧ r.num < u32 ∧ r.scaled < u64 ∧ r.nHashes < u64) := by
  decide

/-- byte level: whatever the fields are (any number ≥ 1 per row, any bytes), the reader recovers the
    header and the rows the writer wrote -/
theorem csv_table_roundtrip (rows : List (List Csv.Bytes)) (hne : ∀ r ∈ rows, r ≠ []) (h0 : rows ≠ []) :
    Csv.parse (Csv.writeManifest rows) = Csv.header :: rows :=
  Csv.parse_writeManifest rows hne h0

/-- the writer before the repair (no comment byte configured: `#` not quoted) lost a row whose
    location starts with `#`: the reader takes the line for a comment -/
theorem csv_hash_cex_old_writer :
    Csv.parse ([35, 120] ++ [44, 97, 10]) = [] := by decide

/-! ## T-intersect -/

/-- "intersecting manifests keeps exactly the common records": a row of `a` is kept iff some row of
    `b` equals it in every field except `internal_location` (and the derived `md5short`), the
    molecule column compared without regard to letter case … -/
theorem intersect_mem (a b : List Record) (r : Record) :
    r ∈ intersect a b ↔ r ∈ a ∧ ∃ q ∈ b, recEq r q = true := by
  unfold intersect
  rw [List.mem_filter, List.any_eq_true]

/-- … in the order of `a` -/
theorem intersect_sublist (a b : List Record) : (intersect a b).Sublist a := List.filter_sublist

/-- `recEq` is equality of the nine compared fields, the molecule column modulo ASCII letter case -/
theorem recEq_iff (a b : Record) :
    recEq a b = true ↔
      a.md5 = b.md5 ∧ a.ksize = b.ksize ∧ a.moltype.map asciiLower = b.moltype.map asciiLower ∧
      a.scaled = b.scaled ∧ a.num = b.num ∧
      a.nHashes = b.nHashes ∧ a.withAbundance = b.withAbundance ∧ a.name = b.name ∧ a.filename = b.filename := by
  simp [recEq, eqIgnoreAsciiCase, and_assoc]

/-- `Hash for Record` agrees with `PartialEq for Record`: two records are equal iff they feed the
    hasher the same key — so the `HashSet` look-up of `intersect_manifest` is "some row is `==`", and
    record equality is an equivalence relation -/
theorem recEq_iff_key (a b : Record) : recEq a b = true ↔ recKey a = recKey b := by
  rw [recEq_iff]
  simp [recKey, Prod.ext_iff]

/-- records that are equal name the same molecule type: `Record::moltype()` lower-cases before it
    matches, so it parses both to the same value, or panics on both -/
theorem recEq_mol (a b : Record) (h : recEq a b = true) : a.mol? = b.mol? := by
  have hm := ((recEq_iff a b).1 h).2.2.1
  simp only [Record.mol?, Mol.parse, hm]
/-- rows spelled "DNA" and "dna" are equal records, and both name `.dna` -/
example : recEq { (default : Record) with moltype := [68, 78, 65], internalLocation := [97] }
                { (default : Record) with moltype := [100, 110, 97], internalLocation := [98] } = true ∧
          ({ (default : Record) with moltype := [100, 110, 97] } : Record).mol? = some .dna := by
  decide

/-- a manifest intersected with itself is itself -/
theorem intersect_self (a : List Record) : intersect a a = a := by
  unfold intersect
  rw [List.filter_eq_self]
  intro r hr
  rw [List.any_eq_true]
  exact ⟨r, hr, (recEq_iff r r).2 ⟨rfl, rfl, rfl, rfl, rfl, rfl, rfl, rfl, rfl⟩⟩

/-- equality looks at neither `internal_location` nor the derived `md5short` … -/
theorem recEq_ignores_location (a b : Record) (loc short : Bytes) :
    recEq { a with internalLocation := loc, md5short := short } b = recEq a b ∧
    recEq a { b with internalLocation := loc, md5short := short } = recEq a b := ⟨rfl, rfl⟩

/-- … and at every other column: two records that differ in any one of md5, ksize, moltype (by more
    than the letter case), scaled, num, n_hashes, with_abundance, name, filename are different records
    (so a record and its "flattened" twin, which differ in `with_abundance` only, are not common to
    two manifests) -/
theorem recEq_false_of_ne (a b : Record)
    (h : a.md5 ≠ b.md5 ∨ a.ksize ≠ b.ksize ∨ a.moltype.map asciiLower ≠ b.moltype.map asciiLower ∨ a.scaled ≠ b.scaled ∨ a.num ≠ b.num ∨
      a.nHashes ≠ b.nHashes ∨ a.withAbundance ≠ b.withAbundance ∨ a.name ≠ b.name ∨ a.filename ≠ b.filename) :
    recEq a b = false := by
  cases hr : recEq a b with
  | false => rfl
  | true =>
    obtain ⟨h1, h2, h3, h4, h5, h6, h7, h8, h9⟩ := (recEq_iff a b).1 hr
    rcases h with h | h | h | h | h | h | h | h | h <;> contradiction
example : (default : Record).withAbundance ≠ ({ (default : Record) with withAbundance := true }).withAbundance := by
  decide

/-- `Collection::check_superset` accepts iff the rows agree pairwise (equal modulo location) on the
    common prefix of the two manifests, and then reports the length of the first -/
theorem superset_iff (a b : List Record) (n : Nat) :
    checkSuperset a b = some n ↔ (∀ p ∈ a.zip b, recEq p.1 p.2 = true) ∧ n = a.length := by
  unfold checkSuperset
  by_cases h : (a.zip b).all (fun p => recEq p.1 p.2) = true
  · rw [if_pos h]
    rw [List.all_eq_true] at h
    constructor
    · intro e; cases e; exact ⟨h, rfl⟩
    · rintro ⟨_, rfl⟩; rfl
  · rw [if_neg h]
    rw [List.all_eq_true] at h
    constructor
    · intro e; cases e
    · rintro ⟨h', _⟩; exact absurd h' h
example : checkSuperset [default] [default, default] = some 1 := by decide

/-! ## T-lookup -/

/-- "For every record of a collection, loading the record returns exactly one sketch, and it is the
    sketch the record describes": for `Collection::from_sigs sigs`, `sig_for_dataset i` returns the
    signature the record came from, reduced to the one sketch record `i` was built from — **provided**
    that inside each signature no two sketches agree on (ksize in residues, molecule type, abundance
    flag) and protein-family ksizes are multiples of 3.  Without the first hypothesis the code panics
    (`lookup_collision`), which is recorded as a known finding. -/
theorem lookup (md5of : Sketch → Bytes) (sigs : List Sig) (c : Collection)
    (hc : Collection.fromSigs md5of sigs = some c)
    (hk : ∀ sg ∈ sigs, ∀ s ∈ sg.sketches, s.mol.proteinFamily = true → s.ksize % 3 = 0)
    (hd : ∀ sg ∈ sigs, sg.sketches.Pairwise (fun s t => lookupKey s ≠ lookupKey t))
    (i : Nat) (hi : i < c.manifest.length) :
    ∃ sg ∈ sigs, ∃ s ∈ sg.sketches,
      c.sigForDataset i = some (.ok { sg with sketches := [s] }) ∧
      ∃ nm, c.manifest[i] = mkRecord md5of nm sg.filenameStr c.manifest[i].internalLocation s :=
  Select.lookup_ok md5of sigs c hc hk hd i hi

/-- non-vacuity: a two-signature collection (DNA k=21 + protein k=7 in one signature, a tracked DNA
    k=31 sketch in the other) satisfies the hypotheses, `from_sigs` succeeds, and looking up row 1
    returns the protein sketch alone -/
example :
    (∀ sg ∈ [(⟨some [120], none, [⟨21, .dna, 0, 0, false, .vec, 1000, [5], []⟩,
                                   ⟨21, .protein, 0, 0, false, .tree, 1001, [5, 7], []⟩]⟩ : Sig),
             ⟨none, some [121], [⟨31, .dna, 500, 0, true, .vec, 1000, [9], [2]⟩]⟩],
      sg.sketches.Pairwise (fun s t => lookupKey s ≠ lookupKey t)) ∧
    ((Collection.fromSigs (fun _ => [])
        [⟨some [120], none, [⟨21, .dna, 0, 0, false, .vec, 1000, [5], []⟩,
                              ⟨21, .protein, 0, 0, false, .tree, 1001, [5, 7], []⟩]⟩,
         ⟨none, some [121], [⟨31, .dna, 500, 0, true, .vec, 1000, [9], [2]⟩]⟩]).bind
      (fun c => c.sigForDataset 1)).map (fun r => r.toOption.map (fun g => g.sketches.map (·.mol))) =
      some (some [.protein]) := by
  decide

/-- the residue after the repair: when a second sketch of the signature agrees with the record's
    sketch on (ksize, molecule type, abundance) — e.g. they differ only in num / scaled, which
    `Selection::from_record` does not carry — both survive the select and `sig_from_record` /
    `sig_for_dataset` panic on `assert_eq!(sig.signatures.len(), 1)`.  Recorded as a known finding
    (corpus/C12/known-lookup-collision.ops). -/
theorem lookup_collision (md5of : Sketch → Bytes) (nm fn path : Bytes) (c : Collection) (sg : Sig)
    (s : Sketch) (hk : ∀ t ∈ sg.sketches, t.mol.proteinFamily = true → t.ksize % 3 = 0)
    (hl : loadSig c.storage path = some sg)
    (hcount : (sg.sketches.filter (fun t => decide (lookupKey t = lookupKey s))).length ≠ 1) :
    c.sigFromRecord (mkRecord md5of nm fn path s) = none :=
  Select.sigFromRecord_panics md5of nm fn path c sg s hk hl hcount
/-- … a DNA k=21 scaled=1000 sketch next to a DNA k=21 num=500 sketch is such a pair -/
example :
    ([(⟨21, .dna, 0, maxHashForScaled 1000, false, .vec, 1000, [5], []⟩ : Sketch),
      ⟨21, .dna, 500, 0, false, .vec, 1001, [5, 7], []⟩].filter
        (fun t => decide (lookupKey t = lookupKey ⟨21, .dna, 0, maxHashForScaled 1000, false, .vec, 1000, [5], []⟩))).length ≠ 1 := by
  decide

/-! ## T-lookup_history : look-ups after the manifest was narrowed down -/

/-- "For every record of a collection, loading the record returns … the sketch the record
    describes" — for the collection as it is NOW: whatever rows of the original manifest are left, in
    whatever order (`intersect_manifest`, `select`, any sequence of them: the storage is untouched and
    the manifest is replaced by rows of the old one), `sig_for_dataset i` looks at the `i`-th row that
    is left and returns the one sketch THAT row was built from.  Nothing remembered from earlier
    look-ups enters.  Hypotheses as for `lookup`. -/
theorem lookup_history (md5of : Sketch → Bytes) (sigs : List Sig) (c : Collection)
    (hc : Collection.fromSigs md5of sigs = some c)
    (hk : ∀ sg ∈ sigs, ∀ s ∈ sg.sketches, s.mol.proteinFamily = true → s.ksize % 3 = 0)
    (hd : ∀ sg ∈ sigs, sg.sketches.Pairwise (fun s t => lookupKey s ≠ lookupKey t))
    (m' : List Record) (hsub : ∀ r ∈ m', r ∈ c.manifest)
    (i : Nat) (hi : i < m'.length) :
    ∃ sg ∈ sigs, ∃ s ∈ sg.sketches,
      ({ c with manifest := m' } : Collection).sigForDataset i = some (.ok { sg with sketches := [s] }) ∧
      ∃ nm, m'[i] = mkRecord md5of nm sg.filenameStr m'[i].internalLocation s := by
  obtain ⟨j, hj, hjr⟩ := List.mem_iff_getElem.1 (hsub m'[i] (List.getElem_mem hi))
  obtain ⟨sg, hsg, s, hs, hload, nm, hrec⟩ := lookup md5of sigs c hc hk hd j hj
  refine ⟨sg, hsg, s, hs, ?_, nm, ?_⟩
  · have h1 : c.sigForDataset j = c.sigFromRecord c.manifest[j] := by
      simp [Collection.sigForDataset, List.getElem?_eq_getElem hj]
    have h2 : ({ c with manifest := m' } : Collection).sigForDataset i = c.sigFromRecord m'[i] := by
      simp [Collection.sigForDataset, List.getElem?_eq_getElem hi, Collection.sigFromRecord]
    rw [h2, ← hjr, ← h1, hload]
  · rw [← hjr]; exact hrec

/-- after `Collection::intersect_manifest` … -/
theorem lookup_after_intersect (md5of : Sketch → Bytes) (sigs : List Sig) (c : Collection)
    (hc : Collection.fromSigs md5of sigs = some c)
    (hk : ∀ sg ∈ sigs, ∀ s ∈ sg.sketches, s.mol.proteinFamily = true → s.ksize % 3 = 0)
    (hd : ∀ sg ∈ sigs, sg.sketches.Pairwise (fun s t => lookupKey s ≠ lookupKey t))
    (other : List Record) (i : Nat) (hi : i < (intersect c.manifest other).length) :
    ∃ sg ∈ sigs, ∃ s ∈ sg.sketches,
      ({ c with manifest := intersect c.manifest other } : Collection).sigForDataset i =
        some (.ok { sg with sketches := [s] }) ∧
      ∃ nm, (intersect c.manifest other)[i] =
        mkRecord md5of nm sg.filenameStr (intersect c.manifest other)[i].internalLocation s :=
  lookup_history md5of sigs c hc hk hd _ (fun _ hr => (List.mem_filter.1 hr).1) i hi

/-- … and after `Collection::select` -/
theorem lookup_after_select (md5of : Sketch → Bytes) (sigs : List Sig) (c : Collection)
    (hc : Collection.fromSigs md5of sigs = some c)
    (hk : ∀ sg ∈ sigs, ∀ s ∈ sg.sketches, s.mol.proteinFamily = true → s.ksize % 3 = 0)
    (hd : ∀ sg ∈ sigs, sg.sketches.Pairwise (fun s t => lookupKey s ≠ lookupKey t))
    (sel : Selection) (i : Nat) (hi : i < (c.select sel).manifest.length) :
    ∃ sg ∈ sigs, ∃ s ∈ sg.sketches,
      (c.select sel).sigForDataset i = some (.ok { sg with sketches := [s] }) ∧
      ∃ nm, (c.select sel).manifest[i] =
        mkRecord md5of nm sg.filenameStr (c.select sel).manifest[i].internalLocation s :=
  lookup_history md5of sigs c hc hk hd _ (fun _ hr => (List.mem_filter.1 hr).1) i hi

/-- non-vacuity: three one-sketch signatures; after intersecting with a manifest that holds rows 1
    and 2 only, dataset 0 is the former row 1 and loading it returns ITS sketch (hash 7) -/
example :
    ((Collection.fromSigs (fun s => s.mins.map UInt8.ofNat)
        [⟨some [97], none, [⟨21, .dna, 0, 0, false, .vec, 1000, [5], []⟩]⟩,
         ⟨some [98], none, [⟨21, .dna, 0, 0, false, .vec, 1000, [7], []⟩]⟩,
         ⟨some [99], none, [⟨21, .dna, 0, 0, false, .vec, 1000, [9], []⟩]⟩]).bind
      (fun c => ({ c with manifest := intersect c.manifest (c.manifest.drop 1) } : Collection).sigForDataset 0)).map
        (fun r => r.toOption.map (fun g => g.sketches.map (·.mins))) = some (some [[7]]) := by
  decide

end Sourmash.C12
