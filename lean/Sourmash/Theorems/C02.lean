import Sourmash.Lemmas.SeqTables
import Sourmash.Lemmas.SeqRevcomp
/-! Property C02 — sequence k-mers hash to the documented canonical values in every mode.
Property theorems only; helper lemmas live in `Sourmash/Lemmas/Seq*.lean`.

`Seq.*` is the model of the Rust code (tables regenerated from /repo on every run: `Gen.C02.*`),
`Kmers.*` the documentation-level specification (`Spec/Kmers.lean`). -/
namespace Sourmash.C02
open Seq

/-! ## the tables in the source are the documented ones -/

/-- the byte codes of the specification's genetic code are the customary 64-letter TCAG string -/
example : Kmers.aaCodes = Kmers.aaString.toList.map Char.toNat := by decide

/-- T-codon_table (a): on all 64 ACGT codons the generated `CODONTABLE` is the standard genetic code -/
theorem codon_table_acgt :
    ∀ a ∈ Tables.bases, ∀ b ∈ Tables.bases, ∀ c ∈ Tables.bases,
      lookupCodon Gen.C02.codonTable a b c = some (Kmers.codonCode a b c) := by
  decide +kernel

/-- T-codon_table (b): on the 16 `xyN` codons it is the wobble rule — the common amino acid of the
    four completions when they agree, otherwise no entry (→ X) -/
theorem codon_table_wobble :
    ∀ a ∈ Tables.bases, ∀ b ∈ Tables.bases,
      (lookupCodon Gen.C02.codonTable a b 78).getD 88 = Kmers.codonCode a b 78 := by
  decide +kernel

/-- T-codon_table (c): the table has 72 entries, none outside those 80 keys: `translate_codon` of a
    3-byte input is the standard code with the wobble rule, X for everything else — on all 2^24 inputs -/
theorem codon_table (a b c : UInt8) : codon3 a b c = Kmers.codon a b c := Tables.codon3_eq a b c

/-- the translator counted the non-X inputs among all 2^24: exactly the 64 + 8 of the standard code -/
theorem codon_table_size : Gen.C02.codonNonX = 72 ∧ Gen.C02.codonTable.length = 72 := by decide

/-- T-dayhoff: `aa_to_dayhoff` is the documented Dayhoff classes on all 256 bytes -/
theorem dayhoff_table (b : UInt8) : dayhoff b = Kmers.dayhoff b := Tables.dayhoff_eq b

/-- T-hp: `aa_to_hp` is the documented hydrophobic/polar classes on all 256 bytes -/
theorem hp_table (b : UInt8) : hp b = Kmers.hp b := Tables.hp_eq b

/-- T-complement: `COMPLEMENT` is A↔T, C↔G, N→N (0 for every other byte), on all 256 bytes -/
theorem complement_table (b : UInt8) : complement b = Kmers.comp b := Tables.complement_eq b

/-- T-valid: `VALID` is exactly {A, C, G, T}, on all 256 bytes -/
theorem valid_table (b : UInt8) : valid b = Kmers.isACGT b := Tables.valid_eq b

/-- hence `revcomp` is the reverse complement of the specification -/
theorem revcomp_spec (s : List UInt8) : revcomp s = Kmers.revcomp s := Tables.revcomp_eq s

/-! ## DNA sketches, DNA input -/

/-- T-dna_stream.  For every byte sequence, every k ≥ 1, seed and force flag, the items that
    iterating `SeqToHashes.next` yields — up to the end, or up to and including the first error —
    are exactly the specification's list: per length-k window of the upper-cased sequence, left to
    right, `murmur(min(w, revcomp w), seed)` if all its bases are ACGT, otherwise the skip marker
    (`Ok(0)`) when forcing and `Err(InvalidDNA)` — and nothing after it — when not.
    (Invariant behind it, `Seq.next_dna_some`: every position in `[kmer_index,
    dna_last_position_check)` is valid; the cursor only lags, it never skips a position.)
    The fuel bound is part of the statement: `len + 2` calls always reach the end. -/
theorem dna_stream (seq : List UInt8) (k : Nat) (seed : UInt64) (force : Bool) (fuel : Nat)
    (hk : 1 ≤ k) (hfuel : seq.length + 2 ≤ fuel) :
    run (St.new seq k force false .dna seed) fuel
      = (Kmers.dnaStream k seed force seq).map toItem := by
  rw [new_dna, Kmers.dnaStream, windows_eq_range' k (by omega)]
  have hu : seq.map Kmers.upper = seq.map upper :=
    List.map_congr_left (fun b _ => (Tables.upper_eq b).symm)
  rw [hu]
  exact run_dna (seq.map upper) k seed force _ 0 false 0 fuel (by simp) (by simp; omega)
    (fun j _ hj => by omega)
example : run (St.new [97, 67, 78, 84] 2 true false .dna 42) 6
    = (Kmers.dnaStream 2 42 true [97, 67, 78, 84]).map toItem :=
  dna_stream _ 2 42 true 6 (by decide) (by decide)

/-- termination (DNA): more fuel than `len + 2` changes nothing — the iterator has returned `None`
    (or an error) by then -/
theorem dna_terminates (seq : List UInt8) (k : Nat) (seed : UInt64) (force : Bool) (fuel : Nat)
    (hk : 1 ≤ k) (hfuel : seq.length + 2 ≤ fuel) :
    run (St.new seq k force false .dna seed) fuel
      = run (St.new seq k force false .dna seed) (seq.length + 2) := by
  rw [dna_stream seq k seed force fuel hk hfuel, dna_stream seq k seed force _ hk (Nat.le_refl _)]
example : run (St.new [65, 67] 1 false false .dna 0) 9 = run (St.new [65, 67] 1 false false .dna 0) 4 :=
  dna_terminates _ 1 0 false 9 (by decide) (by decide)

/-- T-nothing_else (DNA).  `add_sequence` hands the sketch exactly the specification's hashes, in
    order, nothing else, none dropped — except that a k-mer whose hash is literally 0 is not added:
    the value 0 doubles as the iterator's skip sentinel (`Ok(0) => continue`), so the statement is
    about the non-zero hashes.  The call fails iff some window is invalid and `force` is off. -/
theorem nothing_else_dna (seq : List UInt8) (k : Nat) (seed : UInt64) (force : Bool)
    (hk : 1 ≤ k) :
    fedHashes (run (St.new seq k force false .dna seed) (fuelFor seq))
        = (Kmers.evHashes (Kmers.dnaStream k seed force seq)).filter (· != 0)
    ∧ firstErr (run (St.new seq k force false .dna seed) (fuelFor seq))
        = if Kmers.evOk (Kmers.dnaStream k seed force seq) then none else some .errDna := by
  rw [dna_stream seq k seed force _ hk (by unfold fuelFor; omega)]
  exact ⟨fedHashes_toItem _, firstErr_toItem _⟩
example : firstErr (run (St.new [65, 78] 1 false false .dna 42) (fuelFor [65, 78]))
    = if Kmers.evOk (Kmers.dnaStream 1 42 false [65, 78]) then none else some .errDna :=
  (nothing_else_dna _ 1 42 false (by decide)).2

/-- lexMin/revcomp core (a): `revcomp` is an involution on sequences over {A,C,G,T,N} -/
theorem revcomp_involutive (w : List UInt8) (h : ∀ b ∈ w, isBaseN b = true) :
    revcomp (revcomp w) = w := by
  rw [Tables.revcomp_eq, Tables.revcomp_eq]; exact revcomp_revcomp w h
example : revcomp (revcomp [65, 78, 71]) = [65, 78, 71] := revcomp_involutive _ (by decide)

/-- lexMin/revcomp core (b): `min(kmer, krc)` is the same on both strands -/
theorem canonical_symmetric (w : List UInt8) (h : ∀ b ∈ w, isBaseN b = true) :
    lexMin (revcomp w) (revcomp (revcomp w)) = lexMin w (revcomp w) := lexMin_revcomp w h
example : lexMin (revcomp [84, 84]) (revcomp (revcomp [84, 84])) = lexMin [84, 84] (revcomp [84, 84]) :=
  canonical_symmetric _ (by decide)

/-- T-dna_revcomp_invariant.  For an all-ACGT sequence the item stream of its reverse complement
    (Rust `revcomp`) is the item stream of the sequence in reverse order … -/
theorem dna_revcomp_stream (seq : List UInt8) (k : Nat) (seed : UInt64) (force : Bool) (fuel : Nat)
    (hk : 1 ≤ k) (hfuel : seq.length + 2 ≤ fuel) (hacgt : ∀ b ∈ seq, valid b = true) :
    run (St.new (revcomp seq) k force false .dna seed) fuel
      = (run (St.new seq k force false .dna seed) fuel).reverse := by
  have h' : ∀ b ∈ seq, Kmers.isACGT b = true := fun b hb => by rw [← Tables.valid_eq]; exact hacgt b hb
  have hl : (revcomp seq).length = seq.length := by simp [revcomp]
  rw [dna_stream _ k seed force fuel hk (by omega), dna_stream _ k seed force fuel hk hfuel,
    Tables.revcomp_eq, dnaStream_revcomp k (by omega) seed force seq h', List.map_reverse]
example : run (St.new (revcomp [65, 67, 67]) 2 false false .dna 42) 5
    = (run (St.new [65, 67, 67] 2 false false .dna 42) 5).reverse :=
  dna_revcomp_stream _ 2 42 false 5 (by decide) (by decide) (by decide)

/-- … hence both strands give the sketch the same multiset of hashes -/
theorem dna_revcomp_invariant (seq : List UInt8) (k : Nat) (seed : UInt64) (force : Bool)
    (hk : 1 ≤ k) (hacgt : ∀ b ∈ seq, valid b = true) :
    (fedHashes (run (St.new (revcomp seq) k force false .dna seed) (fuelFor (revcomp seq)))).Perm
      (fedHashes (run (St.new seq k force false .dna seed) (fuelFor seq))) := by
  have h' : ∀ b ∈ seq, Kmers.isACGT b = true := fun b hb => by rw [← Tables.valid_eq]; exact hacgt b hb
  have hl : (revcomp seq).length = seq.length := by simp [revcomp]
  rw [dna_stream _ k seed force _ hk (by unfold fuelFor; omega),
    dna_stream _ k seed force _ hk (by unfold fuelFor; omega), fedHashes_toItem, fedHashes_toItem,
    Tables.revcomp_eq, dnaStream_revcomp k (by omega) seed force seq h']
  have hws : ∀ w ∈ Kmers.windows k (seq.map Kmers.upper), ∀ b ∈ w, Kmers.isACGT b = true := by
    rw [map_upper_of_acgt seq h']
    exact fun w hw b hb => h' b (windows_mem hw b hb)
  rw [Kmers.dnaStream, dnaEvents_all_valid seed force _ hws]
  have hh : ∀ l : List (List UInt8),
      Kmers.evHashes (l.map (fun w => Kmers.Ev.hash (Murmur.hash64 (Kmers.canonical w) seed)))
        = l.map (fun w => Murmur.hash64 (Kmers.canonical w) seed) := by
    intro l; induction l with
    | nil => rfl
    | cons a t ih => simp [Kmers.evHashes, ih]
  rw [← List.map_reverse, hh, hh, List.map_reverse, List.filter_reverse]
  exact List.reverse_perm _
example : (fedHashes (run (St.new (revcomp [65, 67, 67]) 2 false false .dna 42) (fuelFor (revcomp [65, 67, 67])))).Perm
    (fedHashes (run (St.new [65, 67, 67] 2 false false .dna 42) (fuelFor [65, 67, 67]))) :=
  dna_revcomp_invariant _ 2 42 false (by decide) (by decide)

end Sourmash.C02
