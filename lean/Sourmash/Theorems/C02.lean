import Sourmash.Lemmas.SeqTables
/-! Property C02 — sequence k-mers hash to the documented canonical values in every mode.
Property theorems only; helper lemmas live in `Sourmash/Lemmas/Seq*.lean`.

`Seq.*` is the model of the Rust code (tables regenerated from /repo on every run: `Gen.C02.*`),
`Kmers.*` the documentation-level specification (`Spec/Kmers.lean`). -/
namespace Sourmash.C02
open Seq

/-! ## the tables in the source are the documented ones -/

/-- the byte codes of the specification's genetic code are the customary 64-letter TCAG string -/
example : Kmers.aaCodes = Kmers.aaString.toList.map Char.toNat := by decide

/-- T-codon_table (a): on all 64 ACGT codons the generated `CODONTABLE` is the standard genetic code -/
theorem codon_table_acgt :
    ∀ a ∈ Tables.bases, ∀ b ∈ Tables.bases, ∀ c ∈ Tables.bases,
      lookupCodon Gen.C02.codonTable a b c = some (Kmers.codonCode a b c) := by
  decide +kernel

/-- T-codon_table (b): on the 16 `xyN` codons it is the wobble rule — the common amino acid of the
    four completions when they agree, otherwise no entry (→ X) -/
theorem codon_table_wobble :
    ∀ a ∈ Tables.bases, ∀ b ∈ Tables.bases,
      (lookupCodon Gen.C02.codonTable a b 78).getD 88 = Kmers.codonCode a b 78 := by
  decide +kernel

/-- T-codon_table (c): the table has 72 entries, none outside those 80 keys: `translate_codon` of a
    3-byte input is the standard code with the wobble rule, X for everything else — on all 2^24 inputs -/
theorem codon_table (a b c : UInt8) : codon3 a b c = Kmers.codon a b c := Tables.codon3_eq a b c

/-- the translator counted the non-X inputs among all 2^24: exactly the 64 + 8 of the standard code -/
theorem codon_table_size : Gen.C02.codonNonX = 72 ∧ Gen.C02.codonTable.length = 72 := by decide

/-- T-dayhoff: `aa_to_dayhoff` is the documented Dayhoff classes on all 256 bytes -/
theorem dayhoff_table (b : UInt8) : dayhoff b = Kmers.dayhoff b := Tables.dayhoff_eq b

/-- T-hp: `aa_to_hp` is the documented hydrophobic/polar classes on all 256 bytes -/
theorem hp_table (b : UInt8) : hp b = Kmers.hp b := Tables.hp_eq b

/-- T-complement: `COMPLEMENT` is A↔T, C↔G, N→N (0 for every other byte), on all 256 bytes -/
theorem complement_table (b : UInt8) : complement b = Kmers.comp b := Tables.complement_eq b

/-- T-valid: `VALID` is exactly {A, C, G, T}, on all 256 bytes -/
theorem valid_table (b : UInt8) : valid b = Kmers.isACGT b := Tables.valid_eq b

/-- hence `revcomp` is the reverse complement of the specification -/
theorem revcomp_spec (s : List UInt8) : revcomp s = Kmers.revcomp s := Tables.revcomp_eq s

end Sourmash.C02
