import Sourmash.Lemmas.SeqTables
import Sourmash.Lemmas.SeqRevcomp
import Sourmash.Lemmas.SeqProt
/-! Property C02 — sequence k-mers hash to the documented canonical values in every mode.
Property theorems only; helper lemmas live in `Sourmash/Lemmas/Seq*.lean`.

`Seq.*` is the model of the Rust code (tables regenerated from /repo on every run: `Gen.C02.*`),
`Kmers.*` the documentation-level specification (`Spec/Kmers.lean`). -/
namespace Sourmash.C02
open Seq

/-! ## the tables in the source are the documented ones -/

/-- the byte codes of the specification's genetic code are the customary 64-letter TCAG string -/
example : Kmers.aaCodes = Kmers.aaString.toList.map Char.toNat := by decide

/-- T-codon_table (a): on all 64 ACGT codons the generated `CODONTABLE` is the standard genetic code -/
theorem codon_table_acgt :
    ∀ a ∈ Tables.bases, ∀ b ∈ Tables.bases, ∀ c ∈ Tables.bases,
      lookupCodon Gen.C02.codonTable a b c = some (Kmers.codonCode a b c) := by
  decide +kernel

/-- T-codon_table (b): on the 16 `xyN` codons it is the wobble rule — the common amino acid of the
    four completions when they agree, otherwise no entry (→ X) -/
theorem codon_table_wobble :
    ∀ a ∈ Tables.bases, ∀ b ∈ Tables.bases,
      (lookupCodon Gen.C02.codonTable a b 78).getD 88 = Kmers.codonCode a b 78 := by
  decide +kernel

/-- T-codon_table (c): the table has 72 entries, none outside those 80 keys: `translate_codon` of a
    3-byte input is the standard code with the wobble rule, X for everything else — on all 2^24 inputs -/
theorem codon_table (a b c : UInt8) : codon3 a b c = Kmers.codon a b c := Tables.codon3_eq a b c

/-- the translator counted the non-X inputs among all 2^24: exactly the 64 + 8 of the standard code -/
theorem codon_table_size : Gen.C02.codonNonX = 72 ∧ Gen.C02.codonTable.length = 72 := by decide

/-- T-dayhoff: `aa_to_dayhoff` is the documented Dayhoff classes on all 256 bytes -/
theorem dayhoff_table (b : UInt8) : dayhoff b = Kmers.dayhoff b := Tables.dayhoff_eq b

/-- T-hp: `aa_to_hp` is the documented hydrophobic/polar classes on all 256 bytes -/
theorem hp_table (b : UInt8) : hp b = Kmers.hp b := Tables.hp_eq b

/-- T-complement: `COMPLEMENT` is A↔T, C↔G, N→N (0 for every other byte), on all 256 bytes -/
theorem complement_table (b : UInt8) : complement b = Kmers.comp b := Tables.complement_eq b

/-- T-valid: `VALID` is exactly {A, C, G, T}, on all 256 bytes -/
theorem valid_table (b : UInt8) : valid b = Kmers.isACGT b := Tables.valid_eq b

/-- hence `revcomp` is the reverse complement of the specification -/
theorem revcomp_spec (s : List UInt8) : revcomp s = Kmers.revcomp s := Tables.revcomp_eq s

/-! ## DNA sketches, DNA input -/

/-- T-dna_stream.  For every byte sequence, every k ≥ 1, seed and force flag, the items that
    iterating `SeqToHashes.next` yields — up to the end, or up to and including the first error —
    are exactly the specification's list: per length-k window of the upper-cased sequence, left to
    right, `murmur(min(w, revcomp w), seed)` if all its bases are ACGT, otherwise the skip marker
    (`Ok(0)`) when forcing and `Err(InvalidDNA)` — and nothing after it — when not.
    (Invariant behind it, `Seq.next_dna_some`: every position in `[kmer_index,
    dna_last_position_check)` is valid; the cursor only lags, it never skips a position.)
    The fuel bound is part of the statement: `len + 2` calls always reach the end. -/
theorem dna_stream (seq : List UInt8) (k : Nat) (seed : UInt64) (force : Bool) (fuel : Nat)
    (hk : 1 ≤ k) (hfuel : seq.length + 2 ≤ fuel) :
    run (St.new seq k force false .dna seed) fuel
      = (Kmers.dnaStream k seed force seq).map toItem := by
  rw [new_dna, Kmers.dnaStream, windows_eq_range' k (by omega)]
  have hu : seq.map Kmers.upper = seq.map upper :=
    List.map_congr_left (fun b _ => (Tables.upper_eq b).symm)
  rw [hu]
  exact run_dna (seq.map upper) k seed force _ 0 false 0 fuel (by simp) (by simp; omega)
    (fun j _ hj => by omega)
example : run (St.new [97, 67, 78, 84] 2 true false .dna 42) 6
    = (Kmers.dnaStream 2 42 true [97, 67, 78, 84]).map toItem :=
  dna_stream _ 2 42 true 6 (by decide) (by decide)

/-- termination (DNA): more fuel than `len + 2` changes nothing — the iterator has returned `None`
    (or an error) by then -/
theorem dna_terminates (seq : List UInt8) (k : Nat) (seed : UInt64) (force : Bool) (fuel : Nat)
    (hk : 1 ≤ k) (hfuel : seq.length + 2 ≤ fuel) :
    run (St.new seq k force false .dna seed) fuel
      = run (St.new seq k force false .dna seed) (seq.length + 2) := by
  rw [dna_stream seq k seed force fuel hk hfuel, dna_stream seq k seed force _ hk (Nat.le_refl _)]
example : run (St.new [65, 67] 1 false false .dna 0) 9 = run (St.new [65, 67] 1 false false .dna 0) 4 :=
  dna_terminates _ 1 0 false 9 (by decide) (by decide)

/-- T-nothing_else (DNA).  `add_sequence` hands the sketch exactly the specification's hashes, in
    order, nothing else, none dropped — except that a k-mer whose hash is literally 0 is not added:
    the value 0 doubles as the iterator's skip sentinel (`Ok(0) => continue`), so the statement is
    about the non-zero hashes.  The call fails iff some window is invalid and `force` is off. -/
theorem nothing_else_dna (seq : List UInt8) (k : Nat) (seed : UInt64) (force : Bool)
    (hk : 1 ≤ k) :
    fedHashes (run (St.new seq k force false .dna seed) (fuelFor seq))
        = (Kmers.evHashes (Kmers.dnaStream k seed force seq)).filter (· != 0)
    ∧ firstErr (run (St.new seq k force false .dna seed) (fuelFor seq))
        = if Kmers.evOk (Kmers.dnaStream k seed force seq) then none else some .errDna := by
  rw [dna_stream seq k seed force _ hk (by unfold fuelFor; omega)]
  exact ⟨fedHashes_toItem _, firstErr_toItem _⟩
example : firstErr (run (St.new [65, 78] 1 false false .dna 42) (fuelFor [65, 78]))
    = if Kmers.evOk (Kmers.dnaStream 1 42 false [65, 78]) then none else some .errDna :=
  (nothing_else_dna _ 1 42 false (by decide)).2

/-- lexMin/revcomp core (a): `revcomp` is an involution on sequences over {A,C,G,T,N} -/
theorem revcomp_involutive (w : List UInt8) (h : ∀ b ∈ w, isBaseN b = true) :
    revcomp (revcomp w) = w := by
  rw [Tables.revcomp_eq, Tables.revcomp_eq]; exact revcomp_revcomp w h
example : revcomp (revcomp [65, 78, 71]) = [65, 78, 71] := revcomp_involutive _ (by decide)

/-- lexMin/revcomp core (b): `min(kmer, krc)` is the same on both strands -/
theorem canonical_symmetric (w : List UInt8) (h : ∀ b ∈ w, isBaseN b = true) :
    lexMin (revcomp w) (revcomp (revcomp w)) = lexMin w (revcomp w) := lexMin_revcomp w h
example : lexMin (revcomp [84, 84]) (revcomp (revcomp [84, 84])) = lexMin [84, 84] (revcomp [84, 84]) :=
  canonical_symmetric _ (by decide)

/-- T-dna_revcomp_invariant.  For an all-ACGT sequence the item stream of its reverse complement
    (Rust `revcomp`) is the item stream of the sequence in reverse order … -/
theorem dna_revcomp_stream (seq : List UInt8) (k : Nat) (seed : UInt64) (force : Bool) (fuel : Nat)
    (hk : 1 ≤ k) (hfuel : seq.length + 2 ≤ fuel) (hacgt : ∀ b ∈ seq, valid b = true) :
    run (St.new (revcomp seq) k force false .dna seed) fuel
      = (run (St.new seq k force false .dna seed) fuel).reverse := by
  have h' : ∀ b ∈ seq, Kmers.isACGT b = true := fun b hb => by rw [← Tables.valid_eq]; exact hacgt b hb
  have hl : (revcomp seq).length = seq.length := by simp [revcomp]
  rw [dna_stream _ k seed force fuel hk (by omega), dna_stream _ k seed force fuel hk hfuel,
    Tables.revcomp_eq, dnaStream_revcomp k (by omega) seed force seq h', List.map_reverse]
example : run (St.new (revcomp [65, 67, 67]) 2 false false .dna 42) 5
    = (run (St.new [65, 67, 67] 2 false false .dna 42) 5).reverse :=
  dna_revcomp_stream _ 2 42 false 5 (by decide) (by decide) (by decide)

/-- … hence both strands give the sketch the same multiset of hashes -/
theorem dna_revcomp_invariant (seq : List UInt8) (k : Nat) (seed : UInt64) (force : Bool)
    (hk : 1 ≤ k) (hacgt : ∀ b ∈ seq, valid b = true) :
    (fedHashes (run (St.new (revcomp seq) k force false .dna seed) (fuelFor (revcomp seq)))).Perm
      (fedHashes (run (St.new seq k force false .dna seed) (fuelFor seq))) := by
  have h' : ∀ b ∈ seq, Kmers.isACGT b = true := fun b hb => by rw [← Tables.valid_eq]; exact hacgt b hb
  have hl : (revcomp seq).length = seq.length := by simp [revcomp]
  rw [dna_stream _ k seed force _ hk (by unfold fuelFor; omega),
    dna_stream _ k seed force _ hk (by unfold fuelFor; omega), fedHashes_toItem, fedHashes_toItem,
    Tables.revcomp_eq, dnaStream_revcomp k (by omega) seed force seq h']
  have hws : ∀ w ∈ Kmers.windows k (seq.map Kmers.upper), ∀ b ∈ w, Kmers.isACGT b = true := by
    rw [map_upper_of_acgt seq h']
    exact fun w hw b hb => h' b (windows_mem hw b hb)
  rw [Kmers.dnaStream, dnaEvents_all_valid seed force _ hws]
  have hh : ∀ l : List (List UInt8),
      Kmers.evHashes (l.map (fun w => Kmers.Ev.hash (Murmur.hash64 (Kmers.canonical w) seed)))
        = l.map (fun w => Murmur.hash64 (Kmers.canonical w) seed) := by
    intro l; induction l with
    | nil => rfl
    | cons a t ih => simp [Kmers.evHashes, ih]
  rw [← List.map_reverse, hh, hh, List.map_reverse, List.filter_reverse]
  exact List.reverse_perm _
example : (fedHashes (run (St.new (revcomp [65, 67, 67]) 2 false false .dna 42) (fuelFor (revcomp [65, 67, 67])))).Perm
    (fedHashes (run (St.new [65, 67, 67] 2 false false .dna 42) (fuelFor [65, 67, 67]))) :=
  dna_revcomp_invariant _ 2 42 false (by decide) (by decide)

/-! ## protein-family sketches -/

/-- T-protein_stream.  Protein input to a protein / Dayhoff / HP sketch: the items are exactly the
    hashes of every (k/3)-residue window of the upper-cased residue string after the documented
    alphabet reduction, in order; no item is an error.  `len + 2` calls reach the end. -/
theorem protein_stream (seq : List UInt8) (ksize : Nat) (seed : UInt64) (force : Bool) (m : Kmers.Mol)
    (fuel : Nat) (hm : m ≠ .dna) (hk : 3 ≤ ksize) (hfuel : seq.length + 2 ≤ fuel) :
    run (St.new seq ksize force true m seed) fuel
      = (Kmers.proteinHashes m ksize seed seq).map .ok := by
  have hk1 : ksize / 3 ≠ 0 := by omega
  rw [new_prot, Kmers.proteinHashes,
    run_prot (seq.map upper) (ksize / 3) seed force m hm _ 0 [] fuel rfl (by simp; omega)]
  have hu : seq.map Kmers.upper = seq.map upper :=
    List.map_congr_left (fun b _ => (Tables.upper_eq b).symm)
  rw [hu, ← reducedU_eq, windows_eq_range' _ hk1, List.map_map, List.map_map, List.map_map]
  simp [reducedU_eq]
example : run (St.new [77, 97, 42, 200] 6 false true .dayhoff 42) 6
    = (Kmers.proteinHashes .dayhoff 6 42 [77, 97, 42, 200]).map .ok :=
  protein_stream _ 6 42 false .dayhoff 6 (by decide) (by decide) (by decide)

/-- protein input to a DNA sketch: `Err(InvalidHashFunction)` as soon as there is a window, nothing
    at all otherwise (the property says nothing about this case; recorded because the model has
    the branch) -/
theorem protein_into_dna_sketch (seq : List UInt8) (ksize : Nat) (seed : UInt64) (force : Bool) (fuel : Nat)
    (hfuel : 1 ≤ fuel) :
    run (St.new seq ksize force true .dna seed) fuel
      = if ksize / 3 ≤ seq.length then [.errHf] else [] := by
  obtain ⟨f, rfl⟩ : ∃ f, fuel = f + 1 := ⟨fuel - 1, by omega⟩
  rw [new_prot]
  by_cases h : ksize / 3 ≤ seq.length
  · rw [if_pos h]
    unfold run
    rw [next_prot_dna _ _ _ _ _ _ (by simp; omega)]
  · rw [if_neg h]
    unfold run
    rw [next_prot_none _ _ _ _ _ _ _ (by simp; omega)]
example : run (St.new [65, 67] 3 false true .dna 42) 1 = [.errHf] := by
  rw [protein_into_dna_sketch _ 3 42 false 1 (by decide)]; rfl

/-- T-translate_stream.  DNA input to a protein / Dayhoff / HP sketch: nothing when the sequence is
    shorter than 3·(k/3); otherwise one `Ok(0)` marker (the call that fills the buffer), then the
    hashes of the (k/3)-windows of the six reading-frame translations under the standard genetic
    code (frame 0, 1, 2; forward strand then reverse complement each; unknown codons → X; alphabet
    reduced as documented), then one closing `Ok(0)` marker.  `len + buffer + 3 ≤ 3·len + 3` calls
    reach the end; `fuelFor` (2·len + 4) is enough because the buffer holds at most 2·len hashes. -/
theorem translate_stream (seq : List UInt8) (ksize : Nat) (seed : UInt64) (force : Bool) (m : Kmers.Mol)
    (fuel : Nat) (hm : m ≠ .dna) (hk : 3 ≤ ksize) (hfuel : 2 * seq.length + 3 ≤ fuel) :
    run (St.new seq ksize force false m seed) fuel
      = if seq.length < 3 * (ksize / 3) then []
        else .ok 0 :: (Kmers.translateHashes m ksize seed seq).map .ok ++ [.ok 0] := by
  have hk1 : 1 ≤ ksize / 3 := by omega
  obtain ⟨f, rfl⟩ : ∃ f, fuel = f + 1 := ⟨fuel - 1, by omega⟩
  have hu : seq.map Kmers.upper = seq.map upper :=
    List.map_congr_left (fun b _ => (Tables.upper_eq b).symm)
  rw [new_tr seq ksize seed force m hm]
  by_cases h : seq.length < 3 * (ksize / 3)
  · rw [if_pos h]
    unfold run
    rw [next_tr_short _ _ _ _ _ hm (by simpa using h)]
  · rw [if_neg h]
    have h3 : 3 * (ksize / 3) ≤ (seq.map upper).length := by simp; omega
    obtain ⟨hpos, hle⟩ := trBuf_length (seq.map upper) (ksize / 3) hk1 seed m h3
    have hne : trBuf (seq.map upper) (ksize / 3) seed m ≠ [] := List.ne_nil_of_length_pos (by omega)
    unfold run
    rw [next_tr_first _ _ _ _ _ hm hk1 h3]
    simp only
    rw [run_tr _ _ _ _ _ hm 0 _ hne _ 0 f rfl (by omega) (by simp at hle; omega),
      List.drop_zero, trBuf_eq _ _ hk1]
    have : Kmers.translateHashes m ksize seed seq = (List.range 3).flatMap (fun fr =>
        Kmers.frameHashes m (ksize / 3) seed ((seq.map upper).drop fr)
          ++ Kmers.frameHashes m (ksize / 3) seed ((Kmers.revcomp (seq.map upper)).drop fr)) := by
      simp only [Kmers.translateHashes, hu]
      rw [if_neg (by simpa using h)]
    rw [this]
    rfl
example : run (St.new [65, 84, 71, 78, 99, 99, 255] 6 false false .hp 42) 17
    = if [65, 84, 71, 78, 99, 99, 255].length < 3 * (6 / 3) then []
      else .ok 0 :: (Kmers.translateHashes .hp 6 42 [65, 84, 71, 78, 99, 99, 255]).map .ok ++ [.ok 0] :=
  translate_stream _ 6 42 false .hp 17 (by decide) (by decide) (by decide)

/-- T-nothing_else (protein family).  `add_protein` / `add_sequence` hand a protein-family sketch
    exactly the specification's hashes (window hashes of the reduced residue string, resp. of the six
    translations), in order — minus hashes that are literally 0, the skip sentinel — and succeed. -/
theorem nothing_else_protein (seq : List UInt8) (ksize : Nat) (seed : UInt64) (force : Bool)
    (m : Kmers.Mol) (hm : m ≠ .dna) (hk : 3 ≤ ksize) :
    (fedHashes (run (St.new seq ksize force true m seed) (fuelFor seq))
        = (Kmers.proteinHashes m ksize seed seq).filter (· != 0)
      ∧ firstErr (run (St.new seq ksize force true m seed) (fuelFor seq)) = none)
    ∧ (fedHashes (run (St.new seq ksize force false m seed) (fuelFor seq))
        = (Kmers.translateHashes m ksize seed seq).filter (· != 0)
      ∧ firstErr (run (St.new seq ksize force false m seed) (fuelFor seq)) = none) := by
  refine ⟨?_, ?_⟩
  · rw [protein_stream seq ksize seed force m _ hm hk (by unfold fuelFor; omega)]
    exact ⟨fedHashes_ok _, firstErr_ok _⟩
  · rw [translate_stream seq ksize seed force m _ hm hk (by unfold fuelFor; omega)]
    by_cases h : seq.length < 3 * (ksize / 3)
    · have : Kmers.translateHashes m ksize seed seq = [] := by
        simp only [Kmers.translateHashes, List.length_map]; rw [if_pos h]
      rw [if_pos h, this]; exact ⟨rfl, rfl⟩
    · rw [if_neg h]
      have e : (Item.ok 0 :: (Kmers.translateHashes m ksize seed seq).map Item.ok ++ [Item.ok 0])
          = ((0 :: Kmers.translateHashes m ksize seed seq) ++ [0]).map Item.ok := by simp
      rw [e, fedHashes_ok, firstErr_ok]
      simp
example : firstErr (run (St.new [65, 84, 71] 3 false false .protein 42) (fuelFor [65, 84, 71])) = none :=
  (nothing_else_protein _ 3 42 false .protein (by decide) (by decide)).2.2

/-- termination, all modes: iterating `next` from a fresh iterator ends within `fuelFor` = 2·len + 4
    calls (len + buffer + 2 with buffer ≤ 2·len; a DNA sketch needs len + 2) — more fuel changes
    nothing -/
theorem terminates (seq : List UInt8) (ksize : Nat) (seed : UInt64) (force isProtein : Bool)
    (m : Kmers.Mol) (fuel : Nat) (hk : if m = .dna ∧ isProtein = false then 1 ≤ ksize else 3 ≤ ksize)
    (hfuel : fuelFor seq ≤ fuel) :
    run (St.new seq ksize force isProtein m seed) fuel
      = run (St.new seq ksize force isProtein m seed) (fuelFor seq) := by
  unfold fuelFor at hfuel ⊢
  by_cases hm : m = .dna
  · subst hm
    cases isProtein
    · simp at hk
      rw [dna_stream seq ksize seed force fuel hk (by omega), dna_stream seq ksize seed force _ hk (by omega)]
    · rw [protein_into_dna_sketch _ _ _ _ _ (by omega), protein_into_dna_sketch _ _ _ _ _ (by omega)]
  · have hk' : 3 ≤ ksize := by simpa [hm] using hk
    cases isProtein
    · rw [translate_stream seq ksize seed force m fuel hm hk' (by omega),
        translate_stream seq ksize seed force m _ hm hk' (by omega)]
    · rw [protein_stream seq ksize seed force m fuel hm hk' (by omega),
        protein_stream seq ksize seed force m _ hm hk' (by omega)]
example : run (St.new [65, 84, 71] 3 false false .hp 42) 99 = run (St.new [65, 84, 71] 3 false false .hp 42) (fuelFor [65, 84, 71]) :=
  terminates _ 3 42 false false .hp 99 (by decide) (by decide)

end Sourmash.C02
