import Sourmash.Model.Ffi
import Sourmash.Spec.PanicFree
import Sourmash.Generated.C20
import Sourmash.Lemmas.FfiChannel
/-! Property C20 — C API calls report failures through the error channel and never abort.

Property theorems only.  The tables (`ErrKind`, `fromErrorSrc`, `fromErrorBeh`, `headerCodes…`,
`exports`, `headerFns`, `scenarioFns`) are regenerated from /repo by translator/c20.py on every run,
so every `decide` below is re-checked against the current sources.

* `codes_*`      — T-codes
* `channel*`     — T-channel (universally quantified over call histories)
* `guarded_total`— T-guarded_total
* `exports_*`    — T-exports (over the whole generated export table)

Not proved here (named runtime gap): memory safety of the ownership transfer ("released exactly
once"); what each export's *body* does on given arguments (the `Outcome` parameter) is tied to the
code by the child-process runs of `./check C20`, not by proof. -/
namespace Sourmash.C20
open Sourmash.Ffi Sourmash.Generated.C20 Sourmash.Spec.PanicFree

/-! ## T-codes -/

/-- T-codes (enumeration): the generated list of kinds is complete. -/
theorem kinds_complete : ∀ k : ErrKind, k ∈ ErrKind.all := by
  intro k; cases k <;> decide

/-- T-codes (total): `from_error` has an arm for every error kind. -/
theorem codes_total : ∀ k : ErrKind, (fromErrorSrc.lookup k).isSome = true := by
  intro k; cases k <;> rfl

/-- T-codes (never 0): no error kind is reported as `NoError`. -/
theorem codes_nonzero : ∀ k : ErrKind, fromError k ≠ 0 := by
  intro k; cases k <;> decide

/-- T-codes (injective): each library error kind is mapped to its own code. -/
theorem codes_injective : ∀ a b : ErrKind, fromError a = fromError b → a = b := by
  intro a b
  cases a <;> cases b <;> first | (intro _; rfl) | (intro h; exact absurd h (by decide))

/-- T-codes (header): every code `from_error` can return is an enumerator of
    `enum SourmashErrorCode` in include/sourmash.h with the same name (case/underscore-insensitive)
    and the same value, and the Rust enum gives that name the same value. -/
theorem codes_in_header : ∀ k : ErrKind, ∃ n,
    fromErrorArmsNorm.lookup k = some n ∧
    rustCodesNorm.lookup n = some (fromError k) ∧
    headerCodesNorm.lookup n = some (fromError k) := by
  intro k; cases k <;> exact ⟨_, rfl, by decide, by decide⟩

/-- T-codes (header, whole enum): the C enum and the Rust enum list the same names with the same
    values in the same order. -/
theorem header_enum_eq : rustCodesNorm = headerCodesNorm := by decide

/-- `NoError` is 0 in both enums (the "no error" answer of `sourmash_err_get_last_code`). -/
theorem no_error_is_zero :
    rustCodes.lookup "NoError" = some 0 ∧ headerCodes.lookup "NO_ERROR" = some 0 := by decide

/-- T-codes (behavioural cross-check): the real `SourmashErrorCode::from_error`, called by the
    harness on one constructed value of **every** kind, returns what the source route says. -/
theorem codes_behaviour_agree : ∀ k : ErrKind, fromErrorBeh.lookup k = some (fromError k) := by
  intro k; cases k <;> decide

/-- internal panics are reported as the documented panic code 1 -/
theorem panic_code : fromError .Panic = 1 ∧ headerCodes.lookup "PANIC" = some 1 := by decide

/-! ## T-guarded_total -/

/-- T-guarded_total: a function routed through `ffi_fn!` returns normally to the C caller for
    every outcome of its body (value, `Err`, panic), in every channel state. -/
theorem guarded_total {α : Type} (zero : α) (s : Chan ErrKind) (o : Outcome ErrKind α) :
    ∃ v, (callExport true .Panic zero s o).2 = .ret v := by
  cases o <;> exact ⟨_, rfl⟩

/-- … and on failure it returns the zeroed value. -/
theorem guarded_failure_zeroed {α : Type} (zero : α) (s : Chan ErrKind) (o : Outcome ErrKind α)
    (h : ∀ v, o ≠ .ok v) : (callExport true .Panic zero s o).2 = .ret zero := by
  cases o with
  | ok v => exact absurd rfl (h v)
  | err k => rfl
  | panic => rfl
example : (callExport true ErrKind.Panic (0 : Nat) Chan.fresh (.err .MismatchKSizes)).2 = .ret 0 := rfl

/-- Why the guard matters (model of the current unguarded exports): without it a panicking body
    ends the process. -/
theorem unguarded_panic_aborts {α : Type} (zero : α) (s : Chan ErrKind) :
    (callExport false .Panic zero s (.panic : Outcome ErrKind α)).2 = .abort := rfl

/-! ## T-channel -/

/-- T-channel.  For **every** sequence `calls` (oldest first) of C-API calls made by one thread
    after `sourmash_init`, if no call aborted, `sourmash_err_get_last_code()` returns the code of
    the most recent failing guarded call since the last `sourmash_err_clear` (the panic code for a
    panic), and 0 if there is none. -/
theorem channel (calls : List (Call ErrKind)) (s : Chan ErrKind)
    (h : run .Panic (sourmashInit Chan.fresh) calls = some s) :
    errGetLastCode fromError s =
      match specLast .Panic none calls.reverse with
      | none => 0
      | some k => fromError k := by
  have h' : run ErrKind.Panic (sourmashInit Chan.fresh) calls.reverse.reverse = some s := by
    simpa using h
  have := (run_spec ErrKind.Panic calls.reverse (sourmashInit Chan.fresh) s rfl h').2
  have h0 : (sourmashInit (Chan.fresh : Chan ErrKind)).last = none := rfl
  rw [h0] at this
  simp only [errGetLastCode, this]
  generalize specLast ErrKind.Panic none calls.reverse = x
  cases x <;> rfl
example : run ErrKind.Panic (sourmashInit Chan.fresh)
    [.exported true (.err .MismatchKSizes), .exported true (.ok ()), .getCode] =
    some { last := some .MismatchKSizes, hook := true } := rfl

/-- T-channel, same statement from an arbitrary state in which the hook is installed (e.g. a
    thread that already has an error stored): `dflt` is what was stored before. -/
theorem channel_from (s0 s : Chan ErrKind) (hk : s0.hook = true) (calls : List (Call ErrKind))
    (h : run .Panic s0 calls = some s) :
    s.last = specLast .Panic s0.last calls.reverse := by
  have h' : run ErrKind.Panic s0 calls.reverse.reverse = some s := by simpa using h
  exact (run_spec ErrKind.Panic calls.reverse s0 s hk h').2
example : (sourmashInit (Chan.fresh : Chan ErrKind)).hook = true := rfl

/-- T-channel (failure is retrievable): right after a failing guarded call the code is the
    documented, non-zero code of its error kind, and the message is non-empty (an error is stored). -/
theorem channel_failure (s : Chan ErrKind) (k : ErrKind) :
    ∃ s', step .Panic s (.exported true (.err k)) = some s' ∧
      errGetLastCode fromError s' = fromError k ∧ errGetLastCode fromError s' ≠ 0 ∧
      errGetLastMessage s' = some k :=
  ⟨_, rfl, rfl, codes_nonzero k, rfl⟩

/-- T-channel (panic): with the hook installed, a panic inside a guarded call is reported as
    code 1. -/
theorem channel_panic (s : Chan ErrKind) (hk : s.hook = true) :
    ∃ s', step .Panic s (.exported true .panic) = some s' ∧ errGetLastCode fromError s' = 1 := by
  refine ⟨_, rfl, ?_⟩
  simp [landingpad, panicHook, hk, setLastError, errGetLastCode]
  decide
example : (sourmashInit (Chan.fresh : Chan ErrKind)).hook = true := rfl

/-- Model fact behind the precondition "after `sourmash_init`": without the hook a caught panic
    leaves the channel as it was (the zeroed return value is the only sign). -/
theorem channel_panic_without_hook (s : Chan ErrKind) (hk : s.hook = false) :
    step .Panic s (.exported true .panic) = some s := by
  simp [step, callExport, landingpad, panicHook, hk]
example : (Chan.fresh : Chan ErrKind).hook = false := rfl

/-- T-channel (success leaves it untouched): a successful call — guarded or not — does not change
    the error state. -/
theorem channel_success_untouched (s : Chan ErrKind) (g : Bool) :
    step .Panic s (.exported g (.ok ())) = some s := by
  cases g <;> rfl

/-- T-channel (queries are read-only). -/
theorem channel_queries_readonly (s : Chan ErrKind) :
    step .Panic s .getCode = some s ∧ step .Panic s .getMessage = some s ∧
    step .Panic s .getBacktrace = some s := ⟨rfl, rfl, rfl⟩

/-- T-channel (clear resets): after `sourmash_err_clear` the code is 0 and the message empty. -/
theorem channel_clear (s : Chan ErrKind) :
    ∃ s', step .Panic s .clear = some s' ∧ errGetLastCode fromError s' = 0 ∧
      errGetLastMessage s' = none := ⟨_, rfl, rfl, rfl⟩

/-- T-channel (retrievable until cleared): once an error is stored, any further history made only
    of successful calls, queries and `sourmash_init` leaves code and message as they are. -/
theorem channel_persists (s : Chan ErrKind) (quiet : List (Call ErrKind))
    (hq : ∀ c ∈ quiet, c = .init ∨ c = .getCode ∨ c = .getMessage ∨ c = .getBacktrace ∨
      ∃ g, c = .exported g (.ok ())) :
    ∃ s', run .Panic s quiet = some s' ∧ s'.last = s.last := by
  induction quiet generalizing s with
  | nil => exact ⟨s, rfl, rfl⟩
  | cons c cs ih =>
    have hc := hq c (List.mem_cons_self ..)
    have hcs : ∀ c' ∈ cs, _ := fun c' h => hq c' (List.mem_cons_of_mem _ h)
    rcases hc with rfl | rfl | rfl | rfl | ⟨g, rfl⟩
    · obtain ⟨s', h1, h2⟩ := ih (sourmashInit s) hcs
      exact ⟨s', by simpa [run, step] using h1, h2⟩
    · obtain ⟨s', h1, h2⟩ := ih s hcs
      exact ⟨s', by simpa [run, step] using h1, h2⟩
    · obtain ⟨s', h1, h2⟩ := ih s hcs
      exact ⟨s', by simpa [run, step] using h1, h2⟩
    · obtain ⟨s', h1, h2⟩ := ih s hcs
      exact ⟨s', by simpa [run, step] using h1, h2⟩
    · obtain ⟨s', h1, h2⟩ := ih s hcs
      refine ⟨s', ?_, h2⟩
      simp only [run, channel_success_untouched, Option.bind_some]
      exact h1
example : ∀ c ∈ ([.getCode, .exported false (.ok ())] : List (Call ErrKind)),
    c = .init ∨ c = .getCode ∨ c = .getMessage ∨ c = .getBacktrace ∨ ∃ g, c = .exported g (.ok ()) := by
  intro c hc
  simp only [List.mem_cons, List.not_mem_nil, or_false] at hc
  rcases hc with rfl | rfl
  · exact Or.inr (Or.inl rfl)
  · exact Or.inr (Or.inr (Or.inr (Or.inr ⟨false, rfl⟩)))

/-! ## T-exports -/

/-- T-exports (full statement, no exemptions).  Every `extern "C"` function under
    src/core/src/ffi is routed through `ffi_fn!` (landing pad), **or** everything it calls directly
    is in the hand-justified panic-free allow-list.  Removing an `ffi_fn!`, or adding an unguarded
    export that calls anything outside the allow-list, makes this `decide` fail. -/
theorem exports_guarded_or_allowlisted :
    exports.all (fun r => r.guarded || r.callees.all (calleeAllowed r.name)) = true := by
  decide +kernel

/-- no export is exempted by name any more (the list of known-aborting exports is empty) -/
theorem known_aborting_empty : knownUnguardedAborting = [] := rfl

/-- the table covers the C API: the `extern "C"` functions of the export table are exactly the
    functions declared in include/sourmash.h (`headerFnsSorted` is the translator's sorted copy of
    the declaration list; the export table is sorted by name) -/
theorem exports_match_header : exports.map (·.name) = headerFnsSorted := by decide +kernel

/-- coverage of the abort detector: harness/src/bin/c20.rs has a child-process scenario for
    exactly the functions declared in include/sourmash.h (every one of them, no other) -/
theorem harness_covers_header : scenarioFnsSorted = headerFnsSorted := by decide +kernel

end Sourmash.C20
