import Sourmash.Model.Md5Cache
/-! Property C13 — a sketch's md5sum always reflects its current contents.
Property theorems only; helper lemmas live in `Sourmash/Lemmas/Md5Cache*.lean`. -/
namespace Sourmash.C13
open MH Md5Cache

/-- **T-eq_complete_cex** (finding, not repaired): the preimage has no separators, so different
    hash lists at the same ksize feed the same bytes into MD5 — "equal exactly when ksize and hashes
    agree" fails in one direction independently of MD5 collisions.  `[1,23]` and `[123]` are both
    strictly increasing, i.e. contents of real sketches; replayed on the real code by
    `corpus/C13/preimage.ops` (the two sketches compare equal). -/
theorem eq_complete_cex :
    Md5.preimage 21 [1, 23] = Md5.preimage 21 [123] ∧ [1, 23] ≠ [123]
    ∧ Md5.preimage 21 [1, 23] = Md5.preimage 21 [12, 3] ∧ Md5.preimage 21 [1, 23] = Md5.preimage 21 [1, 2, 3] := by
  decide

end Sourmash.C13
