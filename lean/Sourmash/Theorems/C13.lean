import Sourmash.Lemmas.Md5Cache
/-! Property C13 — a sketch's md5sum always reflects its current contents.
Property theorems only; helper lemmas live in `Sourmash/Lemmas/Md5Cache.lean`.

`VOk s` / `TOk s` : the cache field is `none` or `some (digest (ksize s, mins s))`.
`VPair` / `TPair` : two sketches of one type; `Cmd` : any op of the property's quantifier applied to
either of them with the other as operand (`Model/Md5Cache.lean`), `run` : a whole command list.
`Op` has one constructor per mutating entry point of the sketch types: add / add-with-abundance, set,
add_many, add_many_with_abund, add_from, remove, remove_many, remove_from, add_word / add_sequence /
add_protein (`addSeq hs err`: ANY list of contributed hashes, then success or ANY failure after them),
clear, merge, inflate, enable/disable abundance, downsample_scaled / downsample_max_hash (on a clone
and by value), the serde round trip, `kmerminhash_set_abundances`; `Pair`/`PCmd` add the `From`
conversions between the two types.
`Sk` / `RCmd` / `regsStep` / `regsRun` : a register file of any number of live sketches of either type;
copies (`Clone`, serde, `From`) land in another register next to their source (`RegsOk`: every
register's cache is empty or the digest of that register's own contents).
`digest k mins = md5 (preimage k mins)` with `Md5.md5` the RFC 1321 function of `Model/Md5.lean`. -/
namespace Sourmash.C13
open MH Md5Cache

/-- **T-cache_inv**, vector type: for every command list — md5sum / clone / copy / == (both operand
    orders) interleaved in any order with every mutating entry point (see the list above), on either
    sketch — starting from sketches whose cache is empty or
    correct (new, cloned, correctly loaded), both caches are empty or hold the digest of the current
    (ksize, hashes). -/
theorem cache_inv_vec (p : VPair) (cs : List Cmd) (h0 : VOk p.main ∧ VOk p.other) :
    VOk (p.run cs).main ∧ VOk (p.run cs).other :=
  VPair.run_ok cs h0

/-- **T-cache_inv**, tree type. -/
theorem cache_inv_tree (p : TPair) (cs : List Cmd) (h0 : TOk p.main ∧ TOk p.other) :
    TOk (p.run cs).main ∧ TOk (p.run cs).other :=
  TPair.run_ok cs h0

/-- **T-cache_inv**, both types with the `From` conversions vector↔tree anywhere in the history. -/
theorem cache_inv_mixed (p : Pair) (cs : List PCmd) (h0 : p.Ok) : (p.run cs).Ok :=
  Pair.run_ok cs h0

/-- **T-md5_current** over the mixed machine: after any history with conversions, `md5sum` of either
    sketch (whatever type the pair has by then) is the digest of its current ksize and hashes. -/
theorem md5_current_mixed (p : Pair) (cs : List PCmd) (h0 : p.Ok) :
    match p.run cs with
    | .v q => q.main.md5sum.1 = Md5.digest q.main.ksize q.main.mins
        ∧ q.other.md5sum.1 = Md5.digest q.other.ksize q.other.mins
    | .t q => q.main.md5sum.1 = Md5.digest q.main.ksize q.main.mins
        ∧ q.other.md5sum.1 = Md5.digest q.other.ksize q.other.mins := by
  have h := cache_inv_mixed p cs h0
  cases hq : p.run cs with
  | v q => rw [hq] at h; exact ⟨(Vec.md5sum_spec h.1).1, (Vec.md5sum_spec h.2).1⟩
  | t q => rw [hq] at h; exact ⟨(Tree.md5sum_spec h.1).1, (Tree.md5sum_spec h.2).1⟩

/-- **T-failed_bulk** (the clause "whatever … mutations happened before", for a call that FAILS
    part-way): after any history, a sequence call that contributes the hashes `hs` and then fails
    with `e` leaves a sketch that holds what adding `hs` one by one gives, answers the error
    together with those hashes, and its next `md5sum` is the digest of exactly those hashes —
    not of what was there before the call. -/
theorem failed_bulk_vec (p : VPair) (cs : List Cmd) (h0 : VOk p.main ∧ VOk p.other) (hs : List Nat) (e : String) :
    let q := p.run cs
    let r := q.step (.on false (.addSeq hs (some e)))
    r.1.main.mins = (q.main.addMany hs).mins ∧ r.2 = .errMins e (q.main.addMany hs).mins
    ∧ r.1.main.md5sum.1 = Md5.digest q.main.ksize (q.main.addMany hs).mins := by
  intro q r
  have h := cache_inv_vec p cs h0
  have hr : VOk r.1.main := (VPair.step_ok (p := q) (.on false (.addSeq hs (some e))) h).1
  have hm : r.1.main = q.main.addMany hs := rfl
  refine ⟨by rw [hm], rfl, ?_⟩
  rw [(Vec.md5sum_spec hr).1, hm]
  unfold Vec.digest
  rw [Vec.addMany_ksize]

theorem failed_bulk_tree (p : TPair) (cs : List Cmd) (h0 : TOk p.main ∧ TOk p.other) (hs : List Nat) (e : String) :
    let q := p.run cs
    let r := q.step (.on false (.addSeq hs (some e)))
    r.1.main.mins = (q.main.addMany hs).mins ∧ r.2 = .errMins e (q.main.addMany hs).mins
    ∧ r.1.main.md5sum.1 = Md5.digest q.main.ksize (q.main.addMany hs).mins := by
  intro q r
  have h := cache_inv_tree p cs h0
  have hr : TOk r.1.main := (TPair.step_ok (p := q) (.on false (.addSeq hs (some e))) h).1
  have hm : r.1.main = q.main.addMany hs := rfl
  refine ⟨by rw [hm], rfl, ?_⟩
  rw [(Tree.md5sum_spec hr).1, hm]
  unfold Tree.digest
  rw [Tree.addMany_ksize]

/-- **T-derived**: the sketches DERIVED from a consistent sketch report the digest of their own
    contents: the result of `downsample_scaled` (the moved sketch or a new one), the sketch loaded
    back from the serialised form (same ksize and hashes as its source, hence the same md5sum), and
    the `From` conversion (same ksize and hashes). -/
theorem derived_vec (p : VPair) (cs : List Cmd) (h0 : VOk p.main ∧ VOk p.other) (sc : Nat) :
    let s := (p.run cs).main
    (∀ t, s.downsampleScaled sc = .ok t → t.md5sum.1 = Md5.digest t.ksize t.mins)
    ∧ s.serde.1.mins = s.mins ∧ s.serde.1.ksize = s.ksize ∧ s.serde.1.md5sum.1 = s.md5sum.1
    ∧ s.toTree.mins = s.mins ∧ s.toTree.ksize = s.ksize
    ∧ s.toTree.md5sum.1 = Md5.digest s.ksize s.mins := by
  intro s
  have h := (cache_inv_vec p cs h0).1
  have hl := Vec.serde_spec h
  refine ⟨fun t ht => (Vec.md5sum_spec (VOk.downsampleScaled sc h ht)).1, hl.1, hl.2.1, ?_, rfl, rfl,
    (Tree.md5sum_spec (TOk.ofVec s)).1⟩
  rw [(Vec.md5sum_spec hl.2.2.2.1).1, (Vec.md5sum_spec h).1]
  unfold Vec.digest
  rw [hl.1, hl.2.1]

theorem derived_tree (p : TPair) (cs : List Cmd) (h0 : TOk p.main ∧ TOk p.other) (sc : Nat) :
    let s := (p.run cs).main
    (∀ t, s.downsampleScaled sc = .ok t → t.md5sum.1 = Md5.digest t.ksize t.mins)
    ∧ s.serde.1.mins = s.mins ∧ s.serde.1.ksize = s.ksize ∧ s.serde.1.md5sum.1 = s.md5sum.1
    ∧ s.toVec.mins = s.mins ∧ s.toVec.ksize = s.ksize
    ∧ s.toVec.md5sum.1 = Md5.digest s.ksize s.mins := by
  intro s
  have h := (cache_inv_tree p cs h0).1
  have hl := Tree.serde_spec h
  refine ⟨fun t ht => (Tree.md5sum_spec (TOk.downsampleScaled sc h ht)).1, hl.1, hl.2.1, ?_, rfl, rfl,
    (Vec.md5sum_spec (VOk.ofTree s)).1⟩
  rw [(Tree.md5sum_spec hl.2.2.2.1).1, (Tree.md5sum_spec h).1]
  unfold Tree.digest
  rw [hl.1, hl.2.1]

/-- the three admissible starting points satisfy the hypothesis of T-cache_inv: a new sketch, a
    clone of a consistent sketch, and a loaded sketch whose stored digest is that of its hashes -/
theorem start_points (num mh k : Nat) (t : Bool) (s : Vec) (hs : VOk s) (l : Vec) (hl : l.md5 = some l.digest)
    (s' : Tree) (hs' : TOk s') (l' : Tree) (hl' : l'.md5 = some l'.digest) :
    VOk (Vec.new num mh t k) ∧ VOk s.clone.1 ∧ VOk l
    ∧ TOk (Tree.new num mh t k) ∧ TOk s'.clone.1 ∧ TOk l' :=
  ⟨VOk.new .., (Vec.clone_spec hs).2.2.2.1, VOk.loaded l hl, TOk.new .., (Tree.clone_spec hs').2.2.2.1, TOk.loaded l' hl'⟩

/-- **T-md5_current**, vector type: after ANY command list, `md5sum` of either sketch is the digest of
    its current ksize and hashes (whatever was computed or cached earlier), and asking does not
    change the hashes. -/
theorem md5_current_vec (p : VPair) (cs : List Cmd) (h0 : VOk p.main ∧ VOk p.other) :
    let q := p.run cs
    q.main.md5sum.1 = Md5.digest q.main.ksize q.main.mins
    ∧ q.other.md5sum.1 = Md5.digest q.other.ksize q.other.mins
    ∧ q.main.md5sum.2.mins = q.main.mins ∧ q.other.md5sum.2.mins = q.other.mins := by
  intro q
  have h := cache_inv_vec p cs h0
  exact ⟨(Vec.md5sum_spec h.1).1, (Vec.md5sum_spec h.2).1, (Vec.md5sum_spec h.1).2.2.1, (Vec.md5sum_spec h.2).2.2.1⟩

/-- **T-md5_current**, tree type. -/
theorem md5_current_tree (p : TPair) (cs : List Cmd) (h0 : TOk p.main ∧ TOk p.other) :
    let q := p.run cs
    q.main.md5sum.1 = Md5.digest q.main.ksize q.main.mins
    ∧ q.other.md5sum.1 = Md5.digest q.other.ksize q.other.mins
    ∧ q.main.md5sum.2.mins = q.main.mins ∧ q.other.md5sum.2.mins = q.other.mins := by
  intro q
  have h := cache_inv_tree p cs h0
  exact ⟨(Tree.md5sum_spec h.1).1, (Tree.md5sum_spec h.2).1, (Tree.md5sum_spec h.1).2.2.1, (Tree.md5sum_spec h.2).2.2.1⟩

/-- what the machine's observer commands answer after any history (this is the value the driver
    prints in its model column): the digest of the current contents of the sketch asked. -/
theorem observers_current_vec (p : VPair) (cs : List Cmd) (h0 : VOk p.main ∧ VOk p.other) :
    let q := p.run cs
    (q.step (.on false .md5)).2 = .digest (Md5.digest q.main.ksize q.main.mins)
    ∧ (q.step (.on true .md5)).2 = .digest (Md5.digest q.other.ksize q.other.mins)
    ∧ (q.step (.on false .clone)).2 = .digest (Md5.digest q.main.ksize q.main.mins)
    ∧ (q.step (.on false .copy)).2 = .digest (Md5.digest q.main.ksize q.main.mins) := by
  intro q
  have h := cache_inv_vec p cs h0
  exact ⟨(vecOp_digest (s := q.other) h.1).1, (vecOp_digest (s := q.main) h.2).1, (vecOp_digest (s := q.other) h.1).2.2.1, (vecOp_digest (s := q.other) h.1).2.2.2.2.1⟩

theorem observers_current_tree (p : TPair) (cs : List Cmd) (h0 : TOk p.main ∧ TOk p.other) :
    let q := p.run cs
    (q.step (.on false .md5)).2 = .digest (Md5.digest q.main.ksize q.main.mins)
    ∧ (q.step (.on true .md5)).2 = .digest (Md5.digest q.other.ksize q.other.mins)
    ∧ (q.step (.on false .clone)).2 = .digest (Md5.digest q.main.ksize q.main.mins)
    ∧ (q.step (.on false .copy)).2 = .digest (Md5.digest q.main.ksize q.main.mins) := by
  intro q
  have h := cache_inv_tree p cs h0
  exact ⟨(treeOp_digest (s := q.other) h.1).1, (treeOp_digest (s := q.main) h.2).1, (treeOp_digest (s := q.other) h.1).2.2.1, (treeOp_digest (s := q.other) h.1).2.2.2.2.1⟩

/-- **T-eq_sound**: after any history, two sketches with the same ksize and the same hashes compare
    equal (`==` is md5 equality), both types. -/
theorem eq_sound_vec (p : VPair) (cs : List Cmd) (h0 : VOk p.main ∧ VOk p.other) :
    let q := p.run cs
    q.main.ksize = q.other.ksize → q.main.mins = q.other.mins → (q.main.eq q.other).1 = true := by
  intro q hk hm
  have h := cache_inv_vec p cs h0
  rw [(Vec.eq_spec h.1 h.2).1]
  unfold Vec.digest
  rw [hk, hm]
  exact beq_self_eq_true _

theorem eq_sound_tree (p : TPair) (cs : List Cmd) (h0 : TOk p.main ∧ TOk p.other) :
    let q := p.run cs
    q.main.ksize = q.other.ksize → q.main.mins = q.other.mins → (q.main.eq q.other).1 = true := by
  intro q hk hm
  have h := cache_inv_tree p cs h0
  rw [(Tree.eq_spec h.1 h.2).1]
  unfold Tree.digest
  rw [hk, hm]
  exact beq_self_eq_true _

/-- `==` after any history is exactly equality of the digests of the current contents (so the only
    way two sketches with different contents compare equal is equal MD5 of their preimages) -/
theorem eq_is_digest_eq_vec (p : VPair) (cs : List Cmd) (h0 : VOk p.main ∧ VOk p.other) :
    let q := p.run cs
    (q.main.eq q.other).1 = (Md5.digest q.main.ksize q.main.mins == Md5.digest q.other.ksize q.other.mins) := by
  intro q
  have h := cache_inv_vec p cs h0
  exact (Vec.eq_spec h.1 h.2).1

theorem eq_is_digest_eq_tree (p : TPair) (cs : List Cmd) (h0 : TOk p.main ∧ TOk p.other) :
    let q := p.run cs
    (q.main.eq q.other).1 = (Md5.digest q.main.ksize q.main.mins == Md5.digest q.other.ksize q.other.mins) := by
  intro q
  have h := cache_inv_tree p cs h0
  exact (Tree.eq_spec h.1 h.2).1

/-- **T-eq_ksize** (the "ksize" half of "equal exactly when ksize and hashes agree"): after any
    history, for two sketches holding the SAME hashes under DIFFERENT ksizes, `==` compares the MD5
    of two different byte strings (the ksize digits are part of the preimage) — it can only answer
    `true` through an MD5 collision; it never short-cuts on the hashes alone. -/
theorem eq_ksize_vec (p : VPair) (cs : List Cmd) (h0 : VOk p.main ∧ VOk p.other) :
    let q := p.run cs
    q.main.mins = q.other.mins → q.main.ksize ≠ q.other.ksize →
    Md5.preimage q.main.ksize q.main.mins ≠ Md5.preimage q.other.ksize q.other.mins
    ∧ (q.main.eq q.other).1 = (Md5.md5 (Md5.preimage q.main.ksize q.main.mins)
        == Md5.md5 (Md5.preimage q.other.ksize q.other.mins)) := by
  intro q hm hk
  refine ⟨fun h => hk (Md5.preimage_ksize_inj (hm ▸ h)), ?_⟩
  exact eq_is_digest_eq_vec p cs h0

theorem eq_ksize_tree (p : TPair) (cs : List Cmd) (h0 : TOk p.main ∧ TOk p.other) :
    let q := p.run cs
    q.main.mins = q.other.mins → q.main.ksize ≠ q.other.ksize →
    Md5.preimage q.main.ksize q.main.mins ≠ Md5.preimage q.other.ksize q.other.mins
    ∧ (q.main.eq q.other).1 = (Md5.md5 (Md5.preimage q.main.ksize q.main.mins)
        == Md5.md5 (Md5.preimage q.other.ksize q.other.mins)) := by
  intro q hm hk
  refine ⟨fun h => hk (Md5.preimage_ksize_inj (hm ▸ h)), ?_⟩
  exact eq_is_digest_eq_tree p cs h0

/-- `==` does not depend on the operand order, after any history (`other == main` is the same digest
    comparison) -/
theorem eq_symm_vec (p : VPair) (cs : List Cmd) (h0 : VOk p.main ∧ VOk p.other) :
    let q := p.run cs
    (q.other.eq q.main).1 = (q.main.eq q.other).1 := by
  intro q
  have h := cache_inv_vec p cs h0
  rw [(Vec.eq_spec h.1 h.2).1, (Vec.eq_spec h.2 h.1).1]
  exact Bool.beq_comm

theorem eq_symm_tree (p : TPair) (cs : List Cmd) (h0 : TOk p.main ∧ TOk p.other) :
    let q := p.run cs
    (q.other.eq q.main).1 = (q.main.eq q.other).1 := by
  intro q
  have h := cache_inv_tree p cs h0
  rw [(Tree.eq_spec h.1 h.2).1, (Tree.eq_spec h.2 h.1).1]
  exact Bool.beq_comm

/-- **T-copy**: after any history a clone holds its source's ksize and hashes, reports the same
    md5sum as its source, and that is the digest of those hashes. -/
theorem copy_vec (p : VPair) (cs : List Cmd) (h0 : VOk p.main ∧ VOk p.other) :
    let s := (p.run cs).main
    s.clone.1.mins = s.mins ∧ s.clone.1.ksize = s.ksize
    ∧ s.clone.1.md5sum.1 = s.md5sum.1 ∧ s.clone.1.md5sum.1 = Md5.digest s.ksize s.mins := by
  intro s
  have h := (cache_inv_vec p cs h0).1
  have hc := Vec.clone_spec h
  have e : s.clone.1.md5sum.1 = s.digest := (Vec.md5sum_spec hc.2.2.2.1).1
  exact ⟨hc.1, hc.2.1, e.trans (Vec.md5sum_spec h).1.symm, e⟩

theorem copy_tree (p : TPair) (cs : List Cmd) (h0 : TOk p.main ∧ TOk p.other) :
    let s := (p.run cs).main
    s.clone.1.mins = s.mins ∧ s.clone.1.ksize = s.ksize
    ∧ s.clone.1.md5sum.1 = s.md5sum.1 ∧ s.clone.1.md5sum.1 = Md5.digest s.ksize s.mins := by
  intro s
  have h := (cache_inv_tree p cs h0).1
  have hc := Tree.clone_spec h
  have e : s.clone.1.md5sum.1 = s.digest := (Tree.md5sum_spec hc.2.2.2.1).1
  exact ⟨hc.1, hc.2.1, e.trans (Tree.md5sum_spec h).1.symm, e⟩

/-- **T-eq_complete_cex** (finding, not repaired): the preimage has no separators, so different
    hash lists at the same ksize feed the same bytes into MD5 — "equal exactly when ksize and hashes
    agree" fails in one direction independently of MD5 collisions.  `[1,23]` and `[123]` are both
    strictly increasing, i.e. contents of real sketches; replayed on the real code by
    `corpus/C13/preimage.ops` (the two sketches compare equal). -/
theorem eq_complete_cex :
    Md5.preimage 21 [1, 23] = Md5.preimage 21 [123] ∧ [1, 23] ≠ [123]
    ∧ Md5.preimage 21 [1, 23] = Md5.preimage 21 [12, 3] ∧ Md5.preimage 21 [1, 23] = Md5.preimage 21 [1, 2, 3] := by
  decide

/-- … and therefore two *reachable* sketches with different hashes compare equal: build `{1,23}` and
    `{123}` by adds on new scaled sketches and compare (no MD5 evaluation needed: equal preimages). -/
theorem eq_complete_cex_reachable :
    let p : VPair := ⟨Vec.new 0 (2 ^ 64 - 1) false, Vec.new 0 (2 ^ 64 - 1) false⟩
    let q := p.run [.on false (.add 1 1), .on false (.add 23 1), .on true (.add 123 1)]
    q.main.mins = [1, 23] ∧ q.other.mins = [123] ∧ (q.main.eq q.other).1 = true := by
  intro p q
  have hm : q.main.mins = [1, 23] := by decide
  have ho : q.other.mins = [123] := by decide
  have hk1 : q.main.ksize = 21 := by decide
  have hk2 : q.other.ksize = 21 := by decide
  refine ⟨hm, ho, ?_⟩
  have h := cache_inv_vec p [.on false (.add 1 1), .on false (.add 23 1), .on true (.add 123 1)]
    ⟨VOk.new .., VOk.new ..⟩
  rw [(Vec.eq_spec h.1 h.2).1]
  show (Md5.digest q.main.ksize q.main.mins == Md5.digest q.other.ksize q.other.mins) = true
  rw [hm, ho, hk1, hk2]
  unfold Md5.digest
  rw [eq_complete_cex.1]
  exact beq_self_eq_true _

/-- **T-merge_num** (the clause "whatever … mutations happened before", for `merge` between sketches
    of DIFFERENT size bounds — `num` is not part of `check_compatible`): after any history, whatever
    the two `num`s are, whether the receiver is empty or not and whether the source's digest is
    cached or not, an accepted `merge` leaves the receiver with the merged hashes truncated to the
    receiver's OWN `num`, and its next `md5sum` is the digest of exactly those hashes (never the
    source's cached digest). -/
theorem merge_num_vec (p : VPair) (cs : List Cmd) (h0 : VOk p.main ∧ VOk p.other) :
    let q := p.run cs
    compatErr q.main.ksize q.main.maxHash q.other.ksize q.other.maxHash = none →
    let r := q.step (.on false .merge)
    let m := mergeMins q.main.mins q.other.mins
    r.1.main.mins = (if m.length > q.main.num && q.main.num != 0 then m.take q.main.num else m)
    ∧ r.1.main.md5sum.1 = Md5.digest q.main.ksize r.1.main.mins := by
  intro q hc r m
  have h := VPair.step_ok (.on false .merge) (cache_inv_vec p cs h0)
  have hr : r.1.main = q.main.merge q.other := by
    simp only [r, VPair.step, vecOp, Vec.mergeChecked, hc]
  have hk : (q.main.merge q.other).ksize = q.main.ksize := by
    unfold Vec.merge Vec.reset; simp only []; split <;> rfl
  have hm : (q.main.merge q.other).mins
      = (if m.length > q.main.num && q.main.num != 0 then m.take q.main.num else m) := by
    unfold Vec.merge Vec.reset; simp only []
    by_cases hc' : (decide (m.length > q.main.num) && q.main.num != 0) = true
    · rw [if_pos hc', if_pos hc']
    · rw [if_neg hc', if_neg hc']
  refine ⟨by rw [hr, hm], ?_⟩
  have := (Vec.md5sum_spec h.1).1
  rw [this, hr]; unfold Vec.digest; rw [hk]

/-- **T-merge_num**, tree type (`union.take(num)` of the receiver). -/
theorem merge_num_tree (p : TPair) (cs : List Cmd) (h0 : TOk p.main ∧ TOk p.other) :
    let q := p.run cs
    compatErr q.main.ksize q.main.maxHash q.other.ksize q.other.maxHash = none →
    let r := q.step (.on false .merge)
    let u := unionSorted q.main.mins q.other.mins
    r.1.main.mins = (if q.main.num == 0 then u else u.take q.main.num)
    ∧ r.1.main.md5sum.1 = Md5.digest q.main.ksize r.1.main.mins := by
  intro q hc r u
  have h := TPair.step_ok (.on false .merge) (cache_inv_tree p cs h0)
  have hr : r.1.main = q.main.merge q.other := by
    simp only [r, TPair.step, treeOp, Tree.mergeChecked, hc]
  have hk : (q.main.merge q.other).ksize = q.main.ksize := rfl
  have hm : (q.main.merge q.other).mins = (if q.main.num == 0 then u else u.take q.main.num) := rfl
  refine ⟨by rw [hr, hm], ?_⟩
  have := (Tree.md5sum_spec h.1).1
  rw [this, hr]; unfold Tree.digest; rw [hk]

/-- **T-cache_inv** over a register file: ANY number of live sketches of either type; a copy
    (`Clone`, the serde round trip, a `From` conversion by value of a clone or by reference) lands in
    another register while its source stays alive, copies of copies included; every register can be
    mutated (every entry point of `Op`), copied and observed at any time in any order.  Every
    register's cache is empty or the digest of THAT register's own current (ksize, hashes). -/
theorem cache_inv_regs (rs : List Sk) (cs : List RCmd) (h0 : RegsOk rs) : RegsOk (regsRun rs cs) :=
  regsRun_ok cs h0

/-- **T-md5_current** over a register file: after any history, `md5sum` of every live sketch is the
    digest of its own current contents — whatever was copied from or to it before, whether a digest
    existed when the copy was taken, and whichever of source and copy is asked first — and asking
    changes neither the hashes nor the ksize. -/
theorem md5_current_regs (rs : List Sk) (cs : List RCmd) (h0 : RegsOk rs) (n : Nat) (s : Sk)
    (hn : (regsRun rs cs)[n]? = some s) :
    s.md5sum.1 = Md5.digest s.ksize s.mins ∧ s.md5sum.2.mins = s.mins ∧ s.md5sum.2.ksize = s.ksize := by
  have h := Sk.md5sum_spec ((cache_inv_regs rs cs h0).get hn)
  exact ⟨h.1, h.2.2.1, h.2.2.2⟩

/-- **T-copy_independent**: after any history, take a copy of register `i` into register `j`
    (`Clone` with both kept alive; no digest need exist yet), then run any op on the source `i`
    (operand `k ≠ j`): the copy `j` is exactly what it was (same hashes as the source had when it
    was copied), and afterwards EVERY register — source and copy, in whichever order they are asked
    — reports the digest of its own contents.  Symmetrically for an op on the copy. -/
theorem copy_independent (rs : List Sk) (cs : List RCmd) (h0 : RegsOk rs) (i j k : Nat) (op : Op)
    (hij : i ≠ j) (hkj : k ≠ j) (hki : k ≠ i) :
    let q := regsRun rs cs
    let q1 := (regsStep q (.dup i j)).1
    let onSrc := (regsStep q1 (.on i k op)).1
    let onCopy := (regsStep q1 (.on j k op)).1
    onSrc[j]? = q1[j]? ∧ onCopy[i]? = q1[i]?
    ∧ (∀ s : Sk, q[i]? = some s → j < q.length → ∃ c : Sk, q1[j]? = some c ∧ c.mins = s.mins ∧ c.ksize = s.ksize)
    ∧ (∀ (n : Nat) (s : Sk), onSrc[n]? = some s → s.md5sum.1 = Md5.digest s.ksize s.mins)
    ∧ (∀ (n : Nat) (s : Sk), onCopy[n]? = some s → s.md5sum.1 = Md5.digest s.ksize s.mins) := by
  intro q q1 onSrc onCopy
  have hq : RegsOk q := cache_inv_regs rs cs h0
  have hq1 : RegsOk q1 := regsStep_ok _ hq
  refine ⟨regsStep_frame i k j op (Ne.symm hij) (Ne.symm hkj), regsStep_frame j k i op hij (Ne.symm hki), ?_,
    fun n s hn => (Sk.md5sum_spec ((regsStep_ok (.on i k op) hq1).get hn)).1,
    fun n s hn => (Sk.md5sum_spec ((regsStep_ok (.on j k op) hq1).get hn)).1⟩
  intro s hs hj
  refine ⟨s.clone.1, ?_, (Sk.clone_same s).1, (Sk.clone_same s).2⟩
  show (regsStep q (.dup i j)).1[j]? = some s.clone.1
  have hne : (i == j) = false := by simpa using hij
  have hlen : ¬ q.length ≤ j := Nat.not_le.mpr hj
  simp only [regsStep, hne, hs, Bool.false_or, decide_eq_true_eq, hlen, if_false]
  rw [List.getElem?_set_self (by rw [List.length_set]; exact hj)]

/-! non-vacuity of the hypotheses: the starting pair used by the driver satisfies them -/
/-- T-merge_num: a receiver of num 3, a source of num 10, compatible -/
example : (VOk (Vec.new 3 0 true) ∧ VOk (Vec.new 10 0 false))
    ∧ compatErr (Vec.new 3 0 true).ksize (Vec.new 3 0 true).maxHash (Vec.new 10 0 false).ksize (Vec.new 10 0 false).maxHash = none :=
  ⟨⟨VOk.new .., VOk.new ..⟩, by decide⟩
example : VOk (Vec.new 3 0 true) ∧ VOk (Vec.new 3 0 false) := ⟨VOk.new .., VOk.new ..⟩
example : TOk (Tree.new 0 5 true) ∧ TOk (Tree.new 0 5 false) := ⟨TOk.new .., TOk.new ..⟩
example : Pair.Ok (.v ⟨Vec.new 3 0 true, Vec.new 3 0 false 31⟩) := ⟨VOk.new .., VOk.new ..⟩
example : Pair.Ok (.t ⟨Tree.new 0 5 true, Tree.new 0 5 false 31⟩) := ⟨TOk.new .., TOk.new ..⟩
/-- register file used by the driver: new sketches of both types -/
example : RegsOk [.v (Vec.new 3 0 true), .t (Tree.new 0 5 false 31), .v (Vec.new 0 5 false)] := by
  intro s hs
  simp only [List.mem_cons, List.not_mem_nil, or_false] at hs
  rcases hs with h | h | h <;> subst h
  · exact VOk.new ..
  · exact TOk.new ..
  · exact VOk.new ..
/-- hypotheses of T-copy_independent: the copied register exists and the target is in range -/
example : let q := regsRun [Sk.v (Vec.new 3 0 true), .v (Vec.new 3 0 true), .v (Vec.new 3 0 true)] []
    (∃ s, q[0]? = some s) ∧ 1 < q.length ∧ (0 : Nat) ≠ 1 ∧ (2 : Nat) ≠ 1 ∧ (2 : Nat) ≠ 0 :=
  ⟨⟨_, rfl⟩, by decide, by decide, by decide, by decide⟩
/-- hypotheses of T-eq_ksize: same hashes, different ksizes -/
example : let q := (⟨Vec.new 0 5 false 21, Vec.new 0 5 false 31⟩ : VPair).run []
    q.main.mins = q.other.mins ∧ q.main.ksize ≠ q.other.ksize := by decide
/-- `downsample_scaled` does produce a sketch (hypothesis of T-derived is satisfiable) -/
example : ∃ t, (Vec.new 0 (2 ^ 64 - 1) false).downsampleScaled 1 = .ok t := ⟨_, rfl⟩

end Sourmash.C13
