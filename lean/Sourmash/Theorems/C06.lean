import Sourmash.Spec.SigFormat
/-! Property C06 — signatures survive save/load unchanged and stay format-compatible.
Property theorems only; helper lemmas live in `Sourmash/Lemmas/Json*.lean`. -/
namespace Sourmash.C06
open SigJson SigFormat
open Sourmash.Generated.C06

/-! ### T-field_names — "the JSON uses the published sourmash signature field names and value encodings".
The left-hand sides are regenerated from the Rust sources on every run (`translator/c06.py`), so a rename
on the `Serialize` side, on the `Deserialize` side, or on both at once breaks one of these. -/

/-- the keys `impl Serialize for KmerMinHash` writes, in order, are the published sketch keys -/
theorem field_names_sketch_written : kmhSer.map (·.1) = sketchFieldNames := by decide
/-- … of which exactly `abundances` is written conditionally (`if let Some(abunds)`) -/
theorem field_names_sketch_conditional :
    (kmhSer.filter (·.2)).map (·.1) = [str "abundances"] ∧ (btreeSer.filter (·.2)).map (·.1) = [str "abundances"] := by
  decide
/-- the tree-backed sketch writes the same keys in the same order -/
theorem field_names_tree_written : btreeSer = kmhSer := by decide
/-- the keys and types `TempSig` reads (both sketch types) are the published ones -/
theorem field_names_sketch_read :
    kmhTemp.map (·.1) = sketchReadNames ∧ btreeTemp = kmhTemp ∧
    kmhTemp.map (·.2) = [.u32, .u32, .u64, .u64, .string, .vecU64, .optVecU64, .string] := by decide
/-- what is read is what is written (as sets of names): nothing is written that the reader ignores, and
    nothing the reader requires is left unwritten -/
theorem field_names_sketch_read_eq_written :
    ∀ k, k ∈ kmhTemp.map (·.1) ↔ k ∈ kmhSer.map (·.1) := by
  intro k
  rw [field_names_sketch_written, field_names_sketch_read.1]
  simp only [sketchReadNames, sketchFieldNames, List.map_cons, List.map_nil, List.mem_cons, List.not_mem_nil, or_false]
  constructor <;> (intro h; rcases h with h | h | h | h | h | h | h | h <;> simp [h])
/-- the keys of a signature object, in order, after `rename` -/
theorem field_names_signature : sigFields.map (·.name) = signatureFieldNames := by decide
/-- types, `skip_serializing_if` and defaults of the signature keys: only `name` is omitted when absent
    (`filename` is written as `null`), `class / email / license / version` default, the rest is required -/
theorem field_attrs_signature :
    sigFields.map (fun f => (f.ty, f.skipIfNone, f.dflt)) =
      [(.string, false, .str defaultClass), (.string, false, .str defaultEmail), (.string, false, .required),
       (.optString, false, .none), (.optString, true, .none), (.string, false, .str defaultLicense),
       (.vecSketch, false, .required), (.f64, false, .f64 defaultVersionBits)] := by decide
/-- the `molecule` strings written (`Display for HashFunctions`) are the published ones, and each one is
    accepted back (after lower-casing) as the variant it came from, by both sketch types -/
theorem field_values_molecule :
    displayArms.map (·.2) = [Mol.dna, .protein, .dayhoff, .hp].map moleculeName ∧
    (∀ vs ∈ displayArms, (lower vs.2, vs.1) ∈ kmhMolArms) ∧ btreeMolArms = kmhMolArms := by decide
/-- the untagged `Sketch` enum tries the vector type first, then the tree type, then HyperLogLog -/
theorem sketch_variant_order :
    sketchVariants.map (·.2) = [str "KmerMinHash", str "KmerMinHashBTree", str "HyperLogLog"] := by decide
/-- HyperLogLog sketch objects (serde derive) -/
theorem field_names_hll : hllFields.map (·.1) = hllFieldNames ∧ hllFields.map (·.2) = [.vecU8, .usize, .usize, .usize] := by
  decide
/-- the names the *model's* reader looks up are the published ones (ties `Model/Json.lean` to the lists above) -/
theorem model_reads_published :
    [K.num, K.ksize, K.seed, K.max_hash, K.mins, K.md5sum, K.abundances, K.molecule] = sketchFieldNames ∧
    [K.class_, K.email, K.hash_function, K.filename, K.name, K.license, K.signatures, K.version] = signatureFieldNames ∧
    [K.registers, K.p, K.q, K.ksize] = hllFieldNames ∧
    [Mol.dna, .protein, .dayhoff, .hp].map Mol.display = [Mol.dna, .protein, .dayhoff, .hp].map moleculeName := by decide

end Sourmash.C06
