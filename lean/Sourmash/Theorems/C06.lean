import Sourmash.Spec.SigFormat
import Sourmash.Lemmas.Json
import Sourmash.Lemmas.JsonSort
import Sourmash.Lemmas.JsonFilter
import Sourmash.Lemmas.JsonDescribe
/-! Property C06 — signatures survive save/load unchanged and stay format-compatible.
Property theorems only; helper lemmas live in `Sourmash/Lemmas/Json*.lean`. -/
namespace Sourmash.C06
open SigJson SigFormat
open Sourmash.Generated.C06

/-! ### T-field_names — "the JSON uses the published sourmash signature field names and value encodings".
The left-hand sides are regenerated from the Rust sources on every run (`translator/c06.py`), so a rename
on the `Serialize` side, on the `Deserialize` side, or on both at once breaks one of these. -/

/-- the keys `impl Serialize for KmerMinHash` writes, in order, are the published sketch keys -/
theorem field_names_sketch_written : kmhSer.map (·.1) = sketchFieldNames := by decide
/-- … of which exactly `abundances` is written conditionally (`if let Some(abunds)`) -/
theorem field_names_sketch_conditional :
    (kmhSer.filter (·.2)).map (·.1) = [str "abundances"] ∧ (btreeSer.filter (·.2)).map (·.1) = [str "abundances"] := by
  decide
/-- the tree-backed sketch writes the same keys in the same order -/
theorem field_names_tree_written : btreeSer = kmhSer := by decide
/-- the keys and types `TempSig` reads (both sketch types) are the published ones -/
theorem field_names_sketch_read :
    kmhTemp.map (·.1) = sketchReadNames ∧ btreeTemp = kmhTemp ∧
    kmhTemp.map (·.2) = [.u32, .u32, .u64, .u64, .string, .vecU64, .optVecU64, .string] := by decide
/-- what is read is what is written (as sets of names): nothing is written that the reader ignores, and
    nothing the reader requires is left unwritten -/
theorem field_names_sketch_read_eq_written :
    ∀ k, k ∈ kmhTemp.map (·.1) ↔ k ∈ kmhSer.map (·.1) := by
  intro k
  rw [field_names_sketch_written, field_names_sketch_read.1]
  simp only [sketchReadNames, sketchFieldNames, List.map_cons, List.map_nil, List.mem_cons, List.not_mem_nil, or_false]
  constructor <;> (intro h; rcases h with h | h | h | h | h | h | h | h <;> simp [h])
/-- the keys of a signature object, in order, after `rename` -/
theorem field_names_signature : sigFields.map (·.name) = signatureFieldNames := by decide
/-- types, `skip_serializing_if` and defaults of the signature keys: only `name` is omitted when absent
    (`filename` is written as `null`), `class / email / license / version` default, the rest is required -/
theorem field_attrs_signature :
    sigFields.map (fun f => (f.ty, f.skipIfNone, f.dflt)) =
      [(.string, false, .str defaultClass), (.string, false, .str defaultEmail), (.string, false, .required),
       (.optString, false, .none), (.optString, true, .none), (.string, false, .str defaultLicense),
       (.vecSketch, false, .required), (.f64, false, .f64 defaultVersionBits)] := by decide
/-- the `molecule` strings written (`Display for HashFunctions`) are the published ones, and each one is
    accepted back (after lower-casing) as the variant it came from, by both sketch types -/
theorem field_values_molecule :
    displayArms.map (·.2) = [Mol.dna, .protein, .dayhoff, .hp].map moleculeName ∧
    (∀ vs ∈ displayArms, (lower vs.2, vs.1) ∈ kmhMolArms) ∧ btreeMolArms = kmhMolArms := by decide
/-- the untagged `Sketch` enum tries the vector type first, then the tree type, then HyperLogLog -/
theorem sketch_variant_order :
    sketchVariants.map (·.2) = [str "KmerMinHash", str "KmerMinHashBTree", str "HyperLogLog"] := by decide
/-- HyperLogLog sketch objects (serde derive) -/
theorem field_names_hll : hllFields.map (·.1) = hllFieldNames ∧ hllFields.map (·.2) = [.vecU8, .usize, .usize, .usize] := by
  decide
/-- the names the *model's* reader looks up are the published ones (ties `Model/Json.lean` to the lists above) -/
theorem model_reads_published :
    [K.num, K.ksize, K.seed, K.max_hash, K.mins, K.md5sum, K.abundances, K.molecule] = sketchFieldNames ∧
    [K.class_, K.email, K.hash_function, K.filename, K.name, K.license, K.signatures, K.version] = signatureFieldNames ∧
    [K.registers, K.p, K.q, K.ksize] = hllFieldNames ∧
    [Mol.dna, .protein, .dayhoff, .hp].map Mol.display = [Mol.dna, .protein, .dayhoff, .hp].map moleculeName := by decide

/-- "… so an independent JSON reader sees exactly the sketch's state": for every list of signatures (no
    hypothesis at all), the document `toJson` writes is an array with one object per signature that carries
    only published keys, and what a reader that knows nothing but the published names finds under them is
    exactly the state: class, email, hash_function, filename (`null` when absent), name (no key when absent),
    license, version, and per sketch num, ksize, seed, max_hash, the hashes, md5sum, the abundances (no key when
    untracked) and the published molecule string -/
theorem written_is_described (sigs : List Signature) : describes (toJson sigs) sigs = true := by
  have h := all_zip_map_self toJsonSig describesSig describesSig_written sigs
  simpa [describes, toJson] using h

/-- "the saved md5 and abundances are those of the hashes saved next to them": for every list of signatures
    whose sketches are in a coherent state (`Coherent`: hashes strictly increasing, one abundance per hash, and
    the md5 the sketch reports is the MD5 of its `ksize` and hashes — what the sketch operations maintain, C01
    and C13), every sketch object of the written document, read with nothing but the published names, lists
    strictly increasing hashes, as many abundances as hashes (when it lists abundances at all), and an `md5sum`
    that is the MD5 of the `ksize` and `mins` written next to it (`which` selects the objects looked at).
    The run applies `documentDefect` to the text the real writers produce for sketches that were built by
    add / remove / clear / merge / reload histories on the real code. -/
theorem written_is_coherent (sigs : List Signature) (which : List (List Bool))
    (h : ∀ s ∈ sigs, ∀ sk ∈ s.sketches, CoherentSketch sk) : documentDefect (toJson sigs) which = none :=
  documentDefect_written sigs which h

/-- non-vacuity: a tracked num sketch after a merge that overflowed `num` -/
example : ∃ m : MinHash, m.mins = [1, 2, 10] ∧ m.abunds = some [5, 7, 5] ∧ Coherent m :=
  ⟨{ num := 3, ksize := 31, seed := 42, maxHash := 0, mins := [1, 2, 10], abunds := some [5, 7, 5],
     md5 := md5Of 31 [1, 2, 10], mol := .dna }, rfl, rfl,
   { sorted := by decide, aligned := (by intro a ha; cases ha; rfl), md5 := by simp only }⟩

/-! ### T-roundtrip — "writing any signature to JSON and loading it back yields a signature with identical
name, filename, license and, for every sketch, identical parameters, hashes, abundances and md5" -/

/-- T-roundtrip: for every list of signatures, each holding any number of vector-backed, tree-backed and
    HyperLogLog sketches in a state the sketch operations can produce (`WFSignature`: hashes strictly
    increasing with aligned abundances — C01 —, values within their Rust types, num *or* scaled, one of the
    four hash functions), loading what was written succeeds and gives the signatures back up to
    `normalise` … -/
theorem roundtrip (sigs : List Signature) (h : ∀ s ∈ sigs, WFSignature s) :
    fromJson (toJson sigs) = .ok (sigs.map Signature.normalise) := by
  simp only [fromJson, toJson, fromJsonSigs_written sigs h]

/-- … and `normalise` changes nothing but the container type of tree-backed sketches: class, email,
    hash_function, filename, name, license, version are identical, there are as many sketches, and each has
    identical parameters (num, ksize, seed, max_hash, molecule), hashes, abundances and md5 -/
theorem normalise_only_container (s : Signature) :
    s.normalise.name = s.name ∧ s.normalise.filename = s.filename ∧ s.normalise.license = s.license ∧
    s.normalise.cls = s.cls ∧ s.normalise.email = s.email ∧ s.normalise.hashFunction = s.hashFunction ∧
    s.normalise.version = s.version ∧ s.normalise.sketches.map content = s.sketches.map content := by
  refine ⟨rfl, rfl, rfl, rfl, rfl, rfl, rfl, ?_⟩
  simp only [Signature.normalise, List.map_map]
  apply List.map_congr_left
  intro sk _
  cases sk <;> rfl

/-- the single-signature form (`Signature::to_writer` writes `[sig]`) -/
theorem roundtrip_one (s : Signature) (h : WFSignature s) : fromJson (toJson [s]) = .ok [s.normalise] :=
  roundtrip [s] (by intro x hx; simp at hx; exact hx ▸ h)

/-- the container type does change: a tree-backed sketch comes back vector-backed (untagged enum, first
    variant wins) -/
theorem roundtrip_tree_comes_back_vec (m : MinHash) (h : WFMinHash m) :
    fromJsonSketch (toJsonSketch (.tree m)) = .ok (.vec m) :=
  fromJsonSketch_written (.tree m) h

/-- non-vacuity: a signature with a tree-backed sketch (hashes up to 2^64-1, abundances), a num sketch and a
    HyperLogLog sketch satisfies the hypothesis -/
def sampleSig : Signature :=
  { cls := str "sourmash_signature", email := [], hashFunction := str "0.murmur64", filename := none,
    name := some (str "a \"quoted\"\nname"), license := str "CC0", version := defaultVersionBits,
    sketches := [
      .tree { num := 0, ksize := 31, seed := 42, maxHash := 2^64 - 1, mins := [0, 7, 2^64 - 1],
              abunds := some [1, 2^64 - 1, 3], md5 := str "d41d8", mol := .protein },
      .vec { num := 500, ksize := 21, seed := 42, maxHash := 0, mins := [5, 6], abunds := none, md5 := [], mol := .dna },
      .hll [0, 3, 0, 1] 2 62 21] }

example : WFSignature sampleSig := by
  intro sk hsk
  simp only [sampleSig, List.mem_cons, List.not_mem_nil, or_false] at hsk
  rcases hsk with rfl | rfl | rfl
  · exact { num := by decide, ksize := by decide, seed := by decide, maxHash := by decide,
            mins := by decide, abunds := (by intro a ha; cases ha; decide),
            sorted := by decide, aligned := (by intro a ha; cases ha; rfl),
            numOrScaled := by decide, mol := trivial }
  · exact { num := by decide, ksize := by decide, seed := by decide, maxHash := by decide,
            mins := by decide, abunds := (by intro a ha; cases ha),
            sorted := by decide, aligned := (by intro a ha; cases ha),
            numOrScaled := by decide, mol := trivial }
  · exact ⟨by decide, by decide, by decide, by decide⟩

/-! What the hypothesis of T-roundtrip excludes, stated positively (both are replayed on the real code by
`corpus/C06/*.ops`): -/

/-- a sketch created with both `num` and `scaled` non-zero loses its `num` on load -/
theorem roundtrip_num_zeroed (m : MinHash) (hn : m.num < 2^32) (h : WFMinHash { m with num := 0 })
    (hmax : m.maxHash ≠ 0) :
    fromJsonSketch (toJsonSketch (.vec m)) = .ok (.vec { m with num := 0 }) := by
  have hin : InRange m := { h.toInRange with num := hn }
  have hrep : repair m = { m with num := 0 } := by
    have := repair_wf h
    cases m
    simp_all [repair]
  simp only [fromJsonSketch, toJsonSketch, fromJsonVec_written m hin h.mol, hrep]

/-- non-vacuity: `KmerMinHash::new(scaled = 1000, …, num = 5)` -/
example : ∃ m : MinHash, m.num = 5 ∧ m.num < 2^32 ∧ WFMinHash { m with num := 0 } ∧ m.maxHash ≠ 0 :=
  ⟨{ num := 5, ksize := 21, seed := 42, maxHash := 18446744073709551, mins := [1, 2, 3], abunds := none, md5 := [],
     mol := .dna }, rfl, by decide,
   { num := by decide, ksize := by decide, seed := by decide, maxHash := by decide, mins := by decide,
     abunds := (by intro a ha; cases ha), sorted := by decide, aligned := (by intro a ha; cases ha),
     numOrScaled := fun _ => rfl, mol := trivial }, by decide⟩

/-- a sketch with a `HashFunctions::Custom` hash function is written, but loading it back panics
    (`unimplemented!()`), unless its name lower-cases to one of the four standard names -/
theorem roundtrip_custom_panics (m : MinHash) (s : Str) (hm : m.mol = .custom s) (h : InRange m)
    (hs : lower s ≠ K.protein ∧ lower s ≠ K.dayhoff ∧ lower s ≠ K.hp ∧ lower s ≠ K.dna) :
    fromJsonSketch (toJsonSketch (.vec m)) = .error .panic := by
  have hv : vecOfTemp (tempOf m) = .error .panic := by
    simp [vecOfTemp, tempOf, hm, Mol.display, molOfString, hs.1, hs.2.1, hs.2.2.1, hs.2.2.2]
  simp only [fromJsonSketch, toJsonSketch, fromJsonVec, parseTemp_toJsonMH m h, hv]

/-- non-vacuity: `Custom("my")` -/
example : lower (str "my") ≠ K.protein ∧ lower (str "my") ≠ K.dayhoff ∧ lower (str "my") ≠ K.hp ∧
    lower (str "my") ≠ K.dna := by decide

/-! ### T-legacy — "files written by earlier releases (including ones with unsorted hashes) load to the hashes
they list, sorted, with abundances kept aligned" -/

/-- T-legacy, at the point where serde hands over (`TempSig`, so for *any* JSON object that parses: any key
    order, extra keys, any letter case of `molecule`): for distinct hashes in any order with an abundance
    list of the same length, the loaded sketch has exactly the listed hashes, strictly increasing, and each
    abundance is still paired with the hash it was listed with; the other parameters are as listed -/
theorem legacy_temp (t : Temp) (ab : List Nat) (mol : Mol) (hab : t.abunds = some ab)
    (hmol : molOfString t.molecule = .ok mol) (hnd : t.mins.Nodup) (hlen : ab.length = t.mins.length) :
    ∃ m ab', vecOfTemp t = .ok m ∧ m.abunds = some ab' ∧
      m.mins = sortNats t.mins ∧ m.mins.Pairwise (· < ·) ∧ m.mins.Perm t.mins ∧
      ab'.length = m.mins.length ∧ (m.mins.zip ab').Perm (t.mins.zip ab) ∧
      (∀ h a, (h, a) ∈ m.mins.zip ab' ↔ (h, a) ∈ t.mins.zip ab) ∧
      m.ksize = t.ksize ∧ m.seed = t.seed ∧ m.maxHash = t.maxHash ∧ m.md5 = t.md5 ∧ m.mol = mol := by
  have hfst : (t.mins.zip ab).map (·.1) = t.mins := map_fst_zip' _ _ (by omega)
  have hkeys : (sortPairs (t.mins.zip ab)).map (·.1) = sortNats t.mins := by
    rw [map_fst_sortPairs _ (by rw [hfst]; exact hnd), hfst]
  have hperm : ((sortPairs (t.mins.zip ab)).map (·.1)).zip ((sortPairs (t.mins.zip ab)).map (·.2)) |>.Perm (t.mins.zip ab) := by
    rw [zip_map_fst_snd]; exact perm_isortBy lexLe _
  refine ⟨{ num := if t.maxHash ≠ 0 then 0 else t.num, ksize := t.ksize, seed := t.seed, maxHash := t.maxHash,
             md5 := t.md5, mol := mol, mins := (sortPairs (t.mins.zip ab)).map (·.1),
             abunds := some ((sortPairs (t.mins.zip ab)).map (·.2)) },
    (sortPairs (t.mins.zip ab)).map (·.2), by simp only [vecOfTemp, hmol, hab], rfl, hkeys, ?_, ?_, ?_,
    hperm, fun h a => hperm.mem_iff, rfl, rfl, rfl, rfl, rfl⟩
  · show ((sortPairs (t.mins.zip ab)).map (·.1)).Pairwise (· < ·)
    rw [hkeys]; exact strict_sortNats hnd
  · show ((sortPairs (t.mins.zip ab)).map (·.1)).Perm t.mins
    rw [hkeys]; exact perm_sortNats _
  · simp

/-- T-legacy without abundances: the listed hashes, sorted (strictly when they are distinct) -/
theorem legacy_temp_no_abundances (t : Temp) (mol : Mol) (hab : t.abunds = none)
    (hmol : molOfString t.molecule = .ok mol) :
    ∃ m, vecOfTemp t = .ok m ∧ m.abunds = none ∧ m.mins = sortNats t.mins ∧ m.mins.Pairwise (· ≤ ·) ∧
      m.mins.Perm t.mins ∧ (t.mins.Nodup → m.mins.Pairwise (· < ·)) ∧
      m.ksize = t.ksize ∧ m.seed = t.seed ∧ m.maxHash = t.maxHash ∧ m.md5 = t.md5 ∧ m.mol = mol :=
  ⟨{ num := if t.maxHash ≠ 0 then 0 else t.num, ksize := t.ksize, seed := t.seed, maxHash := t.maxHash,
     md5 := t.md5, mol := mol, mins := sortNats t.mins, abunds := none },
    by simp only [vecOfTemp, hmol, hab], rfl, rfl, sorted_sortNats _, perm_sortNats _,
    fun h => strict_sortNats h, rfl, rfl, rfl, rfl, rfl⟩

/-- T-legacy at the JSON level: a sketch object listing any distinct in-range hashes in any order with aligned
    abundances loads (through the untagged `Sketch` enum) as a vector-backed sketch with those hashes sorted
    and every abundance still next to its hash -/
theorem legacy_file (m : MinHash) (ab : List Nat) (hab : m.abunds = some ab) (hr : InRange m) (hm : standard m.mol)
    (hnd : m.mins.Nodup) (hlen : ab.length = m.mins.length) :
    ∃ m' ab', fromJsonSketch (toJsonSketch (.vec m)) = .ok (.vec m') ∧ m'.abunds = some ab' ∧
      m'.mins.Pairwise (· < ·) ∧ m'.mins.Perm m.mins ∧ ab'.length = m'.mins.length ∧
      (∀ h a, (h, a) ∈ m'.mins.zip ab' ↔ (h, a) ∈ m.mins.zip ab) ∧
      m'.ksize = m.ksize ∧ m'.seed = m.seed ∧ m'.maxHash = m.maxHash ∧ m'.md5 = m.md5 ∧ m'.mol = m.mol := by
  obtain ⟨m', ab', h1, h2, _, h4, h5, h6, _, h8, h9⟩ :=
    legacy_temp (tempOf m) ab m.mol hab (molOfString_display hm) hnd hlen
  refine ⟨m', ab', ?_, h2, h4, h5, h6, h8, h9⟩
  simp only [fromJsonSketch, toJsonSketch, fromJsonVec, parseTemp_toJsonMH m hr, h1]

/-- non-vacuity of `legacy_file`: an unsorted in-range state -/
example : ∃ m : MinHash, m.abunds = some [7, 8, 6] ∧ InRange m ∧ standard m.mol ∧ m.mins.Nodup ∧
    [7, 8, 6].length = m.mins.length ∧ ¬ m.mins.Pairwise (· < ·) :=
  ⟨{ num := 0, ksize := 21, seed := 42, maxHash := 0, mins := [9, 2, 5], abunds := some [7, 8, 6], md5 := [], mol := .hp },
   rfl, { num := by decide, ksize := by decide, seed := by decide, maxHash := by decide, mins := by decide,
          abunds := (by intro a ha; cases ha; decide) }, trivial, by decide, rfl, by decide⟩

/-- non-vacuity and a worked instance: hashes 9,2,5 with abundances 7,8,6 load as 2,5,9 with 8,6,7 -/
example : vecOfTemp { num := 0, ksize := 21, seed := 42, maxHash := 0, md5 := [], mins := [9, 2, 5],
                      abunds := some [7, 8, 6], molecule := str "DNA" } =
    .ok { num := 0, ksize := 21, seed := 42, maxHash := 0, md5 := [], mins := [2, 5, 9], abunds := some [8, 6, 7],
          mol := .dna } := rfl

/-! ### T-filter — "loading with a ksize or molecule-type filter returns exactly the matching sketches, one per
returned signature" -/

/-- T-filter: `load_signatures` (flatten to one sketch per signature, then filter; the code) returns what the
    specification says (for every signature in order, for every matching sketch in order, that signature
    holding just that sketch), for every `ksize`/`moltype` filter and every list of loaded signatures without
    HyperLogLog sketches (for which the code is `unimplemented!()`) -/
theorem filter_exact (k : Option Nat) (m : Option Mol) (sigs : List Signature) (h : hasHll sigs = false) :
    filterAll k m (flatten sigs) = .ok (filterSpec k m sigs) :=
  filterAll_flatten k m sigs (by rw [← hasHll_eq]; exact h)

/-- … one sketch per returned signature, and it matches the filter … -/
theorem filter_one_per_signature (k : Option Nat) (m : Option Mol) (sigs : List Signature) :
    ∀ s ∈ filterSpec k m sigs, ∃ s₀ ∈ sigs, ∃ sk ∈ s₀.sketches, sketchOk k m sk = true ∧ s = { s₀ with sketches := [sk] } := by
  intro s hs
  simp only [filterSpec, List.mem_flatMap, List.mem_map, List.mem_filter] at hs
  obtain ⟨s₀, hs₀, sk, ⟨hsk, hok⟩, rfl⟩ := hs
  exact ⟨s₀, hs₀, sk, hsk, hok, rfl⟩

/-- … exactly the matching sketches, order preserved -/
theorem filter_exactly_matching (k : Option Nat) (m : Option Mol) (sigs : List Signature) :
    (filterSpec k m sigs).flatMap (·.sketches) = (sigs.flatMap (·.sketches)).filter (sketchOk k m) := by
  induction sigs with
  | nil => rfl
  | cons s t ih =>
    simp only [filterSpec, List.flatMap_cons, List.flatMap_append, List.filter_append] at ih ⊢
    rw [ih]
    congr 1
    induction s.sketches.filter (sketchOk k m) with
    | nil => rfl
    | cons a l ih2 => simp [ih2]

/-- the whole path: saving well-formed signatures and loading them with a filter -/
theorem filter_saved (k : Option Nat) (m : Option Mol) (sigs : List Signature) (hwf : ∀ s ∈ sigs, WFSignature s)
    (h : hasHll sigs = false) :
    loadSignatures k m (toJson sigs) = .ok (filterSpec k m (sigs.map Signature.normalise)) := by
  have hn : hasHll (sigs.map Signature.normalise) = false := by
    rw [hasHll_eq, any_isHll_normalise, ← hasHll_eq]; exact h
  simp only [loadSignatures, roundtrip sigs hwf, filter_exact k m _ hn]

/-- non-vacuity: a list without HyperLogLog sketches; the filter keeps and drops -/
example : hasHll [{ sampleSig with sketches := sampleSig.sketches.take 2 }] = false := by decide
example : (filterSpec (some 31) none [{ sampleSig with sketches := sampleSig.sketches.take 2 }]).length = 1 := by decide

end Sourmash.C06
