import Sourmash.Lemmas.SetOpsMoreB
import Sourmash.Lemmas.SetOpsSigRun
import Sourmash.Lemmas.SetOpsCache
import Sourmash.Lemmas.SetOpsReject
/-! Property C03 — sketch operations mirror set operations on the underlying data.

Property theorems only (helper lemmas: `Lemmas/SetOps*.lean`).  They are about the code-shaped model
`Model/SetOps.lean` (`SetOps.Sk.merge`, `SetOps.intersection`, … — one definition per Rust function,
for both container types through `Kind`) and relate it to the list set-operations of
`Spec/SetOps.lean` (`SetSpec.union / inter / diff / unionSize / bottom`).  `Sk.WF` is the
representation invariant of both types (hashes strictly increasing, abundances aligned). -/
namespace Sourmash.C03
open SetOps SetSpec

/-! Example operands for the non-vacuity checks. -/
def exA : Sk := { num := 0, maxHash := 100, ksize := 21, seed := 42, mol := .dna, mins := [1, 5, 9], abunds := some [2, 1, 3] }
def exB : Sk := { num := 0, maxHash := 100, ksize := 21, seed := 42, mol := .dna, mins := [5, 7], abunds := some [4, 1] }
def exN : Sk := { num := 3, maxHash := 0, ksize := 21, seed := 42, mol := .dna, mins := [1, 5, 9], abunds := none }
theorem exA_wf : exA.WF := ⟨by decide, by intro ab h; cases h; rfl⟩
theorem exB_wf : exB.WF := ⟨by decide, by intro ab h; cases h; rfl⟩
theorem exN_wf : exN.WF := ⟨by decide, by intro ab h; cases h⟩
theorem exAB_compat : checkCompatible exA exB = .ok () := by simp [checkCompatible, exA, exB]

/-- **T-merge** (clause "merge … equals the union; for num sketches the bottom-num of the union").
On compatible operands `merge` of either container type succeeds and leaves exactly `mergeSpec`:
hashes = bottom-`num` of the sorted union, abundance of every retained hash = sum of the operands'
abundances when both track (none otherwise), parameters of `self`. -/
theorem merge_spec (k : Kind) (a b : Sk) (wa : a.WF) (wb : b.WF) (hc : checkCompatible a b = .ok ()) :
    a.merge k b = .ok (mergeSpec a b) := merge_ok k wa wb hc
example : exA.WF ∧ exB.WF ∧ checkCompatible exA exB = .ok () := ⟨exA_wf, exB_wf, exAB_compat⟩

/-- T-merge on keys, as a statement about any successful call. -/
theorem merge_keys (k : Kind) (a b r : Sk) (wa : a.WF) (wb : b.WF) (h : a.merge k b = .ok r) :
    r.mins = bottom a.num (union a.mins b.mins) := by
  rcases checkCompatible_cases a b with hc | ⟨e, hc⟩
  · rw [merge_ok k wa wb hc] at h; cases h; rfl
  · rw [merge_err k hc] at h; cases h
example : ∃ r, exA.merge .vec exB = .ok r := ⟨_, merge_ok .vec exA_wf exB_wf exAB_compat⟩

/-- **T-merge_comm**: with equal `num` on both sides, `a.merge(b)` and `b.merge(a)` give the same
outcome — the same error, or the same sketch (hashes *and* abundances). -/
theorem merge_comm (k : Kind) (a b : Sk) (wa : a.WF) (wb : b.WF) (hn : a.num = b.num) :
    a.merge k b = b.merge k a := by
  rcases checkCompatible_cases a b with hc | ⟨e, hc⟩
  · have hc' : checkCompatible b a = .ok () := by rw [checkCompatible_symm]; exact hc
    rw [merge_ok k wa wb hc, merge_ok k wb wa hc']
    obtain ⟨h1, h2, h3, h4⟩ := (checkCompatible_ok_iff a b).1 hc
    obtain ⟨n1, m1, k1, s1, l1, ma, aa⟩ := a
    obtain ⟨n2, m2, k2, s2, l2, mb, ab⟩ := b
    simp only at hn h1 h2 h3 h4
    subst hn h1 h2 h3 h4
    have hu : union ma mb = union mb ma := union_comm _ _
    have hf : (fun h => look (Sk.pairs ⟨n1, m1, k1, s1, l1, ma, aa⟩) h + look (Sk.pairs ⟨n1, m1, k1, s1, l1, mb, ab⟩) h)
        = (fun h => look (Sk.pairs ⟨n1, m1, k1, s1, l1, mb, ab⟩) h + look (Sk.pairs ⟨n1, m1, k1, s1, l1, ma, aa⟩) h) := by
      funext h; exact Nat.add_comm _ _
    simp only [mergeSpec, Sk.track, Sk.ab, hu, hf, Bool.and_comm aa.isSome]
    rfl
  · have hc' : checkCompatible b a = .error e := by rw [checkCompatible_symm]; exact hc
    rw [merge_err k hc, merge_err k hc']
example : exA.WF ∧ exB.WF ∧ exA.num = exB.num := ⟨exA_wf, exB_wf, rfl⟩

/-- **T-merge_idem** (on hashes): merging a sketch with itself keeps its hashes (abundances double,
which is why the clause is about hashes only). -/
theorem merge_idem_keys (k : Kind) (a : Sk) (wa : a.WF) (hsz : a.num = 0 ∨ a.mins.length ≤ a.num) :
    ∃ r, a.merge k a = .ok r ∧ r.mins = a.mins := by
  have hc : checkCompatible a a = .ok () := (checkCompatible_ok_iff a a).2 ⟨rfl, rfl, rfl, rfl⟩
  refine ⟨_, merge_ok k wa wa hc, ?_⟩
  simp only [mergeSpec, union_self wa.1, bottom]
  rcases hsz with h | h
  · simp [h]
  · split
    · rfl
    · exact List.take_of_length_le h
example : exN.WF ∧ (exN.num = 0 ∨ exN.mins.length ≤ exN.num) := ⟨exN_wf, Or.inr (by decide)⟩

/-- **T-merge_assoc** (on hashes, equal `num`): `(a ∪ b) ∪ c` and `a ∪ (b ∪ c)` hold the same hashes;
for num sketches this is "bottom-num absorbs an inner bottom-num".  Stated on `mergeSpec`, which is
what both `merge` implementations compute (`merge_spec`). -/
theorem merge_assoc_keys (a b c : Sk) (ha : SInc a.mins) (hc : SInc c.mins) (hn : a.num = b.num) :
    (mergeSpec (mergeSpec a b) c).mins = (mergeSpec a (mergeSpec b c)).mins := by
  simp only [mergeSpec, ← hn]
  rw [bottom_union_bottom (sinc_union _ _) hc, union_comm a.mins (bottom a.num _),
      bottom_union_bottom (sinc_union _ _) ha, union_comm _ a.mins, union_assoc]
example : SInc exN.mins ∧ exN.num = exN.num := ⟨exN_wf.1, rfl⟩

/-- … and as a statement about the calls themselves, for either container type. -/
theorem merge_assoc_calls (k : Kind) (a b c ab abc bc abc' : Sk) (wa : a.WF) (wb : b.WF) (wc : c.WF)
    (hn : a.num = b.num)
    (h1 : a.merge k b = .ok ab) (h2 : ab.merge k c = .ok abc)
    (h3 : b.merge k c = .ok bc) (h4 : a.merge k bc = .ok abc') :
    abc.mins = abc'.mins := by
  have wab : ab.WF := merge_wf k wa wb h1
  have wbc : bc.WF := merge_wf k wb wc h3
  rw [merge_keys k ab c abc wab wc h2, merge_keys k a bc abc' wa wbc h4,
      merge_keys k a b ab wa wb h1, merge_keys k b c bc wb wc h3, merge_num k h1, ← hn]
  rw [bottom_union_bottom (sinc_union _ _) wc.1, union_comm a.mins (bottom a.num _),
      bottom_union_bottom (sinc_union _ _) wa.1, union_comm _ a.mins, union_assoc]

/-- **T-isect** (scaled sketches): `intersection` returns the sorted common hashes and the size of
the union; `intersection_size` and `count_common(.., false)` agree with it. -/
theorem isect (k : Kind) (a b : Sk) (ha : SInc a.mins) (hb : SInc b.mins) (hn : a.num = 0)
    (hc : checkCompatible a b = .ok ()) :
    intersection k a b = .ok (inter a.mins b.mins, unionSize a.mins b.mins) ∧
    intersectionSize k a b = .ok ((inter a.mins b.mins).length, unionSize a.mins b.mins) ∧
    countCommon k a b false = .ok (inter a.mins b.mins).length := by
  refine ⟨intersection_scaled k ha hb hn hc, intersectionSize_scaled k ha hb hn hc, ?_⟩
  simp only [countCommon, Bool.false_eq_true, false_and, if_false]
  exact countCommonPlain_ok ha hb hc
example : SInc exA.mins ∧ SInc exB.mins ∧ exA.num = 0 ∧ checkCompatible exA exB = .ok () :=
  ⟨exA_wf.1, exB_wf.1, rfl, exAB_compat⟩

/-- the common hashes are a strictly increasing list, i.e. *the* sorted representation of A ∩ B,
and the union size is |A ∪ B| -/
theorem isect_is_set_intersection (a b : List Nat) (ha : SInc a) :
    SInc (inter a b) ∧ (∀ x, x ∈ inter a b ↔ x ∈ a ∧ x ∈ b) ∧
    unionSize a b = (a ++ diff b a).length ∧ (∀ x, x ∈ a ++ diff b a ↔ x ∈ a ∨ x ∈ b) := by
  refine ⟨sinc_filter _ ha, mem_inter a b, by simp [unionSize], ?_⟩
  intro x; rw [List.mem_append, mem_diff]
  by_cases h : x ∈ a <;> simp [h]
example : SInc [1, 5, 9] := by decide

/-- **T-reject**: operands differing in ksize / molecule / max_hash (scaled) / seed are refused with
the corresponding error — the first difference in that order decides — … -/
theorem reject_variant (a b : Sk) :
    (a.ksize ≠ b.ksize → checkCompatible a b = .error .MismatchKSizes) ∧
    (a.ksize = b.ksize → a.mol ≠ b.mol → checkCompatible a b = .error .MismatchDNAProt) ∧
    (a.ksize = b.ksize → a.mol = b.mol → a.maxHash ≠ b.maxHash →
        checkCompatible a b = .error .MismatchScaled) ∧
    (a.ksize = b.ksize → a.mol = b.mol → a.maxHash = b.maxHash → a.seed ≠ b.seed →
        checkCompatible a b = .error .MismatchSeed) := by
  unfold checkCompatible
  refine ⟨?_, ?_, ?_, ?_⟩ <;> intros <;> simp_all

/-- … by every fallible two-operand entry point, and the failing call produces no new state (the
model's `Except` carries none: both operands are what they were). -/
theorem reject_all (k : Kind) (a b : Sk) (e : Err) (hc : checkCompatible a b = .error e) :
    a.merge k b = .error e ∧ intersection k a b = .error e ∧ intersectionSize k a b = .error e ∧
    countCommon k a b false = .error e ∧ a.inflate b = .error e ∧ a.inflatedAbundances b = .error e := by
  refine ⟨merge_err k hc, ?_, ?_, ?_, ?_, ?_⟩ <;>
    simp [intersection, intersectionSize, countCommon, countCommonPlain, Sk.inflate, Sk.inflatedAbundances,
      hc, bind, Except.bind]
example : checkCompatible exA { exB with seed := 7 } = .error .MismatchSeed := by
  simp [checkCompatible, exA, exB]


/-- **T-reject_downsample**: asking `count_common` to downsample (`downsample = true`, the operands'
`scaled()` differ) does not switch the compatibility check off.  The finer sketch is downsampled —
which keeps its ksize, molecule and seed — and the coarser one then compares itself with the result
through `check_compatible`: a pair that ALSO differs in ksize is refused with `MismatchKSizes`, in the
molecule with `MismatchDNAProt`, in the seed with an error (`MismatchSeed`, or `MismatchScaled` when the
coarser ceiling is not the one its `scaled()` maps back to); a num sketch against a scaled one with
`MismatchScaled`.  In no such case is a count returned. -/
theorem reject_downsample (k : Kind) (a b : Sk) (hs : a.scaled ≠ b.scaled) :
    (a.ksize ≠ b.ksize → countCommon k a b true = .error .MismatchKSizes) ∧
    (a.ksize = b.ksize → a.mol ≠ b.mol → countCommon k a b true = .error .MismatchDNAProt) ∧
    (a.ksize = b.ksize → a.mol = b.mol → a.seed ≠ b.seed → ∃ e, countCommon k a b true = .error e) ∧
    (a.ksize = b.ksize → a.mol = b.mol → (a.scaled = 0 ∨ b.scaled = 0) → a.maxHash ≠ b.maxHash →
        countCommon k a b true = .error .MismatchScaled) := by
  obtain ⟨first, second, d, hfs, hlt, hd, hcc⟩ := countCommon_ds_shape k a b hs
  have hkms := downsampleScaled_kms k second d first.scaled hd
  have hk : d.ksize = second.ksize := congrArg (·.1) hkms
  have hm : d.mol = second.mol := congrArg (·.2.1) hkms
  have hsd : d.seed = second.seed := congrArg (·.2.2) hkms
  rw [hcc]
  refine ⟨?_, ?_, ?_, ?_⟩
  · intro h
    apply countCommonPlain_err
    apply (reject_variant first d).1
    rw [hk]; rcases hfs with ⟨rfl, rfl⟩ | ⟨rfl, rfl⟩
    · exact h
    · exact fun e => h e.symm
  · intro h1 h2
    apply countCommonPlain_err
    apply (reject_variant first d).2.1
    · rw [hk]; rcases hfs with ⟨rfl, rfl⟩ | ⟨rfl, rfl⟩
      · exact h1
      · exact h1.symm
    · rw [hm]; rcases hfs with ⟨rfl, rfl⟩ | ⟨rfl, rfl⟩
      · exact h2
      · exact fun e => h2 e.symm
  · intro _ _ h3
    have hne : first.kms ≠ d.kms := by
      intro e
      have : first.seed = d.seed := congrArg (·.2.2) e
      rw [hsd] at this
      rcases hfs with ⟨rfl, rfl⟩ | ⟨rfl, rfl⟩
      · exact h3 this
      · exact h3 this.symm
    obtain ⟨e, he⟩ := checkCompatible_kms_err hne
    exact ⟨e, countCommonPlain_err he⟩
  · intro h1 h2 h0 h4
    have hz : second.scaled = 0 := by
      rcases hfs with ⟨rfl, rfl⟩ | ⟨rfl, rfl⟩ <;> omega
    have hdd : d = second := by
      have := downsampleScaled_num k second first.scaled hz
      rw [this] at hd; cases hd; rfl
    subst hdd
    apply countCommonPlain_err
    apply (reject_variant first d).2.2.1
    · rcases hfs with ⟨rfl, rfl⟩ | ⟨rfl, rfl⟩
      · exact h1
      · exact h1.symm
    · rcases hfs with ⟨rfl, rfl⟩ | ⟨rfl, rfl⟩
      · exact h2
      · exact h2.symm
    · rcases hfs with ⟨rfl, rfl⟩ | ⟨rfl, rfl⟩
      · exact h4
      · exact fun e => h4 e.symm
/-- non-vacuity: scaled 1 against scaled 2 (ceilings 2^64-1 and 2^63), k = 21 against k = 31 -/
example : (Sk.new 1 21 .dna 42 false 0).scaled ≠ (Sk.new 2 31 .dna 42 false 0).scaled
    ∧ (Sk.new 1 21 .dna 42 false 0).ksize ≠ (Sk.new 2 31 .dna 42 false 0).ksize := by decide

/-! ### sketching is a homomorphism -/

/-- an empty scaled sketch (what `new(scaled, …)` returns for `scaled ≥ 1`) -/
def exE : Sk := { num := 0, maxHash := 100, ksize := 21, seed := 42, mol := .dna, mins := [], abunds := some [] }
theorem exE_sc : Sc exE := ⟨⟨by decide, by intro ab h; cases h; rfl⟩, rfl, by decide⟩

/-- **T-sketch**: inserting a multiset of (hash, abundance) pairs, in any order and with repetitions,
into an empty scaled sketch of either container type leaves exactly the sketch the specification
defines: the distinct hashes under the ceiling, sorted, each with the sum of its abundances.
(`Sc e`: representation invariant, `num = 0`, ceiling `≠ 0`; abundances `≠ 0` — abundance 0 means
"remove" for the vector type and "ignore" for the tree type, see the model.) -/
theorem sketch_spec (k : Kind) (e : Sk) (he : Sc e) (hemp : e.mins = []) (items : List (Nat × Nat))
    (hpos : ∀ p ∈ items, p.2 ≠ 0) :
    (e.addManyAb k items).mins = sketchKeys 0 e.maxHash (items.map Prod.fst) ∧
    (e.abunds.isSome → ∀ h, (e.addManyAb k items).ab h = if h ≤ e.maxHash then total items h else 0) :=
  fold_is_spec k e he hemp items hpos
example : Sc exE ∧ exE.mins = [] ∧ ∀ p ∈ [((7 : Nat), (2 : Nat)), (300, 1), (7, 3)], p.2 ≠ 0 :=
  ⟨exE_sc, rfl, by decide⟩

/-- **T-merge_hom** (scaled): sketching two datasets separately and merging gives the same sketch —
hashes and summed abundances, and every parameter — as sketching their concatenation. -/
theorem merge_hom (k : Kind) (e : Sk) (he : Sc e) (hemp : e.mins = []) (A B : List (Nat × Nat))
    (hA : ∀ p ∈ A, p.2 ≠ 0) (hB : ∀ p ∈ B, p.2 ≠ 0) :
    (e.addManyAb k A).merge k (e.addManyAb k B) = .ok (e.addManyAb k (A ++ B)) :=
  merge_hom_fold k e he hemp A B hA hB
example : Sc exE ∧ exE.mins = [] ∧ (∀ p ∈ [((7 : Nat), (2 : Nat)), (300, 1)], p.2 ≠ 0) ∧
    (∀ p ∈ [((7 : Nat), (3 : Nat)), (9, 1)], p.2 ≠ 0) := ⟨exE_sc, rfl, by decide, by decide⟩

/-- **T-add_from / add_many**: adding hashes one by one (abundance 1 each) inserts exactly those under
the ceiling — `add_many` is `add_many_with_abund` with abundance 1, `add_from` is `add_many` over the
other sketch's hashes (no compatibility check in the code, hence none here). -/
theorem add_many_keys (k : Kind) (t : Sk) (ht : Sc t) (hs : List Nat) (z : Nat) :
    z ∈ (t.addMany k hs).mins ↔ z ∈ t.mins ∨ (z ∈ hs ∧ z ≤ t.maxHash) := by
  rw [addMany_eq]
  obtain ⟨_, _, _, _, _, _, x7, _⟩ := fold_scaled k (hs.map (fun h => (h, 1))) t ht (by simp)
  rw [x7]
  constructor
  · rintro (h | ⟨p, hp, rfl, hle⟩)
    · exact Or.inl h
    · obtain ⟨a, ha, rfl⟩ := List.mem_map.1 hp
      exact Or.inr ⟨ha, hle⟩
  · rintro (h | ⟨ha, hle⟩)
    · exact Or.inl h
    · exact Or.inr ⟨(z, 1), List.mem_map.2 ⟨z, ha, rfl⟩, rfl, hle⟩
example : Sc exE := exE_sc

/-! ### subtraction, inflation -/

/-- **T-subtract**: `remove_from` / `remove_many` leave the hashes `a \ b` (and keep the
representation invariant, i.e. the abundance vector loses the same positions). -/
theorem subtract (a b : Sk) (wa : a.WF) :
    (a.removeFrom b).mins = diff a.mins b.mins ∧ (a.removeFrom b).WF :=
  removeMany_mins b.mins wa
theorem subtract_many (a : Sk) (hs : List Nat) (wa : a.WF) :
    (a.removeMany hs).mins = diff a.mins hs ∧ (a.removeMany hs).WF :=
  removeMany_mins hs wa
example : exA.WF := exA_wf

/-- **T-inflate**: `inflate` keeps the hashes `a ∩ b`, gives each the abundance it has in `b`, and
turns abundance tracking on; `inflated_abundances` returns those abundances and their sum; a source
without abundances is refused. -/
theorem inflate (a b : Sk) (ab : List Nat) (wa : a.WF) (wb : b.WF)
    (hc : checkCompatible a b = .ok ()) (hab : b.abunds = some ab) :
    a.inflate b = .ok { a with mins := inter a.mins b.mins, abunds := some ((inter a.mins b.mins).map b.ab) } ∧
    a.inflatedAbundances b =
      .ok ((inter a.mins b.mins).map b.ab, ((inter a.mins b.mins).map b.ab).foldl (· + ·) 0) :=
  inflate_ok wa wb hc hab
example : exA.WF ∧ exB.WF ∧ checkCompatible exA exB = .ok () ∧ exB.abunds = some [4, 1] :=
  ⟨exA_wf, exB_wf, exAB_compat, rfl⟩
theorem inflate_needs_abundance (a b : Sk) (hc : checkCompatible a b = .ok ()) (hab : b.abunds = none) :
    a.inflate b = .error .NeedsAbundanceTracking ∧
    a.inflatedAbundances b = .error .NeedsAbundanceTracking :=
  inflate_untracked hc hab
example : checkCompatible exA { exB with abunds := none } = .ok () := by simp [checkCompatible, exA, exB]

/-- **T-isect** (num sketches): the common hashes are those of `a ∩ b` that lie in the bottom-`num`
of the union, and the reported size is that of this bottom-`num` sketch. -/
theorem isect_num (k : Kind) (a b : Sk) (wa : a.WF) (wb : b.WF) (hn : a.num ≠ 0) (hm : a.maxHash = 0)
    (hsz : a.mins.length ≤ a.num) (hc : checkCompatible a b = .ok ()) :
    intersection k a b =
      .ok (inter (inter a.mins b.mins) (bottom a.num (union a.mins b.mins)),
           (bottom a.num (union a.mins b.mins)).length) ∧
    intersectionSize k a b =
      .ok ((inter (inter a.mins b.mins) (bottom a.num (union a.mins b.mins))).length,
           (bottom a.num (union a.mins b.mins)).length) :=
  intersection_num k wa wb hn hm hsz hc
example : exN.WF ∧ exN.num ≠ 0 ∧ exN.maxHash = 0 ∧ exN.mins.length ≤ exN.num ∧
    checkCompatible exN exN = .ok () := ⟨exN_wf, by decide, rfl, by decide, by simp [checkCompatible]⟩

/-! ### the C API wrappers (src/core/src/ffi/minhash.rs)

The exported `kmerminhash_merge / _add_from / _remove_from / _remove_many / _add_many / _count_common`
forward to the methods the theorems above are about.  `kmerminhash_intersection` builds a sketch of
its own, `kmerminhash_intersection_union_size` handles the error itself. -/

/-- `clear()` keeps the invariant and every parameter -/
theorem clear_sc {a : Sk} (ha : Sc a) : Sc a.clear := by
  obtain ⟨_, hn, hM⟩ := ha
  refine ⟨⟨List.Pairwise.nil, ?_⟩, hn, hM⟩
  intro ab h
  cases hab : a.abunds <;> simp [Sk.clear, hab] at h
  subst h; rfl

/-- **T-capi_isect** (clause "the reported intersection … equal[s] the sample of the corresponding set
operation", for the sketch handed out by the C API; scaled sketches).  Whatever the ceiling of the
operands is — `maxHash` is any non-zero number here, not necessarily one that a scaled value maps to —
the returned sketch holds exactly the hashes of `a ∩ b`, sorted, and has every parameter of `a`,
`maxHash` included: it is compatible with `a` (and merging it back into `a` is accepted). -/
theorem capi_intersection (a b : Sk) (ha : Sc a) (hle : ∀ h ∈ a.mins, h ≤ a.maxHash) (hb : SInc b.mins)
    (hc : checkCompatible a b = .ok ()) :
    ∃ r, capiIntersection a b = .ok r ∧ r.mins = inter a.mins b.mins ∧ r.WF ∧
      r.num = a.num ∧ r.maxHash = a.maxHash ∧ r.ksize = a.ksize ∧ r.seed = a.seed ∧ r.mol = a.mol ∧
      r.abunds.isSome = a.abunds.isSome ∧ checkCompatible a r = .ok () := by
  have hi := intersection_scaled .vec ha.1.1 hb ha.2.1 hc
  refine ⟨a.clear.addMany .vec (inter a.mins b.mins), ?_, ?_⟩
  · simp [capiIntersection, hi, bind, Except.bind, pure, Except.pure]
  rw [addMany_eq]
  obtain ⟨x1, x2, x3, x4, x5, x6, x7, _⟩ :=
    fold_scaled .vec ((inter a.mins b.mins).map (fun h => (h, 1))) a.clear (clear_sc ha) (by simp)
  have hm : (a.clear.addManyAb .vec ((inter a.mins b.mins).map (fun h => (h, 1)))).mins = inter a.mins b.mins := by
    apply sinc_ext x1.1.1 (sinc_filter _ ha.1.1)
    intro z
    rw [x7]
    constructor
    · rintro (h | ⟨p, hp, rfl, _⟩)
      · simp [Sk.clear] at h
      · obtain ⟨y, hy, rfl⟩ := List.mem_map.1 hp
        exact hy
    · intro hz
      refine Or.inr ⟨(z, 1), List.mem_map.2 ⟨z, hz, rfl⟩, rfl, ?_⟩
      exact hle z ((mem_inter a.mins b.mins z).1 hz).1
  have hp : a.clear.maxHash = a.maxHash ∧ a.clear.ksize = a.ksize ∧ a.clear.seed = a.seed ∧
      a.clear.mol = a.mol ∧ a.clear.num = a.num ∧ a.clear.abunds.isSome = a.abunds.isSome := by
    cases hab : a.abunds <;> simp [Sk.clear, hab]
  refine ⟨hm, x1.1, ?_, by rw [x2, hp.1], by rw [x3, hp.2.1], by rw [x4, hp.2.2.1], by rw [x5, hp.2.2.2.1],
    by rw [x6, hp.2.2.2.2.2], ?_⟩
  · rw [x1.2.1, ha.2.1]
  · simp [checkCompatible, x2, x3, x4, x5, hp.1, hp.2.1, hp.2.2.1, hp.2.2.2.1]
example : Sc exA ∧ (∀ h ∈ exA.mins, h ≤ exA.maxHash) ∧ SInc exB.mins ∧ checkCompatible exA exB = .ok () :=
  ⟨⟨exA_wf, rfl, by decide⟩, by decide, exB_wf.1, exAB_compat⟩

/-- **T-capi_reject**: `kmerminhash_intersection` refuses incompatible operands with the error of
`check_compatible` and hands out no sketch.  `kmerminhash_intersection_union_size` does NOT: the code
swallows the error and reports (0, 0) — what the model says here, and what the spec column of the
driver flags (findings/C03.json). -/
theorem capi_reject (a b : Sk) (e : Err) (hc : checkCompatible a b = .error e) :
    capiIntersection a b = .error e ∧ capiIntersectionUnionSize a b = (0, 0) := by
  have h := reject_all .vec a b e hc
  constructor
  · simp [capiIntersection, h.2.1, bind, Except.bind]
  · simp [capiIntersectionUnionSize, h.2.2.1]
example : checkCompatible exA { exB with seed := 7 } = .error .MismatchSeed := by
  simp [checkCompatible, exA, exB]

/-- … and on compatible scaled sketches it reports what `intersection_size` reports. -/
theorem capi_isize (a b : Sk) (ha : SInc a.mins) (hb : SInc b.mins) (hn : a.num = 0)
    (hc : checkCompatible a b = .ok ()) :
    capiIntersectionUnionSize a b = ((inter a.mins b.mins).length, unionSize a.mins b.mins) := by
  simp [capiIntersectionUnionSize, (isect .vec a b ha hb hn hc).2.1]
example : SInc exA.mins ∧ SInc exB.mins ∧ exA.num = 0 ∧ checkCompatible exA exB = .ok () :=
  ⟨exA_wf.1, exB_wf.1, rfl, exAB_compat⟩

/-- the sorted pairs of `kmerminhash_set_abundances` are the given pairs -/
theorem mem_sortPairs (ps : List (Nat × Nat)) (p : Nat × Nat) : p ∈ sortPairs ps ↔ p ∈ ps := by
  have hins : ∀ (q : Nat × Nat) (l : List (Nat × Nat)), p ∈ insertPair q l ↔ p = q ∨ p ∈ l := by
    intro q l
    induction l with
    | nil => simp [insertPair]
    | cons x t ih =>
      simp only [insertPair]
      split
      · simp
      · simp only [List.mem_cons, ih]
        constructor
        · rintro (h | h | h)
          · exact Or.inr (Or.inl h)
          · exact Or.inl h
          · exact Or.inr (Or.inr h)
        · rintro (h | h | h)
          · exact Or.inr (Or.inl h)
          · exact Or.inl h
          · exact Or.inr (Or.inr h)
  induction ps with
  | nil => simp [sortPairs]
  | cons q t ih =>
    have : sortPairs (q :: t) = insertPair q (sortPairs t) := rfl
    rw [this, hins, List.mem_cons]
    exact or_congr Iff.rfl ih

/-- **T-capi_set_abundances** (scaled sketches, `clear = true`, positive abundances): the sketch
holds exactly the given hashes under the ceiling — in whatever order they were passed. -/
theorem capi_set_abundances_keys (a : Sk) (ha : Sc a) (ps : List (Nat × Nat)) (hpos : ∀ p ∈ ps, p.2 ≠ 0)
    (z : Nat) :
    z ∈ (capiSetAbundances a ps true).mins ↔ ∃ p ∈ ps, p.1 = z ∧ z ≤ a.maxHash := by
  have hpos' : ∀ p ∈ sortPairs ps, p.2 ≠ 0 := fun p hp => hpos p ((mem_sortPairs ps p).1 hp)
  obtain ⟨_, _, _, _, _, _, x7, _⟩ := fold_scaled .vec (sortPairs ps) a.clear (clear_sc ha) hpos'
  have hM : a.clear.maxHash = a.maxHash := by cases hab : a.abunds <;> simp [Sk.clear, hab]
  simp only [capiSetAbundances, if_true]
  rw [x7, hM]
  constructor
  · rintro (h | ⟨p, hp, h1, h2⟩)
    · simp [Sk.clear] at h
    · exact ⟨p, (mem_sortPairs ps p).1 hp, h1, h2⟩
  · rintro ⟨p, hp, h1, h2⟩
    exact Or.inr ⟨p, (mem_sortPairs ps p).2 hp, h1, h2⟩
example : Sc exE ∧ ∀ p ∈ [((7 : Nat), (2 : Nat)), (300, 1), (7, 3)], p.2 ≠ 0 := ⟨exE_sc, by decide⟩

/-! ### T-sig_add — `Signature::add_sequence` / `add_protein` over several sketches

`Model/SigAdd.lean`: `f s` is the call on ONE sketch (sketch afterwards, `Err` if any) for the fixed
arguments of the signature-level call; `serial` is the `cfg(not(parallel))` loop; `parallel f sigs evs`
is the rayon variant under the schedule `evs` — an arbitrary list of "flag read for item i" /
"call on item i returned" events.  All statements are for every `f`, hence for `sketchAdd` with the
`SeqToHashes` stream and `add_hash` of any sketch type. -/
section SigAdd
open SigAdd
variable {σ ε : Type}

/-- example: "sketches" are hash lists, the call appends 7, and fails on the sketch `[2]` after
appending 9 -/
def exF : List Nat → List Nat × Option String :=
  fun s => if s = [2] then (s ++ [9], some "InvalidDNA") else (s ++ [7], none)
/-- the same without a failing sketch -/
def exG : List Nat → List Nat × Option String := fun s => (s ++ [7], none)

/-- **T-sig_add, each task touches only its own sketch**: whatever the scheduler does (any event
list, finished or not), the signature keeps its length and every sketch is either untouched or
exactly what the single-sketch call makes of it — never anything that depends on another sketch
or on the order of events. -/
theorem sig_add_each (f : σ → σ × Option ε) (sigs : List σ) (evs : List Ev) :
    (parallel f sigs evs).1.length = sigs.length ∧
    ∀ (j : Nat) (s0 : σ), sigs[j]? = some s0 →
      (parallel f sigs evs).1[j]? = some s0 ∨ (parallel f sigs evs).1[j]? = some (f s0).1 := by
  have h := inv_run f sigs evs
  refine ⟨by simp [parallel, Par.sketches, h.len], ?_⟩
  intro j s0 h0
  have hlt : j < (exec f (Par.init sigs) evs).tasks.length := by
    rw [h.len]; exact (List.getElem?_eq_some_iff.1 h0).1
  have hj := List.getElem?_eq_getElem hlt
  have hok := h.slot j s0 _ h0 hj
  simp only [parallel, Par.sketches, List.getElem?_map, hj, Option.map_some, Option.some.injEq]
  generalize (exec f (Par.init sigs) evs).tasks[j] = sl at hok
  obtain ⟨s, st⟩ := sl
  cases st <;> simp_all [SlotOK]

/-- **T-sig_add** (the result is the pointwise single-sketch add, for every schedule): if the call
fails on no sketch then under EVERY schedule that lets the parallel iterator return, the signature
afterwards is the list of the single-sketch results and the call returns `Ok(())`. -/
theorem sig_add (f : σ → σ × Option ε) (sigs : List σ) (evs : List Ev)
    (hok : ∀ s ∈ sigs, (f s).2 = none) (hc : (exec f (Par.init sigs) evs).complete = true) :
    parallel f sigs evs = (sigs.map (fun s => (f s).1), none) := by
  have h := inv_run f sigs evs
  have hr := inv_no_fail h hok
  have := (inv_result_none h hc hr).1
  simp only [parallel, this, hr]
example : (∀ s ∈ [[1], [3], [5]], (exG s).2 = none) ∧
    (exec exG (Par.init [[1], [3], [5]])
      [.check 2, .check 0, .finish 0, .check 1, .finish 2, .finish 1]).complete = true :=
  ⟨by decide, by decide⟩

/-- `Ok(())` is returned exactly when no single-sketch call fails — under every schedule. -/
theorem sig_add_ok_iff (f : σ → σ × Option ε) (sigs : List σ) (evs : List Ev)
    (hc : (exec f (Par.init sigs) evs).complete = true) :
    (parallel f sigs evs).2 = none ↔ ∀ s ∈ sigs, (f s).2 = none := by
  have h := inv_run f sigs evs
  exact ⟨fun hr => (inv_result_none h hc hr).2, fun hok => inv_no_fail h hok⟩
example : (exec exF (Par.init [[1], [2], [5]]) (seqTrace [2, 1, 0])).complete = true := by decide

/-- **T-sig_add, schedule independence, as asked for by the property**: the items may be taken in
ANY order (every permutation of the task order; more generally any order that reaches every sketch) —
the final signature is the same. -/
theorem sig_add_any_order (f : σ → σ × Option ε) (sigs : List σ) (o₁ o₂ : List Nat)
    (hok : ∀ s ∈ sigs, (f s).2 = none)
    (h₁ : ∀ j, j < sigs.length → j ∈ o₁) (h₂ : ∀ j, j < sigs.length → j ∈ o₂) :
    parallel f sigs (seqTrace o₁) = parallel f sigs (seqTrace o₂) := by
  rw [sig_add f sigs _ hok (seq_complete f sigs o₁ h₁), sig_add f sigs _ hok (seq_complete f sigs o₂ h₂)]
/-- T-sig_add for a permutation `π` of the task order `0 … n-1`: the pointwise add, whatever `π`. -/
theorem sig_add_perm (f : σ → σ × Option ε) (sigs : List σ) (π : List Nat)
    (hok : ∀ s ∈ sigs, (f s).2 = none) (hπ : π.Perm (List.range sigs.length)) :
    parallel f sigs (seqTrace π) = (sigs.map (fun s => (f s).1), none) := by
  apply sig_add f sigs _ hok
  apply seq_complete
  intro j hj
  exact hπ.mem_iff.2 (List.mem_range.2 hj)
example : (∀ s ∈ [[1], [3], [5]], (exG s).2 = none) ∧ [2, 0, 1].Perm (List.range [[1], [3], [5]].length) :=
  ⟨by decide, by decide⟩

/-- The serial variant (`cfg(not(feature = "parallel"))`) is the parallel variant under the in-order
schedule (what a pool of one thread runs): same sketches, same result, failing or not. -/
theorem sig_add_serial (f : σ → σ × Option ε) (sigs : List σ) :
    parallel f sigs (seqTrace (List.range sigs.length)) = serial f sigs := inorder_serial f sigs

/-- … and when nothing fails it is the pointwise add as well. -/
theorem sig_add_serial_ok (f : σ → σ × Option ε) (sigs : List σ) (hok : ∀ s ∈ sigs, (f s).2 = none) :
    serial f sigs = (sigs.map (fun s => (f s).1), none) := serial_ok f sigs hok
example : ∀ s ∈ [[1], [3], [5]], (exG s).2 = none := by decide

/-- **Failure, serial variant** (what the code does; the property's "a failed operation leaves both
operands unchanged" is about two-operand operations, `add_sequence` gives no such guarantee): the
sketches before the first failing one are fully updated, the failing one keeps what its own call
had added before the error (`sig_add_feed_err`), the sketches after it are untouched, and the first
failing sketch's error is returned. -/
theorem sig_add_serial_fail (f : σ → σ × Option ε) (pre : List σ) (s : σ) (post : List σ) (e : ε)
    (hpre : ∀ x ∈ pre, (f x).2 = none) (hs : (f s).2 = some e) :
    serial f (pre ++ s :: post) = (pre.map (fun x => (f x).1) ++ (f s).1 :: post, some e) :=
  serial_fail f pre s post e hpre hs
example : (∀ x ∈ [[1]], (exF x).2 = none) ∧ (exF [2]).2 = some "InvalidDNA" := ⟨by decide, by decide⟩

/-- **Failure, parallel variant** (what the code does): under every schedule the error returned
is the error of a sketch whose call was made (that sketch holds its partial update); together with
`sig_add_each` — every other sketch is untouched or fully updated, WHICH of the two is up to the
scheduler — and `sig_add_ok_iff` — some error is returned as soon as any sketch fails.  Only the
one-thread schedule is deterministic (`sig_add_serial`). -/
theorem sig_add_fail (f : σ → σ × Option ε) (sigs : List σ) (evs : List Ev) (e : ε)
    (hr : (parallel f sigs evs).2 = some e) :
    ∃ (j : Nat) (s0 : σ), sigs[j]? = some s0 ∧ (f s0).2 = some e ∧
      (parallel f sigs evs).1[j]? = some (f s0).1 := by
  have h := inv_run f sigs evs
  obtain ⟨j, sl, hj, hd⟩ := result_some hr
  have hlt : j < sigs.length := by
    rw [← h.len]; exact (List.getElem?_eq_some_iff.1 hj).1
  have h0 : sigs[j]? = some sigs[j] := List.getElem?_eq_getElem hlt
  have hok := h.slot j _ sl h0 hj
  simp only [SlotOK, hd] at hok
  refine ⟨j, sigs[j], h0, hok.2.symm, ?_⟩
  simp [parallel, Par.sketches, hj, hok.1]
example : (parallel exF [[1], [2], [5]] (seqTrace [2, 1, 0])).2 = some "InvalidDNA" := by decide

/-- the two outcomes of one failing call under two schedules really differ (the schedule dependence
of the failure case is not an artefact of the statement) -/
example : (parallel exF [[1], [2], [5]] (seqTrace [0, 1, 2])).1 = [[1, 7], [2, 9], [5]] ∧
    (parallel exF [[1], [2], [5]] (eagerTrace [0, 1, 2])).1 = [[1, 7], [2, 9], [5, 7]] := by decide

/-- **One sketch, `Ok`**: `sketch.add_sequence` feeds the non-zero hashes of the stream, in order, to
`add_hash` … -/
theorem sig_add_feed_ok (addHash : σ → Nat → σ) (s : σ) (hs : List Nat) :
    feed (ε := ε) addHash s (hs.map .ok) = ((hs.filter (· ≠ 0)).foldl addHash s, none) := by
  induction hs generalizing s with
  | nil => rfl
  | cons h t ih =>
    by_cases h0 : h = 0
    · simp [feed, h0, ih]
    · simp [feed, h0, ih]

/-- … **and on `Err`** the hashes that precede the error stay in the sketch (the failing sketch is
left partially updated; nothing after the error is looked at). -/
theorem sig_add_feed_err (addHash : σ → Nat → σ) (s : σ) (hs : List Nat) (e : ε)
    (rest : List (Except ε Nat)) :
    feed addHash s (hs.map .ok ++ .error e :: rest) = ((hs.filter (· ≠ 0)).foldl addHash s, some e) := by
  induction hs generalizing s with
  | nil => rfl
  | cons h t ih =>
    by_cases h0 : h = 0
    · simp [feed, h0, ih]
    · simp [feed, h0, ih]

end SigAdd

/-! ### sketches handed over ready-made: the tree type's `current_max` cache

Every theorem above reads `KmerMinHashBTree::add_hash_with_abundance` as `Sk.addT`, which takes the
largest stored hash where the code reads the cached field `current_max`.  `new` + insertions, `merge`,
`Deserialize`, `From<KmerMinHash>`, `clear`, `remove_hash` of the cached value and (since /repo
04873e6) the builder's default all leave the field exact.  The one public route to a stale cache is
the builder's explicit `.current_max(x)` setter (taken as it is; `Clone` copies it).  `Sk.addTc` is
the same code with the field as an explicit argument. -/

/-- **T-cache_exact**: with an exact cache the code is `Sk.addT` — the theorems of this file apply to
every sketch whose `current_max` is its largest hash. -/
theorem tree_add_cache_exact (s : Sk) (h a : Nat) : (s.addTc s.curMax h a).1 = s.addT h a :=
  addTc_fst s h a

/-- **T-cache_stale** (what an explicitly stale cache does, stated for every sketch): a full num sketch
of the tree type whose cache is 0 ignores every later non-zero hash — also the ones below its largest
hash, which the bottom-`num` of the union must contain.  Until /repo 04873e6 the builder produced this
state by default (corpus/C03/builder-stale-max.ops keeps the inputs; `seeded/revert-fix-C03-builder-
current-max`); now only `.current_max(0)` given by the caller does. -/
theorem tree_add_stale_cache_refuses (s : Sk) (h a : Nat) (hm : s.maxHash = 0)
    (hfull : s.mins.length = s.num) (hne : s.mins ≠ []) (h0 : h ≠ 0) : s.addTc 0 h a = (s, 0) :=
  addTc_stale_full s h a hm hfull hne h0
example : exN.maxHash = 0 ∧ exN.mins.length = exN.num ∧ exN.mins ≠ [] ∧ (2 : Nat) ≠ 0 := by decide
/-- … while the sketch with the exact cache takes the hash and evicts its largest one. -/
example : (exN.addTc exN.curMax 2 1).1.mins = [1, 2, 5] ∧ (exN.addTc 0 2 1).1.mins = [1, 5, 9] := by decide

end Sourmash.C03
