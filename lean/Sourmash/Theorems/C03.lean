import Sourmash.Lemmas.SetOpsMoreB
/-! Property C03 — sketch operations mirror set operations on the underlying data.

Property theorems only (helper lemmas: `Lemmas/SetOps*.lean`).  They are about the code-shaped model
`Model/SetOps.lean` (`SetOps.Sk.merge`, `SetOps.intersection`, … — one definition per Rust function,
for both container types through `Kind`) and relate it to the list set-operations of
`Spec/SetOps.lean` (`SetSpec.union / inter / diff / unionSize / bottom`).  `Sk.WF` is the
representation invariant of both types (hashes strictly increasing, abundances aligned). -/
namespace Sourmash.C03
open SetOps SetSpec

/-! Example operands for the non-vacuity checks. -/
def exA : Sk := { num := 0, maxHash := 100, ksize := 21, seed := 42, mol := .dna, mins := [1, 5, 9], abunds := some [2, 1, 3] }
def exB : Sk := { num := 0, maxHash := 100, ksize := 21, seed := 42, mol := .dna, mins := [5, 7], abunds := some [4, 1] }
def exN : Sk := { num := 3, maxHash := 0, ksize := 21, seed := 42, mol := .dna, mins := [1, 5, 9], abunds := none }
theorem exA_wf : exA.WF := ⟨by decide, by intro ab h; cases h; rfl⟩
theorem exB_wf : exB.WF := ⟨by decide, by intro ab h; cases h; rfl⟩
theorem exN_wf : exN.WF := ⟨by decide, by intro ab h; cases h⟩
theorem exAB_compat : checkCompatible exA exB = .ok () := by simp [checkCompatible, exA, exB]

/-- **T-merge** (clause "merge … equals the union; for num sketches the bottom-num of the union").
On compatible operands `merge` of either container type succeeds and leaves exactly `mergeSpec`:
hashes = bottom-`num` of the sorted union, abundance of every retained hash = sum of the operands'
abundances when both track (none otherwise), parameters of `self`. -/
theorem merge_spec (k : Kind) (a b : Sk) (wa : a.WF) (wb : b.WF) (hc : checkCompatible a b = .ok ()) :
    a.merge k b = .ok (mergeSpec a b) := merge_ok k wa wb hc
example : exA.WF ∧ exB.WF ∧ checkCompatible exA exB = .ok () := ⟨exA_wf, exB_wf, exAB_compat⟩

/-- T-merge on keys, as a statement about any successful call. -/
theorem merge_keys (k : Kind) (a b r : Sk) (wa : a.WF) (wb : b.WF) (h : a.merge k b = .ok r) :
    r.mins = bottom a.num (union a.mins b.mins) := by
  rcases checkCompatible_cases a b with hc | ⟨e, hc⟩
  · rw [merge_ok k wa wb hc] at h; cases h; rfl
  · rw [merge_err k hc] at h; cases h
example : ∃ r, exA.merge .vec exB = .ok r := ⟨_, merge_ok .vec exA_wf exB_wf exAB_compat⟩

/-- **T-merge_comm**: with equal `num` on both sides, `a.merge(b)` and `b.merge(a)` give the same
outcome — the same error, or the same sketch (hashes *and* abundances). -/
theorem merge_comm (k : Kind) (a b : Sk) (wa : a.WF) (wb : b.WF) (hn : a.num = b.num) :
    a.merge k b = b.merge k a := by
  rcases checkCompatible_cases a b with hc | ⟨e, hc⟩
  · have hc' : checkCompatible b a = .ok () := by rw [checkCompatible_symm]; exact hc
    rw [merge_ok k wa wb hc, merge_ok k wb wa hc']
    obtain ⟨h1, h2, h3, h4⟩ := (checkCompatible_ok_iff a b).1 hc
    obtain ⟨n1, m1, k1, s1, l1, ma, aa⟩ := a
    obtain ⟨n2, m2, k2, s2, l2, mb, ab⟩ := b
    simp only at hn h1 h2 h3 h4
    subst hn h1 h2 h3 h4
    have hu : union ma mb = union mb ma := union_comm _ _
    have hf : (fun h => look (Sk.pairs ⟨n1, m1, k1, s1, l1, ma, aa⟩) h + look (Sk.pairs ⟨n1, m1, k1, s1, l1, mb, ab⟩) h)
        = (fun h => look (Sk.pairs ⟨n1, m1, k1, s1, l1, mb, ab⟩) h + look (Sk.pairs ⟨n1, m1, k1, s1, l1, ma, aa⟩) h) := by
      funext h; exact Nat.add_comm _ _
    simp only [mergeSpec, Sk.track, Sk.ab, hu, hf, Bool.and_comm aa.isSome]
    rfl
  · have hc' : checkCompatible b a = .error e := by rw [checkCompatible_symm]; exact hc
    rw [merge_err k hc, merge_err k hc']
example : exA.WF ∧ exB.WF ∧ exA.num = exB.num := ⟨exA_wf, exB_wf, rfl⟩

/-- **T-merge_idem** (on hashes): merging a sketch with itself keeps its hashes (abundances double,
which is why the clause is about hashes only). -/
theorem merge_idem_keys (k : Kind) (a : Sk) (wa : a.WF) (hsz : a.num = 0 ∨ a.mins.length ≤ a.num) :
    ∃ r, a.merge k a = .ok r ∧ r.mins = a.mins := by
  have hc : checkCompatible a a = .ok () := (checkCompatible_ok_iff a a).2 ⟨rfl, rfl, rfl, rfl⟩
  refine ⟨_, merge_ok k wa wa hc, ?_⟩
  simp only [mergeSpec, union_self wa.1, bottom]
  rcases hsz with h | h
  · simp [h]
  · split
    · rfl
    · exact List.take_of_length_le h
example : exN.WF ∧ (exN.num = 0 ∨ exN.mins.length ≤ exN.num) := ⟨exN_wf, Or.inr (by decide)⟩

/-- **T-merge_assoc** (on hashes, equal `num`): `(a ∪ b) ∪ c` and `a ∪ (b ∪ c)` hold the same hashes;
for num sketches this is "bottom-num absorbs an inner bottom-num".  Stated on `mergeSpec`, which is
what both `merge` implementations compute (`merge_spec`). -/
theorem merge_assoc_keys (a b c : Sk) (ha : SInc a.mins) (hc : SInc c.mins) (hn : a.num = b.num) :
    (mergeSpec (mergeSpec a b) c).mins = (mergeSpec a (mergeSpec b c)).mins := by
  simp only [mergeSpec, ← hn]
  rw [bottom_union_bottom (sinc_union _ _) hc, union_comm a.mins (bottom a.num _),
      bottom_union_bottom (sinc_union _ _) ha, union_comm _ a.mins, union_assoc]
example : SInc exN.mins ∧ exN.num = exN.num := ⟨exN_wf.1, rfl⟩

/-- … and as a statement about the calls themselves, for either container type. -/
theorem merge_assoc_calls (k : Kind) (a b c ab abc bc abc' : Sk) (wa : a.WF) (wb : b.WF) (wc : c.WF)
    (hn : a.num = b.num)
    (h1 : a.merge k b = .ok ab) (h2 : ab.merge k c = .ok abc)
    (h3 : b.merge k c = .ok bc) (h4 : a.merge k bc = .ok abc') :
    abc.mins = abc'.mins := by
  have wab : ab.WF := merge_wf k wa wb h1
  have wbc : bc.WF := merge_wf k wb wc h3
  rw [merge_keys k ab c abc wab wc h2, merge_keys k a bc abc' wa wbc h4,
      merge_keys k a b ab wa wb h1, merge_keys k b c bc wb wc h3, merge_num k h1, ← hn]
  rw [bottom_union_bottom (sinc_union _ _) wc.1, union_comm a.mins (bottom a.num _),
      bottom_union_bottom (sinc_union _ _) wa.1, union_comm _ a.mins, union_assoc]

/-- **T-isect** (scaled sketches): `intersection` returns the sorted common hashes and the size of
the union; `intersection_size` and `count_common(.., false)` agree with it. -/
theorem isect (k : Kind) (a b : Sk) (ha : SInc a.mins) (hb : SInc b.mins) (hn : a.num = 0)
    (hc : checkCompatible a b = .ok ()) :
    intersection k a b = .ok (inter a.mins b.mins, unionSize a.mins b.mins) ∧
    intersectionSize k a b = .ok ((inter a.mins b.mins).length, unionSize a.mins b.mins) ∧
    countCommon k a b false = .ok (inter a.mins b.mins).length := by
  refine ⟨intersection_scaled k ha hb hn hc, intersectionSize_scaled k ha hb hn hc, ?_⟩
  simp only [countCommon, Bool.false_eq_true, false_and, if_false]
  exact countCommonPlain_ok ha hb hc
example : SInc exA.mins ∧ SInc exB.mins ∧ exA.num = 0 ∧ checkCompatible exA exB = .ok () :=
  ⟨exA_wf.1, exB_wf.1, rfl, exAB_compat⟩

/-- the common hashes are a strictly increasing list, i.e. *the* sorted representation of A ∩ B,
and the union size is |A ∪ B| -/
theorem isect_is_set_intersection (a b : List Nat) (ha : SInc a) :
    SInc (inter a b) ∧ (∀ x, x ∈ inter a b ↔ x ∈ a ∧ x ∈ b) ∧
    unionSize a b = (a ++ diff b a).length ∧ (∀ x, x ∈ a ++ diff b a ↔ x ∈ a ∨ x ∈ b) := by
  refine ⟨sinc_filter _ ha, mem_inter a b, by simp [unionSize], ?_⟩
  intro x; rw [List.mem_append, mem_diff]
  by_cases h : x ∈ a <;> simp [h]
example : SInc [1, 5, 9] := by decide

/-- **T-reject**: operands differing in ksize / molecule / max_hash (scaled) / seed are refused with
the corresponding error — the first difference in that order decides — … -/
theorem reject_variant (a b : Sk) :
    (a.ksize ≠ b.ksize → checkCompatible a b = .error .MismatchKSizes) ∧
    (a.ksize = b.ksize → a.mol ≠ b.mol → checkCompatible a b = .error .MismatchDNAProt) ∧
    (a.ksize = b.ksize → a.mol = b.mol → a.maxHash ≠ b.maxHash →
        checkCompatible a b = .error .MismatchScaled) ∧
    (a.ksize = b.ksize → a.mol = b.mol → a.maxHash = b.maxHash → a.seed ≠ b.seed →
        checkCompatible a b = .error .MismatchSeed) := by
  unfold checkCompatible
  refine ⟨?_, ?_, ?_, ?_⟩ <;> intros <;> simp_all

/-- … by every fallible two-operand entry point, and the failing call produces no new state (the
model's `Except` carries none: both operands are what they were). -/
theorem reject_all (k : Kind) (a b : Sk) (e : Err) (hc : checkCompatible a b = .error e) :
    a.merge k b = .error e ∧ intersection k a b = .error e ∧ intersectionSize k a b = .error e ∧
    countCommon k a b false = .error e ∧ a.inflate b = .error e ∧ a.inflatedAbundances b = .error e := by
  refine ⟨merge_err k hc, ?_, ?_, ?_, ?_, ?_⟩ <;>
    simp [intersection, intersectionSize, countCommon, countCommonPlain, Sk.inflate, Sk.inflatedAbundances,
      hc, bind, Except.bind]
example : checkCompatible exA { exB with seed := 7 } = .error .MismatchSeed := by
  simp [checkCompatible, exA, exB]


/-! ### sketching is a homomorphism -/

/-- an empty scaled sketch (what `new(scaled, …)` returns for `scaled ≥ 1`) -/
def exE : Sk := { num := 0, maxHash := 100, ksize := 21, seed := 42, mol := .dna, mins := [], abunds := some [] }
theorem exE_sc : Sc exE := ⟨⟨by decide, by intro ab h; cases h; rfl⟩, rfl, by decide⟩

/-- **T-sketch**: inserting a multiset of (hash, abundance) pairs, in any order and with repetitions,
into an empty scaled sketch of either container type leaves exactly the sketch the specification
defines: the distinct hashes under the ceiling, sorted, each with the sum of its abundances.
(`Sc e`: representation invariant, `num = 0`, ceiling `≠ 0`; abundances `≠ 0` — abundance 0 means
"remove" for the vector type and "ignore" for the tree type, see the model.) -/
theorem sketch_spec (k : Kind) (e : Sk) (he : Sc e) (hemp : e.mins = []) (items : List (Nat × Nat))
    (hpos : ∀ p ∈ items, p.2 ≠ 0) :
    (e.addManyAb k items).mins = sketchKeys 0 e.maxHash (items.map Prod.fst) ∧
    (e.abunds.isSome → ∀ h, (e.addManyAb k items).ab h = if h ≤ e.maxHash then total items h else 0) :=
  fold_is_spec k e he hemp items hpos
example : Sc exE ∧ exE.mins = [] ∧ ∀ p ∈ [((7 : Nat), (2 : Nat)), (300, 1), (7, 3)], p.2 ≠ 0 :=
  ⟨exE_sc, rfl, by decide⟩

/-- **T-merge_hom** (scaled): sketching two datasets separately and merging gives the same sketch —
hashes and summed abundances, and every parameter — as sketching their concatenation. -/
theorem merge_hom (k : Kind) (e : Sk) (he : Sc e) (hemp : e.mins = []) (A B : List (Nat × Nat))
    (hA : ∀ p ∈ A, p.2 ≠ 0) (hB : ∀ p ∈ B, p.2 ≠ 0) :
    (e.addManyAb k A).merge k (e.addManyAb k B) = .ok (e.addManyAb k (A ++ B)) :=
  merge_hom_fold k e he hemp A B hA hB
example : Sc exE ∧ exE.mins = [] ∧ (∀ p ∈ [((7 : Nat), (2 : Nat)), (300, 1)], p.2 ≠ 0) ∧
    (∀ p ∈ [((7 : Nat), (3 : Nat)), (9, 1)], p.2 ≠ 0) := ⟨exE_sc, rfl, by decide, by decide⟩

/-- **T-add_from / add_many**: adding hashes one by one (abundance 1 each) inserts exactly those under
the ceiling — `add_many` is `add_many_with_abund` with abundance 1, `add_from` is `add_many` over the
other sketch's hashes (no compatibility check in the code, hence none here). -/
theorem add_many_keys (k : Kind) (t : Sk) (ht : Sc t) (hs : List Nat) (z : Nat) :
    z ∈ (t.addMany k hs).mins ↔ z ∈ t.mins ∨ (z ∈ hs ∧ z ≤ t.maxHash) := by
  rw [addMany_eq]
  obtain ⟨_, _, _, _, _, _, x7, _⟩ := fold_scaled k (hs.map (fun h => (h, 1))) t ht (by simp)
  rw [x7]
  constructor
  · rintro (h | ⟨p, hp, rfl, hle⟩)
    · exact Or.inl h
    · obtain ⟨a, ha, rfl⟩ := List.mem_map.1 hp
      exact Or.inr ⟨ha, hle⟩
  · rintro (h | ⟨ha, hle⟩)
    · exact Or.inl h
    · exact Or.inr ⟨(z, 1), List.mem_map.2 ⟨z, ha, rfl⟩, rfl, hle⟩
example : Sc exE := exE_sc

/-! ### subtraction, inflation -/

/-- **T-subtract**: `remove_from` / `remove_many` leave the hashes `a \ b` (and keep the
representation invariant, i.e. the abundance vector loses the same positions). -/
theorem subtract (a b : Sk) (wa : a.WF) :
    (a.removeFrom b).mins = diff a.mins b.mins ∧ (a.removeFrom b).WF :=
  removeMany_mins b.mins wa
theorem subtract_many (a : Sk) (hs : List Nat) (wa : a.WF) :
    (a.removeMany hs).mins = diff a.mins hs ∧ (a.removeMany hs).WF :=
  removeMany_mins hs wa
example : exA.WF := exA_wf

/-- **T-inflate**: `inflate` keeps the hashes `a ∩ b`, gives each the abundance it has in `b`, and
turns abundance tracking on; `inflated_abundances` returns those abundances and their sum; a source
without abundances is refused. -/
theorem inflate (a b : Sk) (ab : List Nat) (wa : a.WF) (wb : b.WF)
    (hc : checkCompatible a b = .ok ()) (hab : b.abunds = some ab) :
    a.inflate b = .ok { a with mins := inter a.mins b.mins, abunds := some ((inter a.mins b.mins).map b.ab) } ∧
    a.inflatedAbundances b =
      .ok ((inter a.mins b.mins).map b.ab, ((inter a.mins b.mins).map b.ab).foldl (· + ·) 0) :=
  inflate_ok wa wb hc hab
example : exA.WF ∧ exB.WF ∧ checkCompatible exA exB = .ok () ∧ exB.abunds = some [4, 1] :=
  ⟨exA_wf, exB_wf, exAB_compat, rfl⟩
theorem inflate_needs_abundance (a b : Sk) (hc : checkCompatible a b = .ok ()) (hab : b.abunds = none) :
    a.inflate b = .error .NeedsAbundanceTracking ∧
    a.inflatedAbundances b = .error .NeedsAbundanceTracking :=
  inflate_untracked hc hab
example : checkCompatible exA { exB with abunds := none } = .ok () := by simp [checkCompatible, exA, exB]

/-- **T-isect** (num sketches): the common hashes are those of `a ∩ b` that lie in the bottom-`num`
of the union, and the reported size is that of this bottom-`num` sketch. -/
theorem isect_num (k : Kind) (a b : Sk) (wa : a.WF) (wb : b.WF) (hn : a.num ≠ 0) (hm : a.maxHash = 0)
    (hsz : a.mins.length ≤ a.num) (hc : checkCompatible a b = .ok ()) :
    intersection k a b =
      .ok (inter (inter a.mins b.mins) (bottom a.num (union a.mins b.mins)),
           (bottom a.num (union a.mins b.mins)).length) ∧
    intersectionSize k a b =
      .ok ((inter (inter a.mins b.mins) (bottom a.num (union a.mins b.mins))).length,
           (bottom a.num (union a.mins b.mins)).length) :=
  intersection_num k wa wb hn hm hsz hc
example : exN.WF ∧ exN.num ≠ 0 ∧ exN.maxHash = 0 ∧ exN.mins.length ≤ exN.num ∧
    checkCompatible exN exN = .ok () := ⟨exN_wf, by decide, rfl, by decide, by simp [checkCompatible]⟩

end Sourmash.C03
