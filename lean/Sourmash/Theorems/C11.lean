import Sourmash.Lemmas.Select
import Sourmash.Lemmas.Lookup
import Sourmash.Theorems.C14
/-! Property C11 — selection keeps exactly the sketches that satisfy the request.
Property theorems only; helper lemmas live in `Sourmash/Lemmas/Select.lean`.
`satisfies` (Spec/Select.lean) is the conjunction of the five optional criteria; every theorem is
quantified over the whole `Selection` structure, i.e. over all 2^5 present/absent combinations and
all values. -/
namespace Sourmash.C11
open Select Scaled

/-! ## T-manifest_exact -/

/-- "Selecting from a … manifest … retains every sketch that satisfies all requested criteria and no
    other": `Manifest::select` is the filter by `satisfies` on what each row describes. -/
theorem manifest_exact (sel : Selection) (m : List Record) :
    manifestSelect sel m = m.filter (fun r => satisfies sel r.described) := by
  unfold manifestSelect
  exact List.filter_congr (fun r _ => rowValid_eq_satisfies sel r)

/-- membership form: a row survives iff it was there and satisfies the request -/
theorem manifest_mem (sel : Selection) (m : List Record) (r : Record) :
    r ∈ manifestSelect sel m ↔ r ∈ m ∧ satisfies sel r.described = true := by
  rw [manifest_exact]; exact List.mem_filter

/-- "selection is idempotent" (manifest level) -/
theorem manifest_idempotent (sel : Selection) (m : List Record) :
    manifestSelect sel (manifestSelect sel m) = manifestSelect sel m := by
  unfold manifestSelect
  rw [List.filter_filter]
  simp

/-- "… and order-preserving": the result is a sublist of the manifest -/
theorem manifest_sublist (sel : Selection) (m : List Record) :
    (manifestSelect sel m).Sublist m := List.filter_sublist

/-- `Manifest::select` does not panic — and is `manifestSelect` — on a manifest whose rows all name
    one of the four molecule types, in whatever letter case (`Record::moltype()` lower-cases before
    it matches): manifests made by `Record::from_sig`, and manifests read from CSV documents written
    by other tools. -/
theorem manifest_total (sel : Selection) (m : List Record) (h : ∀ r ∈ m, r.mol? ≠ none) :
    manifestSelect? sel m = some (manifestSelect sel m) := by
  unfold manifestSelect?
  have : m.any (rowPanics sel) = false := by
    rw [List.any_eq_false]
    intro r hr
    have hm := h r hr
    unfold rowPanics
    cases hs : sel.moltype with
    | none => simp
    | some mt =>
      cases hp : r.mol? with
      | none => exact absurd hp hm
      | some v => simp
  simp [this]
/-- non-vacuity: "dNa" and "PROTEIN" are such rows -/
example : ∀ r ∈ [({ (default : Record) with moltype := [100, 78, 97] } : Record),
                 { (default : Record) with moltype := [80, 82, 79, 84, 69, 73, 78] }], r.mol? ≠ none := by
  decide

/-- `Collection::select` (and with it `LinearIndex::select` when it succeeds) is the manifest
    selection; the storage is untouched -/
theorem collection_exact (sel : Selection) (c : Collection) :
    (c.select sel).manifest = c.manifest.filter (fun r => satisfies sel r.described) ∧
    (c.select sel).storage = c.storage :=
  ⟨manifest_exact sel c.manifest, rfl⟩

/-- `LinearIndex::select` never returns anything but the selected collection -/
theorem linear_exact (sel : Selection) (c c' : Collection) (h : linearSelect sel c = .ok c') :
    c'.manifest = c.manifest.filter (fun r => satisfies sel r.described) := by
  simp only [linearSelect] at h
  cases hc : collectionSetCheck (c.select sel).manifest with
  | error e => rw [hc] at h; cases h
  | ok u => rw [hc] at h; cases h; exact manifest_exact sel c.manifest
example : linearSelect {} { manifest := [], storage := [] } = .ok { manifest := [], storage := [] } := rfl

/-! ## T-sig_exact -/

/-- "Selecting from a signature … retains every sketch that satisfies all requested criteria and no
    other. A scaled request keeps only scaled sketches whose scaled value is not larger than requested
    (num sketches are excluded) and delivers them downsampled to the requested value":
    `Signature::select` succeeds and its sketches are `selectSpec` = filter by `satisfies`, each
    survivor delivered cut at the requested ceiling.  Hypotheses: the sketches are well-formed
    (protein-family ksize stored as a multiple of 3; one non-zero abundance per hash when tracked) and
    the requested scaled is a `u32`. -/
theorem sig_exact (sel : Selection) (sg : Sig)
    (hwf : ∀ s ∈ sg.sketches, s.wf)
    (hsc : ∀ sc, sel.scaled = some sc → sc < 4294967296) :
    sg.select sel = .ok { sg with sketches := selectSpec sel sg.sketches } := by
  have hfilter : sg.sketches.filter (keep sel) = sg.sketches.filter (fun s => satisfies sel s.described) :=
    List.filter_congr (fun s hs => keep_eq_satisfies sel s (hwf s hs).1)
  unfold Sig.select selectSpec
  rw [hfilter]
  cases hs : sel.scaled with
  | none =>
    have : deliver sel = id := by funext s; simp [deliver, hs]
    simp [this]
  | some sc =>
    have hd : deliver sel = fun s => if s.scaled = sc then s else cutAt sc s := by
      funext s; simp [deliver, hs]
    have hall : ∀ s ∈ sg.sketches.filter (fun s => satisfies sel s.described),
        s.wf ∧ s.scaled ≠ 0 ∧ s.scaled ≤ sc := by
      intro s hs'
      obtain ⟨hmem, hsat⟩ := List.mem_filter.1 hs'
      refine ⟨hwf s hmem, ?_⟩
      have : (s.described.scaled != 0 && decide (s.described.scaled ≤ sc)) = true := by
        simp only [satisfies, hs, crit, Bool.and_eq_true] at hsat
        simpa using hsat.2
      simp only [Sketch.described, Bool.and_eq_true, bne_iff_ne, ne_eq] at this
      exact ⟨this.1, of_decide_eq_true this.2⟩
    simp only [downsamplePass_eq sc (hsc sc hs) _ hall, hd]

/-- non-vacuity of `sig_exact` and a look at what it delivers: a DNA k=21 scaled sketch with hashes
    {1, 2^63} next to a num sketch, selected at scaled 4: the num sketch goes, the scaled one is cut -/
example :
    (∀ s ∈ [(⟨21, .dna, 0, maxHashForScaled 2, false, .vec, 42, [1, 2^63], []⟩ : Sketch),
            ⟨21, .dna, 500, 0, false, .vec, 42, [1, 2^63], []⟩], s.wf) ∧
    (Sig.select { scaled := some 4 } { name := none, filename := none, sketches :=
        [⟨21, .dna, 0, maxHashForScaled 2, false, .vec, 42, [1, 2^63], []⟩,
         ⟨21, .dna, 500, 0, false, .vec, 42, [1, 2^63], []⟩] }).toOption.map
      (fun r => r.sketches.map (·.mins)) = some [[1]] := by
  decide

/-- the retained sketches are a sublist of the signature's sketches, each delivered by `deliver`
    ("order-preserving") -/
theorem sig_sublist (sel : Selection) (sg : Sig)
    (hwf : ∀ s ∈ sg.sketches, s.wf) (hsc : ∀ sc, sel.scaled = some sc → sc < 4294967296) :
    ∃ kept : List Sketch, kept.Sublist sg.sketches ∧
      sg.select sel = .ok { sg with sketches := kept.map (deliver sel) } :=
  ⟨_, List.filter_sublist, sig_exact sel sg hwf hsc⟩

/-- every delivered sketch reports the requested scaled value, for requests on which the conversion
    round-trips (property C14 proves `hrt` for every request ≤ 2^31) -/
theorem sig_delivers_requested_scaled (sel : Selection) (sg : Sig) (sc : Nat)
    (hs : sel.scaled = some sc) (hrt : scaledForMaxHash (maxHashForScaled sc) = sc) :
    ∀ s ∈ selectSpec sel sg.sketches, s.scaled = sc := by
  intro s hs'
  obtain ⟨t, _, rfl⟩ := List.mem_map.1 hs'
  simp only [deliver, hs]
  split
  · assumption
  · rw [cutAt_scaled, hrt]
example : scaledForMaxHash (maxHashForScaled 1000) = 1000 := by decide

/-- the round trip of C14 for every requested value `≤ 2^31` (`Sourmash.C14.roundtrip` for `1 ≤ sc`;
    at `sc = 0` both conversions return 0) -/
theorem request_roundtrips (sc : Nat) (h31 : sc ≤ 2 ^ 31) : scaledForMaxHash (maxHashForScaled sc) = sc := by
  rcases Nat.eq_zero_or_pos sc with h | h
  · subst h; rfl
  · exact Sourmash.C14.roundtrip sc h h31
example : (1000 : Nat) ≤ 2 ^ 31 := by decide

/-- `sig_delivers_requested_scaled`, closed with C14's round trip: for every requested scaled value
    `≤ 2^31` every delivered sketch reports exactly the requested value -/
theorem sig_delivers_requested_scaled_closed (sel : Selection) (sg : Sig) (sc : Nat)
    (hs : sel.scaled = some sc) (h31 : sc ≤ 2 ^ 31) :
    ∀ s ∈ selectSpec sel sg.sketches, s.scaled = sc :=
  sig_delivers_requested_scaled sel sg sc hs (request_roundtrips sc h31)
/-- non-vacuity: the request is in range and something is delivered (a scaled-2 sketch, requested at 4) -/
example : ({ scaled := some 4 } : Selection).scaled = some 4 ∧ (4 : Nat) ≤ 2 ^ 31 ∧
    (selectSpec { scaled := some 4 }
      [(⟨21, .dna, 0, maxHashForScaled 2, false, .vec, 42, [1, 2^63], []⟩ : Sketch)]).map (·.scaled) = [4] := by
  decide

/-- … and holds no hash above the requested ceiling (when it had none above its own) -/
theorem sig_delivers_below_ceiling (sel : Selection) (sg : Sig) (sc : Nat) (hs : sel.scaled = some sc) :
    ∀ s ∈ selectSpec sel sg.sketches, s.scaled ≠ sc → ∀ h ∈ s.mins, h ≤ maxHashForScaled sc := by
  intro s hs' hne h hh
  obtain ⟨t, _, rfl⟩ := List.mem_map.1 hs'
  simp only [deliver, hs] at hne hh
  split at hh
  · rename_i heq; simp [heq] at hne
  · unfold cutAt at hh
    split at hh
    · obtain ⟨p, hp, rfl⟩ := List.mem_map.1 hh
      simpa using (List.mem_filter.1 hp).2
    · simpa using (List.mem_filter.1 hh).2

/-- "selection is idempotent" (signature level): selecting the result again changes nothing.
    Needs the C14 round trip for the requested value, like `sig_delivers_requested_scaled`. -/
theorem sig_idempotent (sel : Selection) (sg sg' : Sig)
    (hwf : ∀ s ∈ sg.sketches, s.wf) (hsc : ∀ sc, sel.scaled = some sc → sc < 4294967296)
    (hrt : ∀ sc, sel.scaled = some sc → scaledForMaxHash (maxHashForScaled sc) = sc)
    (h : sg.select sel = .ok sg') : sg'.select sel = .ok sg' := by
  rw [sig_exact sel sg hwf hsc] at h
  cases h
  have hwf' : ∀ s ∈ selectSpec sel sg.sketches, s.wf := by
    intro s hs
    obtain ⟨t, ht, rfl⟩ := List.mem_map.1 hs
    have := hwf t (List.mem_filter.1 ht).1
    unfold deliver
    split
    · exact this
    · split
      · exact this
      · exact cutAt_wf _ _ this
  rw [sig_exact sel _ hwf' hsc]
  congr 2
  show selectSpec sel (selectSpec sel sg.sketches) = selectSpec sel sg.sketches
  -- every delivered sketch still satisfies the request and is delivered unchanged
  have key : ∀ s ∈ selectSpec sel sg.sketches,
      satisfies sel s.described = true ∧ deliver sel s = s := by
    intro s hs
    obtain ⟨t, ht, rfl⟩ := List.mem_map.1 hs
    obtain ⟨_, hsat⟩ := List.mem_filter.1 ht
    cases hsel : sel.scaled with
    | none => simp [deliver, hsel, hsat]
    | some sc =>
      have hr := hrt sc hsel
      have hsc0 : t.scaled ≠ 0 ∧ t.scaled ≤ sc := by
        have := hsat
        simp only [satisfies, hsel, crit, Bool.and_eq_true] at this
        have h2 := this.2
        simp only [Sketch.described, bne_iff_ne, ne_eq] at h2
        exact ⟨h2.1, of_decide_eq_true h2.2⟩
      by_cases heq : t.scaled = sc
      · simp [deliver, hsel, heq, hsat]
      · have hsc' : (cutAt sc t).scaled = sc := by rw [cutAt_scaled, hr]
        have hd : (cutAt sc t).described = { t.described with scaled := sc } := by
          simp only [Sketch.described, hsc']
          unfold cutAt; split <;> rfl
        have hne : sc ≠ 0 := by omega
        refine ⟨?_, by simp [deliver, hsel, heq, hsc']⟩
        simp only [deliver, hsel, heq, if_false, hd]
        simp only [satisfies, hsel, crit, Bool.and_eq_true] at hsat ⊢
        refine ⟨hsat.1, ?_⟩
        simp [hne]
  have e1 : (selectSpec sel sg.sketches).filter (fun s => satisfies sel s.described)
      = selectSpec sel sg.sketches := List.filter_eq_self.2 (fun s hs => (key s hs).1)
  have e2 : (selectSpec sel sg.sketches).map (deliver sel) = selectSpec sel sg.sketches := by
    conv => rhs; rw [← List.map_id (selectSpec sel sg.sketches)]
    exact List.map_congr_left (fun s hs => (key s hs).2)
  show ((selectSpec sel sg.sketches).filter (fun s => satisfies sel s.described)).map (deliver sel)
      = selectSpec sel sg.sketches
  rw [e1, e2]

/-- `sig_idempotent`, closed with C14's round trip: for every request whose scaled value (if any) is
    `≤ 2^31`, selecting the result of a selection again changes nothing.  (`2^31 < 2^32` also gives the
    `u32` hypothesis of `sig_exact`.) -/
theorem sig_idempotent_closed (sel : Selection) (sg sg' : Sig)
    (hwf : ∀ s ∈ sg.sketches, s.wf) (h31 : ∀ sc, sel.scaled = some sc → sc ≤ 2 ^ 31)
    (h : sg.select sel = .ok sg') : sg'.select sel = .ok sg' :=
  sig_idempotent sel sg sg' hwf (fun sc hs => by have := h31 sc hs; omega)
    (fun sc hs => request_roundtrips sc (h31 sc hs)) h
/-- non-vacuity: well-formed sketches, a request in range, and the first selection succeeds -/
example :
    (∀ s ∈ [(⟨21, .dna, 0, maxHashForScaled 2, false, .vec, 42, [1, 2^63], []⟩ : Sketch)], s.wf) ∧
    (∀ sc, ({ scaled := some 4 } : Selection).scaled = some sc → sc ≤ 2 ^ 31) ∧
    (Sig.select { scaled := some 4 } { name := none, filename := none, sketches :=
        [⟨21, .dna, 0, maxHashForScaled 2, false, .vec, 42, [1, 2^63], []⟩] }).toOption.isSome = true := by
  refine ⟨by decide, ?_, by decide⟩
  intro sc h; cases h; decide

/-! ## T-agree -/

/-- "Selecting on a manifest agrees with selecting on the signatures it describes": the positions of
    the rows of `Record::from_sig sg` that `Manifest::select` retains are the positions of the
    sketches of `sg` that `Signature::select` retains. -/
theorem agree (md5of : Sketch → Bytes) (sel : Selection) (sg : Sig) (path : Bytes) (recs : List Record)
    (hk : ∀ s ∈ sg.sketches, s.mol.proteinFamily = true → s.ksize % 3 = 0)
    (hr : fromSig md5of sg path = some recs) :
    retainedFrom (rowValid sel) 0 recs = retainedFrom (keep sel) 0 sg.sketches := by
  unfold fromSig at hr
  split at hr
  · cases hr; rename_i h; rw [h]; rfl
  · split at hr
    · cases hr
    · cases hr
      apply retainedFrom_map
      intro s hs
      rw [rowValid_eq_satisfies, mkRecord_described, keep_eq_satisfies sel s (hk s hs)]

/-- the same as lists: the retained rows are the rows of the retained sketches, in order -/
theorem agree_rows (md5of : Sketch → Bytes) (sel : Selection) (nm fn path : Bytes) (l : List Sketch)
    (hk : ∀ s ∈ l, s.mol.proteinFamily = true → s.ksize % 3 = 0) :
    manifestSelect sel (l.map (mkRecord md5of nm fn path)) =
      (l.filter (keep sel)).map (mkRecord md5of nm fn path) := by
  unfold manifestSelect
  rw [List.filter_map]
  congr 1
  apply List.filter_congr
  intro s hs
  simp only [Function.comp]
  rw [rowValid_eq_satisfies, mkRecord_described, keep_eq_satisfies sel s (hk s hs)]

/-- the same for a manifest that was not made by `Record::from_sig` (e.g. read from a CSV document):
    whenever row `r` *describes* sketch `s` — ksize in residues, the molecule type its (arbitrarily
    capitalised) name parses to, abundance flag, num and reported scaled — `Manifest::select` keeps
    the row iff `Signature::select` keeps the sketch … -/
theorem agree_described (sel : Selection) (r : Record) (s : Sketch)
    (hk : s.mol.proteinFamily = true → s.ksize % 3 = 0) (hd : r.described = s.described) :
    rowValid sel r = keep sel s := by
  rw [rowValid_eq_satisfies, hd, keep_eq_satisfies sel s hk]
/-- non-vacuity: a row spelled "dNa" describes a DNA sketch -/
example :
    ({ (default : Record) with ksize := 21, moltype := [100, 78, 97] } : Record).described =
      Sketch.described ⟨21, .dna, 0, 0, false, .vec, 42, [], []⟩ := by
  decide

/-- … and so the retained positions agree for a whole manifest whose rows describe, one by one, the
    sketches of a list -/
theorem agree_described_rows (sel : Selection) (rows : List Record) (l : List Sketch)
    (hk : ∀ s ∈ l, s.mol.proteinFamily = true → s.ksize % 3 = 0)
    (hd : rows.map Record.described = l.map Sketch.described) (i : Nat) :
    retainedFrom (rowValid sel) i rows = retainedFrom (keep sel) i l := by
  induction rows generalizing l i with
  | nil =>
    cases l with
    | nil => rfl
    | cons s l' => simp at hd
  | cons r rows' ih =>
    cases l with
    | nil => simp at hd
    | cons s l' =>
      simp only [List.map_cons, List.cons.injEq] at hd
      have h1 := agree_described sel r s (hk s (List.mem_cons_self ..)) hd.1
      have h2 := ih l' (fun t ht => hk t (List.mem_cons_of_mem _ ht)) hd.2 (i + 1)
      simp only [retainedFrom, h1, h2]
example : [({ (default : Record) with ksize := 21, moltype := [100, 78, 97] } : Record)].map Record.described =
    [(⟨21, .dna, 0, 0, false, .vec, 42, [], []⟩ : Sketch)].map Sketch.described := by
  decide

/-- without the multiple-of-3 hypothesis the two levels disagree: a "protein" sketch whose stored
    ksize is 20 is described as k=6 by its record, and a k=6 request keeps the record but not the
    sketch (such sketches are not produced by the sketching front ends; the generators exclude them) -/
theorem agree_needs_multiple_of_3 :
    let s : Sketch := { ksize := 20, mol := .protein, num := 0, maxHash := 0, tracked := false,
                        container := .vec, seed := 42, mins := [], abunds := [] }
    let sel : Selection := { ksize := some 6 }
    rowValid sel (mkRecord (fun _ => []) [] [] [] s) = true ∧ keep sel s = false := by
  decide

/-! ## T-collection -/

/-- "Selecting from a … collection …": for a collection built by `Collection::from_sigs`, every row
    that survives `Collection::select sel` comes from a sketch `s` that satisfies the request, and
    loading it (`sig_from_record`, then `select sel` as the callers do) delivers exactly that one
    sketch, cut at the requested ceiling.  Hypotheses: the look-up can tell the sketches of a
    signature apart (no two agree on ksize, molecule type and abundance — see C12 `lookup_collision`
    for what happens otherwise), sketches are well-formed, the requested scaled is a `u32`. -/
theorem collection_load (md5of : Sketch → Bytes) (sel : Selection) (sigs : List Sig) (c : Collection)
    (hc : Collection.fromSigs md5of sigs = some c)
    (hwf : ∀ sg ∈ sigs, ∀ s ∈ sg.sketches, s.wf)
    (hd : ∀ sg ∈ sigs, sg.sketches.Pairwise (fun s t => lookupKey s ≠ lookupKey t))
    (hsc : ∀ sc, sel.scaled = some sc → sc < 4294967296)
    (r : Record) (hr : r ∈ (c.select sel).manifest) :
    ∃ sg ∈ sigs, ∃ s ∈ sg.sketches, satisfies sel s.described = true ∧
      (c.select sel).sigFromRecord r = some (.ok { sg with sketches := [s] }) ∧
      sigStoreSelect sel { sg with sketches := [s] } = .ok { sg with sketches := [deliver sel s] } := by
  obtain ⟨hmem, hsat⟩ := (manifest_mem sel c.manifest r).1 hr
  obtain ⟨i, hi, rfl⟩ := List.mem_iff_getElem.1 hmem
  obtain ⟨sg, hsg, s, hs, hload, nm, hrec⟩ := lookup_ok md5of sigs c hc
    (fun sg hsg s hs => (hwf sg hsg s hs).1) hd i hi
  have hsat' : satisfies sel s.described = true := by
    rw [hrec, mkRecord_described] at hsat; exact hsat
  refine ⟨sg, hsg, s, hs, hsat', ?_, ?_⟩
  · have : c.sigForDataset i = c.sigFromRecord c.manifest[i] := by
      simp [Collection.sigForDataset, List.getElem?_eq_getElem hi]
    rw [← hload, this]
    rfl
  · have h1 := sig_exact sel { sg with sketches := [s] }
      (by intro t ht; simp at ht; subst ht; exact hwf sg hsg t hs) hsc
    simp only [sigStoreSelect, h1, selectSpec, List.filter_cons, hsat', if_true, List.filter_nil,
      List.map_cons, List.map_nil]
/-- non-vacuity: a signature with a DNA and a protein scaled-2 sketch; requesting DNA at scaled 4
    leaves one row, and loading it delivers the DNA sketch cut at the ceiling of 4 -/
example :
    (Collection.fromSigs (fun _ => [])
      [⟨some [120], none, [⟨21, .dna, 0, maxHashForScaled 2, false, .vec, 1000, [1, 2^63], []⟩,
                            ⟨21, .protein, 0, maxHashForScaled 2, false, .vec, 1001, [1], []⟩]⟩]).map
      (fun c => (c.select { scaled := some 4, moltype := some .dna }).manifest.map (fun r =>
        (c.sigFromRecord r).map (fun x => x.toOption.map (fun g =>
          (sigStoreSelect { scaled := some 4, moltype := some .dna } g).toOption.map
            (fun g' => g'.sketches.map (·.mins)))))) = some [some (some (some [[1]]))] := by
  decide

/-! ## T-store : `SigStore` and its lazily read signature -/

/-- "Selecting from a … signature …" through a `SigStore`: a store whose signature was not read from
    its storage yet REFUSES every selection (`Err`) — it never accepts one it cannot apply -/
theorem store_unread_refused (sel : Selection) (st : Store) (h : st.data = none) :
    st.select sel = .error .MismatchKSizes := by
  simp [Store.select, h]

/-- … and an ACCEPTED selection is honoured whenever the signature is looked at afterwards: if
    `SigStore::select` returns `Ok`, the store held a signature, and `data()` on the result delivers
    exactly the sketches of that signature that satisfy the request, each cut at the requested
    ceiling (`selectSpec`) — whatever the storage behind the store would deliver.  Hypotheses as for
    `sig_exact`. -/
theorem store_exact (sel : Selection) (st st' : Store)
    (hwf : ∀ sg, st.data = some sg → ∀ s ∈ sg.sketches, s.wf)
    (hsc : ∀ sc, sel.scaled = some sc → sc < 4294967296)
    (h : st.select sel = .ok st') :
    ∃ sg, st.data = some sg ∧
      st'.read = some ({ sg with sketches := selectSpec sel sg.sketches }, st') := by
  cases hd : st.data with
  | none => simp [Store.select, hd] at h
  | some sg =>
    refine ⟨sg, rfl, ?_⟩
    have hx := sig_exact sel sg (hwf sg hd) hsc
    simp only [Store.select, hd, hx] at h
    injection h with h
    subst h
    simp [Store.read]

/-- non-vacuity: a store that was read (DNA k=21 next to k=31, both scaled 2) accepts a request for
    k=21 at scaled 4 and then delivers that one sketch cut at the ceiling of 4, although its storage
    would deliver both -/
example :
    let sg : Sig := ⟨some [120], none, [⟨21, .dna, 0, maxHashForScaled 2, false, .vec, 1000, [1, 2^63], []⟩,
                                         ⟨31, .dna, 0, maxHashForScaled 2, false, .vec, 1001, [1], []⟩]⟩
    ((Store.select { ksize := some 21, scaled := some 4 } { data := some sg, backing := some sg }).toOption.bind
      (fun s => s.read)).map (fun p => p.1.sketches.map (·.mins)) = some [[1]] := by
  decide

/-- reading first makes an unread store selectable: `data()` fills the cell from the storage -/
theorem store_read_then_select (sel : Selection) (st : Store) (sg : Sig)
    (hd : st.data = none) (hb : st.backing = some sg) :
    ∃ st1, st.read = some (sg, st1) ∧ st1.select sel = (sg.select sel).map (fun sg' => { st1 with data := some sg' }) := by
  refine ⟨{ st with data := some sg }, by simp [Store.read, hd, hb], ?_⟩
  simp only [Store.select]
  cases sg.select sel <;> rfl

example : ({ data := none, backing := some default } : Store).data = none := rfl

end Sourmash.C11
