import Sourmash.Lemmas.SampleInv
/-! Property C01 — a sketch always holds exactly the sample its parameters define.
Property theorems only; helper lemmas live in `Sourmash/Lemmas/Sample*.lean`.

* `runVec mh H` / `runTree mh H` run the executable models of `KmerMinHash` / `KmerMinHashBTree`
  (`Model/MinHash.lean`, branch for branch the Rust code) on the history `H`;
* `runSpec kind mh H` interprets `H` on the abstract finite map of `Spec/Sample.lean`
  (insert/accumulate iff `h ≤ maxHash`; on a num sketch evict the largest while more than `num` are
  held; `add h 0` deletes on the vector type and is a no-op on the tree type; merge = key union with
  summed abundances, then the same eviction; tracking of the result = both operands track);
* `H : Hist` is any finite tree of `add / set / remove / remove_many / clear` steps and merges with
  arbitrarily built second operands, over unbounded `Nat` hashes (so every u64 value, duplicates and
  the boundary values 0, ceiling−1, ceiling, ceiling+1, 2^64−1 are instances);
* `H.WF mh`: every sketch of the history has exactly one of `num ≥ 1`, `maxHash ≥ 1`.
Abundances are `Nat`; the real `u64` sums agree as long as they stay below 2^64. -/
namespace Sourmash.C01
open Sample MH

/-- **T-vec_refines**: after ANY history the vector-backed sketch shows (`mins()`, `abunds()`)
    exactly the abstract sample, and its representation invariant holds (hashes strictly increasing,
    abundances aligned, at most `num` hashes, all ≤ the ceiling). -/
theorem vec_refines (mh : Nat) (H : Hist) (hwf : H.WF mh) :
    vecObs (runVec mh H) = (runSpec .vec mh H).obs ∧ VInv (runVec mh H) :=
  ⟨(runVec_ref mh H hwf).obs, (runVec_ref mh H hwf).inv (runSpec_inv .vec mh H hwf)⟩

/-- **T-tree_refines**: the same for the tree-backed sketch (which has no `set`), with
    `current_max` = the largest hash held. -/
theorem tree_refines (mh : Nat) (H : Hist) (hwf : H.WF mh) (hns : H.NoSet) :
    treeObs (runTree mh H) = (runSpec .tree mh H).obs ∧ TInv (runTree mh H) :=
  ⟨(runTree_ref mh H hwf hns).obs, (runTree_ref mh H hwf hns).inv (runSpec_inv .tree mh H hwf)⟩

/-- **T-vec_tree_equiv**: for histories whose inserted abundances are all ≥ 1 the two sketch types
    are observationally identical (hashes, abundances; hence size, sum, emptiness). -/
theorem vec_tree_equiv (mh : Nat) (H : Hist) (hwf : H.WF mh) (hpos : H.PosAb) :
    vecObs (runVec mh H) = treeObs (runTree mh H) := by
  rw [(vec_refines mh H hwf).1, (tree_refines mh H hwf hpos.noSet).1, runSpec_kind_irrel mh H hpos]

/-- the abstract sample itself is well-formed after any history: keys strictly increasing, at most
    `num` of them on a num sketch, all ≤ `maxHash` on a scaled sketch -/
theorem spec_invariant (k : Kind) (mh : Nat) (H : Hist) (hwf : H.WF mh) : SInv (runSpec k mh H) :=
  runSpec_inv k mh H hwf

/-- "evict the largest while more than `num` are held" leaves exactly the `num` smallest entries -/
theorem evict_is_bottom (n : Nat) (m : FMap) : evict n m = m.take n := evict_eq_take n m

/-- per-operation refinement (vector type): one step of the model from a state that refines `σ`
    lands on the abstract step of `σ` -/
theorem vec_step_refines (s : Vec) (σ : St) (r : VRef s σ) (i : SInv σ) (o : Op) :
    VRef (vecStep s o) (σ.step .vec o) ∧ SInv (σ.step .vec o) :=
  ⟨r.vecStep i o, i.step .vec o⟩

/-- per-operation refinement (tree type) -/
theorem tree_step_refines (s : Tree) (σ : St) (r : TRef s σ) (i : SInv σ) (o : Op) (ho : o.noSet) :
    TRef (treeStep s o) (σ.step .tree o) ∧ SInv (σ.step .tree o) :=
  ⟨r.treeStep i o ho, i.step .tree o⟩

/-- merge refinement, both types: the two-pointer walk (vector) and `union.take` + map rebuild
    (tree) compute the key union with summed abundances, truncated to `num`; the result tracks
    abundances iff both operands do -/
theorem merge_refines (s o : Vec) (s' o' : Tree) (σ τ : St) (i : SInv σ) (j : SInv τ)
    (r : VRef s σ) (q : VRef o τ) (r' : TRef s' σ) (q' : TRef o' τ) :
    VRef (s.merge o) (σ.merge τ) ∧ TRef (s'.merge o') (σ.merge τ) :=
  ⟨r.merge q j, r'.merge q' i j⟩

/-! ### non-vacuity: concrete histories hitting eviction, the ceiling, 0 and 2^64−1 -/

/-- num = 2: 2^64−1, 0, 5 inserted; eviction keeps {0,5}; the hypotheses of the theorems hold -/
example : (Hist.op (.op (.op (.new 2 true) (.add (2 ^ 64 - 1) 3)) (.add 0 1)) (.add 5 2)).WF 0
    ∧ (Hist.op (.op (.op (.new 2 true) (.add (2 ^ 64 - 1) 3)) (.add 0 1)) (.add 5 2)).PosAb
    ∧ vecObs (runVec 0 (.op (.op (.op (.new 2 true) (.add (2 ^ 64 - 1) 3)) (.add 0 1)) (.add 5 2)))
        = ⟨[0, 5], some [1, 2]⟩
    ∧ treeObs (runTree 0 (.op (.op (.op (.new 2 true) (.add (2 ^ 64 - 1) 3)) (.add 0 1)) (.add 5 2)))
        = ⟨[0, 5], some [1, 2]⟩ :=
  ⟨by simp [Hist.WF, WFp], by simp [Hist.PosAb, Op.posAb], by decide, by decide⟩

/-- scaled with ceiling 10: 10 is kept, 11 is not; `add 10 0` removes on the vector type only -/
example : (Hist.op (.op (.op (.new 0 true) (.add 10 1)) (.add 11 1)) (.add 10 0)).WF 10
    ∧ (Hist.op (.op (.op (.new 0 true) (.add 10 1)) (.add 11 1)) (.add 10 0)).NoSet
    ∧ vecObs (runVec 10 (.op (.op (.op (.new 0 true) (.add 10 1)) (.add 11 1)) (.add 10 0))) = ⟨[], some []⟩
    ∧ treeObs (runTree 10 (.op (.op (.op (.new 0 true) (.add 10 1)) (.add 11 1)) (.add 10 0))) = ⟨[10], some [1]⟩ :=
  ⟨by simp [Hist.WF, WFp], by simp [Hist.NoSet, Op.noSet], by decide, by decide⟩

/-- a history with a merge of a tracked and an untracked operand satisfies the hypotheses of
    `vec_tree_equiv` (the differential run replays it: both types answer `mins=4,7 abunds=none`) -/
example : vecObs (runVec 0 (.merge (.op (.new 3 true) (.add 7 2)) (.op (.new 3 false) (.add 4 1))))
    = treeObs (runTree 0 (.merge (.op (.new 3 true) (.add 7 2)) (.op (.new 3 false) (.add 4 1)))) :=
  vec_tree_equiv 0 _ (by simp [Hist.WF, WFp]) (by simp [Hist.PosAb, Op.posAb])

end Sourmash.C01
