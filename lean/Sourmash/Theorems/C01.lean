import Sourmash.Lemmas.SampleHistory
import Sourmash.Lemmas.SampleBulk
/-! Property C01 — a sketch always holds exactly the sample its parameters define.
Property theorems only; helper lemmas live in `Sourmash/Lemmas/Sample*.lean`.

* `runVec mh H` / `runTree mh H` run the executable models of `KmerMinHash` / `KmerMinHashBTree`
  (`Model/MinHash.lean`, branch for branch the Rust code) on the history `H`;
* `runSpec kind mh H` interprets `H` on the abstract finite map of `Spec/Sample.lean`
  (insert/accumulate iff `h ≤ maxHash`; on a num sketch evict the largest while more than `num` are
  held; `add h 0` deletes on the vector type and is a no-op on the tree type; merge = key union with
  summed abundances, then the same eviction; tracking of the result = both operands track);
* `H : Hist` is any finite tree of `add / set / remove / remove_many / clear` steps and merges with
  arbitrarily built second operands, over unbounded `Nat` hashes (so every u64 value, duplicates and
  the boundary values 0, ceiling−1, ceiling, ceiling+1, 2^64−1 are instances);
* `H.WF mh`: every sketch of the history has exactly one of `num ≥ 1`, `maxHash ≥ 1`.
Abundances are `Nat`; the real `u64` sums agree as long as they stay below 2^64. -/
namespace Sourmash.C01
open Sample MH

/-- **T-vec_refines**: after ANY history the vector-backed sketch shows (`mins()`, `abunds()`)
    exactly the abstract sample, and its representation invariant holds (hashes strictly increasing,
    abundances aligned, at most `num` hashes, all ≤ the ceiling). -/
theorem vec_refines (mh : Nat) (H : Hist) (hwf : H.WF mh) :
    vecObs (runVec mh H) = (runSpec .vec mh H).obs ∧ VInv (runVec mh H) :=
  ⟨(runVec_ref mh H hwf).obs, (runVec_ref mh H hwf).inv (runSpec_inv .vec mh H hwf)⟩

/-- **T-tree_refines**: the same for the tree-backed sketch (which has no `set`), with
    `current_max` = the largest hash held. -/
theorem tree_refines (mh : Nat) (H : Hist) (hwf : H.WF mh) (hns : H.NoSet) :
    treeObs (runTree mh H) = (runSpec .tree mh H).obs ∧ TInv (runTree mh H) :=
  ⟨(runTree_ref mh H hwf hns).obs, (runTree_ref mh H hwf hns).inv (runSpec_inv .tree mh H hwf)⟩

/-- **T-vec_tree_equiv**: for histories whose inserted abundances are all ≥ 1 the two sketch types
    are observationally identical (hashes, abundances; hence size, sum, emptiness). -/
theorem vec_tree_equiv (mh : Nat) (H : Hist) (hwf : H.WF mh) (hpos : H.PosAb) :
    vecObs (runVec mh H) = treeObs (runTree mh H) := by
  rw [(vec_refines mh H hwf).1, (tree_refines mh H hwf hpos.noSet).1, runSpec_kind_irrel mh H hpos]

/-- the abstract sample itself is well-formed after any history: keys strictly increasing, at most
    `num` of them on a num sketch, all ≤ `maxHash` on a scaled sketch -/
theorem spec_invariant (k : Kind) (mh : Nat) (H : Hist) (hwf : H.WF mh) : SInv (runSpec k mh H) :=
  runSpec_inv k mh H hwf

/-- "evict the largest while more than `num` are held" leaves exactly the `num` smallest entries -/
theorem evict_is_bottom (n : Nat) (m : FMap) : evict n m = m.take n := evict_eq_take n m

/-- per-operation refinement (vector type): one step of the model from a state that refines `σ`
    lands on the abstract step of `σ` -/
theorem vec_step_refines (s : Vec) (σ : St) (r : VRef s σ) (i : SInv σ) (o : Op) :
    VRef (vecStep s o) (σ.step .vec o) ∧ SInv (σ.step .vec o) :=
  ⟨r.vecStep i o, i.step .vec o⟩

/-- per-operation refinement (tree type) -/
theorem tree_step_refines (s : Tree) (σ : St) (r : TRef s σ) (i : SInv σ) (o : Op) (ho : o.noSet) :
    TRef (treeStep s o) (σ.step .tree o) ∧ SInv (σ.step .tree o) :=
  ⟨r.treeStep i o ho, i.step .tree o⟩

/-- merge refinement, both types: the two-pointer walk (vector) and `union.take` + map rebuild
    (tree) compute the key union with summed abundances, truncated to `num`; the result tracks
    abundances iff both operands do -/
theorem merge_refines (s o : Vec) (s' o' : Tree) (σ τ : St) (i : SInv σ) (j : SInv τ)
    (r : VRef s σ) (q : VRef o τ) (r' : TRef s' σ) (q' : TRef o' τ) :
    VRef (s.merge o) (σ.merge τ) ∧ TRef (s'.merge o') (σ.merge τ) :=
  ⟨r.merge q j, r'.merge q' i j⟩

/-- **T-num_bottom**: a num sketch built by insertions (abundances ≥ 1, any order, duplicates
    allowed) holds exactly the `num` smallest of ALL distinct inserted hashes — `all` is their
    strictly increasing list, characterised by membership, each with the sum of the abundances
    inserted for it — on both sketch types; tracked abundances are the matching prefix. -/
theorem num_bottom (n : Nat) (t : Bool) (adds : List (Nat × Nat)) (hn : 1 ≤ n)
    (hpos : ∀ p ∈ adds, 1 ≤ p.2) :
    let all := union [] adds
    Sorted (keys all) ∧ (∀ x, x ∈ keys all ↔ x ∈ adds.map Prod.fst) ∧ (∀ x, mapGet all x = sumFor adds x)
    ∧ vecObs (runVec 0 (addsHist n t adds)) = ⟨(keys all).take n, if t then some ((vals all).take n) else none⟩
    ∧ treeObs (runTree 0 (addsHist n t adds)) = ⟨(keys all).take n, if t then some ((vals all).take n) else none⟩ := by
  intro all
  have hwf : (addsHist n t adds).WF 0 := opsHist_wf t _ (Or.inl ⟨rfl, hn⟩)
  have hobs : ∀ k, (runSpec k 0 (addsHist n t adds)).obs
      = ⟨(keys all).take n, if t then some ((vals all).take n) else none⟩ := by
    intro k
    unfold St.obs
    rw [runSpec_adds_num k n t adds hn hpos, keys_take, vals_take]
    unfold addsHist
    rw [runSpec_opsHist_track]
  refine ⟨sorted_union adds List.Pairwise.nil, ?_, ?_, ?_, ?_⟩
  · intro x
    rw [mem_keys_union_iff]
    simp [keys]
  · intro x
    rw [mapGet_union List.Pairwise.nil]; simp [mapGet_nil]
  · rw [(vec_refines 0 _ hwf).1, hobs]
  · rw [(tree_refines 0 _ hwf (addsHist_noSet n t adds)).1, hobs]

/-- **T-scaled_history**: on a scaled sketch (ceiling `mh ≥ 1`) under any sequence of add /
    add-with-abundance / set / remove / remove_many / clear, the fate of each hash `x` is the
    per-hash state machine `pt`: absent at the start; an `add x a` with `a ≥ 1` and `x ≤ mh` makes
    it present and adds `a` to what it accumulated since it was last absent; `remove`, `remove_many`
    containing it, `clear` (and `add x 0` on the vector type) make it absent; everything else leaves
    it alone.  Stated for the abstract sample and for the hashes and tracked abundances both
    sketch types report. -/
theorem scaled_history (mh : Nat) (t : Bool) (ops : List Op) (hmh : 1 ≤ mh) (x : Nat) :
    (x ∈ (runVec mh (opsHist 0 t ops)).mins ↔ (ops.foldl (pt .vec mh x) none).isSome = true)
    ∧ (∀ l, (runVec mh (opsHist 0 t ops)).abunds = some l →
        lookup ((runVec mh (opsHist 0 t ops)).mins.zip l) x = ops.foldl (pt .vec mh x) none)
    ∧ ((∀ o ∈ ops, o.noSet) →
        (x ∈ (runTree mh (opsHist 0 t ops)).mins ↔ (ops.foldl (pt .tree mh x) none).isSome = true)
        ∧ (∀ m, (runTree mh (opsHist 0 t ops)).abunds = some m → lookup m x = ops.foldl (pt .tree mh x) none)) := by
  have hwf : (opsHist 0 t ops).WF mh := opsHist_wf t ops (Or.inr ⟨hmh, rfl⟩)
  have rv := runVec_ref mh _ hwf
  refine ⟨?_, ?_, ?_⟩
  · rw [rv.mins, ← lookup_isSome_iff, lookup_run_scaled .vec mh t ops hmh x]
  · intro l hl
    rw [rv.ab] at hl
    split at hl
    · cases hl
      rw [rv.mins, zip_keys_vals, lookup_run_scaled .vec mh t ops hmh x]
    · cases hl
  · intro hns
    have rt := runTree_ref mh _ hwf (opsHist_noSet 0 t ops hns)
    refine ⟨?_, ?_⟩
    · rw [rt.mins, ← lookup_isSome_iff, lookup_run_scaled .tree mh t ops hmh x]
    · intro m hm
      rw [rt.ab] at hm
      split at hm
      · cases hm
        exact lookup_run_scaled .tree mh t ops hmh x
      · cases hm

/-- the abstract form of T-scaled_history -/
theorem scaled_history_spec (k : Kind) (mh : Nat) (t : Bool) (ops : List Op) (hmh : 1 ≤ mh) (x : Nat) :
    lookup (runSpec k mh (opsHist 0 t ops)).m x = ops.foldl (pt k mh x) none :=
  lookup_run_scaled k mh t ops hmh x

/-! ### every entry point: bulk steps, second-operand steps, observers (`Spec/SampleBulk.lean`)

`HistB` extends the histories by `add_many`, `add_many_with_abund`, `kmerminhash_set_abundances`
(with and without clear), `add_from`, `remove_from` and the observers `md5sum` / `Clone` / `==`.
The abstract meaning of a bulk step is *by definition* the fold of the single steps it stands for
(`St.stepB`, `BOp.expand`); an observer stands for no step at all. -/

/-- **T-bulk_is_fold**: each bulk entry point of the two executable models IS the fold of the model's
    single steps over the list it is given (vector and tree type; `set_abundances` = optional clear,
    then the pairs in ascending order). -/
theorem bulk_is_fold (s : Vec) (s' : Tree) (hs : List Nat) (ps : List (Nat × Nat)) (c : Bool) :
    s.addMany hs = (hs.map (fun h => Op.add h 1)).foldl vecStep s
    ∧ s.addManyAbund ps = (ps.map (fun p => Op.add p.1 p.2)).foldl vecStep s
    ∧ s.removeMany hs = (hs.map Op.remove).foldl vecStep s
    ∧ s.setAbundances ps c = (BOp.setAbund ps c).expand.foldl vecStep s
    ∧ s'.addMany hs = (hs.map (fun h => Op.add h 1)).foldl treeStep s'
    ∧ s'.addManyAbund ps = (ps.map (fun p => Op.add p.1 p.2)).foldl treeStep s'
    ∧ s'.removeMany hs = (hs.map Op.remove).foldl treeStep s' :=
  ⟨vec_addMany_fold s hs, vec_addManyAbund_fold s ps, vec_removeMany_fold s hs, vec_setAbundances_fold s ps c,
   tree_addMany_fold s' hs, tree_addManyAbund_fold s' ps, tree_removeMany_fold s' hs⟩

/-- **T-observers**: `md5sum` (hence `==`, serialising) leaves parameters, hashes and abundances of the
    receiver as they were, and a clone has the parameters, hashes and abundances of the original. -/
theorem observers_change_nothing (s : Vec) (s' : Tree) :
    vecObs s.md5sum.2 = vecObs s ∧ vecObs s.clone.1 = vecObs s ∧ s.md5sum.2.num = s.num ∧ s.clone.1.num = s.num
    ∧ treeObs s'.md5sum.2 = treeObs s' ∧ treeObs s'.clone.1 = treeObs s'
    ∧ s'.md5sum.2.num = s'.num ∧ s'.clone.1.num = s'.num := by
  obtain ⟨h1, _, h3, h4, _⟩ := vec_md5sum_fields s
  obtain ⟨g1, _, g3, g4, _⟩ := tree_md5sum_fields s'
  refine ⟨?_, rfl, h1, rfl, ?_, rfl, g1, rfl⟩
  · simp only [vecObs, h3, h4]
  · simp only [treeObs, Tree.abundVals, g3, g4]

/-- **T-vec_refines_bulk**: T-vec_refines over histories that use ANY entry point. -/
theorem vec_refines_bulk (mh : Nat) (H : HistB) (hwf : H.WF mh) :
    vecObs (runVecB mh H) = (runSpecB .vec mh H).obs ∧ VInv (runVecB mh H) :=
  ⟨(runVecB_ref mh H hwf).obs, (runVecB_ref mh H hwf).inv (runSpecB_inv .vec mh H hwf)⟩

/-- **T-tree_refines_bulk**: the same for the tree type (no `set`, no C API). -/
theorem tree_refines_bulk (mh : Nat) (H : HistB) (hwf : H.WF mh) (hns : H.NoSet) :
    treeObs (runTreeB mh H) = (runSpecB .tree mh H).obs ∧ TInv (runTreeB mh H) :=
  ⟨(runTreeB_ref mh H hwf hns).obs, (runTreeB_ref mh H hwf hns).inv (runSpecB_inv .tree mh H hwf)⟩

/-- the bulk histories contain the single-step histories: the three runs agree on `Hist.toB` -/
theorem bulk_extends (k : Kind) (mh : Nat) (H : Hist) :
    runSpecB k mh H.toB = runSpec k mh H ∧ runVecB mh H.toB = runVec mh H ∧ runTreeB mh H.toB = runTree mh H :=
  ⟨runSpecB_toB k mh H, runVecB_toB mh H, runTreeB_toB mh H⟩

/-- **T-merge_clone**: merging a sketch with its own clone (or with any sketch that refines the same
    sample), whatever history built it and whatever was observed in between, keeps the hashes and
    doubles every abundance; nothing is evicted. -/
theorem merge_clone_doubles (mh : Nat) (H : HistB) (hwf : H.WF mh) :
    vecObs ((runVecB mh H).merge (runVecB mh H).clone.1)
      = ⟨keys (runSpecB .vec mh H).m,
         if (runSpecB .vec mh H).track then some ((vals (runSpecB .vec mh H).m).map (fun v => v + v)) else none⟩ := by
  have r := runVecB_ref mh H hwf
  have i := runSpecB_inv .vec mh H hwf
  rw [(r.merge r.cloned i).obs]
  obtain ⟨hm, ht⟩ := St.merge_self i
  simp only [St.obs, hm, ht, keys, vals, List.map_map]
  rfl

/-- non-vacuity: a bulk history through `add_many_with_abund` with a zero-abundance pair, an observer,
    `set_abundances` and a merge with the sketch itself (its clone) satisfies the hypotheses; the
    zero-abundance pair of the batch removes on the vector type -/
example : (HistB.op (.new 0 true) (.addManyAbund [(3, 0), (5, 2), (9, 1)])).WF 10
    ∧ vecObs (runVecB 10 (.op (.new 0 true) (.addManyAbund [(3, 0), (5, 2), (9, 1)]))) = ⟨[5, 9], some [2, 1]⟩
    ∧ vecObs (runVecB 10 (.merge (.op (.op (.new 0 true) (.addManyAbund [(5, 2), (9, 1)])) .observe)
                                 (.op (.op (.new 0 true) (.addManyAbund [(5, 2), (9, 1)])) .observe)))
        = ⟨[5, 9], some [4, 2]⟩ :=
  ⟨by simp [HistB.WF, WFp], by decide,
   by rw [(vec_refines_bulk 10 _ (by simp [HistB.WF, WFp])).1]; decide⟩

/-! ### non-vacuity: concrete histories hitting eviction, the ceiling, 0 and 2^64−1 -/

/-- num = 2: 2^64−1, 0, 5 inserted; eviction keeps {0,5}; the hypotheses of the theorems hold -/
example : (Hist.op (.op (.op (.new 2 true) (.add (2 ^ 64 - 1) 3)) (.add 0 1)) (.add 5 2)).WF 0
    ∧ (Hist.op (.op (.op (.new 2 true) (.add (2 ^ 64 - 1) 3)) (.add 0 1)) (.add 5 2)).PosAb
    ∧ vecObs (runVec 0 (.op (.op (.op (.new 2 true) (.add (2 ^ 64 - 1) 3)) (.add 0 1)) (.add 5 2)))
        = ⟨[0, 5], some [1, 2]⟩
    ∧ treeObs (runTree 0 (.op (.op (.op (.new 2 true) (.add (2 ^ 64 - 1) 3)) (.add 0 1)) (.add 5 2)))
        = ⟨[0, 5], some [1, 2]⟩ :=
  ⟨by simp [Hist.WF, WFp], by simp [Hist.PosAb, Op.posAb], by decide, by decide⟩

/-- scaled with ceiling 10: 10 is kept, 11 is not; `add 10 0` removes on the vector type only -/
example : (Hist.op (.op (.op (.new 0 true) (.add 10 1)) (.add 11 1)) (.add 10 0)).WF 10
    ∧ (Hist.op (.op (.op (.new 0 true) (.add 10 1)) (.add 11 1)) (.add 10 0)).NoSet
    ∧ vecObs (runVec 10 (.op (.op (.op (.new 0 true) (.add 10 1)) (.add 11 1)) (.add 10 0))) = ⟨[], some []⟩
    ∧ treeObs (runTree 10 (.op (.op (.op (.new 0 true) (.add 10 1)) (.add 11 1)) (.add 10 0))) = ⟨[10], some [1]⟩ :=
  ⟨by simp [Hist.WF, WFp], by simp [Hist.NoSet, Op.noSet], by decide, by decide⟩

/-- a history with a merge of a tracked and an untracked operand satisfies the hypotheses of
    `vec_tree_equiv` (the differential run replays it: both types answer `mins=4,7 abunds=none`) -/
example : vecObs (runVec 0 (.merge (.op (.new 3 true) (.add 7 2)) (.op (.new 3 false) (.add 4 1))))
    = treeObs (runTree 0 (.merge (.op (.new 3 true) (.add 7 2)) (.op (.new 3 false) (.add 4 1)))) :=
  vec_tree_equiv 0 _ (by simp [Hist.WF, WFp]) (by simp [Hist.PosAb, Op.posAb])

/-- T-num_bottom's hypotheses are satisfiable, and its reading on a concrete stream: of
    9, 2, 9, 5 with num = 2 the sample is {2, 5}; 9 accumulated 1+4 but is not among the 2 smallest -/
example : keys (union [] [(9, 1), (2, 1), (9, 4), (5, 3)]) = [2, 5, 9]
    ∧ vals (union [] [(9, 1), (2, 1), (9, 4), (5, 3)]) = [1, 3, 5]
    ∧ (∀ p ∈ [(9, 1), (2, 1), (9, 4), (5, 3)], 1 ≤ p.2) := by decide

/-- T-scaled_history's per-hash machine on a concrete sequence: add, add, remove, add → 7 -/
example : [Op.add 4 2, .add 4 3, .remove 4, .add 4 7].foldl (pt .vec 10 4) none = some 7
    ∧ [Op.add 11 2].foldl (pt .vec 10 11) none = none
    ∧ [Op.add 4 2, .add 4 0].foldl (pt .vec 10 4) none = none
    ∧ [Op.add 4 2, .add 4 0].foldl (pt .tree 10 4) none = some 2 := by decide

end Sourmash.C01
