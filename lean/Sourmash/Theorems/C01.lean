import Sourmash.Lemmas.SampleList
/-! Property C01 — a sketch always holds exactly the sample its parameters define.
Property theorems only; helper lemmas live in `Sourmash/Lemmas/Sample*.lean`. -/
namespace Sourmash.C01
open Sample

/-- "evict the largest while more than `num` are held" leaves exactly the `num` smallest entries -/
theorem evict_is_bottom (n : Nat) (m : FMap) : evict n m = m.take n := evict_eq_take n m

end Sourmash.C01
