import Sourmash.Lemmas.Bloom
import Sourmash.Lemmas.BloomRatios
import Sourmash.Lemmas.BloomKmer
import Sourmash.Lemmas.NodegraphReach
/-! Property C15 — the nodegraph is an exact multi-table Bloom filter without false negatives.

Model: `NG.G` (`Model/Nodegraph.lean`, tables as 32-bit block lists like `FixedBitSet`).
Specification: the reference filter of `Spec/Bloom.lean` — its size vector and the list `H` of
inserted hashes; bit `b` of the table of size `s` is `Bloom.refBit H s b = ∃ h ∈ H, h % s = b`.

Histories are `NG.Reach sizes g H u` (`Lemmas/Bloom.lean`): `g` was built from
`Nodegraph::new(sizes, _)` by any sequence of `count` (also through `count_kmer` and through a sketch
`update`, which are `count`s of the hashes they compute) and `update` from filters that were built
the same way over the same size vector; `get` does not change the state.  `H` = every hash put in on
the way, `u` = number of `count`s on this filter that returned `true`.

Preconditions, explicit in every statement: all sizes ≥ 1 (`hs`; size 0 is a division by zero in the
code) and equal size vectors for `update` (built into `Reach`). -/
namespace Sourmash.C15
open NG Bloom

variable {sizes : List Nat} {g : G} {H : List Nat} {u : Nat}

/-- T-ref: after any history every table has its size and its bit set equals the reference set
    `{ h % size : h inserted }` — for every bit index, not only those below the size. -/
theorem ref_bits (hs : ∀ s ∈ sizes, 1 ≤ s) (r : Reach sizes g H u) :
    g.tables.map Table.size = sizes ∧ ∀ t ∈ g.tables, ∀ b, t.get b = refBit H t.size b :=
  ⟨(r.inv hs).sizes_eq, (r.inv hs).bits⟩

example : Reach [7, 11] ((G.new [7, 11] 5).count 3).1 [3] 1 := by
  have := Reach.count (sizes := [7, 11]) 3 (Reach.new 5)
  have h : ((G.new [7, 11] 5).count 3).2 = true := by decide
  simpa [h] using this

/-- T-ref, observed through `get`: membership answers are those of the reference filter -/
theorem ref_get (hs : ∀ s ∈ sizes, 1 ≤ s) (r : Reach sizes g H u) (h : Nat) :
    g.get h = Ref.get { sizes := sizes, hashes := H } h := by
  have inv := r.inv hs
  unfold G.get Ref.get
  have : g.tables.all (fun t => t.get (h % t.size)) = sizes.all (fun s => refBit H s (h % s)) := by
    rw [← inv.sizes_eq]
    exact all_map_of_mem _ _ _ _ (fun t ht => inv.bits t ht _)
  rw [this]

example : ((G.new [7, 11] 5).count 3).1.get 14 = Ref.get { sizes := [7, 11], hashes := [3] } 14 :=
  ref_get (by decide) (Reach.count 3 (Reach.new 5)) 14

/-- T-no_false_neg: every hash that was inserted — into this filter or into any filter that was
    unioned in — is reported present.  `H` only grows along a history (`Reach.count` conses,
    `Reach.update` appends), so this holds forever after the insertion. -/
theorem no_false_neg (hs : ∀ s ∈ sizes, 1 ≤ s) (r : Reach sizes g H u) (h : Nat) (hm : h ∈ H) :
    g.get h = 1 := by
  have inv := r.inv hs
  unfold G.get
  have : g.tables.all (fun t => t.get (h % t.size)) = true := by
    rw [List.all_eq_true]
    intro t ht
    rw [inv.bits t ht]
    exact refBit_mem H t.size h hm
  simp [this]

/-- … in particular right after its own insertion, … -/
theorem no_false_neg_count (hs : ∀ s ∈ sizes, 1 ≤ s) (r : Reach sizes g H u) (h : Nat) :
    (g.count h).1.get h = 1 :=
  no_false_neg hs (Reach.count h r) h (by simp)

/-- … after any later insertion, … -/
theorem no_false_neg_later (hs : ∀ s ∈ sizes, 1 ≤ s) (r : Reach sizes g H u) (h h' : Nat) (hm : h ∈ H) :
    (g.count h').1.get h = 1 :=
  no_false_neg hs (Reach.count h' r) h (by simp [hm])

/-- … after a sketch was added (`Update<Nodegraph> for KmerMinHash / KmerMinHashBTree`), for old and new hashes, … -/
theorem no_false_neg_sketch (hs : ∀ s ∈ sizes, 1 ≤ s) (r : Reach sizes g H u) (mins : List Nat) (h : Nat)
    (hm : h ∈ H ∨ h ∈ mins) : (g.updateHashes mins).get h = 1 := by
  obtain ⟨u', _, r'⟩ := r.updateHashes mins
  apply no_false_neg hs r' h
  cases hm with
  | inl a => simp [a]
  | inr a => simp [a]

/-- … and after a union, for the hashes of both filters. -/
theorem no_false_neg_union (hs : ∀ s ∈ sizes, 1 ≤ s) {o : G} {Ho : List Nat} {uo : Nat}
    (r : Reach sizes g H u) (ro : Reach sizes o Ho uo) (h : Nat) (hm : h ∈ H ∨ h ∈ Ho) :
    (g.updateFrom o).get h = 1 :=
  no_false_neg hs (Reach.update r ro) h (by simpa using hm)

/-- T-no_false_neg, "forever": whatever `count`s and unions follow (`NG.Later`), a hash that was in
    the filter stays reported present. -/
theorem no_false_neg_forever (hs : ∀ s ∈ sizes, 1 ≤ s) (r : Reach sizes g H u)
    {g' : G} {H' : List Nat} {u' : Nat} (l : Later sizes g H u g' H' u') (h : Nat) (hm : h ∈ H) :
    g'.get h = 1 :=
  no_false_neg hs (l.reach r).1 h ((l.reach r).2 h hm)

example : ((G.new [7, 11] 5).count 3).1.get 3 = 1 :=
  no_false_neg_count (sizes := [7, 11]) (by decide) (Reach.new 5) 3

/-- T-new: `count` returns `true` iff the bit `h % size` was clear in at least one table before the
    call (afterwards it is set in all of them: `no_false_neg_count`), i.e. iff it set ≥ 1 new bit;
    and that is what the reference filter says. -/
theorem count_new (hs : ∀ s ∈ sizes, 1 ≤ s) (r : Reach sizes g H u) (h : Nat) :
    ((g.count h).2 = true ↔ ∃ t ∈ g.tables, t.get (h % t.size) = false) ∧
    (g.count h).2 = Ref.isNew { sizes := sizes, hashes := H } h := by
  have inv := r.inv hs
  constructor
  · rw [count_ret, List.any_eq_true]
    constructor
    · rintro ⟨t, ht, hb⟩
      exact ⟨t, ht, by simpa using hb⟩
    · rintro ⟨t, ht, hb⟩
      exact ⟨t, ht, by simp [hb]⟩
  · rw [count_ret]
    unfold Ref.isNew
    rw [← inv.sizes_eq]
    exact any_map_of_mem _ _ _ (fun s => !refBit H s (h % s)) (fun t ht => by rw [inv.bits t ht])

example : (((G.new [7, 11] 5).count 3).1.count 10).2 = Ref.isNew { sizes := [7, 11], hashes := [3] } 10 :=
  (count_new (by decide) (Reach.count 3 (Reach.new 5)) 10).2

/-- a `count` changes no bit other than `h % size` in each table -/
theorem count_only_sets (hs : ∀ s ∈ sizes, 1 ≤ s) (r : Reach sizes g H u) (h : Nat) :
    ∀ t ∈ g.tables, ∀ b, (t.put (h % t.size)).1.get b = (t.get b || b == h % t.size) := by
  intro t ht b
  have inv := r.inv hs
  have hlt : h % t.size < t.size := Nat.mod_lt _ (inv.size_pos hs t ht)
  exact Table.put_get t _ b (by rw [inv.len t ht]; unfold nblocks; omega)

/-- T-counters: `occupied_bins` is the number of set bits of the first table (= the size of the
    reference set of table 0; 0 without tables) and `unique_kmers` is the number of `count` calls
    that returned `true`. -/
theorem counters (hs : ∀ s ∈ sizes, 1 ≤ s) (r : Reach sizes g H u) :
    g.occupied = (g.tables.head?.map Table.countOnes).getD 0 ∧
    g.occupied = Ref.occupied { sizes := sizes, hashes := H } ∧
    g.unique = u := by
  have inv := r.inv hs
  refine ⟨inv.occ, ?_, r.unique_eq⟩
  rw [inv.occ]
  unfold Ref.occupied
  cases hg : g.tables with
  | nil =>
    have : sizes = [] := by rw [← inv.sizes_eq, hg]; rfl
    simp [this]
  | cons t ts =>
    have hsz : sizes = t.size :: ts.map Table.size := by rw [← inv.sizes_eq, hg]; rfl
    have ht : t ∈ g.tables := by rw [hg]; simp
    simp [hsz, countOnes_eq_refCount t (inv.bits t ht)]

example : ((G.new [7, 11] 5).count 3).1.occupied = 1 ∧ ((G.new [7, 11] 5).count 3).1.unique = 1 := by decide
example := counters (sizes := [7, 11]) (by decide) (Reach.count 3 (Reach.new 5))

/-- T-ratios: `similarity` and `containment` (before the final `as f64 /`) are the bit-set ratios of the
    reference filters: (Σᵢ |Aᵢ ∩ Bᵢ|, Σᵢ |Aᵢ ∪ Bᵢ|) and (Σᵢ |Aᵢ ∩ Bᵢ|, Σᵢ |Aᵢ|) over the tables. -/
theorem ratios (hs : ∀ s ∈ sizes, 1 ≤ s) {o : G} {Ho : List Nat} {uo : Nat}
    (r : Reach sizes g H u) (ro : Reach sizes o Ho uo) :
    g.similarity o = Ref.similarity { sizes := sizes, hashes := H } { sizes := sizes, hashes := Ho } ∧
    g.containment o = Ref.containment { sizes := sizes, hashes := H } { sizes := sizes, hashes := Ho } :=
  ratios_of_inv (r.inv hs) (ro.inv hs)

example := ratios (sizes := [31]) (by decide) (Reach.count 2 (Reach.new 3)) (Reach.count 4 (Reach.count 2 (Reach.new 3)))

/-- the crate's `containment` test: evens 0..18 in one filter of 31 bins, 0..19 in the other -/
example :
    let a := (G.new [31] 3).updateHashes [0, 2, 4, 6, 8, 10, 12, 14, 16, 18]
    let b := (G.new [31] 3).updateHashes (List.range 20)
    a.containment b = (10, 10) ∧ a.similarity b = (10, 20) := by decide

/-! ### T-kmer_rc -/

/-- T-kmer_rc (strand symmetry): for every ACGT k-mer, of any length, `_hash` gives a k-mer and
    its reverse complement the same value, so `count_kmer` / `get_kmer` treat them as one element. -/
theorem kmer_rc (kmer : List Nat) (h : ∀ c ∈ kmer, isACGT c = true) :
    hashKmer (revcomp kmer) = hashKmer kmer := by
  unfold hashKmer
  rw [hashKmerCore_revcomp kmer h]
  have : (revcomp kmer).isEmpty = kmer.isEmpty := by
    cases kmer <;> simp [revcomp]
  rw [this]

/-- … and for 1 ≤ k ≤ 32 that value is the smaller of the two 2-bit encodings (A=0, T=1, C=2, G=3,
    first base most significant) of the k-mer and of its reverse complement. -/
theorem kmer_canonical (kmer : List Nat) (h : ∀ c ∈ kmer, isACGT c = true)
    (h1 : 1 ≤ kmer.length) (h32 : kmer.length ≤ 32) : hashKmer kmer = some (canonical kmer) := by
  unfold hashKmer
  have : kmer.isEmpty = false := by cases kmer <;> simp at h1 ⊢
  rw [this, hashKmerCore_canonical kmer h h32]
  rfl

example : hashKmer [84] = some (canonical [84]) ∧ canonical [84] = 0 := by decide

/-- the code before the repair (`(ksize - 2) as isize`, overflow-checked build) panicked on every
    1-mer — replayed on the implementation by `corpus/C15/kmer_k1.ops` … -/
theorem kmer_pre_repair_cex (c : Nat) : hashOld [c] = none := rfl

/-- … and computed what the repaired code computes for every longer k-mer. -/
theorem kmer_pre_repair_agrees (kmer : List Nat) (h2 : 2 ≤ kmer.length) : hashOld kmer = hashKmer kmer := by
  unfold hashOld hashKmer
  have : kmer.isEmpty = false := by cases kmer <;> simp at h2 ⊢
  rw [if_neg (by omega), this]
  rfl

example : hashOld [65, 67] = hashKmer [65, 67] := kmer_pre_repair_agrees _ (by decide)

example : hashKmer [65, 67, 71] = some (canonical [65, 67, 71]) ∧ canonical [65, 67, 71] = 11 := by decide

/-- `count_kmer` of a k-mer and of its reverse complement are the same operation -/
theorem countKmer_rc (g : G) (kmer : List Nat) (h : ∀ c ∈ kmer, isACGT c = true) :
    g.countKmer (revcomp kmer) = g.countKmer kmer ∧ g.getKmer (revcomp kmer) = g.getKmer kmer := by
  unfold G.countKmer G.getKmer
  rw [kmer_rc kmer h]
  exact ⟨rfl, rfl⟩

end Sourmash.C15
