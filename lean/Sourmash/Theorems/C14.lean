import Sourmash.Model.Scaled
import Sourmash.Lemmas.ScaledBounds
/-! Property C14 — the scaled value a sketch reports is the one it was created with.
Property theorems only; helper lemmas live in `Sourmash/Lemmas/`
(`Binary64` rounding step, `RnDiv` binade selection, `ScaledVal` value-level error/monotonicity,
`ScaledBounds` the two conversions). All statements are about the exact integer model of the
binary64 arithmetic in `Model/Scaled.lean`, which `./check C14` compares with the Rust code. -/
namespace Sourmash.C14
open Scaled

/-- scaled 0 denotes a num sketch and maps to ceiling 0 … -/
theorem maxHash_zero : maxHashForScaled 0 = 0 := rfl
/-- … and back. -/
theorem scaled_zero : scaledForMaxHash 0 = 0 := rfl
/-- the ceiling is 2^64-1 for s = 1 -/
theorem maxHash_one : maxHashForScaled 1 = 2^64 - 1 := by decide

/-- The code as it was before the repair (truncating cast) does NOT round-trip: s = 93 reports 92.
    Replayed on the implementation by the correspondence run (`rt 93`). -/
theorem roundtrip_trunc_cex :
    scaledForMaxHashTrunc (maxHashForScaled 93) = 92 := by decide
/-- the repaired code does at that point (the unbounded statement is `roundtrip`, below) -/
theorem roundtrip_93 : scaledForMaxHash (maxHashForScaled 93) = 93 := by decide

/-- T-roundtrip (the flagship clause): a sketch created at `s ≤ 2^31` reports `scaled = s`.
    Two correctly rounded divisions and one truncation keep `2^64 / max_hash` inside
    `(s − ½, s + ½)`; the final round-half-away cast returns `s`. -/
theorem roundtrip : ∀ s, 1 ≤ s → s ≤ 2^31 → scaledForMaxHash (maxHashForScaled s) = s := by
  intro s h1 h2
  rcases Nat.lt_or_ge s 2 with h | h
  · have : s = 1 := by omega
    subst this; decide
  · exact roundtrip_ge2 s h h2
example : scaledForMaxHash (maxHashForScaled 1000) = 1000 := roundtrip 1000 (by decide) (by decide)
example : scaledForMaxHash (maxHashForScaled (2^31)) = 2^31 := roundtrip _ (by decide) (by decide)

/-- T-antitone: a larger scaled never gives a larger ceiling, on the whole 64-bit range
    (`u64 → f64` and the correctly rounded division are monotone, the truncating cast too). -/
theorem maxHash_antitone :
    ∀ s t, 1 ≤ s → s ≤ t → t < 2^64 → maxHashForScaled t ≤ maxHashForScaled s := by
  intro s t h1 hst _
  rcases Nat.lt_or_ge s 2 with h | h
  · have : s = 1 := by omega
    subst this
    rw [maxHash_one]; exact maxHash_le t
  · exact maxHash_antitone_ge2 s t h hst
example : maxHashForScaled 2000 ≤ maxHashForScaled 1000 :=
  maxHash_antitone 1000 2000 (by decide) (by decide) (by decide)
example : maxHashForScaled (2^64 - 1) ≤ maxHashForScaled (2^53 + 1) :=
  maxHash_antitone _ _ (by decide) (by decide) (by decide)

/-- T-ceiling_close: `|max_hash − 2^64/s| < 1 + (2^64/s)·2^−52` for `2 ≤ s < 2^64`, cross-multiplied
    by `s·2^52`; the absolute value is written with both truncated subtractions
    (exactly one of them is non-zero). -/
theorem ceiling_close : ∀ s, 2 ≤ s → s < 2^64 →
    (maxHashForScaled s * s - 2^64) * 2^52 < s * 2^52 + 2^64 ∧
    (2^64 - maxHashForScaled s * s) * 2^52 < s * 2^52 + 2^64 := by
  intro s hs _
  have ⟨k1, k2⟩ := maxHash_bounds s hs
  have e : (maxHashForScaled s + 1) * s = maxHashForScaled s * s + s := by
    rw [Nat.add_mul, Nat.one_mul]
  rw [e] at k2
  generalize maxHashForScaled s * s = K at *
  omega
example : (maxHashForScaled 1000 * 1000 - 2^64) * 2^52 < 1000 * 2^52 + 2^64 ∧
    (2^64 - maxHashForScaled 1000 * 1000) * 2^52 < 1000 * 2^52 + 2^64 :=
  ceiling_close 1000 (by decide) (by decide)

end Sourmash.C14
