import Sourmash.Model.Scaled
/-! Property C14 — the scaled value a sketch reports is the one it was created with.
Property theorems only; helper lemmas live in `Sourmash/Lemmas/`. -/
namespace Sourmash.C14
open Scaled

/-- scaled 0 denotes a num sketch and maps to ceiling 0 … -/
theorem maxHash_zero : maxHashForScaled 0 = 0 := rfl
/-- … and back. -/
theorem scaled_zero : scaledForMaxHash 0 = 0 := rfl
/-- the ceiling is 2^64-1 for s = 1 -/
theorem maxHash_one : maxHashForScaled 1 = 2^64 - 1 := by decide

/-- The code as it was before the repair (truncating cast) does NOT round-trip: s = 93 reports 92.
    Replayed on the implementation by the correspondence run (`rt 93`). -/
theorem roundtrip_trunc_cex :
    scaledForMaxHashTrunc (maxHashForScaled 93) = 92 := by decide
/-- the repaired code does at that point (the unbounded statement is `roundtrip`, below) -/
theorem roundtrip_93 : scaledForMaxHash (maxHashForScaled 93) = 93 := by decide

end Sourmash.C14
