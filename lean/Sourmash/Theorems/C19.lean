import Sourmash.Model.Ani
import Sourmash.Lemmas.AniReal
import Sourmash.Lemmas.AniCi
/-!
Property C19 — ANI estimates from containment are monotone, bounded and inside their CI.  **Partial.**

What is proved here
* `point_*_branch`, `ci_*_branch` (T-point_branches, T-ci_degenerate): the branch structure of
  `ani_from_containment` / `ani_ci_from_containment`, for *every* number type (so also for binary64):
  when the `== 0.0` / `== 1.0` test fires the literal `0.0` / `1.0` (resp. `(0,0)` / `(1,1)`) is returned;
  `bias_factor_saturates`: for more than `i32::MAX` unique k-mers the `powi` exponent is `i32::MAX`.
* `point_real_*` (T-point_real), over the ideal reals: the model expression `1 − (1 − c^(1/k))` equals
  `c^(1/k)`; it is 0 at 0, 1 at 1, strictly increasing and within [0,1] on [0,1], for every real k ≥ 1.
* `ci_range` (T-ci_range), **assuming the Brent contract** (`BrentContract`: a returned root lies in the
  bracket; failure is replaced by the default 0): both ends of the interval lie in [0,1].
* `ci_sign_at_point`, `ci_roots_exist`, `ci_order_real` (T-ci_order_real), ideal reals: at the point
  estimate's distance `p* = 1 − c^(1/k)`, `f₂(p*) ≤ 0 ≤ f₁(p*)`; when no `var_n_mutated` error is
  swallowed on the bracket (then `f₁`, `f₂` are continuous — proved) and the bracket ends have the signs
  `f₁(hi) ≤ 0 ≤ f₂(lo)`, roots `r₁ ∈ [p*, hi]`, `r₂ ∈ [lo, p*]` exist and `1 − r₁ ≤ point ≤ 1 − r₂`.
  (Over ℝ `Real.sqrt` of a negative number is 0, so the design's extra hypothesis `var_direct(p*) ≥ 0`
  is not needed; in binary64 a negative variance gives NaN — runtime.)
* `gather_ani_fields`, `gather_ani_real` (T-gather_ani): the ANI fields of `calculate_gather_stats`
  are these functions of the containments it reports; average = mean, max = max, all within [0,1].

* `gather_point_ignores_remaining`, `gather_point_from_original`: the point estimates (and the two
  containments they belong to) come from the intersection with the ORIGINAL query, whatever the
  remaining query is; `ci_history_independent`, `ci_history_pointwise`: the model of a thread answering
  interval requests carries no state.

NOT decided by proof (runtime only, searched by `./check C19` over the grid of the property's quantifier):
* `low ≤ point ≤ high` for the **computed** interval — it depends on which root `roots::find_root_brent`
  returns in binary64 and on `statrs`' probit;
* agreement with the published reference values of the mutation-rate CI calculator
  (pinned as corpus ops `ref …` / `pin …`);
* everything about rounding: the theorems over `ℝ` speak about the ideal arithmetic, the `Float`
  transcription of the same model text is compared bit-for-bit with the Rust code by the driver.
-/
namespace Sourmash.C19
open Sourmash.Ani

section branches
variable {α : Type} [RealLike α]

/-- T-point_branches: if `containment == 0.0` holds the result is the literal `0.0` (this covers `-0.0`). -/
theorem point_zero_branch (c k : α) (h : RealLike.beq c (lit 0) = true) :
    aniFromContainment c k = lit 0 := by
  simp [aniFromContainment, h]

/-- T-point_branches: otherwise, if `containment == 1.0` holds the result is the literal `1.0`. -/
theorem point_one_branch (c k : α) (h0 : RealLike.beq c (lit 0) = false)
    (h1 : RealLike.beq c (lit 1) = true) : aniFromContainment c k = lit 1 := by
  simp [aniFromContainment, h0, h1]

/-- T-point_branches: in every other case the result is `1 − (1 − c.powf(1/k))`. -/
theorem point_general_branch (c k : α) (h0 : RealLike.beq c (lit 0) = false)
    (h1 : RealLike.beq c (lit 1) = false) :
    aniFromContainment c k = lit 1 - (lit 1 - RealLike.powf c (lit 1 / k)) := by
  simp [aniFromContainment, h0, h1]

/-- T-ci_degenerate: `containment == 0.0` gives `(0.0, 0.0)` whatever the other arguments are
(the root finder and probit are not consulted). -/
theorem ci_zero_branch (brent : α → α → (α → α) → Option α) (probit : α → α) (c : α)
    (k scaled n : Nat) (conf : Option α) (h : RealLike.beq c (lit 0) = true) :
    aniCiFromContainment brent probit c k scaled n conf = (lit 0, lit 0) := by
  simp [aniCiFromContainment, h]

/-- T-ci_degenerate: `containment == 1.0` gives `(1.0, 1.0)`. -/
theorem ci_one_branch (brent : α → α → (α → α) → Option α) (probit : α → α) (c : α)
    (k scaled n : Nat) (conf : Option α) (h0 : RealLike.beq c (lit 0) = false)
    (h1 : RealLike.beq c (lit 1) = true) :
    aniCiFromContainment brent probit c k scaled n conf = (lit 1, lit 1) := by
  simp [aniCiFromContainment, h0, h1]

/-- T-ci_degenerate, combined with T-point_branches: at both endpoints the interval is the point. -/
theorem ci_degenerates_to_point (brent : α → α → (α → α) → Option α) (probit : α → α) (c kf : α)
    (k scaled n : Nat) (conf : Option α)
    (h : RealLike.beq c (lit 0) = true ∨ RealLike.beq c (lit 1) = true) :
    aniCiFromContainment brent probit c k scaled n conf
      = (aniFromContainment c kf, aniFromContainment c kf) := by
  cases hb : RealLike.beq c (lit 0) with
  | true => rw [ci_zero_branch _ _ _ _ _ _ _ hb, point_zero_branch _ _ hb]
  | false =>
    have h1 : RealLike.beq c (lit 1) = true := by
      rcases h with h | h
      · rw [hb] at h; cases h
      · exact h
    rw [ci_one_branch _ _ _ _ _ _ _ hb h1, point_one_branch _ _ hb h1]

end branches

/-- non-vacuity: over ℝ the hypotheses of the branch theorems hold at 0 and 1 … -/
example : RealLike.beq (0 : ℝ) (lit 0) = true := by simp
example : RealLike.beq (1 : ℝ) (lit 0) = false ∧ RealLike.beq (1 : ℝ) (lit 1) = true := by simp
/-- … and the general branch is reached, e.g. at 1/2 -/
example : RealLike.beq (1 / 2 : ℝ) (lit 0) = false ∧ RealLike.beq (1 / 2 : ℝ) (lit 1) = false := by
  constructor <;> simp

/-- T-point_branches over ℝ: exactly 0 at c = 0 and exactly 1 at c = 1, for every k. -/
theorem point_at_endpoints (k : ℝ) :
    aniFromContainment (0 : ℝ) k = 0 ∧ aniFromContainment (1 : ℝ) k = 1 := by
  constructor
  · rw [point_zero_branch _ _ (by simp)]; simp
  · rw [point_one_branch _ _ (by simp) (by simp)]; simp

/-- T-ci_degenerate over ℝ: `(0,0)` at c = 0 and `(1,1)` at c = 1. -/
theorem ci_at_endpoints (brent : ℝ → ℝ → (ℝ → ℝ) → Option ℝ) (probit : ℝ → ℝ)
    (k scaled n : Nat) (conf : Option ℝ) :
    aniCiFromContainment brent probit 0 k scaled n conf = (0, 0)
      ∧ aniCiFromContainment brent probit 1 k scaled n conf = (1, 1) := by
  constructor
  · rw [ci_zero_branch _ _ _ _ _ _ _ (by simp)]; simp
  · rw [ci_one_branch _ _ _ _ _ _ _ (by simp) (by simp)]; simp

/-! ### saturation of the integer power (any number type) -/

/-- for every `n_unique_kmers > i32::MAX` the `as i32` cast saturates, so the bias factor no longer
depends on `n` (the code raises `1 − 1/scaled` to the power `2³¹ − 1`, not `n`). -/
theorem bias_factor_saturates {α : Type} [RealLike α] (scaled n m : Nat)
    (hn : i32Max < n) (hm : i32Max < m) : (biasFactor scaled n : α) = biasFactor scaled m := by
  simp [biasFactor, satI32_of_gt hn, satI32_of_gt hm]

example : i32Max < 2 ^ 31 ∧ i32Max < 2 ^ 40 := by decide

/-- over ℝ the saturated bias factor differs from the intended `1 − (1 − 1/scaled)^n` by at most
`(1 − 1/scaled)^(2³¹−1)` (about `e^(−2³¹/scaled)`: negligible for scaled ≤ 10⁴). -/
theorem bias_saturation_error (scaled n : Nat) (hs : 1 ≤ scaled) (hn : i32Max < n) :
    |(biasFactor scaled n : ℝ) - (1 - (1 - 1 / (scaled : ℝ)) ^ n)| ≤ (1 - 1 / (scaled : ℝ)) ^ i32Max := by
  have hs' : (1 : ℝ) ≤ (scaled : ℝ) := by exact_mod_cast hs
  have hx0 : 0 ≤ 1 - 1 / (scaled : ℝ) := by
    rw [sub_nonneg, div_le_one (by linarith)]; exact hs'
  have hx1 : 1 - 1 / (scaled : ℝ) ≤ 1 := by
    have : 0 ≤ 1 / (scaled : ℝ) := by positivity
    linarith
  have hpow : (1 - 1 / (scaled : ℝ)) ^ n ≤ (1 - 1 / (scaled : ℝ)) ^ i32Max :=
    pow_le_pow_of_le_one hx0 hx1 hn.le
  have hpos : 0 ≤ (1 - 1 / (scaled : ℝ)) ^ n := pow_nonneg hx0 n
  simp only [biasFactor, satI32_of_gt hn, fScaled, powi_real, lit_real, Nat.cast_one]
  rw [abs_le]
  constructor <;> linarith

example : (1 : Nat) ≤ 1000 ∧ i32Max < 2 ^ 32 := by decide

/-! ### T-point_real -/

/-- T-point_real: the model expression `1 − (1 − c^(1/k))` (with its two endpoint branches) is
`c^(1/k)` over ℝ, for every c and every k ≥ 1. -/
theorem point_real_eq (c k : ℝ) (hk : 1 ≤ k) : aniFromContainment c k = c ^ (1 / k) := by
  have hk0 : (1 / k) ≠ 0 := by positivity
  unfold aniFromContainment
  simp only [beq_real, lit_real, Nat.cast_zero, Nat.cast_one, powf_real, decide_eq_true_eq]
  split_ifs with h0 h1
  · subst h0; rw [Real.zero_rpow hk0]
  · subst h1; rw [Real.one_rpow]
  · ring

/-- T-point_real: `c ↦ c^(1/k)` is 0 at 0 and 1 at 1. -/
theorem point_real_endpoints (k : ℝ) (hk : 1 ≤ k) : (0 : ℝ) ^ (1 / k) = 0 ∧ (1 : ℝ) ^ (1 / k) = 1 :=
  ⟨Real.zero_rpow (by positivity), Real.one_rpow _⟩

/-- T-point_real: strictly increasing in the containment on [0,1] (indeed on [0,∞)). -/
theorem point_real_strictMono (k : ℝ) (hk : 1 ≤ k) :
    StrictMonoOn (fun c : ℝ => aniFromContainment c k) (Set.Icc 0 1) := by
  intro a ha b _ hab
  simp only [point_real_eq _ _ hk]
  exact Real.rpow_lt_rpow ha.1 hab (by positivity)

/-- T-point_real: within [0,1] on [0,1]. -/
theorem point_real_range (c k : ℝ) (hk : 1 ≤ k) (hc : c ∈ Set.Icc (0:ℝ) 1) :
    aniFromContainment c k ∈ Set.Icc (0:ℝ) 1 := by
  rw [point_real_eq _ _ hk]
  exact ⟨Real.rpow_nonneg hc.1 _, Real.rpow_le_one hc.1 hc.2 (by positivity)⟩

/-- non-vacuity (k = 21, c = 1/2) -/
example : (1 : ℝ) ≤ 21 ∧ (1 / 2 : ℝ) ∈ Set.Icc (0:ℝ) 1 := by
  constructor
  · norm_num
  · constructor <;> norm_num

/-! ### T-ci_range -/

/-- T-ci_range: **assuming the Brent contract**, both ends of the interval lie in [0,1] — for every
containment, k, scaled, n, confidence and every probit. -/
theorem ci_range (brent : ℝ → ℝ → (ℝ → ℝ) → Option ℝ) (hb : BrentContract brent) (probit : ℝ → ℝ)
    (c : ℝ) (k scaled n : Nat) (conf : Option ℝ) :
    (aniCiFromContainment brent probit c k scaled n conf).1 ∈ Set.Icc (0:ℝ) 1 ∧
    (aniCiFromContainment brent probit c k scaled n conf).2 ∈ Set.Icc (0:ℝ) 1 := by
  unfold aniCiFromContainment
  simp only [beq_real, lit_real, Nat.cast_zero, Nat.cast_one, decide_eq_true_eq]
  split_ifs with h0 h1
  · simp
  · simp
  · have h1 := sol_range brent hb (ciF1 (probit (probitArg conf)) c k scaled n)
    have h2 := sol_range brent hb (ciF2 (probit (probitArg conf)) c k scaled n)
    simp only [lit_real, Nat.cast_zero] at h1 h2
    simp only [Set.mem_Icc]
    refine ⟨⟨?_, ?_⟩, ⟨?_, ?_⟩⟩ <;> linarith [h1.1, h1.2, h2.1, h2.2]

/-- non-vacuity: the contract is satisfiable — by a finder that always fails, and by one that returns
the lower end of the bracket -/
example : BrentContract (fun _ _ _ => none) := ⟨by intro _ _ _ _ _ h; cases h⟩
example : BrentContract (fun lo _ _ => some lo) :=
  ⟨by intro lo hi _ r hle h; cases h; exact ⟨le_refl _, hle⟩⟩

/-! ### T-ci_order_real -/

/-- T-ci_order_real, first half: at the distance of the point estimate, `f₂(p*) ≤ 0 ≤ f₁(p*)`
(z ≥ 0 is the normal quantile of a confidence ≥ 0; k ≤ i32::MAX so that `k as i32` is k). -/
theorem ci_sign_at_point (z c : ℝ) (k scaled n : Nat) (hz : 0 ≤ z) (hc : 0 ≤ c) (hk : 1 ≤ k)
    (hk' : k ≤ i32Max) :
    ciF2 z c k scaled n (pStar c k) ≤ 0 ∧ 0 ≤ ciF1 z c k scaled n (pStar c k) := by
  rw [ciF1_real _ _ _ _ _ hk', ciF2_real _ _ _ _ _ hk', pow_at_pStar c k hc hk]
  have := mul_nonneg hz (Real.sqrt_nonneg (varDirect scaled n k (pStar c k)))
  constructor <;> linarith

example : (0:ℝ) ≤ 1.96 ∧ (0:ℝ) ≤ 0.5 ∧ 1 ≤ 21 ∧ 21 ≤ i32Max := by
  refine ⟨by norm_num, by norm_num, by decide, by decide⟩

/-- T-ci_order_real, second half (intermediate value theorem): if `f₁` is continuous on `[p*, hi]`,
`f₂` on `[lo, p*]`, and the bracket ends have the signs `f₁(hi) ≤ 0 ≤ f₂(lo)`, then `f₁` has a root
`r₁ ∈ [p*, hi]`, `f₂` has a root `r₂ ∈ [lo, p*]`, and the interval `(1 − r₁, 1 − r₂)` contains the point
estimate.  Which root Brent returns (and whether it returns one) is runtime.
(Non-vacuity: the `example` after `ci_order_real` satisfies all hypotheses of that theorem, which implies these.) -/
theorem ci_roots_exist (z c : ℝ) (k scaled n : Nat) (hz : 0 ≤ z) (hc : 0 ≤ c) (hk : 1 ≤ k)
    (hk' : k ≤ i32Max)
    (hlo : bracketLo ≤ pStar c k) (hhi : pStar c k ≤ bracketHi)
    (hcont1 : ContinuousOn (ciF1 z c k scaled n) (Set.Icc (pStar c k) bracketHi))
    (hcont2 : ContinuousOn (ciF2 z c k scaled n) (Set.Icc bracketLo (pStar c k)))
    (hend1 : ciF1 z c k scaled n bracketHi ≤ 0)
    (hend2 : 0 ≤ ciF2 z c k scaled n bracketLo) :
    ∃ r1 ∈ Set.Icc (pStar c k) bracketHi, ∃ r2 ∈ Set.Icc bracketLo (pStar c k),
      ciF1 z c k scaled n r1 = 0 ∧ ciF2 z c k scaled n r2 = 0 ∧
      1 - r1 ≤ aniFromContainment c (lit k) ∧ aniFromContainment c (lit k) ≤ 1 - r2 := by
  obtain ⟨h2, h1⟩ := ci_sign_at_point z c k scaled n hz hc hk hk'
  obtain ⟨r1, hr1, e1⟩ := intermediate_value_Icc' hhi hcont1 ⟨hend1, h1⟩
  obtain ⟨r2, hr2, e2⟩ := intermediate_value_Icc' hlo hcont2 ⟨h2, hend2⟩
  refine ⟨r1, hr1, r2, hr2, e1, e2, ?_, ?_⟩
  · rw [point_is_one_sub_pStar c k hk]; linarith [hr1.1]
  · rw [point_is_one_sub_pStar c k hk]; linarith [hr2.2]

/-- T-ci_order_real with the continuity discharged: it is enough that no `var_n_mutated` error is
swallowed on the bracket (the variance expression is ≥ 0 there). -/
theorem ci_order_real (z c : ℝ) (k scaled n : Nat) (hz : 0 ≤ z) (hc : 0 ≤ c) (hk : 1 ≤ k)
    (hk' : k ≤ i32Max)
    (hlo : bracketLo ≤ pStar c k) (hhi : pStar c k ≤ bracketHi)
    (hvar : ∀ p ∈ Set.Icc (bracketLo : ℝ) bracketHi, 0 ≤ varNExpr (n:ℝ) k p)
    (hend1 : ciF1 z c k scaled n bracketHi ≤ 0)
    (hend2 : 0 ≤ ciF2 z c k scaled n bracketLo) :
    ∃ r1 ∈ Set.Icc (pStar c k) bracketHi, ∃ r2 ∈ Set.Icc bracketLo (pStar c k),
      ciF1 z c k scaled n r1 = 0 ∧ ciF2 z c k scaled n r2 = 0 ∧
      1 - r1 ≤ aniFromContainment c (lit k) ∧ aniFromContainment c (lit k) ≤ 1 - r2 := by
  have hs : ∀ p ∈ Set.Icc (bracketLo : ℝ) bracketHi, p ≠ 0 ∧ 0 ≤ varNExpr (n:ℝ) k p :=
    fun p hp => ⟨(lt_of_lt_of_le bracketLo_pos hp.1).ne', hvar p hp⟩
  obtain ⟨c1, c2⟩ := ciF_continuousOn z c scaled n k hk' _ hs
  exact ci_roots_exist z c k scaled n hz hc hk hk' hlo hhi
    (c1.mono (Set.Icc_subset_Icc_left hlo)) (c2.mono (Set.Icc_subset_Icc_right hhi)) hend1 hend2

/-- non-vacuity of `ci_order_real`: k = 1, c = 1/2, z = 0, any n ≥ 0 and scaled satisfy all of its
hypotheses together (for k = 1 the variance expression is the binomial `n·p·(1−p)`). -/
example (scaled n : Nat) :
    (bracketLo : ℝ) ≤ pStar (1/2) 1 ∧ pStar (1/2) 1 ≤ (bracketHi : ℝ) ∧
    (∀ p ∈ Set.Icc (bracketLo : ℝ) bracketHi, 0 ≤ varNExpr (n:ℝ) 1 p) ∧
    ciF1 (0:ℝ) (1/2) 1 scaled n bracketHi ≤ 0 ∧ 0 ≤ ciF2 (0:ℝ) (1/2) 1 scaled n bracketLo := by
  have hp : pStar (1/2) 1 = 1/2 := by simp [pStar]; norm_num
  obtain ⟨elo, ehi⟩ := bracket_real
  refine ⟨?_, ?_, ?_, ?_, ?_⟩
  · rw [hp, elo]; norm_num
  · rw [hp, ehi]; norm_num
  · intro p hp
    have hp0 : 0 < p := lt_of_lt_of_le bracketLo_pos hp.1
    have hp1 : p < 1 := lt_of_le_of_lt hp.2 bracketHi_lt_one
    rw [varNExpr_k1 _ _ hp0.ne']
    have : (0:ℝ) ≤ (n:ℝ) := Nat.cast_nonneg n
    have h1 : 0 ≤ 1 - p := by linarith
    positivity
  · rw [ciF1_real _ _ _ _ _ (by decide), ehi]; norm_num
  · rw [ciF2_real _ _ _ _ _ (by decide), elo]; norm_num

/-! ### T-gather_ani -/

/-- T-gather_ani (any number type): the ANI fields of `calculate_gather_stats` as functions of the
containments it reports — the point estimates from `f_orig_query` / `f_match_orig`, the intervals from
`f_unique_to_query` / `f_match` (with ksize, scaled and n_unique_kmers of the match), the average as
the mean and the max as the maximum of the two point estimates. -/
theorem gather_ani_fields {α : Type} [RealLike α] (ci : α → Nat → Nat → Nat → Option α → α × α)
    (r : GatherRatios α) (k scaled nUnique : Nat) (calcCi : Bool) (conf : Option α) :
    let g := gatherAni ci r k scaled nUnique calcCi conf
    g.queryContainmentAni = aniFromContainment r.fOrigQuery (lit k) ∧
    g.matchContainmentAni = aniFromContainment r.fMatchOrig (lit k) ∧
    g.queryCi = (if calcCi then some (ci r.fUniqueToQuery k scaled nUnique conf) else none) ∧
    g.matchCi = (if calcCi then some (ci r.fMatch k scaled nUnique conf) else none) ∧
    g.averageContainmentAni = (g.queryContainmentAni + g.matchContainmentAni) / lit 2 ∧
    g.maxContainmentAni = fmax g.queryContainmentAni g.matchContainmentAni := by
  intro g
  exact ⟨rfl, rfl, rfl, rfl, rfl, rfl⟩

/-- at rank 0 (nothing subtracted yet: `f_unique_to_query = f_orig_query`) the query-side interval is
the interval of the very containment whose point estimate is reported; later ranks report the interval
of the *remaining* containment next to the point estimate of the *original* one. -/
theorem gather_query_ci_rank0 {α : Type} [RealLike α] (ci : α → Nat → Nat → Nat → Option α → α × α)
    (r : GatherRatios α) (k scaled nUnique : Nat) (conf : Option α)
    (h : r.fUniqueToQuery = r.fOrigQuery) :
    (gatherAni ci r k scaled nUnique true conf).queryCi = some (ci r.fOrigQuery k scaled nUnique conf) := by
  simp [gatherAni, h]

example : ({ fOrigQuery := 1/2, fMatchOrig := 1/3, fUniqueToQuery := 1/2, fMatch := 1/3 }
    : GatherRatios ℝ).fUniqueToQuery = (1/2 : ℝ) := rfl

/-- T-gather_ani over ℝ: with containments in [0,1] and k ≥ 1, the two point estimates are
`c^(1/k)`, `max` is their maximum, the average lies between them, and all four lie in [0,1]. -/
theorem gather_ani_real (ci : ℝ → Nat → Nat → Nat → Option ℝ → ℝ × ℝ) (r : GatherRatios ℝ)
    (k scaled nUnique : Nat) (calcCi : Bool) (conf : Option ℝ) (hk : 1 ≤ k)
    (hq : r.fOrigQuery ∈ Set.Icc (0:ℝ) 1) (hm : r.fMatchOrig ∈ Set.Icc (0:ℝ) 1) :
    let g := gatherAni ci r k scaled nUnique calcCi conf
    g.queryContainmentAni = r.fOrigQuery ^ (1 / (k:ℝ)) ∧
    g.matchContainmentAni = r.fMatchOrig ^ (1 / (k:ℝ)) ∧
    g.maxContainmentAni = max g.queryContainmentAni g.matchContainmentAni ∧
    g.averageContainmentAni = (g.queryContainmentAni + g.matchContainmentAni) / 2 ∧
    min g.queryContainmentAni g.matchContainmentAni ≤ g.averageContainmentAni ∧
    g.averageContainmentAni ≤ g.maxContainmentAni ∧
    g.queryContainmentAni ∈ Set.Icc (0:ℝ) 1 ∧ g.matchContainmentAni ∈ Set.Icc (0:ℝ) 1 ∧
    g.averageContainmentAni ∈ Set.Icc (0:ℝ) 1 ∧ g.maxContainmentAni ∈ Set.Icc (0:ℝ) 1 := by
  have hk1 : (1:ℝ) ≤ (k:ℝ) := by exact_mod_cast hk
  have hqr := point_real_range r.fOrigQuery (k:ℝ) hk1 hq
  have hmr := point_real_range r.fMatchOrig (k:ℝ) hk1 hm
  have hmax : ∀ a b : ℝ, fmax a b = max a b := by
    intro a b
    simp only [fmax, blt_real, decide_eq_true_eq]
    split_ifs with h
    · exact (max_eq_right h.le).symm
    · exact (max_eq_left (not_lt.mp h)).symm
  simp only [gatherAni, lit_real, hmax, Nat.cast_ofNat]
  set q := aniFromContainment r.fOrigQuery (k:ℝ) with hqdef
  set m := aniFromContainment r.fMatchOrig (k:ℝ) with hmdef
  have hq01 : q ∈ Set.Icc (0:ℝ) 1 := hqr
  have hm01 : m ∈ Set.Icc (0:ℝ) 1 := hmr
  refine ⟨point_real_eq _ _ hk1, point_real_eq _ _ hk1, trivial, trivial, ?_, ?_, hq01, hm01, ?_, ?_⟩
  · rcases le_total q m with h | h
    · rw [min_eq_left h]; linarith
    · rw [min_eq_right h]; linarith
  · rcases le_total q m with h | h
    · rw [max_eq_right h]; linarith
    · rw [max_eq_left h]; linarith
  · exact ⟨by linarith [hq01.1, hm01.1], by linarith [hq01.2, hm01.2]⟩
  · rcases le_total q m with h | h
    · rw [max_eq_right h]; exact hm01
    · rw [max_eq_left h]; exact hq01

/-- non-vacuity: ratios of set sizes lie in [0,1] -/
example : (1 ≤ 21) ∧ ((3:ℝ)/10) ∈ Set.Icc (0:ℝ) 1 := by
  refine ⟨by decide, ?_⟩
  constructor <;> norm_num

/-- the containments gather feeds in are ratios `|A ∩ B| / |A|` of set sizes, hence in [0,1] -/
theorem gather_ratios_in_unit (isectOrig isectRem origSize matchSize matchArg : Nat)
    (h1 : isectOrig ≤ origSize) (h2 : isectOrig ≤ matchSize) (ho : 0 < origSize) (hm : 0 < matchSize) :
    (gatherRatios isectOrig isectRem origSize matchSize matchArg : GatherRatios ℝ).fOrigQuery ∈ Set.Icc (0:ℝ) 1 ∧
    (gatherRatios isectOrig isectRem origSize matchSize matchArg : GatherRatios ℝ).fMatchOrig ∈ Set.Icc (0:ℝ) 1 := by
  have ho' : (0:ℝ) < origSize := by exact_mod_cast ho
  have hm' : (0:ℝ) < matchSize := by exact_mod_cast hm
  have h1' : (isectOrig:ℝ) ≤ origSize := by exact_mod_cast h1
  have h2' : (isectOrig:ℝ) ≤ matchSize := by exact_mod_cast h2
  simp only [gatherRatios, lit_real, Set.mem_Icc]
  refine ⟨⟨by positivity, ?_⟩, ⟨by positivity, ?_⟩⟩
  · rw [div_le_one ho']; exact h1'
  · rw [div_le_one hm']; exact h2'

example : (3 ≤ 10) ∧ (3 ≤ 12) ∧ (0 < 10) ∧ (0 < 12) := by decide

/-! ### the match sketch is downsampled before anything is read from it -/

/-- T-gather_ani, "for the containments it reports" (any number type): every ANI-related output of
`calculate_gather_stats` — ratios, point estimates, both intervals and the `n_unique_kmers` they are
computed with — for a match at a **finer** scaled is the output for the same match downsampled to the
query's scaled before the call.  (This is the invariance the spec column of `gatherv` demands of the
real function.) -/
theorem gather_downsample_invariant {α : Type} [RealLike α]
    (ci : α → Nat → Nat → Nat → Option α → α × α)
    (maxHashQ k qScaled mScaled : Nat) (orig remaining mat : List Nat) (matchSizeArg : Nat)
    (calcCi : Bool) (conf : Option α) (h : mScaled < qScaled) :
    gatherStatsAni ci maxHashQ k qScaled mScaled orig remaining mat matchSizeArg calcCi conf
      = gatherStatsAni ci maxHashQ k qScaled qScaled orig remaining (sketchOf maxHashQ mat)
          matchSizeArg calcCi conf := by
  have h1 : ¬ mScaled > qScaled := by omega
  have h2 : ¬ mScaled = qScaled := by omega
  simp [gatherStatsAni, downsampleTo, h1, h2]

example : (10 : Nat) < 100 := by decide

/-- the interval is computed with the size of the downsampled match times the query's scaled, not with
the numbers of the sketch that was handed in -/
theorem gather_ci_uses_downsampled {α : Type} [RealLike α]
    (ci : α → Nat → Nat → Nat → Option α → α × α)
    (maxHashQ k qScaled mScaled : Nat) (orig remaining mat : List Nat) (matchSizeArg : Nat)
    (conf : Option α) (h : mScaled < qScaled) :
    ∃ r g, gatherStatsAni ci maxHashQ k qScaled mScaled orig remaining mat matchSizeArg true conf
        = some (r, g, (sketchOf maxHashQ mat).length * qScaled) ∧
      g.queryCi = some (ci r.fUniqueToQuery k qScaled ((sketchOf maxHashQ mat).length * qScaled) conf) ∧
      g.matchCi = some (ci r.fMatch k qScaled ((sketchOf maxHashQ mat).length * qScaled) conf) := by
  have h1 : ¬ mScaled > qScaled := by omega
  have h2 : ¬ mScaled = qScaled := by omega
  simp [gatherStatsAni, downsampleTo, gatherAni, nUniqueKmers, h1, h2]

/-- a coarser match is refused -/
theorem gather_refuses_coarser {α : Type} [RealLike α]
    (ci : α → Nat → Nat → Nat → Option α → α × α)
    (maxHashQ k qScaled mScaled : Nat) (orig remaining mat : List Nat) (matchSizeArg : Nat)
    (calcCi : Bool) (conf : Option α) (h : qScaled < mScaled) :
    gatherStatsAni ci maxHashQ k qScaled mScaled orig remaining mat matchSizeArg calcCi conf = none := by
  simp [gatherStatsAni, h]

example : (100 : Nat) < 1000 := by decide

/-! ### which query the point estimates are computed from -/

/-- T-gather_ani, "for the containments it reports": the two reported containments `f_orig_query` /
`f_match_orig` and the four point-estimate fields (query / match / average / max containment ANI) are
computed from the intersection of the match with the **original** query: they are the same whatever the
remaining (already subtracted) query is — equal to the original, partially subtracted, disjoint from the
match, or empty.  (Only `f_unique_to_query` and the two intervals depend on it.) -/
theorem gather_point_ignores_remaining {α : Type} [RealLike α]
    (ci : α → Nat → Nat → Nat → Option α → α × α)
    (maxHashQ k qScaled mScaled : Nat) (orig rem₁ rem₂ mat : List Nat) (matchSizeArg : Nat)
    (calcCi : Bool) (conf : Option α) :
    (gatherStatsAni ci maxHashQ k qScaled mScaled orig rem₁ mat matchSizeArg calcCi conf).map
        (fun x => (x.1.fOrigQuery, x.1.fMatchOrig, x.2.1.queryContainmentAni, x.2.1.matchContainmentAni,
                   x.2.1.averageContainmentAni, x.2.1.maxContainmentAni))
      = (gatherStatsAni ci maxHashQ k qScaled mScaled orig rem₂ mat matchSizeArg calcCi conf).map
        (fun x => (x.1.fOrigQuery, x.1.fMatchOrig, x.2.1.queryContainmentAni, x.2.1.matchContainmentAni,
                   x.2.1.averageContainmentAni, x.2.1.maxContainmentAni)) := by
  unfold gatherStatsAni
  by_cases h : mScaled > qScaled <;> simp [h, gatherAni, gatherRatios]

/-- … in particular for a match whose shared hashes were all claimed by earlier matches (remaining
query disjoint from the match): the point estimates are still `ani_from_containment` of
`|match ∩ original| / |original|` and `|match ∩ original| / |match|`, not 0. -/
theorem gather_point_from_original {α : Type} [RealLike α]
    (ci : α → Nat → Nat → Nat → Option α → α × α)
    (maxHashQ k qScaled mScaled : Nat) (orig remaining mat : List Nat) (matchSizeArg : Nat)
    (calcCi : Bool) (conf : Option α) (h : mScaled ≤ qScaled) :
    ∃ r g nu, gatherStatsAni ci maxHashQ k qScaled mScaled orig remaining mat matchSizeArg calcCi conf
        = some (r, g, nu) ∧
      let m := downsampleTo maxHashQ qScaled mScaled mat
      r.fOrigQuery = lit (isectSize m orig) / lit orig.length ∧
      r.fMatchOrig = lit (isectSize m orig) / lit m.length ∧
      g.queryContainmentAni = aniFromContainment r.fOrigQuery (lit k) ∧
      g.matchContainmentAni = aniFromContainment r.fMatchOrig (lit k) := by
  have h1 : ¬ mScaled > qScaled := by omega
  simp [gatherStatsAni, h1, gatherAni, gatherRatios]

/-- non-vacuity: a match (hashes 1..4) that shares {1,2} with the original query {1,2,9} while the
remaining query {9} is disjoint from it -/
example : isectSize [1, 2, 3, 4] [1, 2, 9] = 2 ∧ isectSize [1, 2, 3, 4] [9] = 0 ∧ (1000 : Nat) ≤ 1000 := by
  decide

/-! ### the interval function keeps no history -/

/-- order independence: on one thread, the answer to an interval request is the function's value at that
request whatever was asked before — the last answer of any history ending in `q` is the answer to `q`
alone.  (This is what the `fresh-same` token of the `ci` spec column demands of the real code.) -/
theorem ci_history_independent {α : Type} [RealLike α]
    (brent : α → α → (α → α) → Option α) (probit : α → α) (h₁ h₂ : List (CiReq α)) (q : CiReq α) :
    (ciAnswers brent probit (h₁ ++ [q])).getLast? = (ciAnswers brent probit (h₂ ++ [q])).getLast? ∧
    (ciAnswers brent probit (h₁ ++ [q])).getLast?
      = some (aniCiFromContainment brent probit q.c q.k q.scaled q.n q.conf) := by
  simp [ciAnswers]

/-- every answer of a history, not only the last: the `i`-th answer is the value at the `i`-th request -/
theorem ci_history_pointwise {α : Type} [RealLike α]
    (brent : α → α → (α → α) → Option α) (probit : α → α) (h : List (CiReq α)) (i : Nat) :
    (ciAnswers brent probit h)[i]? =
      h[i]?.map fun q => aniCiFromContainment brent probit q.c q.k q.scaled q.n q.conf := by
  simp [ciAnswers]

end Sourmash.C19
