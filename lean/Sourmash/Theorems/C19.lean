import Sourmash.Model.Ani
import Sourmash.Lemmas.AniReal
/-!
Property C19 — ANI estimates from containment are monotone, bounded and inside their CI.  **Partial.**

What is proved here
* `point_*_branch`, `ci_*_branch` (T-point_branches, T-ci_degenerate): the branch structure of
  `ani_from_containment` / `ani_ci_from_containment`, for *every* number type (so also for binary64):
  when the `== 0.0` / `== 1.0` test fires the literal `0.0` / `1.0` (resp. `(0,0)` / `(1,1)`) is returned.

NOT decided by proof (runtime only, searched by `./check C19` over the grid of the property's quantifier):
* `low ≤ point ≤ high` for the **computed** interval — it depends on which root `roots::find_root_brent`
  returns in binary64 and on `statrs`' probit;
* agreement with the published reference values of the mutation-rate CI calculator
  (pinned as corpus ops `ref …` / `pin …`);
* everything about rounding: the theorems over `ℝ` speak about the ideal arithmetic, the `Float`
  transcription of the same model text is compared bit-for-bit with the Rust code by the driver.
-/
namespace Sourmash.C19
open Sourmash.Ani

section branches
variable {α : Type} [RealLike α]

/-- T-point_branches: if `containment == 0.0` holds the result is the literal `0.0` (this covers `-0.0`). -/
theorem point_zero_branch (c k : α) (h : RealLike.beq c (lit 0) = true) :
    aniFromContainment c k = lit 0 := by
  simp [aniFromContainment, h]

/-- T-point_branches: otherwise, if `containment == 1.0` holds the result is the literal `1.0`. -/
theorem point_one_branch (c k : α) (h0 : RealLike.beq c (lit 0) = false)
    (h1 : RealLike.beq c (lit 1) = true) : aniFromContainment c k = lit 1 := by
  simp [aniFromContainment, h0, h1]

/-- T-point_branches: in every other case the result is `1 − (1 − c.powf(1/k))`. -/
theorem point_general_branch (c k : α) (h0 : RealLike.beq c (lit 0) = false)
    (h1 : RealLike.beq c (lit 1) = false) :
    aniFromContainment c k = lit 1 - (lit 1 - RealLike.powf c (lit 1 / k)) := by
  simp [aniFromContainment, h0, h1]

/-- T-ci_degenerate: `containment == 0.0` gives `(0.0, 0.0)` whatever the other arguments are
(the root finder and probit are not consulted). -/
theorem ci_zero_branch (brent : α → α → (α → α) → Option α) (probit : α → α) (c : α)
    (k scaled n : Nat) (conf : Option α) (h : RealLike.beq c (lit 0) = true) :
    aniCiFromContainment brent probit c k scaled n conf = (lit 0, lit 0) := by
  simp [aniCiFromContainment, h]

/-- T-ci_degenerate: `containment == 1.0` gives `(1.0, 1.0)`. -/
theorem ci_one_branch (brent : α → α → (α → α) → Option α) (probit : α → α) (c : α)
    (k scaled n : Nat) (conf : Option α) (h0 : RealLike.beq c (lit 0) = false)
    (h1 : RealLike.beq c (lit 1) = true) :
    aniCiFromContainment brent probit c k scaled n conf = (lit 1, lit 1) := by
  simp [aniCiFromContainment, h0, h1]

/-- T-ci_degenerate, combined with T-point_branches: at both endpoints the interval is the point. -/
theorem ci_degenerates_to_point (brent : α → α → (α → α) → Option α) (probit : α → α) (c kf : α)
    (k scaled n : Nat) (conf : Option α)
    (h : RealLike.beq c (lit 0) = true ∨ RealLike.beq c (lit 1) = true) :
    aniCiFromContainment brent probit c k scaled n conf
      = (aniFromContainment c kf, aniFromContainment c kf) := by
  cases hb : RealLike.beq c (lit 0) with
  | true => rw [ci_zero_branch _ _ _ _ _ _ _ hb, point_zero_branch _ _ hb]
  | false =>
    have h1 : RealLike.beq c (lit 1) = true := by
      rcases h with h | h
      · rw [hb] at h; cases h
      · exact h
    rw [ci_one_branch _ _ _ _ _ _ _ hb h1, point_one_branch _ _ hb h1]

end branches

/-- non-vacuity: over ℝ the hypotheses of the branch theorems hold at 0 and 1 … -/
example : RealLike.beq (0 : ℝ) (lit 0) = true := by simp
example : RealLike.beq (1 : ℝ) (lit 0) = false ∧ RealLike.beq (1 : ℝ) (lit 1) = true := by simp
/-- … and the general branch is reached, e.g. at 1/2 -/
example : RealLike.beq (1 / 2 : ℝ) (lit 0) = false ∧ RealLike.beq (1 / 2 : ℝ) (lit 1) = false := by
  constructor <;> simp

/-- T-point_branches over ℝ: exactly 0 at c = 0 and exactly 1 at c = 1, for every k. -/
theorem point_at_endpoints (k : ℝ) :
    aniFromContainment (0 : ℝ) k = 0 ∧ aniFromContainment (1 : ℝ) k = 1 := by
  constructor
  · rw [point_zero_branch _ _ (by simp)]; simp
  · rw [point_one_branch _ _ (by simp) (by simp)]; simp

/-- T-ci_degenerate over ℝ: `(0,0)` at c = 0 and `(1,1)` at c = 1. -/
theorem ci_at_endpoints (brent : ℝ → ℝ → (ℝ → ℝ) → Option ℝ) (probit : ℝ → ℝ)
    (k scaled n : Nat) (conf : Option ℝ) :
    aniCiFromContainment brent probit 0 k scaled n conf = (0, 0)
      ∧ aniCiFromContainment brent probit 1 k scaled n conf = (1, 1) := by
  constructor
  · rw [ci_zero_branch _ _ _ _ _ _ _ (by simp)]; simp
  · rw [ci_one_branch _ _ _ _ _ _ _ (by simp) (by simp)]; simp

end Sourmash.C19
