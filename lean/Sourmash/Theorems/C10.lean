import Sourmash.Lemmas.CrashReopen
import Sourmash.Lemmas.CrashExtend
import Sourmash.Lemmas.CrashCsv
/-! Property C10 — an interrupted or reopened on-disk index never returns wrong answers.
Property theorems only (helper lemmas: `Sourmash/Lemmas/Crash*.lean`; model: `Sourmash/Model/Crash.lean`).

Every statement is universally quantified over the collection `c`, over every linearisation `L` of
the parallel phase (`IsLin`: any interleaving of the datasets' write lists that keeps each
dataset's program order), and over every crash point `k` (`crashAt s log k` = the effect of the
first `k` writes — the model's prefix assumption, see Model/Crash.lean). -/
namespace Sourmash.C10
open Crash

/-- every reachable state satisfies the invariant -/
theorem reach_inv {c : Coll} {sp : Spec} {s0 s : Disk} (h0 : Inv c s0) (h : Reach c sp s0 s) : Inv c s := by
  induction h with
  | start => exact h0
  | round k _ hP hL ih => exact ih.run (closed_prefix sp hP hL k)

/-- **T-marker** (single interrupted build, from an empty directory): in the state left by a kill
after any number `k` of writes of any linearisation, a dataset recorded in PROCESSED has every one
of its hashes indexed under its id, and HASHES attributes a hash to a dataset only if the dataset
contains it (nothing spurious). -/
theorem marker_single (c : Coll) (sp : Spec) (L : List Write) (k : Nat) (hL : IsLin c [] L) :
    let s := crashAt Disk.empty (L ++ metaLog c sp) k
    (∀ d, d ∈ s.procSet → ∀ h, h ∈ c.hashesOf d → d ∈ s.hashesAt h) ∧
    (∀ h d, d ∈ s.hashesAt h → h ∈ c.hashesOf d) := by
  intro s
  have hi : Inv c s := (Inv.empty c).run (closed_prefix sp (P := []) (by intro d; simp [Disk.procSet, Disk.empty]) hL k)
  exact ⟨fun d hd h hh => (mem_hashesAt s h d).mpr ((hi.marker d hd).2 h hh),
         fun h d hd => hi.sound h d ((mem_hashesAt s h d).mp hd)⟩

example : IsLin [⟨0, [1, 2]⟩, ⟨1, [2]⟩] [] (seqLog [⟨0, [1, 2]⟩, ⟨1, [2]⟩] []) := isLin_seqLog _ _

/-- **T-marker, iterated**: the same in every state reachable by any number of kill / re-run
rounds (each with its own linearisation and crash point). -/
theorem marker_reach (c : Coll) (sp : Spec) (s : Disk) (h : Reach c sp Disk.empty s) :
    (∀ d, d ∈ s.procSet → d < c.length ∧ ∀ h, h ∈ c.hashesOf d → d ∈ s.hashesAt h) ∧
    (∀ h d, d ∈ s.hashesAt h → h ∈ c.hashesOf d) := by
  have hi := reach_inv (Inv.empty c) h
  exact ⟨fun d hd => ⟨(hi.marker d hd).1, fun h hh => (mem_hashesAt s h d).mpr ((hi.marker d hd).2 h hh)⟩,
         fun h d hd => hi.sound h d ((mem_hashesAt s h d).mp hd)⟩

/-- an uninterrupted build ends in the same state whatever the interleaving of the datasets, and
that state is the reference: `HASHES = {(h,d) : h ∈ D_d}`, every dataset processed, metadata saved -/
theorem clean_any_order (c : Coll) (sp : Spec) (L : List Write) (hL : IsLin c [] L) :
    run Disk.empty (L ++ metaLog c sp) = cleanBuild c sp ∧ cleanBuild c sp = cleanState c sp [] := by
  have hA : Agrees [] Disk.empty := by intro d; simp [Disk.procSet, Disk.empty]
  have h1 := run_complete sp (Inv.empty c) hA hL
  have h2 := run_complete sp (Inv.empty c) hA (isLin_seqLog c [])
  exact ⟨h1.trans h2.symm, h2⟩

/-- **T-resume** (one kill): for every linearisation `L` and every crash point `k` of a build into
an empty directory, re-running `create` on what the kill left — processed set reloaded, finished
datasets skipped, ALL writes of every other dataset re-issued in any order `L'` (half-written
datasets are merged again; union is idempotent) — ends in exactly the state of the uninterrupted
build. -/
theorem resume_single (c : Coll) (sp : Spec) (L L' : List Write) (k : Nat) (hL : IsLin c [] L) :
    let s := crashAt Disk.empty (L ++ metaLog c sp) k
    IsLin c (loadProcessed s true 0) L' →
    run s (L' ++ metaLog c sp) = cleanBuild c sp := by
  intro s hL'
  have hA : Agrees [] Disk.empty := by intro d; simp [Disk.procSet, Disk.empty]
  have hi : Inv c s := (Inv.empty c).run (closed_prefix sp hA hL k)
  have h1 := run_complete sp hi (agrees_create s 0) hL'
  have hst : s.storage = [] := by simp [s, crashAt, storage_run, Disk.empty]
  rw [h1, hst]
  exact (clean_any_order c sp _ (isLin_seqLog c [])).2.symm

/-- non-vacuity of `resume_single`: a two-dataset collection killed between the last hash write of
dataset 0 and its marker (k = 2), and resumed -/
def exColl : Coll := [⟨0, [1, 2]⟩, ⟨1, [2]⟩]
def exCrash : Disk := crashAt Disk.empty (seqLog exColl [] ++ metaLog exColl .fs) 2
example : exCrash.processed = none ∧ exCrash.hashes = [(1, 0), (2, 0)] ∧
    run exCrash (seqLog exColl (loadProcessed exCrash true 0) ++ metaLog exColl .fs) = cleanBuild exColl .fs := by
  decide

/-- **T-resume, iterated**: after ANY number of kill / re-run rounds (every round with its own
linearisation and its own crash point, including kills during a resume, between a dataset's last
hash write and its marker, between the metadata puts, and before/after compaction), one run that
is allowed to finish ends in exactly the state of the uninterrupted build. -/
theorem resume_iterated (c : Coll) (sp : Spec) (s : Disk) (L : List Write)
    (hr : Reach c sp Disk.empty s) (hL : IsLin c (loadProcessed s true 0) L) :
    run s (L ++ metaLog c sp) = cleanBuild c sp := by
  have hi := reach_inv (Inv.empty c) hr
  have hst : s.storage = [] := by
    clear hL hi
    induction hr with
    | start => rfl
    | round k _ _ _ ih => simp [crashAt, storage_run, ih]
  rw [run_complete sp hi (agrees_create s 0) hL, hst]
  exact (clean_any_order c sp _ (isLin_seqLog c [])).2.symm

/-- non-vacuity of the `Reach` hypotheses: two kills in a row (the second one during the resume,
right after the re-issued first hash write), then the run that finishes -/
def exTwice : Disk :=
  crashAt exCrash (seqLog exColl (loadProcessed exCrash true 0) ++ metaLog exColl .fs) 1
example : Reach exColl .fs Disk.empty exTwice :=
  Reach.round 1 (Reach.round 2 Reach.start (by intro d; simp [Disk.procSet, Disk.empty]) (isLin_seqLog exColl []))
    (agrees_create _ 0) (isLin_seqLog exColl _)
example : exTwice.hashes = [(1, 0), (2, 0)] ∧ exTwice.processed = none ∧
    (run exTwice (seqLog exColl (loadProcessed exTwice true 0) ++ metaLog exColl .fs)).hashes
      = [(1, 0), (2, 0), (2, 1)] := by decide

/-- a completed index is a fixed point of the build: running `create` again writes nothing new -/
theorem rerun_complete (c : Coll) (sp : Spec) (L : List Write)
    (hL : IsLin c (loadProcessed (cleanBuild c sp) true 0) L) :
    run (cleanBuild c sp) (L ++ metaLog c sp) = cleanBuild c sp := by
  have hA : Agrees [] Disk.empty := by intro d; simp [Disk.procSet, Disk.empty]
  have hr : Reach c sp Disk.empty (cleanBuild c sp) := by
    have := Reach.round (c := c) (sp := sp) (s0 := Disk.empty) ((seqLog c [] ++ metaLog c sp).length)
      Reach.start hA (isLin_seqLog c [])
    unfold crashAt at this
    rw [List.take_length] at this
    exact this
  exact resume_iterated c sp _ L hr hL

/-- **Corollary (no dataset lost, skipped or counted twice)**: after any kill / re-run history the
finished index answers `counter_for_query` exactly like the uninterrupted build, and that answer is:
one entry per dataset whose overlap with the query is non-empty, holding the size of the overlap
`|q ∩ D_d|` — no entry twice (`keys strictly increasing`). -/
theorem counter_after_resume (c : Coll) (sp : Spec) (s : Disk) (L : List Write) (q : List Nat)
    (hr : Reach c sp Disk.empty s) (hL : IsLin c (loadProcessed s true 0) L) :
    let final := run s (L ++ metaLog c sp)
    counterFor final.hashes q = counterFor (cleanBuild c sp).hashes q ∧
    (∀ d k, (d, k) ∈ counterFor final.hashes q ↔
        k = (q.filter (fun h => (c.hashesOf d).contains h)).length ∧ k ≠ 0) ∧
    Sorted ((counterFor final.hashes q).map (·.1)) := by
  intro final
  have hf : final = cleanBuild c sp := resume_iterated c sp s L hr hL
  have hg : (cleanBuild c sp).hashes = graph c := by
    rw [(clean_any_order c sp _ (isLin_seqLog c [])).2]; rfl
  refine ⟨by rw [hf], ?_, counterFor_keys_sorted _ _⟩
  intro d k
  rw [hf, hg, mem_counterFor, countFor_graph]

/-! ### extension of a completed index (`open` + `update`, or `create` on the same directory) -/

/-- **T-resume for extensions**: let the directory hold the completed index of `c1` and let the
build under test extend it to `c1 ++ ext`.  After ANY number of kill / re-run rounds (each round
through `create` or through `open` + `update`, any linearisation, any crash point):
`open` still succeeds (the metadata of the base build stays readable — `rt` is the manifest's CSV
round trip, hypothesis discharged by C12), `check_superset` accepts the collection, the processed
set the handle loads is the stored one, and a run that finishes — through either entry point, in
any order — ends in the completed index of `c1 ++ ext`, which is also what the uninterrupted
extension produces. -/
theorem resume_extension (rt : Manifest → Option Manifest) (hrt : ∀ m, rt m = some m)
    (c1 ext : Coll) (sp : Spec) (st : Store) (s : Disk)
    (hr : Reach (c1 ++ ext) sp (cleanState c1 sp st) s) :
    (∃ h, openIdx rt s false = some h ∧ Agrees h.processed s ∧
        updateLog h (c1 ++ ext) sp = some (seqLog (c1 ++ ext) h.processed ++ metaLog (c1 ++ ext) sp) ∧
        ∀ L, IsLin (c1 ++ ext) h.processed L →
          run s (L ++ metaLog (c1 ++ ext) sp) = cleanState (c1 ++ ext) sp st) ∧
    (∀ L, IsLin (c1 ++ ext) (loadProcessed s true 0) L →
          run s (L ++ metaLog (c1 ++ ext) sp) = cleanState (c1 ++ ext) sp st) ∧
    (∀ L, IsLin (c1 ++ ext) (loadProcessed (cleanState c1 sp st) true 0) L →
          run (cleanState c1 sp st) (L ++ metaLog (c1 ++ ext) sp) = cleanState (c1 ++ ext) sp st) := by
  have hi0 := inv_clean_prefix c1 ext sp st
  have hi := reach_inv hi0 hr
  have hst : s.storage = st := by
    clear hi
    induction hr with
    | start => rfl
    | round k _ _ _ ih => simp [crashAt, storage_run, ih]
  obtain ⟨hv, hm, hs⟩ := reach_meta hr c1.manifest rfl rfl rfl
  refine ⟨?_, ?_, ?_⟩
  · rcases hm with hm | hm
    · refine ⟨_, openIdx_eq rt hrt s false _ sp hv hm hs, agrees_open hi _ hm, ?_, ?_⟩
      · simp [updateLog, checkSuperset_prefix]
      · intro L hL
        rw [run_complete sp hi (agrees_open hi _ hm) hL, hst]
    · refine ⟨_, openIdx_eq rt hrt s false _ sp hv hm hs, agrees_open hi _ hm, ?_, ?_⟩
      · simp [updateLog, checkSuperset_self]
      · intro L hL
        rw [run_complete sp hi (agrees_open hi _ hm) hL, hst]
  · intro L hL
    rw [run_complete sp hi (agrees_create s 0) hL, hst]
  · intro L hL
    rw [run_complete sp hi0 (agrees_create _ 0) hL]
    rfl

/-- non-vacuity: an extension from one to two datasets, killed after the first write of the new
dataset, reopened and updated again -/
example :
    (openIdx some (crashAt (cleanBuild [⟨0, [1, 2]⟩] .fs)
        (seqLog exColl [0] ++ metaLog exColl .fs) 1) false).map (·.processed) = some [0] := by decide

/-! ### reopening -/

/-- the index left by a completed (possibly interrupted and resumed) build is `Completed`:
what `reopen_unchanged` needs -/
theorem completed_cleanBuild (w : World) (c : Coll) : Completed w c.manifest (cleanBuild c .fs) := by
  rw [(clean_any_order c .fs _ (isLin_seqLog c [])).2]
  exact { version := rfl, manifest := rfl, spec := Or.inl rfl }

/-- **T-reopen**: take a completed index `d0` over collection `c` whose signatures the outside world
`w` holds, at any path `p`, and run ANY sequence of `flush` / `close` / `open(ro)` / `open(rw)` /
`internalize_storage` / move-the-directory on it.  Then
* HASHES and PROCESSED on disk are what they were;
* opening it (read-only or writable) succeeds and yields the same manifest and the same processed
  set as before — in particular `open (close s)` does;
* through that handle, and through a handle that is still open at the end of the sequence,
  `sig_for_dataset i` returns dataset `i`'s signature — before or after the sketches were moved into
  the index's own storage, wherever the directory now is;
* `counter_for_query` and `gather` (a function of HASHES and `sig_for_dataset` only) return what they
  returned on `d0`.
`rt` is the manifest's trip through its CSV encoding, `hrt` the round-trip hypothesis that property
C12 discharges. -/
theorem reopen_unchanged (rt : Manifest → Option Manifest) (hrt : ∀ m, rt m = some m)
    (w : World) (c : Coll) (d0 : Disk)
    (hw : ∀ d (hd : d < c.length), w.load c[d].loc = some c[d].hashes)
    (hc : Completed w c.manifest d0) (p : Nat) (ops : List ROp) (q : List Nat) :
    let s' := (reopenSeq rt w { disk := d0, handle := none, path := p } ops).1
    s'.disk.hashes = d0.hashes ∧ s'.disk.processed = d0.processed ∧
    counterFor s'.disk.hashes q = counterFor d0.hashes q ∧
    (∀ ro, ∃ h, openIdx rt s'.disk ro = some h ∧ h.manifest = c.manifest ∧
        h.processed = loadProcessed d0 false c.length ∧
        (∀ i, sigFor w s'.disk h i = c[i]?.map DS.hashes) ∧
        gather s'.disk.hashes (sigFor w s'.disk h) q = gather d0.hashes (fun i => c[i]?.map DS.hashes) q) ∧
    (∀ h, s'.handle = some h → h.manifest = c.manifest ∧
        h.processed = loadProcessed d0 false c.length ∧
        (∀ i, sigFor w s'.disk h i = c[i]?.map DS.hashes) ∧
        gather s'.disk.hashes (sigFor w s'.disk h) q = gather d0.hashes (fun i => c[i]?.map DS.hashes) q) := by
  intro s'
  have hlen : c.manifest.length = c.length := by simp [Coll.manifest]
  have hpres : Present w c.manifest := by
    intro loc hl
    simp only [Coll.manifest, List.mem_map] at hl
    obtain ⟨ds, hds, e⟩ := hl
    obtain ⟨i, hi, e2⟩ := List.getElem_of_mem hds
    rw [← e, ← e2, hw i hi]
    rfl
  have hsig : ∀ i : Nat, (c.manifest[i]?).bind (fun loc => w.load loc) = c[i]?.map DS.hashes := by
    intro i
    by_cases hi : i < c.length
    · simp [Coll.manifest, List.getElem?_eq_getElem hi, hw i hi]
    · simp [Coll.manifest, List.getElem?_eq_none (Nat.le_of_not_lt hi)]
  have hinv : SInv w c.manifest d0 s' := (SInv.init hc p).seq rt hrt hpres ops
  refine ⟨hinv.hashes, hinv.processed, by rw [hinv.hashes], ?_, ?_⟩
  · intro ro
    obtain ⟨h, ho, h1, h2, _, h4⟩ := hinv.open_ rt hrt ro
    have hs : ∀ i, sigFor w s'.disk h i = c[i]?.map DS.hashes := fun i => by
      rw [sigFor_eq h h1 h4 i, hsig i]
    refine ⟨h, ho, h1, by rw [h2, hlen], hs, ?_⟩
    rw [hinv.hashes, funext hs]
  · intro h hh
    obtain ⟨h1, h2, h4⟩ := hinv.handle h hh
    have hs : ∀ i, sigFor w s'.disk h i = c[i]?.map DS.hashes := fun i => by
      rw [sigFor_eq h h1 h4 i, hsig i]
    refine ⟨h1, by rw [h2, hlen], hs, ?_⟩
    rw [hinv.hashes, funext hs]

/-- non-vacuity of `reopen_unchanged`: internalize, close, move, reopen read-only -/
example :
    let w : World := [(0, [1, 2]), (1, [2])]
    ((reopenSeq some w { disk := cleanBuild exColl .fs } [.openRw, .intern, .close, .move, .openRo]).2
      = [.ok, .ok, .ok, .ok, .ok]) := by decide

/-- a reopened / internalized / moved index is still a fixed point of the build: re-running
`create` on it (any order) rewrites the same HASHES and PROCESSED and keeps STORAGE -/
theorem rerun_after_reopen (rt : Manifest → Option Manifest) (hrt : ∀ m, rt m = some m)
    (w : World) (c : Coll) (sp : Spec) (p : Nat) (ops : List ROp) (L : List Write)
    (hw : ∀ d (hd : d < c.length), w.load c[d].loc = some c[d].hashes) :
    let s' := (reopenSeq rt w { disk := cleanBuild c .fs, handle := none, path := p } ops).1
    IsLin c (loadProcessed s'.disk true 0) L →
    run s'.disk (L ++ metaLog c sp) = cleanState c sp s'.disk.storage := by
  intro s' hL
  have hpres : Present w c.manifest := by
    intro loc hl
    simp only [Coll.manifest, List.mem_map] at hl
    obtain ⟨ds, hds, e⟩ := hl
    obtain ⟨i, hi, e2⟩ := List.getElem_of_mem hds
    rw [← e, ← e2, hw i hi]
    rfl
  have hinv : SInv w c.manifest (cleanBuild c .fs) s' :=
    (SInv.init (completed_cleanBuild w c) p).seq rt hrt hpres ops
  have hclean := (clean_any_order c .fs _ (isLin_seqLog c [])).2
  have hi0 : Inv c (cleanBuild c .fs) := by
    have := inv_clean_prefix c [] .fs []
    rw [List.append_nil] at this
    rw [hclean]; exact this
  have hps : s'.disk.procSet = (cleanBuild c .fs).procSet := by
    unfold Disk.procSet; rw [hinv.processed]
  have hi : Inv c s'.disk :=
    { sortedH := by rw [hinv.hashes]; exact hi0.sortedH
      sortedP := by rw [hps]; exact hi0.sortedP
      procNE := by rw [hinv.processed]; exact hi0.procNE
      marker := by intro d hd; rw [hps] at hd; rw [hinv.hashes]; exact hi0.marker d hd
      sound := by intro h d hm; rw [hinv.hashes] at hm; exact hi0.sound h d hm
      manifestOK := by
        intro m hm
        rw [hinv.manifest] at hm
        rw [hps]
        apply hi0.manifestOK m
        rw [hclean]
        exact hm }
  exact run_complete sp hi (agrees_create _ 0) hL

/-! ### extension histories: `update` between reopen sequences, internal locations renumbered -/

/-- **T-extend-history**: take the completed index of `c₁` (signatures held by the outside world `w₁`),
run ANY sequence `ops₁` of `flush` / `close` / `open` / `internalize_storage` / move on it that leaves a
read-write handle open, then `update` with a collection `c₂` that extends `c₁` position by position
(`Extends`: the same sketches at the same positions) but names its blobs as it likes — in particular a
location of `c₁` may name ANOTHER sketch in `c₂`, as happens when `Collection::from_sigs` renumbers
(`w₂` is the storage of `c₂`; `sup = true`: the rows agree, `check_superset` does not compare locations) —
then ANY sequence `ops₂`, e.g. internalize again, close, move, reopen.  Then the update is accepted and
ends in the completed index of `c₂`, and afterwards — whatever STORAGE held under the reused locations —
* HASHES / PROCESSED are the reference of `c₂`, `counter_for_query` answers from it;
* opening succeeds with the manifest of `c₂`, and through that handle as through a handle still open,
  `sig_for_dataset i` is dataset `i`'s own sketch (not a stale blob of `c₁` stored under the same
  location) and `gather` is the gather of the reference. -/
theorem extend_history (rt : Manifest → Option Manifest) (hrt : ∀ m, rt m = some m)
    (w₁ w₂ : World) (c₁ c₂ : Coll) (sp : Spec) (st : Store)
    (he : Extends c₁ c₂) (hw₁ : Serves w₁ c₁) (hw₂ : Serves w₂ c₂)
    (hc : Completed w₁ c₁.manifest (cleanState c₁ sp st)) (p : Nat) (ops₁ ops₂ : List ROp) (q : List Nat) :
    let s₁ := (reopenSeq rt w₁ { disk := cleanState c₁ sp st, handle := none, path := p } ops₁).1
    ∀ h, s₁.handle = some h → h.readOnly = false →
      (extendSess true s₁ c₂ .fs).2 = .ok ∧
      (extendSess true s₁ c₂ .fs).1.disk = cleanState c₂ .fs s₁.disk.storage ∧
      let s₂ := (reopenSeq rt w₂ (extendSess true s₁ c₂ .fs).1 ops₂).1
      s₂.disk.hashes = graph c₂ ∧
      s₂.disk.processed = (cleanState c₂ .fs []).processed ∧
      counterFor s₂.disk.hashes q = counterFor (graph c₂) q ∧
      (∀ ro, ∃ h', openIdx rt s₂.disk ro = some h' ∧ h'.manifest = c₂.manifest ∧
          (∀ i, sigFor w₂ s₂.disk h' i = c₂[i]?.map DS.hashes) ∧
          gather s₂.disk.hashes (sigFor w₂ s₂.disk h') q = gather (graph c₂) (fun i => c₂[i]?.map DS.hashes) q) ∧
      (∀ h', s₂.handle = some h' → h'.manifest = c₂.manifest ∧
          (∀ i, sigFor w₂ s₂.disk h' i = c₂[i]?.map DS.hashes) ∧
          gather s₂.disk.hashes (sigFor w₂ s₂.disk h') q = gather (graph c₂) (fun i => c₂[i]?.map DS.hashes) q) := by
  intro s₁ h hh hrw
  have hinv₁ : SInv w₁ c₁.manifest (cleanState c₁ sp st) s₁ :=
    (SInv.init hc p).seq rt hrt (present_of_serves hw₁) ops₁
  have hext := extendSess_ok he hinv₁ h hh hrw .fs
  rw [hext]
  refine ⟨rfl, rfl, ?_⟩
  intro s₂
  have hinv₂ : SInv w₂ c₂.manifest (cleanState c₂ .fs s₁.disk.storage) s₂ :=
    (SInv.after_extend w₂ c₂ s₁.disk.storage s₁.path).seq rt hrt (present_of_serves hw₂) ops₂
  have ha := hinv₂.answers rt hrt hw₂ q
  exact ⟨hinv₂.hashes, hinv₂.processed, by rw [hinv₂.hashes]; rfl, ha.1, ha.2⟩

/-- non-vacuity of `extend_history`: two datasets under locations 0, 1, internalized; extended to three
datasets under locations 1, 2, 0 (location 1 held dataset 1 and now names dataset 0, location 0 held
dataset 0 and now names dataset 2); internalized again, closed, moved, reopened read-only: every dataset
is served its own sketch -/
def exExtC1 : Coll := [⟨0, [1, 2]⟩, ⟨1, [2]⟩]
def exExtC2 : Coll := [⟨1, [1, 2]⟩, ⟨2, [2]⟩, ⟨0, [5]⟩]
def exExtW1 : World := [(0, [1, 2]), (1, [2])]
def exExtW2 : World := [(1, [1, 2]), (2, [2]), (0, [5])]
def exExtA : Sess := (reopenSeq some exExtW1 { disk := cleanBuild exExtC1 .fs } [.openRw, .intern]).1
def exExtB : Sess := (reopenSeq some exExtW2 (extendSess true exExtA exExtC2 .fs).1 [.intern, .close, .move, .openRo]).1
example : Extends exExtC1 exExtC2 := ⟨by decide, by decide⟩
example : exExtA.disk.storage.load 1 = some [2] ∧ (exExtA.handle.map (·.readOnly)) = some false := by decide
example : (extendSess true exExtA exExtC2 .fs).2 = .ok := by decide
example : exExtB.disk.storage.load 1 = some [1, 2] ∧ exExtB.disk.storage.load 0 = some [5] ∧
    (exExtB.handle.map (fun h => (List.range 3).map (sigFor exExtW2 exExtB.disk h)))
      = some [some [1, 2], some [2], some [5]] := by decide

/-! ### closed forms: the CSV round trip discharged by C12

`resume_extension`, `reopen_unchanged` and `rerun_after_reopen` take the manifest's trip through its
CSV encoding as a parameter `rt` with the hypothesis `hrt : ∀ m, rt m = some m`.  C10's model
abstracts a manifest row to its internal location (`Manifest = List Nat`), C12's theorem
(`Sourmash.C12.csv_roundtrip`) is about full eleven-column rows, so the two do not connect literally;
they connect through an *interpretation* of the abstract locations as full rows
(`Lemmas/CrashCsv.lean`, where the abstraction is spelled out): `enc n` is the row behind location `n`,
`dec` reads the location back, and `csvTrip enc dec` = encode, `Manifest::to_writer`,
`Manifest::from_reader`, project.  Below, `rt` is instantiated with `csvTrip enc dec` and `hrt` is
*proved* from C12's theorem (`csvTrip_id`) for every interpretation that is faithful
(`dec (enc n) = n`) and whose rows' integer columns fit their Rust types (`RowFits`) — whatever bytes
the seven string columns contain.  No round-trip hypothesis is left. -/

/-- **T-resume for extensions**, closed (see `resume_extension`; `hrt` discharged by C12). -/
theorem resume_extension_csv (enc : Nat → Select.Record) (dec : Select.Record → Nat)
    (hdec : ∀ n, dec (enc n) = n) (hfit : ∀ n, RowFits (enc n))
    (c1 ext : Coll) (sp : Spec) (st : Store) (s : Disk)
    (hr : Reach (c1 ++ ext) sp (cleanState c1 sp st) s) :
    (∃ h, openIdx (csvTrip enc dec) s false = some h ∧ Agrees h.processed s ∧
        updateLog h (c1 ++ ext) sp = some (seqLog (c1 ++ ext) h.processed ++ metaLog (c1 ++ ext) sp) ∧
        ∀ L, IsLin (c1 ++ ext) h.processed L →
          run s (L ++ metaLog (c1 ++ ext) sp) = cleanState (c1 ++ ext) sp st) ∧
    (∀ L, IsLin (c1 ++ ext) (loadProcessed s true 0) L →
          run s (L ++ metaLog (c1 ++ ext) sp) = cleanState (c1 ++ ext) sp st) ∧
    (∀ L, IsLin (c1 ++ ext) (loadProcessed (cleanState c1 sp st) true 0) L →
          run (cleanState c1 sp st) (L ++ metaLog (c1 ++ ext) sp) = cleanState (c1 ++ ext) sp st) :=
  resume_extension (csvTrip enc dec) (csvTrip_id enc dec hdec hfit) c1 ext sp st s hr

/-- non-vacuity of the interpretation hypotheses (the example interpretation of `Lemmas/CrashCsv.lean`
over a default row), and the reopened extension of `resume_extension`'s example read through the real
CSV trip -/
example : (∀ n, exDec (exEnc default n) = n) ∧ (∀ n, RowFits (exEnc default n)) :=
  ⟨exEnc_faithful default, exEnc_fits default rowFits_default⟩
example : ∃ h, openIdx (csvTrip (exEnc default) exDec) (crashAt (cleanBuild [⟨0, [1, 2]⟩] .fs)
        (seqLog exColl [0] ++ metaLog exColl .fs) 1) false = some h :=
  (resume_extension_csv (exEnc default) exDec (exEnc_faithful default) (exEnc_fits default rowFits_default)
    [⟨0, [1, 2]⟩] [⟨1, [2]⟩] .fs [] _
    (Reach.round 1 Reach.start (agrees_create _ 0) (isLin_seqLog _ _))).1.imp (fun _ h => h.1)

/-- **T-reopen**, closed (see `reopen_unchanged`; `hrt` discharged by C12): for every faithful
interpretation of the locations as rows whose integer columns fit their types, any sequence of
`flush` / `close` / `open(ro)` / `open(rw)` / `internalize_storage` / move on a completed index leaves
HASHES and PROCESSED as they were, and opening — through the real CSV trip — succeeds with the same
manifest, the same processed set, the same `sig_for_dataset`, `counter_for_query` and `gather`. -/
theorem reopen_unchanged_csv (enc : Nat → Select.Record) (dec : Select.Record → Nat)
    (hdec : ∀ n, dec (enc n) = n) (hfit : ∀ n, RowFits (enc n))
    (w : World) (c : Coll) (d0 : Disk)
    (hw : ∀ d (hd : d < c.length), w.load c[d].loc = some c[d].hashes)
    (hc : Completed w c.manifest d0) (p : Nat) (ops : List ROp) (q : List Nat) :
    let s' := (reopenSeq (csvTrip enc dec) w { disk := d0, handle := none, path := p } ops).1
    s'.disk.hashes = d0.hashes ∧ s'.disk.processed = d0.processed ∧
    counterFor s'.disk.hashes q = counterFor d0.hashes q ∧
    (∀ ro, ∃ h, openIdx (csvTrip enc dec) s'.disk ro = some h ∧ h.manifest = c.manifest ∧
        h.processed = loadProcessed d0 false c.length ∧
        (∀ i, sigFor w s'.disk h i = c[i]?.map DS.hashes) ∧
        gather s'.disk.hashes (sigFor w s'.disk h) q = gather d0.hashes (fun i => c[i]?.map DS.hashes) q) ∧
    (∀ h, s'.handle = some h → h.manifest = c.manifest ∧
        h.processed = loadProcessed d0 false c.length ∧
        (∀ i, sigFor w s'.disk h i = c[i]?.map DS.hashes) ∧
        gather s'.disk.hashes (sigFor w s'.disk h) q = gather d0.hashes (fun i => c[i]?.map DS.hashes) q) :=
  reopen_unchanged (csvTrip enc dec) (csvTrip_id enc dec hdec hfit) w c d0 hw hc p ops q

/-- non-vacuity of `reopen_unchanged_csv`: the world holds the example collection's signatures, its
clean build is `Completed`, and the interpretation hypotheses hold (previous example) -/
example :
    let w : World := [(0, [1, 2]), (1, [2])]
    (∀ d (hd : d < exColl.length), w.load exColl[d].loc = some exColl[d].hashes) ∧
    Completed w exColl.manifest (cleanBuild exColl .fs) :=
  ⟨by decide, completed_cleanBuild _ exColl⟩
/-- … and the sequence of `reopen_unchanged`'s example run through the real CSV trip (the manifest is
written with `Manifest::to_writer` and parsed back with `Manifest::from_reader` at both opens) -/
example : csvTrip (exEnc default) exDec [0, 1, 2] = some [0, 1, 2] := by decide +kernel
example :
    let w : World := [(0, [1, 2]), (1, [2])]
    ((reopenSeq (csvTrip (exEnc default) exDec) w { disk := cleanBuild exColl .fs }
        [.openRw, .intern, .close, .move, .openRo]).2 = [.ok, .ok, .ok, .ok, .ok]) := by decide +kernel

/-- `rerun_after_reopen`, closed (`hrt` discharged by C12). -/
theorem rerun_after_reopen_csv (enc : Nat → Select.Record) (dec : Select.Record → Nat)
    (hdec : ∀ n, dec (enc n) = n) (hfit : ∀ n, RowFits (enc n))
    (w : World) (c : Coll) (sp : Spec) (p : Nat) (ops : List ROp) (L : List Write)
    (hw : ∀ d (hd : d < c.length), w.load c[d].loc = some c[d].hashes) :
    let s' := (reopenSeq (csvTrip enc dec) w { disk := cleanBuild c .fs, handle := none, path := p } ops).1
    IsLin c (loadProcessed s'.disk true 0) L →
    run s'.disk (L ++ metaLog c sp) = cleanState c sp s'.disk.storage :=
  rerun_after_reopen (csvTrip enc dec) (csvTrip_id enc dec hdec hfit) w c sp p ops L hw
example :
    let w : World := [(0, [1, 2]), (1, [2])]
    (∀ d (hd : d < exColl.length), w.load exColl[d].loc = some exColl[d].hashes) ∧
    IsLin exColl (loadProcessed (cleanBuild exColl .fs) true 0)
      (seqLog exColl (loadProcessed (cleanBuild exColl .fs) true 0)) :=
  ⟨by decide, isLin_seqLog _ _⟩

end Sourmash.C10
