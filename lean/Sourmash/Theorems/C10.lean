import Sourmash.Lemmas.CrashLin
/-! Property C10 — an interrupted or reopened on-disk index never returns wrong answers.
Property theorems only (helper lemmas: `Sourmash/Lemmas/Crash*.lean`; model: `Sourmash/Model/Crash.lean`).

Every statement is universally quantified over the collection `c`, over every linearisation `L` of
the parallel phase (`IsLin`: any interleaving of the datasets' write lists that keeps each
dataset's program order), and over every crash point `k` (`crashAt s log k` = the effect of the
first `k` writes — the model's prefix assumption, see Model/Crash.lean). -/
namespace Sourmash.C10
open Crash

/-- every reachable state satisfies the invariant -/
theorem reach_inv {c : Coll} {sp : Spec} {s0 s : Disk} (h0 : Inv c s0) (h : Reach c sp s0 s) : Inv c s := by
  induction h with
  | start => exact h0
  | round k _ hP hL ih => exact ih.run (closed_prefix sp hP hL k)

/-- **T-marker** (single interrupted build, from an empty directory): in the state left by a kill
after any number `k` of writes of any linearisation, a dataset recorded in PROCESSED has every one
of its hashes indexed under its id, and HASHES attributes a hash to a dataset only if the dataset
contains it (nothing spurious). -/
theorem marker_single (c : Coll) (sp : Spec) (L : List Write) (k : Nat) (hL : IsLin c [] L) :
    let s := crashAt Disk.empty (L ++ metaLog c sp) k
    (∀ d, d ∈ s.procSet → ∀ h, h ∈ c.hashesOf d → d ∈ s.hashesAt h) ∧
    (∀ h d, d ∈ s.hashesAt h → h ∈ c.hashesOf d) := by
  intro s
  have hi : Inv c s := (Inv.empty c).run (closed_prefix sp (P := []) (by intro d; simp [Disk.procSet, Disk.empty]) hL k)
  exact ⟨fun d hd h hh => (mem_hashesAt s h d).mpr ((hi.marker d hd).2 h hh),
         fun h d hd => hi.sound h d ((mem_hashesAt s h d).mp hd)⟩

example : IsLin [⟨0, [1, 2]⟩, ⟨1, [2]⟩] [] (seqLog [⟨0, [1, 2]⟩, ⟨1, [2]⟩] []) := isLin_seqLog _ _

/-- **T-marker, iterated**: the same in every state reachable by any number of kill / re-run
rounds (each with its own linearisation and crash point). -/
theorem marker_reach (c : Coll) (sp : Spec) (s : Disk) (h : Reach c sp Disk.empty s) :
    (∀ d, d ∈ s.procSet → d < c.length ∧ ∀ h, h ∈ c.hashesOf d → d ∈ s.hashesAt h) ∧
    (∀ h d, d ∈ s.hashesAt h → h ∈ c.hashesOf d) := by
  have hi := reach_inv (Inv.empty c) h
  exact ⟨fun d hd => ⟨(hi.marker d hd).1, fun h hh => (mem_hashesAt s h d).mpr ((hi.marker d hd).2 h hh)⟩,
         fun h d hd => hi.sound h d ((mem_hashesAt s h d).mp hd)⟩

/-- an uninterrupted build ends in the same state whatever the interleaving of the datasets, and
that state is the reference: `HASHES = {(h,d) : h ∈ D_d}`, every dataset processed, metadata saved -/
theorem clean_any_order (c : Coll) (sp : Spec) (L : List Write) (hL : IsLin c [] L) :
    run Disk.empty (L ++ metaLog c sp) = cleanBuild c sp ∧ cleanBuild c sp = cleanState c sp [] := by
  have hA : Agrees [] Disk.empty := by intro d; simp [Disk.procSet, Disk.empty]
  have h1 := run_complete sp (Inv.empty c) hA hL
  have h2 := run_complete sp (Inv.empty c) hA (isLin_seqLog c [])
  exact ⟨h1.trans h2.symm, h2⟩

/-- **T-resume** (one kill): for every linearisation `L` and every crash point `k` of a build into
an empty directory, re-running `create` on what the kill left — processed set reloaded, finished
datasets skipped, ALL writes of every other dataset re-issued in any order `L'` (half-written
datasets are merged again; union is idempotent) — ends in exactly the state of the uninterrupted
build. -/
theorem resume_single (c : Coll) (sp : Spec) (L L' : List Write) (k : Nat) (hL : IsLin c [] L) :
    let s := crashAt Disk.empty (L ++ metaLog c sp) k
    IsLin c (loadProcessed s true 0) L' →
    run s (L' ++ metaLog c sp) = cleanBuild c sp := by
  intro s hL'
  have hA : Agrees [] Disk.empty := by intro d; simp [Disk.procSet, Disk.empty]
  have hi : Inv c s := (Inv.empty c).run (closed_prefix sp hA hL k)
  have h1 := run_complete sp hi (agrees_create s 0) hL'
  have hst : s.storage = [] := by simp [s, crashAt, storage_run, Disk.empty]
  rw [h1, hst]
  exact (clean_any_order c sp _ (isLin_seqLog c [])).2.symm

/-- non-vacuity of `resume_single`: a two-dataset collection killed between the last hash write of
dataset 0 and its marker (k = 2), and resumed -/
def exColl : Coll := [⟨0, [1, 2]⟩, ⟨1, [2]⟩]
def exCrash : Disk := crashAt Disk.empty (seqLog exColl [] ++ metaLog exColl .fs) 2
example : exCrash.processed = none ∧ exCrash.hashes = [(1, 0), (2, 0)] ∧
    run exCrash (seqLog exColl (loadProcessed exCrash true 0) ++ metaLog exColl .fs) = cleanBuild exColl .fs := by
  decide

/-- **T-resume, iterated**: after ANY number of kill / re-run rounds (every round with its own
linearisation and its own crash point, including kills during a resume, between a dataset's last
hash write and its marker, between the metadata puts, and before/after compaction), one run that
is allowed to finish ends in exactly the state of the uninterrupted build. -/
theorem resume_iterated (c : Coll) (sp : Spec) (s : Disk) (L : List Write)
    (hr : Reach c sp Disk.empty s) (hL : IsLin c (loadProcessed s true 0) L) :
    run s (L ++ metaLog c sp) = cleanBuild c sp := by
  have hi := reach_inv (Inv.empty c) hr
  have hst : s.storage = [] := by
    clear hL hi
    induction hr with
    | start => rfl
    | round k _ _ _ ih => simp [crashAt, storage_run, ih]
  rw [run_complete sp hi (agrees_create s 0) hL, hst]
  exact (clean_any_order c sp _ (isLin_seqLog c [])).2.symm

/-- a completed index is a fixed point of the build: running `create` again writes nothing new -/
theorem rerun_complete (c : Coll) (sp : Spec) (L : List Write)
    (hL : IsLin c (loadProcessed (cleanBuild c sp) true 0) L) :
    run (cleanBuild c sp) (L ++ metaLog c sp) = cleanBuild c sp := by
  have hA : Agrees [] Disk.empty := by intro d; simp [Disk.procSet, Disk.empty]
  have hr : Reach c sp Disk.empty (cleanBuild c sp) := by
    have := Reach.round (c := c) (sp := sp) (s0 := Disk.empty) ((seqLog c [] ++ metaLog c sp).length)
      Reach.start hA (isLin_seqLog c [])
    unfold crashAt at this
    rw [List.take_length] at this
    exact this
  exact resume_iterated c sp _ L hr hL

/-- **Corollary (no dataset lost, skipped or counted twice)**: after any kill / re-run history the
finished index answers `counter_for_query` exactly like the uninterrupted build, and that answer is:
one entry per dataset whose overlap with the query is non-empty, holding the size of the overlap
`|q ∩ D_d|` — no entry twice (`keys strictly increasing`). -/
theorem counter_after_resume (c : Coll) (sp : Spec) (s : Disk) (L : List Write) (q : List Nat)
    (hr : Reach c sp Disk.empty s) (hL : IsLin c (loadProcessed s true 0) L) :
    let final := run s (L ++ metaLog c sp)
    counterFor final.hashes q = counterFor (cleanBuild c sp).hashes q ∧
    (∀ d k, (d, k) ∈ counterFor final.hashes q ↔
        k = (q.filter (fun h => (c.hashesOf d).contains h)).length ∧ k ≠ 0) ∧
    Sorted ((counterFor final.hashes q).map (·.1)) := by
  intro final
  have hf : final = cleanBuild c sp := resume_iterated c sp s L hr hL
  have hg : (cleanBuild c sp).hashes = graph c := by
    rw [(clean_any_order c sp _ (isLin_seqLog c [])).2]; rfl
  refine ⟨by rw [hf], ?_, counterFor_keys_sorted _ _⟩
  intro d k
  rw [hf, hg, mem_counterFor, countFor_graph]

end Sourmash.C10
