import Sourmash.Lemmas.Gather
/-! Property C08 — gather returns the greedy minimum set cover with consistent statistics.
Property theorems only; helper lemmas live in `Sourmash/Lemmas/Gather*.lean`. -/
namespace Sourmash.C08
open Gather

/-- T-threshold (one round): a reported match has a counter value that meets the threshold and is
    positive, and the round only started because the previous match size exceeded the threshold. -/
theorem reported_meets_threshold {c : Cfg} {s s' : St} {row : Row}
    (h : step c s = some (row, s')) :
    row.size ≥ c.threshold ∧ row.size > 0 ∧ s.matchSize > c.threshold := by
  obtain ⟨d, size, h1, _, _, h4, h5, hrow, _⟩ := step_some h
  subst hrow
  exact ⟨h4, Nat.pos_of_ne_zero h5, h1⟩

example : ∃ c s s' row, step c s = some (row, s') :=
  ⟨{ dsets := [[1, 2]], scaled := 1, threshold := 0, track := false, orig := [(1, 1)] },
   init { dsets := [[1, 2]], scaled := 1, threshold := 0, track := false, orig := [(1, 1)] }, _, _, rfl⟩

end Sourmash.C08
