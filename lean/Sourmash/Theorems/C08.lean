import Sourmash.Lemmas.GatherRun
/-! Property C08 — gather returns the greedy minimum set cover with consistent statistics.
Property theorems only; helper lemmas live in `Sourmash/Lemmas/Gather*.lean`.

Vocabulary (`Sourmash/Model/Gather.lean`, `Sourmash/Lemmas/GatherInv.lean`):
`trace c` = the rounds of `prepare_gather_counters` + `gather`, each as (state the round started from,
reported row); `gather c` = the rows; `stopState c` = the state the loop stops in;
`ov c d rem` = `|D_d ∩ rem|` computed from scratch; `minus c ds` = the query without the hashes of the
datasets `ds`; `Sketches c` = every dataset and the query are strictly increasing hash lists.
A position of the run is written `trace c = pre ++ p :: post`. -/
namespace Sourmash.C08
open Gather

/-- a collection with a tie (datasets 0 and 1), a nested dataset (2 ⊆ 0), a duplicate (3 = 1) and a
    dataset disjoint from the query (4); used by the non-vacuity examples -/
def exCfg : Cfg :=
  { dsets := [[1, 2, 3], [3, 4, 5], [2, 3], [3, 4, 5], [9]], scaled := 2, threshold := 0, track := true,
    orig := [(1, 1), (2, 7), (3, 1), (4, 2), (5, 1), (6, 3)] }

theorem exCfg_sketches : Sketches exCfg := by
  constructor
  · intro D hD
    simp only [exCfg, List.mem_cons, List.mem_nil_iff, or_false] at hD
    rcases hD with rfl | rfl | rfl | rfl | rfl <;> decide
  · decide

/-- the example gathers datasets 0 (tie with 1 broken to the lowest id), then 1 -/
theorem exCfg_rows : (gather exCfg).map (fun r => (r.d, r.size, r.isect)) = [(0, 3, [1, 2, 3]), (1, 2, [4, 5])] := by
  decide

/-! ## T-threshold -/

/-- T-threshold (one round): a reported match has a counter value that meets the threshold and is
    positive, and the round only started because the previous match size exceeded the threshold. -/
theorem reported_meets_threshold {c : Cfg} {s s' : St} {row : Row}
    (h : step c s = some (row, s')) :
    row.size ≥ c.threshold ∧ row.size > 0 ∧ s.matchSize > c.threshold := by
  obtain ⟨d, size, h1, _, _, h4, h5, hrow, _⟩ := step_some h
  subst hrow
  exact ⟨h4, Nat.pos_of_ne_zero h5, h1⟩

example : ∃ s s' row, step exCfg s = some (row, s') := ⟨init exCfg, _, _, rfl⟩

/-- T-threshold: every reported overlap meets the threshold (and is positive) -/
theorem overlaps_meet_threshold {c : Cfg} (hc : Sketches c) {p : St × Row} (hp : p ∈ trace c) :
    p.2.size ≥ c.threshold ∧ p.2.size > 0 := by
  obtain ⟨_, s', hstep⟩ := run_inv hc.wf _ (inv_init hc.wf) p hp
  have := reported_meets_threshold hstep
  exact ⟨this.1, this.2.1⟩

example : ∃ p, p ∈ trace exCfg := ⟨_, List.mem_of_getElem? (i := 0) rfl⟩

/-- T-threshold: the sequence of reported overlaps is non-increasing -/
theorem overlaps_nonincreasing {c : Cfg} (hc : Sketches c) {pre post : List (St × Row)} {p : St × Row}
    (ht : trace c = pre ++ p :: post) : ∀ p' ∈ post, p'.2.size ≤ p.2.size := by
  obtain ⟨⟨f', hrun⟩, _, _⟩ := run_split hc.wf ht (inv_init hc.wf)
  obtain ⟨_, f'', s2, _, hstep, hpost⟩ := run_cons hrun
  rw [hpost]
  exact run_sizes_le _ _ (step_counter_le hstep)

/-- T-threshold: a match with overlap exactly the threshold is the last one -/
theorem match_at_threshold_is_last {c : Cfg} (hc : Sketches c) {pre post : List (St × Row)} {p : St × Row}
    (ht : trace c = pre ++ p :: post) (heq : p.2.size = c.threshold) : post = [] := by
  obtain ⟨⟨f', hrun⟩, _, _⟩ := run_split hc.wf ht (inv_init hc.wf)
  obtain ⟨_, f'', s2, _, hstep, hpost⟩ := run_cons hrun
  rw [hpost]
  exact step_at_threshold_last hstep heq _

example : ∃ pre p post, trace exCfg = pre ++ p :: post ∧ post ≠ [] :=
  ⟨[], _, _, rfl, by decide⟩
example : ∃ pre p post, trace { exCfg with threshold := 3 } = pre ++ p :: post ∧ p.2.size = 3 :=
  ⟨[], _, _, rfl, by decide⟩

/-- T-threshold (stop rule): with the model's fuel the loop has really stopped (no further round is
    possible), and it stops only when the last reported overlap is exactly the threshold (or the
    threshold is `usize::MAX`), or when no unreported dataset has a positive overlap that meets the
    threshold. -/
theorem stop_rule {c : Cfg} (hc : Sketches c) :
    step c (stopState c) = none ∧
    (((gather c).map (·.size)).getLast? = some c.threshold ∨ 2 ^ 64 - 1 ≤ c.threshold ∨
      ∀ d, d ∉ (gather c).map (·.d) → ov c d (stopState c).remaining < c.threshold ∨ ov c d (stopState c).remaining = 0) := by
  unfold stopState
  have hstop := final_stopped c
  have hi : Inv c (final c (fuel c) (init c)) := final_inv hc.wf _ (inv_init hc.wf)
  have hfr := final_reported (c := c) (fuel c) (init c)
  have hrep : (final c (fuel c) (init c)).reported = (gather c).map (·.d) := by
    rw [hfr.1]; simp [init, gather, trace, List.map_map, Function.comp_def]
  have hsz : (final c (fuel c) (init c)).matchSize = (((gather c).map (·.size)).getLast?).getD (2 ^ 64 - 1) := by
    rw [hfr.2]; simp [init, gather, trace, List.map_map, Function.comp_def]
  refine ⟨hstop, ?_⟩
  rcases stopped hi hstop with h1 | h1
  · rw [hsz] at h1
    cases hl : ((gather c).map (·.size)).getLast? with
    | none => rw [hl] at h1; exact Or.inr (Or.inl h1)
    | some x =>
      rw [hl] at h1
      left
      -- the last reported size meets the threshold
      have hmem : x ∈ (gather c).map (·.size) := List.mem_of_getLast? hl
      obtain ⟨r, hr, rfl⟩ := List.mem_map.mp hmem
      obtain ⟨p, hp, rfl⟩ := List.mem_map.mp hr
      have := (overlaps_meet_threshold hc hp).1
      simp only [Option.getD_some] at h1
      congr 1
      omega
  · rw [hrep] at h1
    exact Or.inr (Or.inr h1)

/-- T-threshold (stop rule, as the property words it): when the loop stops, no unreported dataset's
    overlap with the remaining query exceeds the threshold (query sizes fit a `usize`) -/
theorem stop_nothing_exceeds {c : Cfg} (hc : Sketches c) (hq : c.orig.length < 2 ^ 64) :
    ∀ d, d ∉ (gather c).map (·.d) → ov c d (stopState c).remaining ≤ c.threshold := by
  intro d hd
  have hstop := stop_rule hc
  unfold stopState at hstop ⊢
  have hi : Inv c (final c (fuel c) (init c)) := final_inv hc.wf _ (inv_init hc.wf)
  have hfr := final_reported (c := c) (fuel c) (init c)
  have hrep : (final c (fuel c) (init c)).reported = (gather c).map (·.d) := by
    rw [hfr.1]; simp [init, gather, trace, List.map_map, Function.comp_def]
  have hle : ov c d (final c (fuel c) (init c)).remaining ≤ c.orig.length := by
    have h1 : ov c d (final c (fuel c) (init c)).remaining = (isectL (keys (final c (fuel c) (init c)).remaining) (dsOf c.dsets d)).length := by
      unfold ov
      exact isectL_length_comm (dsOf_nodup hc.wf d) (by rw [hi.rem]; exact keys_minus_nodup hc.wf _)
    have h2 : (isectL (keys (final c (fuel c) (init c)).remaining) (dsOf c.dsets d)).length ≤ (keys (final c (fuel c) (init c)).remaining).length :=
      List.length_filter_le _ _
    have h3 : (keys (final c (fuel c) (init c)).remaining).length ≤ c.orig.length := by
      rw [hi.rem]; simp only [keys, List.length_map, minus]; exact List.length_filter_le _ _
    omega
  rcases hstop with ⟨_, h1 | h1 | h1⟩
  · -- last match exactly at the threshold: every counter is bounded by it
    have hne : (final c (fuel c) (init c)).reported ≠ [] := by
      rw [hrep]; intro h; rw [List.map_eq_nil_iff] at h; simp [h] at h1
    have hsz : (final c (fuel c) (init c)).matchSize = c.threshold := by
      rw [hfr.2]
      have : (List.map (fun x => x.2.size) (run c (fuel c) (init c))) = (gather c).map (·.size) := by
        simp [gather, trace, List.map_map, Function.comp_def]
      rw [this, h1]; rfl
    by_cases hk : d ∈ keys (final c (fuel c) (init c)).counter
    · obtain ⟨e, he, rfl⟩ := List.mem_map.mp hk
      have := hi.bound hne e he
      rw [← hi.cnt e he]
      show e.2 ≤ c.threshold
      omega
    · rcases hi.absent d hk with h2 | h2
      · rw [hrep] at h2; exact absurd h2 hd
      · show ov c d (final c (fuel c) (init c)).remaining ≤ c.threshold
        omega
  · show ov c d (final c (fuel c) (init c)).remaining ≤ c.threshold
    omega
  · have := h1 d hd
    show ov c d (final c (fuel c) (init c)).remaining ≤ c.threshold
    omega

example : Sketches exCfg ∧ exCfg.orig.length < 2 ^ 64 := ⟨exCfg_sketches, by decide⟩

/-! ## T-inv -/

/-- T-inv: at the start of every round, `counter[d] = |D_d ∩ remaining|` for every `d` in the counter -/
theorem counter_invariant {c : Cfg} (hc : Sketches c) {p : St × Row} (hp : p ∈ trace c) :
    ∀ e ∈ p.1.counter, e.2 = (isectL (dsOf c.dsets e.1) (p.1.remaining.map (·.1))).length :=
  (run_inv hc.wf _ (inv_init hc.wf) p hp).1.cnt

/-- T-inv: … and in the state the loop stops in -/
theorem counter_invariant_final {c : Cfg} (hc : Sketches c) :
    ∀ e ∈ (stopState c).counter,
      e.2 = (isectL (dsOf c.dsets e.1) ((stopState c).remaining.map (·.1))).length :=
  (final_inv hc.wf _ (inv_init hc.wf)).cnt

/-- T-inv: … and in every state reachable by rounds from a state satisfying the invariant (one round) -/
theorem counter_invariant_step {c : Cfg} (hc : Sketches c) {s s' : St} {row : Row} (hi : Inv c s)
    (h : step c s = some (row, s')) : Inv c s' := inv_step hc.wf hi h

example : Inv exCfg (init exCfg) := inv_init exCfg_sketches.wf

/-- the state of round `k`: the reported datasets are those of the rows before it, and the remaining
    query is the original query minus their hashes -/
theorem round_state {c : Cfg} (hc : Sketches c) {pre post : List (St × Row)} {p : St × Row}
    (ht : trace c = pre ++ p :: post) :
    p.1.reported = pre.map (·.2.d) ∧ p.1.remaining = minus c (pre.map (·.2.d)) := by
  obtain ⟨_, hi, hrep⟩ := run_split hc.wf ht (inv_init hc.wf)
  have : p.1.reported = pre.map (·.2.d) := by rw [hrep]; simp [init]
  exact ⟨this, by rw [hi.rem, this]⟩

/-! ## T-greedy -/

/-- T-greedy: the dataset reported in a round exists, was not reported before, and maximises
    `|D ∩ remaining|` among the unreported datasets, ties going to the lowest id -/
theorem greedy_choice {c : Cfg} (hc : Sketches c) {p : St × Row} (hp : p ∈ trace c) :
    p.2.d < c.dsets.length ∧ p.2.d ∉ p.1.reported ∧
    ∀ d', d' ∉ p.1.reported →
      ov c d' p.1.remaining < ov c p.2.d p.1.remaining ∨
      (ov c d' p.1.remaining = ov c p.2.d p.1.remaining ∧ p.2.d ≤ d') := by
  obtain ⟨hi, s', hstep⟩ := run_inv hc.wf _ (inv_init hc.wf) p hp
  exact step_greedy hi hstep

/-! ## T-unique -/

/-- T-unique: the reported intersection is `match ∩ remaining`, its size is the reported unique overlap
    (`unique_intersect_bp = scaled · |isect|`), and the counter value used as the numerator of `f_match`
    equals it -/
theorem unique_eq_counter {c : Cfg} (hc : Sketches c) {p : St × Row} (hp : p ∈ trace c) :
    p.2.isect = isectL (dsOf c.dsets p.2.d) (p.1.remaining.map (·.1)) ∧
    p.2.uniqueBp = c.scaled * p.2.isect.length ∧
    p.2.fMatch = (p.2.isect.length, (dsOf c.dsets p.2.d).length) ∧
    p.2.size = p.2.isect.length := by
  obtain ⟨hi, s', hstep⟩ := run_inv hc.wf _ (inv_init hc.wf) p hp
  obtain ⟨_, _, h3, h4⟩ := step_choice hi hstep
  obtain ⟨d, size, _, _, _, _, _, hrow, _⟩ := step_some hstep
  refine ⟨h3, by rw [hrow]; rfl, ?_, h4.symm⟩
  rw [h4]
  rw [hrow]
  rfl

end Sourmash.C08
