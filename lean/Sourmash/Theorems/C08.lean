import Sourmash.Lemmas.GatherRefine
/-! Property C08 — gather returns the greedy minimum set cover with consistent statistics.
Property theorems only; helper lemmas live in `Sourmash/Lemmas/Gather*.lean`.

Vocabulary (`Sourmash/Model/Gather.lean`, `Sourmash/Lemmas/GatherInv.lean`):
`trace c` = the rounds of `prepare_gather_counters` + `gather`, each as (state the round started from,
reported row); `gather c` = the rows; `stopState c` = the state the loop stops in;
`ov c d rem` = `|D_d ∩ rem|` computed from scratch; `minus c ds` = the query without the hashes of the
datasets `ds`; `GatherSpec.abundOf q h` = abundance of hash `h` in query `q` (0 if absent); `Sketches c` = every dataset and the query are strictly increasing hash lists.
A position of the run is written `trace c = pre ++ p :: post`. -/
namespace Sourmash.C08
open Gather

/-- a collection with a tie (datasets 0 and 1), a nested dataset (2 ⊆ 0), a duplicate (3 = 1) and a
    dataset disjoint from the query (4); used by the non-vacuity examples -/
def exCfg : Cfg :=
  { dsets := [[1, 2, 3], [3, 4, 5], [2, 3], [3, 4, 5], [9]], scaled := 2, threshold := 0, track := true,
    orig := [(1, 1), (2, 7), (3, 1), (4, 2), (5, 1), (6, 3)] }

theorem exCfg_sketches : Sketches exCfg := by
  constructor
  · intro D hD
    simp only [exCfg, List.mem_cons, List.mem_nil_iff, or_false] at hD
    rcases hD with rfl | rfl | rfl | rfl | rfl <;> decide
  · decide

/-- the example gathers datasets 0 (tie with 1 broken to the lowest id), then 1 -/
theorem exCfg_rows : (gather exCfg).map (fun r => (r.d, r.size, r.isect)) = [(0, 3, [1, 2, 3]), (1, 2, [4, 5])] := by
  decide

/-! ## T-threshold -/

/-- T-threshold (one round): a reported match has a counter value that meets the threshold and is
    positive, and the round only started because the previous match size exceeded the threshold. -/
theorem reported_meets_threshold {c : Cfg} {s s' : St} {row : Row}
    (h : step c s = some (row, s')) :
    row.size ≥ c.threshold ∧ row.size > 0 ∧ s.matchSize > c.threshold := by
  obtain ⟨d, size, h1, _, _, h4, h5, hrow, _⟩ := step_some h
  subst hrow
  exact ⟨h4, Nat.pos_of_ne_zero h5, h1⟩

example : ∃ s s' row, step exCfg s = some (row, s') := ⟨init exCfg, _, _, rfl⟩

/-- T-threshold: every reported overlap meets the threshold (and is positive) -/
theorem overlaps_meet_threshold {c : Cfg} (hc : Sketches c) {p : St × Row} (hp : p ∈ trace c) :
    p.2.size ≥ c.threshold ∧ p.2.size > 0 := by
  obtain ⟨_, s', hstep⟩ := run_inv hc.wf _ (inv_init hc.wf) p hp
  have := reported_meets_threshold hstep
  exact ⟨this.1, this.2.1⟩

example : ∃ p, p ∈ trace exCfg := ⟨_, List.mem_of_getElem? (i := 0) rfl⟩

/-- T-threshold: the sequence of reported overlaps is non-increasing -/
theorem overlaps_nonincreasing {c : Cfg} (hc : Sketches c) {pre post : List (St × Row)} {p : St × Row}
    (ht : trace c = pre ++ p :: post) : ∀ p' ∈ post, p'.2.size ≤ p.2.size := by
  obtain ⟨⟨f', hrun⟩, _, _⟩ := run_split hc.wf ht (inv_init hc.wf)
  obtain ⟨_, f'', s2, _, hstep, hpost⟩ := run_cons hrun
  rw [hpost]
  exact run_sizes_le _ _ (step_counter_le hstep)

/-- T-threshold: a match with overlap exactly the threshold is the last one -/
theorem match_at_threshold_is_last {c : Cfg} (hc : Sketches c) {pre post : List (St × Row)} {p : St × Row}
    (ht : trace c = pre ++ p :: post) (heq : p.2.size = c.threshold) : post = [] := by
  obtain ⟨⟨f', hrun⟩, _, _⟩ := run_split hc.wf ht (inv_init hc.wf)
  obtain ⟨_, f'', s2, _, hstep, hpost⟩ := run_cons hrun
  rw [hpost]
  exact step_at_threshold_last hstep heq _

example : ∃ pre p post, trace exCfg = pre ++ p :: post ∧ post ≠ [] :=
  ⟨[], _, _, rfl, by decide⟩
example : ∃ pre p post, trace { exCfg with threshold := 3 } = pre ++ p :: post ∧ p.2.size = 3 :=
  ⟨[], _, _, rfl, by decide⟩

/-- T-threshold (stop rule): with the model's fuel the loop has really stopped (no further round is
    possible), and it stops only when the last reported overlap is exactly the threshold (or the
    threshold is `usize::MAX`), or when no unreported dataset has a positive overlap that meets the
    threshold. -/
theorem stop_rule {c : Cfg} (hc : Sketches c) :
    step c (stopState c) = none ∧
    (((gather c).map (·.size)).getLast? = some c.threshold ∨ 2 ^ 64 - 1 ≤ c.threshold ∨
      ∀ d, d ∉ (gather c).map (·.d) → ov c d (stopState c).remaining < c.threshold ∨ ov c d (stopState c).remaining = 0) := by
  unfold stopState
  have hstop := final_stopped c
  have hi : Inv c (final c (fuel c) (init c)) := final_inv hc.wf _ (inv_init hc.wf)
  have hfr := final_reported (c := c) (fuel c) (init c)
  have hrep : (final c (fuel c) (init c)).reported = (gather c).map (·.d) := by
    rw [hfr.1]; simp [init, gather, trace, List.map_map, Function.comp_def]
  have hsz : (final c (fuel c) (init c)).matchSize = (((gather c).map (·.size)).getLast?).getD (2 ^ 64 - 1) := by
    rw [hfr.2]; simp [init, gather, trace, List.map_map, Function.comp_def]
  refine ⟨hstop, ?_⟩
  rcases stopped hi hstop with h1 | h1
  · rw [hsz] at h1
    cases hl : ((gather c).map (·.size)).getLast? with
    | none => rw [hl] at h1; exact Or.inr (Or.inl h1)
    | some x =>
      rw [hl] at h1
      left
      -- the last reported size meets the threshold
      have hmem : x ∈ (gather c).map (·.size) := List.mem_of_getLast? hl
      obtain ⟨r, hr, rfl⟩ := List.mem_map.mp hmem
      obtain ⟨p, hp, rfl⟩ := List.mem_map.mp hr
      have := (overlaps_meet_threshold hc hp).1
      simp only [Option.getD_some] at h1
      congr 1
      omega
  · rw [hrep] at h1
    exact Or.inr (Or.inr h1)

/-- T-threshold (stop rule, as the property words it): when the loop stops, no unreported dataset's
    overlap with the remaining query exceeds the threshold (query sizes fit a `usize`) -/
theorem stop_nothing_exceeds {c : Cfg} (hc : Sketches c) (hq : c.orig.length < 2 ^ 64) :
    ∀ d, d ∉ (gather c).map (·.d) → ov c d (stopState c).remaining ≤ c.threshold := by
  intro d hd
  have hstop := stop_rule hc
  unfold stopState at hstop ⊢
  have hi : Inv c (final c (fuel c) (init c)) := final_inv hc.wf _ (inv_init hc.wf)
  have hfr := final_reported (c := c) (fuel c) (init c)
  have hrep : (final c (fuel c) (init c)).reported = (gather c).map (·.d) := by
    rw [hfr.1]; simp [init, gather, trace, List.map_map, Function.comp_def]
  have hle : ov c d (final c (fuel c) (init c)).remaining ≤ c.orig.length := by
    have h1 : ov c d (final c (fuel c) (init c)).remaining = (isectL (keys (final c (fuel c) (init c)).remaining) (dsOf c.dsets d)).length := by
      unfold ov
      exact isectL_length_comm (dsOf_nodup hc.wf d) (by rw [hi.rem]; exact keys_minus_nodup hc.wf _)
    have h2 : (isectL (keys (final c (fuel c) (init c)).remaining) (dsOf c.dsets d)).length ≤ (keys (final c (fuel c) (init c)).remaining).length :=
      List.length_filter_le _ _
    have h3 : (keys (final c (fuel c) (init c)).remaining).length ≤ c.orig.length := by
      rw [hi.rem]; simp only [keys, List.length_map, minus]; exact List.length_filter_le _ _
    omega
  rcases hstop with ⟨_, h1 | h1 | h1⟩
  · -- last match exactly at the threshold: every counter is bounded by it
    have hne : (final c (fuel c) (init c)).reported ≠ [] := by
      rw [hrep]; intro h; rw [List.map_eq_nil_iff] at h; simp [h] at h1
    have hsz : (final c (fuel c) (init c)).matchSize = c.threshold := by
      rw [hfr.2]
      have : (List.map (fun x => x.2.size) (run c (fuel c) (init c))) = (gather c).map (·.size) := by
        simp [gather, trace, List.map_map, Function.comp_def]
      rw [this, h1]; rfl
    by_cases hk : d ∈ keys (final c (fuel c) (init c)).counter
    · obtain ⟨e, he, rfl⟩ := List.mem_map.mp hk
      have := hi.bound hne e he
      rw [← hi.cnt e he]
      show e.2 ≤ c.threshold
      omega
    · rcases hi.absent d hk with h2 | h2
      · rw [hrep] at h2; exact absurd h2 hd
      · show ov c d (final c (fuel c) (init c)).remaining ≤ c.threshold
        omega
  · show ov c d (final c (fuel c) (init c)).remaining ≤ c.threshold
    omega
  · have := h1 d hd
    show ov c d (final c (fuel c) (init c)).remaining ≤ c.threshold
    omega

example : Sketches exCfg ∧ exCfg.orig.length < 2 ^ 64 := ⟨exCfg_sketches, by decide⟩

/-! ## T-inv -/

/-- T-inv: at the start of every round, `counter[d] = |D_d ∩ remaining|` for every `d` in the counter -/
theorem counter_invariant {c : Cfg} (hc : Sketches c) {p : St × Row} (hp : p ∈ trace c) :
    ∀ e ∈ p.1.counter, e.2 = (isectL (dsOf c.dsets e.1) (p.1.remaining.map (·.1))).length :=
  (run_inv hc.wf _ (inv_init hc.wf) p hp).1.cnt

/-- T-inv: … and in the state the loop stops in -/
theorem counter_invariant_final {c : Cfg} (hc : Sketches c) :
    ∀ e ∈ (stopState c).counter,
      e.2 = (isectL (dsOf c.dsets e.1) ((stopState c).remaining.map (·.1))).length :=
  (final_inv hc.wf _ (inv_init hc.wf)).cnt

/-- T-inv: … and in every state reachable by rounds from a state satisfying the invariant (one round) -/
theorem counter_invariant_step {c : Cfg} (hc : Sketches c) {s s' : St} {row : Row} (hi : Inv c s)
    (h : step c s = some (row, s')) : Inv c s' := inv_step hc.wf hi h

example : Inv exCfg (init exCfg) := inv_init exCfg_sketches.wf

/-- the state of round `k`: the reported datasets are those of the rows before it, and the remaining
    query is the original query minus their hashes -/
theorem round_state {c : Cfg} (hc : Sketches c) {pre post : List (St × Row)} {p : St × Row}
    (ht : trace c = pre ++ p :: post) :
    p.1.reported = pre.map (·.2.d) ∧ p.1.remaining = minus c (pre.map (·.2.d)) := by
  obtain ⟨_, hi, hrep⟩ := run_split hc.wf ht (inv_init hc.wf)
  have : p.1.reported = pre.map (·.2.d) := by rw [hrep]; simp [init]
  exact ⟨this, by rw [hi.rem, this]⟩

/-! ## T-greedy -/

/-- T-greedy: the dataset reported in a round exists, was not reported before, and maximises
    `|D ∩ remaining|` among the unreported datasets, ties going to the lowest id -/
theorem greedy_choice {c : Cfg} (hc : Sketches c) {p : St × Row} (hp : p ∈ trace c) :
    p.2.d < c.dsets.length ∧ p.2.d ∉ p.1.reported ∧
    ∀ d', d' ∉ p.1.reported →
      ov c d' p.1.remaining < ov c p.2.d p.1.remaining ∨
      (ov c d' p.1.remaining = ov c p.2.d p.1.remaining ∧ p.2.d ≤ d') := by
  obtain ⟨hi, s', hstep⟩ := run_inv hc.wf _ (inv_init hc.wf) p hp
  exact step_greedy hi hstep

/-! ## T-unique -/

/-- T-unique: the reported intersection is `match ∩ remaining`, its size is the reported unique overlap
    (`unique_intersect_bp = scaled · |isect|`), and the counter value used as the numerator of `f_match`
    equals it -/
theorem unique_eq_counter {c : Cfg} (hc : Sketches c) {p : St × Row} (hp : p ∈ trace c) :
    p.2.isect = isectL (dsOf c.dsets p.2.d) (p.1.remaining.map (·.1)) ∧
    p.2.uniqueBp = c.scaled * p.2.isect.length ∧
    p.2.fMatch = (p.2.isect.length, (dsOf c.dsets p.2.d).length) ∧
    p.2.size = p.2.isect.length := by
  obtain ⟨hi, s', hstep⟩ := run_inv hc.wf _ (inv_init hc.wf) p hp
  obtain ⟨_, _, h3, h4⟩ := step_choice hi hstep
  obtain ⟨d, size, _, _, _, _, _, hrow, _⟩ := step_some hstep
  refine ⟨h3, by rw [hrow]; rfl, ?_, h4.symm⟩
  rw [h4]
  rw [hrow]
  rfl

/-! ## T-cover -/

/-- T-cover: with threshold 0 the union of the reported intersections is `Q ∩ ⋃ D_i` — the matches jointly
    explain every query hash present in any dataset, and nothing else -/
theorem cover_at_zero {c : Cfg} (hc : Sketches c) (h0 : c.threshold = 0) (h : Nat) :
    (∃ r ∈ gather c, h ∈ r.isect) ↔
      (h ∈ c.orig.map (·.1) ∧ ∃ d, d < c.dsets.length ∧ h ∈ dsOf c.dsets d) := by
  constructor
  · rintro ⟨r, hr, hh⟩
    obtain ⟨p, hp, rfl⟩ := List.mem_map.mp hr
    obtain ⟨hi, _, _⟩ := run_inv hc.wf _ (inv_init hc.wf) p hp
    rw [(unique_eq_counter hc hp).1, mem_isectL] at hh
    have hk : h ∈ keys p.1.remaining := hh.2
    rw [hi.rem, mem_keys_minus] at hk
    exact ⟨hk.1, p.2.d, (greedy_choice hc hp).1, hh.1⟩
  · rintro ⟨hq, d, _, hd⟩
    have hi : Inv c (stopState c) := final_inv hc.wf _ (inv_init hc.wf)
    have hfr := (final_reported (c := c) (fuel c) (init c)).1
    have hrep : (stopState c).reported = (gather c).map (·.d) := by
      show (final c (fuel c) (init c)).reported = _
      rw [hfr]; simp [init, gather, trace, List.map_map, Function.comp_def]
    have hgone : h ∉ keys (stopState c).remaining := by
      intro hin
      by_cases hr : d ∈ (gather c).map (·.d)
      · rw [hi.rem, mem_keys_minus, hrep] at hin
        exact hin.2 d hr hd
      · have hpos : 0 < ov c d (stopState c).remaining :=
          List.length_pos_of_mem (mem_isectL.mpr ⟨hd, hin⟩)
        rcases stop_rule hc with ⟨_, h1 | h1 | h1⟩
        · have hmem := List.mem_of_getLast? h1
          obtain ⟨r, hr', hsz⟩ := List.mem_map.mp hmem
          obtain ⟨p, hp, rfl⟩ := List.mem_map.mp hr'
          have := (overlaps_meet_threshold hc hp).2
          omega
        · omega
        · have := h1 d hr
          omega
    obtain ⟨p, hp, hh⟩ := run_explains (c := c) h (fuel c) (s := init c) hq hgone
    exact ⟨p.2, List.mem_map.mpr ⟨p, hp, rfl⟩, hh⟩

example : exCfg.threshold = 0 ∧ ∃ r ∈ gather exCfg, 4 ∈ r.isect := by decide

/-! ## T-stats -/

/-- T-stats: the plain fields of a row are the stated functions of the match `D`, the original query `Q`
    and the reported intersection: `intersect_bp = scaled·|D ∩ Q|`, `f_orig_query = |D ∩ Q| / |Q|`,
    `f_match_orig = |D ∩ Q| / |D|`, `f_unique_to_query = |isect| / |Q|`,
    `unique_intersect_bp = scaled·|isect|`, `f_match = |isect| / |D|` -/
theorem fractions_are_ratios {c : Cfg} (hc : Sketches c) {p : St × Row} (hp : p ∈ trace c) :
    let D := dsOf c.dsets p.2.d
    let dq := (isectL D (c.orig.map (·.1))).length
    p.2.intersectBp = c.scaled * dq ∧
    p.2.fOrig = (dq, c.orig.length) ∧
    p.2.fMatchOrig = (dq, D.length) ∧
    p.2.fUnique = (p.2.isect.length, c.orig.length) ∧
    p.2.uniqueBp = c.scaled * p.2.isect.length ∧
    p.2.fMatch = (p.2.isect.length, D.length) := by
  obtain ⟨_, s', hstep⟩ := run_inv hc.wf _ (inv_init hc.wf) p hp
  obtain ⟨d, size, _, _, _, _, _, hrow, _⟩ := step_some hstep
  have hu := unique_eq_counter hc hp
  refine ⟨by rw [hrow]; rfl, ?_, by rw [hrow]; rfl, ?_, hu.2.1, hu.2.2.1⟩
  · rw [hrow]; simp [stats]
  · rw [hrow]; simp [stats]

/-- T-stats: ranks are 0, 1, 2, … -/
theorem ranks_count_from_zero {c : Cfg} (hc : Sketches c) {pre post : List (St × Row)} {p : St × Row}
    (ht : trace c = pre ++ p :: post) : p.2.rank = pre.length := by
  obtain ⟨⟨f', hrun⟩, _, hrep⟩ := run_split hc.wf ht (inv_init hc.wf)
  obtain ⟨_, _, s2, _, hstep, _⟩ := run_cons hrun
  rw [(step_reported hstep).2.2.1, hrep]
  simp [init]

/-- T-stats: `remaining_bp` starts from `scaled·|Q|` and falls by exactly the unique overlap (in bp) of
    every match so far: `remaining_bp_k + scaled · Σ_{i ≤ k} |isect_i| = scaled · |Q|` -/
theorem remaining_bp_falls {c : Cfg} (hc : Sketches c) {pre post : List (St × Row)} {p : St × Row}
    (ht : trace c = pre ++ p :: post) :
    p.2.remainingBp + c.scaled * ((pre.map (·.2.isect.length)).sum + p.2.isect.length)
      = c.scaled * c.orig.length := by
  obtain ⟨⟨f', hrun⟩, hi, _⟩ := run_split hc.wf ht (inv_init hc.wf)
  obtain ⟨_, _, s2, _, hstep, _⟩ := run_cons hrun
  have h1 : p.1.remaining.length + (pre.map (·.2.isect.length)).sum = c.orig.length :=
    run_split_length hc.wf ht (inv_init hc.wf)
  have h2 := step_remaining_length hc.wf hi hstep
  rw [step_remaining_bp hc.wf hi hstep, Nat.mul_comm s2.remaining.length, ← Nat.mul_add]
  congr 1
  omega

/-- T-stats: `Σ |isect_i| ≤ |Q|`, and every `f_unique_to_query` is `|isect_i| / |Q|`, so the exact
    rationals sum to at most 1 -/
theorem unique_fractions_sum_le_one {c : Cfg} (hc : Sketches c) :
    (∀ r ∈ gather c, r.fUnique = (r.isect.length, c.orig.length)) ∧
    ((gather c).map (·.isect.length)).sum ≤ c.orig.length := by
  constructor
  · intro r hr
    obtain ⟨p, hp, rfl⟩ := List.mem_map.mp hr
    exact (fractions_are_ratios hc hp).2.2.2.1
  · have := final_length hc.wf (fuel c) (inv_init hc.wf)
    have h2 : isectSum (run c (fuel c) (init c)) = ((gather c).map (·.isect.length)).sum := by
      simp [isectSum, gather, trace, List.map_map, Function.comp_def]
    rw [h2] at this
    show _ ≤ (init c).remaining.length
    omega

/-- T-stats (weighted, queries with abundances): `n_unique_weighted_found = Σ_{h ∈ isect} abund_Q(h)`,
    `total_weighted_hashes = Σ abund_Q`, `f_unique_weighted = n_unique_weighted_found / Σ abund_Q` -/
theorem weighted_found {c : Cfg} (hc : Sketches c) (htr : c.track = true) {p : St × Row} (hp : p ∈ trace c) :
    p.2.nUniqueW = (p.2.isect.map (GatherSpec.abundOf c.orig)).sum ∧
    p.2.totalW = (c.orig.map (·.2)).sum ∧
    p.2.fUniqueW = (p.2.nUniqueW, (c.orig.map (·.2)).sum) := by
  obtain ⟨hi, s', hstep⟩ := run_inv hc.wf _ (inv_init hc.wf) p hp
  obtain ⟨d, size, _, _, _, _, _, hrow, _⟩ := step_some hstep
  have h1 := step_nUniqueW hc.wf hi hstep
  have hnd : p.2.isect.Nodup := by
    rw [(unique_eq_counter hc hp).1]; exact nodup_isectL (dsOf_nodup hc.wf _)
  refine ⟨?_, ?_, ?_⟩
  · rw [h1, htr, if_pos rfl, weightIn_eq_sum_abundOf hc.wf.q hnd]
  · rw [hrow]; simp [stats, Cfg.totalW, htr]
  · rw [hrow]; simp [stats, Cfg.totalW, htr]

/-- T-stats (weighted): `sum_weighted_found` is the running sum of `n_unique_weighted_found` -/
theorem weighted_running_sum {c : Cfg} (hc : Sketches c) {pre post : List (St × Row)} {p : St × Row}
    (ht : trace c = pre ++ p :: post) :
    p.2.sumW = (pre.map (·.2.nUniqueW)).sum + p.2.nUniqueW := by
  obtain ⟨⟨f', hrun⟩, _, _⟩ := run_split hc.wf ht (inv_init hc.wf)
  obtain ⟨_, _, s2, _, hstep, _⟩ := run_cons hrun
  have h0 : c.track = false → (init c).sumW = 0 := fun _ => rfl
  have h1 := run_split_sumW ht h0
  have h2 := step_sumW hstep h1.2
  have h3 : (init c).sumW = 0 := rfl
  rw [h2.1, h1.1, h3]
  simp [weightSum]

/-- T-stats (queries without abundances): the weighted figures are 0, `total_weighted_hashes = |Q|` and
    `f_unique_weighted` is `f_unique_to_query` -/
theorem untracked_weighted {c : Cfg} (hc : Sketches c) (htr : c.track = false) {p : St × Row}
    (hp : p ∈ trace c) :
    p.2.nUniqueW = 0 ∧ p.2.sumW = 0 ∧ p.2.totalW = c.orig.length ∧ p.2.fUniqueW = p.2.fUnique := by
  obtain ⟨_, s', hstep⟩ := run_inv hc.wf _ (inv_init hc.wf) p hp
  obtain ⟨d, size, _, _, _, _, _, hrow, _⟩ := step_some hstep
  rw [hrow]
  simp [stats, Cfg.totalW, htr]

example : Sketches exCfg ∧ exCfg.track = true ∧ ∃ p, p ∈ trace exCfg :=
  ⟨exCfg_sketches, rfl, _, List.mem_of_getElem? (i := 0) rfl⟩
example : Sketches { exCfg with track := false } ∧ ∃ p, p ∈ trace { exCfg with track := false } :=
  ⟨exCfg_sketches, _, List.mem_of_getElem? (i := 0) rfl⟩
/-- the example's weighted figures: 1+7+1 = 9 for dataset 0, then 2+1 = 3 (running sum 12) of 15 -/
example : (gather exCfg).map (fun r => (r.nUniqueW, r.sumW, r.totalW)) = [(9, 9, 15), (3, 12, 15)] := by decide

/-! ## Termination -/

/-- Termination: each round removes one dataset from the counter, so the model's fuel
    (`#datasets + 1`) is never exhausted — more fuel gives the same run -/
theorem fuel_irrelevant (c : Cfg) (k : Nat) : run c (fuel c + k) (init c) = trace c := by
  induction k with
  | zero => rfl
  | succ k ih =>
    rw [← ih]
    have := prepareCounter_length c.dsets (c.orig.map (·.1))
    have h : (init c).counter.length ≤ fuel c + k := by
      simp only [init, fuel]; omega
    exact run_fuel (fuel c + k) h

/-! ## The counter-based loop computes the specification's greedy cover -/

/-- T-greedy + T-threshold + T-unique in one statement: the sequence of (dataset, overlap, intersection)
    that `gather` reports is the one the naive greedy set cover of `Spec/Gather.lean` reports — which
    recomputes every overlap from scratch each round, takes the unreported dataset of largest overlap
    (lowest id on ties), stops below the threshold and after a match exactly at it
    (query sizes below `usize::MAX`) -/
theorem gather_is_greedy_cover {c : Cfg} (hc : Sketches c) (hq : c.orig.length < 2 ^ 64 - 1) :
    (gather c).map rowKey
      = (GatherSpec.cover c.dsets c.threshold (c.orig.map (·.1))).map matchKey := by
  have hlen := prepareCounter_length c.dsets (c.orig.map (·.1))
  by_cases ht : c.threshold < 2 ^ 64 - 1
  · have := run_refines hc.wf (fuel c) c.dsets.length (inv_init hc.wf) (by simp only [init]; omega)
      (by simp only [init, fuel]; omega) (by simp only [init]; omega)
    simp only [gather, trace, List.map_map, Function.comp_def]
    rw [this]
    rfl
  · have hstep : step c (init c) = none := by
      unfold step
      have : ¬ ((init c).matchSize > c.threshold ∧ (init c).counter ≠ []) := by
        simp only [init]; omega
      simp [this]
    have hg : gather c = [] := by simp [gather, trace, fuel, run, hstep]
    rw [hg]
    simp only [List.map_nil, GatherSpec.cover]
    cases hn : c.dsets.length with
    | zero => rfl
    | succ n =>
      unfold GatherSpec.greedy
      rcases best_spec c.dsets (c.orig.map (·.1)) [] with ⟨hb, _⟩ | ⟨x, hb, hx⟩
      · rw [hb]; rfl
      · rw [hb]
        have hle : x.2 ≤ c.orig.length := by
          rw [hx.2.2.1]
          have h1 := isectL_length_comm (dsOf_nodup hc.wf x.1) hc.wf.q
          have h2 : (isectL (keys c.orig) (dsOf c.dsets x.1)).length ≤ (keys c.orig).length :=
            List.length_filter_le _ _
          have h3 : (keys c.orig).length = c.orig.length := by simp [keys]
          show (isectL (dsOf c.dsets x.1) (keys c.orig)).length ≤ _
          omega
        have : x.2 < c.threshold ∨ x.2 = 0 := by omega
        simp [this]

example : Sketches exCfg ∧ exCfg.orig.length < 2 ^ 64 - 1 ∧
    (GatherSpec.cover exCfg.dsets exCfg.threshold (exCfg.orig.map (·.1))).map matchKey
      = [(0, 3, [1, 2, 3]), (1, 2, [4, 5])] := ⟨exCfg_sketches, by decide, by decide⟩

/-- T-stats in one statement: rank, `unique_intersect_bp`, `remaining_bp` and `f_unique_to_query` of the
    reported rows are the specification's statistics of the greedy cover (`GatherSpec.stats`: ranks from
    0, `scaled·|isect|`, `scaled·(|Q| − Σ_{i ≤ k}|isect_i|)`, `|isect| / |Q|`); for queries with
    abundances so are `n_unique_weighted_found = Σ_{h ∈ isect} abund_Q(h)`, its running sum
    `sum_weighted_found`, `total_weighted_hashes = Σ abund_Q` and `f_unique_weighted` -/
theorem stats_are_spec {c : Cfg} (hc : Sketches c) (hq : c.orig.length < 2 ^ 64 - 1) :
    (gather c).map rowUnweighted
      = (GatherSpec.stats c.scaled c.orig
          (GatherSpec.cover c.dsets c.threshold (c.orig.map (·.1)))).map statUnweighted ∧
    (c.track = true →
      (gather c).map rowWeighted
        = (GatherSpec.stats c.scaled c.orig
            (GatherSpec.cover c.dsets c.threshold (c.orig.map (·.1)))).map statWeighted) := by
  have hcover : GatherSpec.cover c.dsets c.threshold (c.orig.map (·.1)) = (gather c).map toMatch := by
    have h := gather_is_greedy_cover hc hq
    have h2 : (gather c).map rowKey = ((gather c).map toMatch).map matchKey := by
      rw [List.map_map]; rfl
    rw [h2] at h
    exact ((List.map_inj_right matchKey_injective).mp h).symm
  rw [hcover]
  have hg : (gather c).map toMatch = (run c (fuel c) (init c)).map (fun p => toMatch p.2) := by
    simp [gather, trace, List.map_map, Function.comp_def]
  constructor
  · have := run_stats_unweighted hc.wf (fuel c) (inv_init hc.wf) 0 0 (by simp [init])
    rw [hg, GatherSpec.stats]
    simp only [gather, trace, List.map_map, Function.comp_def]
    exact this
  · intro htr
    have := run_stats_weighted hc.wf htr (fuel c) (inv_init hc.wf) 0 0
    rw [hg, GatherSpec.stats]
    simp only [gather, trace, List.map_map, Function.comp_def]
    exact this

example : (GatherSpec.stats exCfg.scaled exCfg.orig
    (GatherSpec.cover exCfg.dsets exCfg.threshold (exCfg.orig.map (·.1)))).map statWeighted
      = [(9, 9, 15, (9, 15)), (3, 12, 15, (3, 15))] := by decide

end Sourmash.C08
