import Sourmash.Lemmas.DownsampleCmp
import Sourmash.Lemmas.DownsampleClosed
import Sourmash.Lemmas.DownsampleHybrid
import Sourmash.Lemmas.DownsamplePour
/-! Property C04 — downsampling commutes with sketching and with every comparison.

Property theorems only (helper lemmas: `Lemmas/Downsample*.lean`, `Lemmas/SetOps*.lean`), about the
code-shaped model `Model/SetOps.lean` (`downsampleScaled`, `downsampleMaxHash`, `countCommon`,
`similarity`, `selectScaled`; both container types through `Kind`).  `Sk.Scaled` says: representation
invariant, `num = 0`, non-zero ceiling, every hash under it, positive abundances.  `belowSk m s` is
the specification of the result: ceiling `m`, the hashes `≤ m`, their abundances.

Facts about `max_hash_for_scaled` / `scaled_for_max_hash` themselves (antitone, round trip) belong to
C14 and are proved in `Theorems/C14.lean`; where a statement here needs one, it is an explicit
hypothesis named in the doc comment, and the section *closed forms* at the end of the file restates the
theorem with those hypotheses discharged by C14's theorems (`Sourmash.C14.maxHash_antitone` for
`1 ≤ s ≤ t < 2⁶⁴`, `Sourmash.C14.roundtrip` for `1 ≤ s ≤ 2³¹`) and by `Scaled.maxHash_ne_zero`
(`max_hash_for_scaled s ≠ 0` for `1 ≤ s < 2⁶⁴`, `Lemmas/DownsampleClosed.lean`): what remains are range
conditions on the scaled values only. -/
namespace Sourmash.C04
open SetOps SetSpec Scaled

/-- example operand: scaled = 1000 (ceiling 18446744073709552), two hashes around the ceiling of 2000 -/
def exS : Sk :=
  { num := 0, maxHash := 18446744073709552, ksize := 21, seed := 42, mol := .dna,
    mins := [5, 9223372036854776, 9223372036854777], abunds := some [2, 1, 4] }
theorem exS_scaled : exS.Scaled :=
  ⟨⟨by decide, by intro ab h; cases h; rfl⟩, rfl, by decide, by decide,
   by intro ab h; cases h; decide⟩
theorem exS_is_1000 : exS.scaled = 1000 := by decide

/-- **T-ds_exact** (first half): downsampling a scaled sketch to a larger scaled value `s'` keeps
exactly the hashes `≤ max_hash_for_scaled s'`, with their abundances, under the new ceiling. -/
theorem ds_exact (k : Kind) (x : Sk) (s' : Nat) (hx : x.Scaled) (h0 : x.scaled ≠ 0)
    (hlt : x.scaled < s') (hM : maxHashForScaled s' ≠ 0) :
    downsampleScaled k x s' = .ok (belowSk (maxHashForScaled s') x) :=
  downsample_exact k hx h0 hlt hM
example : exS.Scaled ∧ exS.scaled ≠ 0 ∧ exS.scaled < 2000 ∧ maxHashForScaled 2000 ≠ 0 :=
  ⟨exS_scaled, by decide, by decide, by decide⟩
/-- … on the example: of 5, mh(2000), mh(2000)+1 the last one goes. -/
example : ∃ r, downsampleScaled .vec exS 2000 = .ok r ∧ r.mins = [5, 9223372036854776] ∧ r.abunds = some [2, 1] := by
  refine ⟨_, downsample_exact .vec exS_scaled (by decide) (by decide) (by decide), ?_, ?_⟩ <;> decide

/-! ### sketches that carry a `num` bound next to their ceiling

`Signature::from_params` builds them whenever `ComputeParameters::num_hashes` keeps its default (500)
next to a non-zero `scaled`, `KmerMinHash::new(scaled, .., num > 0)` gives them directly; `scaled()` is
non-zero, so `select` and every comparison treat them as scaled sketches.  `Sk.ScaledRoom` is
`Sk.Scaled` with `num = 0` weakened to "what the sketch holds does not exceed `num`". -/

/-- `exS` with the default `num_hashes` of `ComputeParameters` next to its scaled value -/
def exH : Sk := { exS with num := 500 }
theorem exH_room : exH.ScaledRoom :=
  ⟨⟨by decide, by intro ab h; cases h; rfl⟩, Or.inr (by decide), by decide, by decide,
   by intro ab h; cases h; decide⟩

/-- **T-ds_exact, num next to scaled**: downsampling such a sketch to a larger scaled value keeps
exactly the hashes under the new ceiling with their abundances (and its `num`), for both container
types — it is not passed through the way a num sketch is. -/
theorem ds_exact_num_and_scaled (k : Kind) (x : Sk) (s' : Nat) (hx : x.ScaledRoom) (h0 : x.scaled ≠ 0)
    (hlt : x.scaled < s') (hM : maxHashForScaled s' ≠ 0) :
    downsampleScaled k x s' = .ok (belowSk (maxHashForScaled s') x) :=
  downsample_exact_room k hx h0 hlt hM
example : exH.ScaledRoom ∧ exH.scaled ≠ 0 ∧ exH.scaled < 2000 ∧ maxHashForScaled 2000 ≠ 0 :=
  ⟨exH_room, by decide, by decide, by decide⟩
example : ∃ r, downsampleScaled .tree exH 2000 = .ok r ∧ r.mins = [5, 9223372036854776] ∧
    r.abunds = some [2, 1] ∧ r.num = 500 := by
  refine ⟨_, downsample_exact_room .tree exH_room (by decide) (by decide) (by decide), ?_, ?_, ?_⟩ <;> decide
/-- every scaled sketch is one of these -/
theorem scaled_room (x : Sk) (hx : x.Scaled) : x.ScaledRoom := hx.room

/-- **T-select_ds, num next to scaled**: `Signature::select` at a coarser scaled value `sel` delivers
such a sketch cut at the ceiling of `sel` (not the sketch as it stands). -/
theorem select_num_and_scaled (k : Kind) (x : Sk) (sel : Nat) (hsel : sel < 2 ^ 32) (hx : x.ScaledRoom)
    (h0 : x.scaled ≠ 0) (hlt : x.scaled < sel) (hM : maxHashForScaled sel ≠ 0) :
    selectScaled k [x] sel = .ok [belowSk (maxHashForScaled sel) x] := by
  rw [selectScaled_eq k [x] sel hsel]
  have hk : keepScaled x sel = true := by
    simp only [keepScaled, decide_eq_true_eq]; omega
  simp only [List.filter, hk, List.mapM_cons, List.mapM_nil, downsample_exact_room k hx h0 hlt hM]
  rfl
example : exH.ScaledRoom ∧ exH.scaled ≠ 0 ∧ exH.scaled < 2000 ∧ maxHashForScaled 2000 ≠ 0 ∧ (2000 : Nat) < 2 ^ 32 :=
  ⟨exH_room, by decide, by decide, by decide, by decide⟩


/-- **T-ds_refuse**: a target below the sketch's own scaled value is refused. -/
theorem ds_refuse (k : Kind) (x : Sk) (s' : Nat) (hlt : s' < x.scaled) :
    downsampleScaled k x s' = .error .CannotUpsampleScaled := by
  have c1 : ¬ (x.scaled = s' ∨ x.scaled = 0) := by omega
  simp [downsampleScaled, c1, hlt]
example : 999 < exS.scaled := by decide

/-- **T-ds_num**: num sketches (ceiling 0, hence `scaled() = 0`) are returned unchanged by both
entry points, whatever the request. -/
theorem ds_num (k : Kind) (x : Sk) (s' m : Nat) (hx : x.maxHash = 0) :
    downsampleScaled k x s' = .ok x ∧ downsampleMaxHash k x m = .ok x := by
  have : x.scaled = 0 := by show scaledForMaxHash x.maxHash = 0; rw [hx]; rfl
  simp [downsampleScaled, downsampleMaxHash, this, hx]
example : (SetOps.Sk.new 0 21 .dna 42 true 5).maxHash = 0 := rfl

/-- the same-scaled request is the identity -/
theorem ds_same (k : Kind) (x : Sk) : downsampleScaled k x x.scaled = .ok x := by
  simp [downsampleScaled]


/-- an empty sketch at scaled = 1000 -/
def exE : Sk := { num := 0, maxHash := 18446744073709552, ksize := 21, seed := 42, mol := .dna, mins := [], abunds := some [] }
theorem exE_sc : Sc exE := ⟨⟨by decide, by intro ab h; cases h; rfl⟩, rfl, by decide⟩

/-- **T-ds_exact** (second half): if `x` is the sketch of a multiset of insertions made at ceiling
`M = e.maxHash`, downsampling it to `s'` gives exactly the sketch of the *same insertions* made
directly at `s'` (same parameters, ceiling `max_hash_for_scaled s'`).
Hypothesis `hmono` is the instance `max_hash_for_scaled s' ≤ M` of C14's antitonicity theorem
(`Sourmash.C14.maxHash_antitone`), taken here as an explicit hypothesis. -/
theorem ds_exact_sketch (k : Kind) (e : Sk) (items : List (Nat × Nat)) (s' : Nat)
    (he : Sc e) (hemp : e.mins = []) (hpos : ∀ p ∈ items, p.2 ≠ 0)
    (h0 : e.scaled ≠ 0) (hlt : e.scaled < s') (hM : maxHashForScaled s' ≠ 0)
    (hmono : maxHashForScaled s' ≤ e.maxHash) :
    downsampleScaled k (e.addManyAb k items) s' =
      .ok (({ e with maxHash := maxHashForScaled s' } : Sk).addManyAb k items) := by
  have hx := fold_is_scaled k e he hemp items hpos
  have hmh : (e.addManyAb k items).maxHash = e.maxHash := (fold_scaled k items e he hpos).2.1
  have hsc : (e.addManyAb k items).scaled = e.scaled := by
    show scaledForMaxHash _ = scaledForMaxHash _; rw [hmh]
  rw [downsample_exact k hx (by rw [hsc]; exact h0) (by rw [hsc]; exact hlt) hM,
    below_fold k e he hemp _ hM hmono items hpos]
example : Sc exE ∧ exE.mins = [] ∧ exE.scaled ≠ 0 ∧ exE.scaled < 2000 ∧ maxHashForScaled 2000 ≠ 0 ∧
    maxHashForScaled 2000 ≤ exE.maxHash := ⟨exE_sc, rfl, by decide, by decide, by decide, by decide⟩

/-- **T-ds_idem**: downsampling the result again to the same value changes nothing.
Hypothesis `hrt` is the round trip `scaled_for_max_hash (max_hash_for_scaled s') = s'`, C14's theorem
`Sourmash.C14.roundtrip` (valid for `1 ≤ s' ≤ 2³¹`), taken as an explicit hypothesis: without it the
downsampled sketch would report another scaled value and the second call would not be the identity. -/
theorem ds_idem (k : Kind) (x r : Sk) (s' : Nat) (hx : x.Scaled) (hM : maxHashForScaled s' ≠ 0)
    (hrt : scaledForMaxHash (maxHashForScaled s') = s')
    (h : downsampleScaled k x s' = .ok r) : downsampleScaled k r s' = .ok r := by
  by_cases h1 : x.scaled = s' ∨ x.scaled = 0
  · have : r = x := by simp [downsampleScaled, h1] at h; exact h.symm
    subst this; exact h
  · by_cases h2 : x.scaled > s'
    · simp [downsampleScaled, h1, h2] at h
    · rw [downsample_exact k hx (by omega) (by omega) hM] at h
      cases h
      have : (belowSk (maxHashForScaled s') x).scaled = s' := hrt
      simp [downsampleScaled, this]
example : exS.Scaled ∧ maxHashForScaled 2000 ≠ 0 ∧ scaledForMaxHash (maxHashForScaled 2000) = 2000 :=
  ⟨exS_scaled, by decide, by decide⟩

/-- **T-ds_compose** (`s ≤ s' ≤ s''`): going through an intermediate value gives the same sketch as
going directly.  Hypotheses from C14: `hrt` (round trip at `s'`) and `hmono`
(`max_hash_for_scaled s'' ≤ max_hash_for_scaled s'`, antitonicity). -/
theorem ds_compose (k : Kind) (x r1 : Sk) (s' s'' : Nat) (hx : x.Scaled) (h0 : x.scaled ≠ 0)
    (h12 : x.scaled ≤ s') (h23 : s' ≤ s'')
    (hM : maxHashForScaled s'' ≠ 0) (hmono : maxHashForScaled s'' ≤ maxHashForScaled s')
    (hrt : scaledForMaxHash (maxHashForScaled s') = s')
    (h1 : downsampleScaled k x s' = .ok r1) :
    downsampleScaled k r1 s'' = downsampleScaled k x s'' := by
  have hM' : maxHashForScaled s' ≠ 0 := by omega
  by_cases e1 : x.scaled = s'
  · have : r1 = x := by simp [downsampleScaled, e1] at h1; exact h1.symm
    subst this; rfl
  · rw [downsample_exact k hx h0 (by omega) hM'] at h1
    cases h1
    have hsc : (belowSk (maxHashForScaled s') x).scaled = s' := hrt
    by_cases e2 : s' = s''
    · subst e2
      rw [downsample_exact k hx h0 (by omega) hM']
      simp [downsampleScaled, hsc]
    · rw [downsample_exact k (belowSk_scaled hx hM') (by rw [hsc]; omega) (by rw [hsc]; omega) hM,
        belowSk_belowSk hx.1 hmono, downsample_exact k hx h0 (by omega) hM]
example : exS.Scaled ∧ exS.scaled ≠ 0 ∧ exS.scaled ≤ 2000 ∧ 2000 ≤ 10000 ∧ maxHashForScaled 10000 ≠ 0 ∧
    maxHashForScaled 10000 ≤ maxHashForScaled 2000 ∧ scaledForMaxHash (maxHashForScaled 2000) = 2000 :=
  ⟨exS_scaled, by decide, by decide, by decide, by decide, by decide, by decide⟩

/-- **T-ds_merge**: downsampling commutes with merge — `ds (a ∪ b) = ds a ∪ ds b`, hashes and
abundances. -/
theorem ds_merge (k : Kind) (a b : Sk) (s' : Nat) (ha : a.Scaled) (hb : b.Scaled)
    (hc : checkCompatible a b = .ok ()) (h0 : a.scaled ≠ 0) (hlt : a.scaled < s')
    (hM : maxHashForScaled s' ≠ 0) :
    (a.merge k b >>= fun m => downsampleScaled k m s') =
      (do let a' ← downsampleScaled k a s'
          let b' ← downsampleScaled k b s'
          a'.merge k b') := by
  obtain ⟨c1, c2, c3, c4⟩ := (checkCompatible_ok_iff a b).1 hc
  have hsb : b.scaled = a.scaled := by show scaledForMaxHash _ = scaledForMaxHash _; rw [c3]
  have hsm : (mergeSpec a b).scaled = a.scaled := rfl
  have hc' : checkCompatible (belowSk (maxHashForScaled s') a) (belowSk (maxHashForScaled s') b) = .ok () :=
    (checkCompatible_ok_iff _ _).2 ⟨c1, c2, rfl, c4⟩
  rw [merge_ok k ha.1 hb.1 hc, downsample_exact k ha h0 hlt hM,
    downsample_exact k hb (by rw [hsb]; exact h0) (by rw [hsb]; exact hlt) hM]
  show downsampleScaled k (mergeSpec a b) s' = (belowSk _ a).merge k (belowSk _ b)
  rw [downsample_exact k (mergeSpec_scaled ha hb hc) (by rw [hsm]; exact h0) (by rw [hsm]; exact hlt) hM,
    merge_ok k (belowSk_wf _ ha.1) (belowSk_wf _ hb.1) hc', belowSk_mergeSpec _ ha.1 hb.1 ha.2.1]
example : exS.Scaled ∧ checkCompatible exS exS = .ok () ∧ exS.scaled ≠ 0 ∧ exS.scaled < 2000 ∧
    maxHashForScaled 2000 ≠ 0 := ⟨exS_scaled, by simp [checkCompatible], by decide, by decide, by decide⟩

/-- **T-ds_isect**: downsampling commutes with intersection — the intersection of the downsampled
sketches is the common hashes under the new ceiling, and its union size counts the union under the new
ceiling. -/
theorem ds_isect (k : Kind) (a b : Sk) (s' : Nat) (ha : a.Scaled) (hb : b.Scaled)
    (hc : checkCompatible a b = .ok ()) (h0 : a.scaled ≠ 0) (hlt : a.scaled < s')
    (hM : maxHashForScaled s' ≠ 0) :
    (do let a' ← downsampleScaled k a s'
        let b' ← downsampleScaled k b s'
        intersection k a' b') =
      .ok (below (maxHashForScaled s') (inter a.mins b.mins),
           (below (maxHashForScaled s') (union a.mins b.mins)).length) := by
  obtain ⟨c1, c2, c3, c4⟩ := (checkCompatible_ok_iff a b).1 hc
  have hsb : b.scaled = a.scaled := by show scaledForMaxHash _ = scaledForMaxHash _; rw [c3]
  have hc' : checkCompatible (belowSk (maxHashForScaled s') a) (belowSk (maxHashForScaled s') b) = .ok () :=
    (checkCompatible_ok_iff _ _).2 ⟨c1, c2, rfl, c4⟩
  rw [downsample_exact k ha h0 hlt hM,
    downsample_exact k hb (by rw [hsb]; exact h0) (by rw [hsb]; exact hlt) hM]
  show intersection k (belowSk _ a) (belowSk _ b) = _
  rw [intersection_scaled k (belowSk_wf _ ha.1).1 (belowSk_wf _ hb.1).1 ha.2.1 hc']
  show Except.ok (inter (below _ a.mins) (below _ b.mins), unionSize (below _ a.mins) (below _ b.mins)) = _
  rw [below_inter, unionSize_below _ ha.1.1 hb.1.1]
example : exS.Scaled ∧ checkCompatible exS exS = .ok () ∧ exS.scaled ≠ 0 ∧ exS.scaled < 2000 ∧
    maxHashForScaled 2000 ≠ 0 := ⟨exS_scaled, by simp [checkCompatible], by decide, by decide, by decide⟩

/-- **T-cmp_ds** (`count_common`): the call with `downsample = true` returns what `count_common(_, false)`
returns on copies explicitly downsampled to `m = max(scaled a, scaled b)` — the same count or the same
error.  No hypothesis: the model takes the operands by value and returns no new state for them, so
"never modifies its operands" is the absence of any write in `countCommon` (observed on the real code by
the `obs` lines of the harness). -/
theorem cmp_ds_count (k : Kind) (a b : Sk) :
    countCommon k a b true =
      (do let a' ← downsampleScaled k a (max a.scaled b.scaled)
          let b' ← downsampleScaled k b (max a.scaled b.scaled)
          countCommon k a' b' false) :=
  countCommon_ds k a b

/-- **T-cmp_ds** (`similarity`): likewise for the integer data `similarity` computes before its float
tail — the Jaccard pair (common, size) resp. the triple (Σaᵢbᵢ, Σaᵢ², Σbᵢ²) — on the explicitly
downsampled copies, taken in the order in which the code compares them (larger-scaled operand first). -/
theorem cmp_ds_similarity (k : Kind) (a b : Sk) (ig : Bool) :
    similarity k a b ig true =
      (do let a' ← downsampleScaled k a (max a.scaled b.scaled)
          let b' ← downsampleScaled k b (max a.scaled b.scaled)
          if a.scaled < b.scaled then similarityPlain k b' a' ig else similarityPlain k a' b' ig) :=
  similarity_ds k a b ig

/-- … and that order is immaterial: the Jaccard pair of two scaled sketches is symmetric, the angular
triple only exchanges its two norms. -/
theorem cmp_order_irrelevant (k : Kind) (a b : Sk) (ha : SInc a.mins) (hb : SInc b.mins)
    (hna : a.num = 0) (hnb : b.num = 0) :
    jaccardParts k a b = jaccardParts k b a ∧ angularParts b a = (angularParts a b).map SimParts.swap :=
  ⟨jaccardParts_symm k ha hb hna hnb, angularParts_symm a b⟩
example : SInc exS.mins ∧ exS.num = 0 := ⟨exS_scaled.1.1, rfl⟩

/-- **T-select_ds**: `Signature::select` with a scaled request `sel` (a `u32`) retains the MinHash
sketches with `0 < scaled() ≤ sel` and delivers `downsample_scaled(sel)` of each of them (failing with
the first error, if any). -/
theorem select_ds (k : Kind) (sks : List Sk) (sel : Nat) (hsel : sel < 2 ^ 32) :
    selectScaled k sks sel =
      (sks.filter (fun s => s.scaled ≠ 0 ∧ s.scaled ≤ sel)).mapM (fun s => downsampleScaled k s sel) :=
  selectScaled_eq k sks sel hsel
example : (2000 : Nat) < 2 ^ 32 := by decide


/-- **T-gather_ds**: `calculate_gather_stats` computes the same statistics from a match that it
downsamples on the fly as from an explicitly downsampled copy of that match (and refuses, with
`CannotUpsampleScaled`, a match that is coarser than the query — the query is never downsampled).
`hsc` says that the downsampled copy reports the query's scaled value; for a scaled match strictly finer
than the query this is the round trip `scaled_for_max_hash (max_hash_for_scaled s) = s` at
`s = scaled(query)` (C14), see `gather_ds_scaled`. -/
theorem gather_ds (k : Kind) (oq rq m m' : Sk) (ms : Nat) (hle : m.scaled ≤ rq.scaled)
    (h : downsampleScaled k m rq.scaled = .ok m') (hsc : m'.scaled = rq.scaled) :
    gatherStats k oq rq m ms = gatherStats k oq rq m' ms := by
  have c1 : ¬ m.scaled > rq.scaled := by omega
  have c2 : ¬ m'.scaled > rq.scaled := by omega
  have h' : downsampleScaled k m' rq.scaled = .ok m' := by rw [← hsc]; exact ds_same k m'
  simp only [gatherStats, c1, c2, if_false, h, h', bind, Except.bind]
theorem gather_refuses_coarser_match (k : Kind) (oq rq m : Sk) (ms : Nat) (h : m.scaled > rq.scaled) :
    gatherStats k oq rq m ms = .error .CannotUpsampleScaled := by
  simp [gatherStats, h]
theorem gather_ds_scaled (k : Kind) (oq rq m : Sk) (ms : Nat) (hm : m.Scaled) (h0 : m.scaled ≠ 0)
    (hlt : m.scaled < rq.scaled) (hM : maxHashForScaled rq.scaled ≠ 0)
    (hrt : scaledForMaxHash (maxHashForScaled rq.scaled) = rq.scaled) :
    gatherStats k oq rq m ms = gatherStats k oq rq (belowSk (maxHashForScaled rq.scaled) m) ms :=
  gather_ds k oq rq m _ ms (by omega) (downsample_exact k hm h0 hlt hM) hrt
example : exS.Scaled ∧ exS.scaled ≠ 0 ∧ exS.scaled < 2000 ∧ maxHashForScaled 2000 ≠ 0 ∧
    scaledForMaxHash (maxHashForScaled 2000) = 2000 := ⟨exS_scaled, by decide, by decide, by decide, by decide⟩

/-! ## closed forms: the C14 hypotheses discharged

The theorems above take `max_hash_for_scaled s' ≠ 0`, antitonicity and the round trip as hypotheses.
Below they are restated with range conditions only: every requested scaled value is a `u64`
(`< 2⁶⁴`, which is what `downsample_scaled` takes), and where the round trip is needed the value is
`≤ 2³¹` (the range on which C14 proves it; beyond it the round trip fails for some values — that is
C14's business, not a gap here). -/

/-- **T-ds_exact** (first half), closed: no hypothesis on the new ceiling — the target is any `u64`
above the sketch's own non-zero scaled value. -/
theorem ds_exact_closed (k : Kind) (x : Sk) (s' : Nat) (hx : x.Scaled) (h0 : x.scaled ≠ 0)
    (hlt : x.scaled < s') (h64 : s' < 2 ^ 64) :
    downsampleScaled k x s' = .ok (belowSk (maxHashForScaled s') x) :=
  ds_exact k x s' hx h0 hlt (maxHash_ne_zero s' (by omega) h64)
example : exS.Scaled ∧ exS.scaled ≠ 0 ∧ exS.scaled < 2000 ∧ 2000 < 2 ^ 64 :=
  ⟨exS_scaled, by decide, by decide, by decide⟩

/-- **T-ds_exact / T-select_ds, num next to scaled**, closed: any `u64` target above the sketch's own
non-zero scaled value; for `select` the request is a `u32`. -/
theorem ds_exact_num_and_scaled_closed (k : Kind) (x : Sk) (s' : Nat) (hx : x.ScaledRoom)
    (h0 : x.scaled ≠ 0) (hlt : x.scaled < s') (h64 : s' < 2 ^ 64) :
    downsampleScaled k x s' = .ok (belowSk (maxHashForScaled s') x) :=
  ds_exact_num_and_scaled k x s' hx h0 hlt (maxHash_ne_zero s' (by omega) h64)
theorem select_num_and_scaled_closed (k : Kind) (x : Sk) (sel : Nat) (hsel : sel < 2 ^ 32)
    (hx : x.ScaledRoom) (h0 : x.scaled ≠ 0) (hlt : x.scaled < sel) :
    selectScaled k [x] sel = .ok [belowSk (maxHashForScaled sel) x] :=
  select_num_and_scaled k x sel hsel hx h0 hlt (maxHash_ne_zero sel (by omega) (by omega))
example : exH.ScaledRoom ∧ exH.scaled ≠ 0 ∧ exH.scaled < 2000 ∧ (2000 : Nat) < 2 ^ 32 :=
  ⟨exH_room, by decide, by decide, by decide⟩

/-- **T-ds_exact** (second half), closed: `e` is an empty sketch created at scaled `s`
(`1 ≤ s ≤ 2³¹`, ceiling `max_hash_for_scaled s`); the sketch of any insertions made into it,
downsampled to any `u64` `s' > s`, is the sketch of the same insertions made directly at `s'`.
`hmono` is `Sourmash.C14.maxHash_antitone s s'`, `e.scaled = s` is `Sourmash.C14.roundtrip s`. -/
theorem ds_exact_sketch_closed (k : Kind) (e : Sk) (items : List (Nat × Nat)) (s s' : Nat)
    (he : e.WF) (hnum : e.num = 0) (hemp : e.mins = []) (hpos : ∀ p ∈ items, p.2 ≠ 0)
    (hcr : e.maxHash = maxHashForScaled s) (h1 : 1 ≤ s) (h31 : s ≤ 2 ^ 31)
    (hlt : s < s') (h64 : s' < 2 ^ 64) :
    downsampleScaled k (e.addManyAb k items) s' =
      .ok (({ e with maxHash := maxHashForScaled s' } : Sk).addManyAb k items) := by
  have hsc : e.scaled = s := Sk.scaled_of_created hcr h1 h31
  have hm0 : e.maxHash ≠ 0 := by rw [hcr]; exact maxHash_ne_zero s h1 (by omega)
  exact ds_exact_sketch k e items s' ⟨he, hnum, hm0⟩ hemp hpos (by omega) (by omega)
    (maxHash_ne_zero s' (by omega) h64)
    (by rw [hcr]; exact Sourmash.C14.maxHash_antitone s s' h1 (by omega) h64)
example : exE.WF ∧ exE.num = 0 ∧ exE.mins = [] ∧ exE.maxHash = maxHashForScaled 1000 ∧
    (1:Nat) ≤ 1000 ∧ 1000 ≤ 2 ^ 31 ∧ 1000 < 2000 ∧ 2000 < 2 ^ 64 :=
  ⟨exE_sc.1, rfl, rfl, by decide, by decide, by decide, by decide, by decide⟩

/-- **T-ds_idem**, closed: for every target `1 ≤ s' ≤ 2³¹` (round trip: `Sourmash.C14.roundtrip`). -/
theorem ds_idem_closed (k : Kind) (x r : Sk) (s' : Nat) (hx : x.Scaled) (h1 : 1 ≤ s') (h31 : s' ≤ 2 ^ 31)
    (h : downsampleScaled k x s' = .ok r) : downsampleScaled k r s' = .ok r :=
  ds_idem k x r s' hx (maxHash_ne_zero s' h1 (by omega)) (Sourmash.C14.roundtrip s' h1 h31) h
example : exS.Scaled ∧ (1:Nat) ≤ 2000 ∧ 2000 ≤ 2 ^ 31 ∧
    ∃ r, downsampleScaled .vec exS 2000 = .ok r :=
  ⟨exS_scaled, by decide, by decide, _, downsample_exact .vec exS_scaled (by decide) (by decide) (by decide)⟩

/-- **T-ds_compose**, closed: `0 < scaled(x) ≤ s' ≤ s''` with the intermediate value `s' ≤ 2³¹` and
the final one any `u64`: going through `s'` gives the same sketch as going directly
(`Sourmash.C14.roundtrip s'`, `Sourmash.C14.maxHash_antitone s' s''`). -/
theorem ds_compose_closed (k : Kind) (x r1 : Sk) (s' s'' : Nat) (hx : x.Scaled) (h0 : x.scaled ≠ 0)
    (h12 : x.scaled ≤ s') (h23 : s' ≤ s'') (h31 : s' ≤ 2 ^ 31) (h64 : s'' < 2 ^ 64)
    (h1 : downsampleScaled k x s' = .ok r1) :
    downsampleScaled k r1 s'' = downsampleScaled k x s'' :=
  ds_compose k x r1 s' s'' hx h0 h12 h23 (maxHash_ne_zero s'' (by omega) h64)
    (Sourmash.C14.maxHash_antitone s' s'' (by omega) h23 h64)
    (Sourmash.C14.roundtrip s' (by omega) h31) h1
example : exS.Scaled ∧ exS.scaled ≠ 0 ∧ exS.scaled ≤ 2000 ∧ 2000 ≤ 10000 ∧ 2000 ≤ 2 ^ 31 ∧ 10000 < 2 ^ 64 ∧
    ∃ r, downsampleScaled .vec exS 2000 = .ok r :=
  ⟨exS_scaled, by decide, by decide, by decide, by decide, by decide,
   _, downsample_exact .vec exS_scaled (by decide) (by decide) (by decide)⟩

/-- **T-ds_compose** for a sketch created at `s`: the whole chain `1 ≤ s ≤ s' ≤ s''`, `s' ≤ 2³¹`,
`s'' < 2⁶⁴`, stated on the creation value instead of on `scaled()`. -/
theorem ds_compose_created (k : Kind) (x r1 : Sk) (s s' s'' : Nat) (hx : x.Scaled)
    (hcr : x.maxHash = maxHashForScaled s) (h1s : 1 ≤ s)
    (h12 : s ≤ s') (h23 : s' ≤ s'') (h31 : s' ≤ 2 ^ 31) (h64 : s'' < 2 ^ 64)
    (h1 : downsampleScaled k x s' = .ok r1) :
    downsampleScaled k r1 s'' = downsampleScaled k x s'' := by
  have hsc : x.scaled = s := Sk.scaled_of_created hcr h1s (by omega)
  exact ds_compose_closed k x r1 s' s'' hx (by omega) (by omega) h23 h31 h64 h1
example : exS.Scaled ∧ exS.maxHash = maxHashForScaled 1000 ∧ (1:Nat) ≤ 1000 ∧ 1000 ≤ 2000 ∧ 2000 ≤ 10000 ∧
    2000 ≤ 2 ^ 31 ∧ 10000 < 2 ^ 64 :=
  ⟨exS_scaled, by decide, by decide, by decide, by decide, by decide, by decide⟩

/-- **T-ds_merge**, closed (target any `u64` above the operands' scaled value). -/
theorem ds_merge_closed (k : Kind) (a b : Sk) (s' : Nat) (ha : a.Scaled) (hb : b.Scaled)
    (hc : checkCompatible a b = .ok ()) (h0 : a.scaled ≠ 0) (hlt : a.scaled < s') (h64 : s' < 2 ^ 64) :
    (a.merge k b >>= fun m => downsampleScaled k m s') =
      (do let a' ← downsampleScaled k a s'
          let b' ← downsampleScaled k b s'
          a'.merge k b') :=
  ds_merge k a b s' ha hb hc h0 hlt (maxHash_ne_zero s' (by omega) h64)
example : exS.Scaled ∧ checkCompatible exS exS = .ok () ∧ exS.scaled ≠ 0 ∧ exS.scaled < 2000 ∧
    2000 < 2 ^ 64 := ⟨exS_scaled, by simp [checkCompatible], by decide, by decide, by decide⟩

/-- **T-ds_isect**, closed (target any `u64` above the operands' scaled value). -/
theorem ds_isect_closed (k : Kind) (a b : Sk) (s' : Nat) (ha : a.Scaled) (hb : b.Scaled)
    (hc : checkCompatible a b = .ok ()) (h0 : a.scaled ≠ 0) (hlt : a.scaled < s') (h64 : s' < 2 ^ 64) :
    (do let a' ← downsampleScaled k a s'
        let b' ← downsampleScaled k b s'
        intersection k a' b') =
      .ok (below (maxHashForScaled s') (inter a.mins b.mins),
           (below (maxHashForScaled s') (union a.mins b.mins)).length) :=
  ds_isect k a b s' ha hb hc h0 hlt (maxHash_ne_zero s' (by omega) h64)
example : exS.Scaled ∧ checkCompatible exS exS = .ok () ∧ exS.scaled ≠ 0 ∧ exS.scaled < 2000 ∧
    2000 < 2 ^ 64 := ⟨exS_scaled, by simp [checkCompatible], by decide, by decide, by decide⟩

/-- **T-gather_ds**, closed: for a scaled match strictly finer than the query and a query whose scaled
value is `≤ 2³¹`, the statistics computed from the match are those computed from its explicitly
downsampled copy (`Sourmash.C14.roundtrip` at `scaled(query)`). -/
theorem gather_ds_scaled_closed (k : Kind) (oq rq m : Sk) (ms : Nat) (hm : m.Scaled) (h0 : m.scaled ≠ 0)
    (hlt : m.scaled < rq.scaled) (h31 : rq.scaled ≤ 2 ^ 31) :
    gatherStats k oq rq m ms = gatherStats k oq rq (belowSk (maxHashForScaled rq.scaled) m) ms :=
  gather_ds_scaled k oq rq m ms hm h0 hlt (maxHash_ne_zero rq.scaled (by omega) (by omega))
    (Sourmash.C14.roundtrip rq.scaled (by omega) h31)
example : exS.Scaled ∧ exS.scaled ≠ 0 ∧ exS.scaled < (belowSk (maxHashForScaled 2000) exS).scaled ∧
    (belowSk (maxHashForScaled 2000) exS).scaled ≤ 2 ^ 31 := ⟨exS_scaled, by decide, by decide, by decide⟩

/-! ### downsampling by pouring

"Create the sketch at the new scaled value and pour the old one in" (`KmerMinHash::new(s', ..)` +
`add_from`; the Python layer's `MinHash.downsample()` does it through `kmerminhash_new` +
`kmerminhash_add_from`).  `add_from` checks nothing, so the receiver's own ceiling is the only filter:
`pourScaled` is that sequence of calls. -/

/-- **T-pour_exact**: pouring a sketch without a `num` bound into an empty sketch made at `s'` leaves
exactly the hashes `≤ max_hash_for_scaled s'` under the new ceiling, each counted once — whatever the
relation between the two scaled values (coarser, equal, finer). -/
theorem pour_exact (k : Kind) (x : Sk) (s' : Nat) (hw : SInc x.mins) (hn : x.num = 0)
    (hM : maxHashForScaled s' ≠ 0) :
    pourScaled k x s' =
      { x with maxHash := maxHashForScaled s', mins := below (maxHashForScaled s') x.mins,
               abunds := x.abunds.map (fun _ => (below (maxHashForScaled s') x.mins).map (fun _ => 1)) } :=
  pour_exact' k hw hn hM
example : SInc exS.mins ∧ exS.num = 0 ∧ maxHashForScaled 2000 ≠ 0 := ⟨exS_scaled.1.1, rfl, by decide⟩
/-- … on the example: the hash above the ceiling of 2000 does not get in. -/
example : (pourScaled .vec exS 2000).mins = [5, 9223372036854776] ∧ (pourScaled .vec exS 2000).abunds = some [1, 1] := by
  rw [pour_exact .vec exS 2000 exS_scaled.1.1 rfl (by decide)]; decide

/-- **T-pour_ds**: pouring into a coarser sketch IS downsampling: `downsample_scaled(s')` succeeds and
the poured sketch has its ceiling and its hashes; it is the same sketch when no abundances are tracked
(`add_from` counts every hash once, `downsample_scaled` carries the abundances over). -/
theorem pour_ds (k : Kind) (x : Sk) (s' : Nat) (hx : x.Scaled) (h0 : x.scaled ≠ 0)
    (hlt : x.scaled < s') (hM : maxHashForScaled s' ≠ 0) :
    ∃ r, downsampleScaled k x s' = .ok r ∧ (pourScaled k x s').mins = r.mins ∧
      (pourScaled k x s').maxHash = r.maxHash ∧ (x.abunds = none → pourScaled k x s' = r) := by
  refine ⟨_, downsample_exact k hx h0 hlt hM, ?_, ?_, ?_⟩
  · rw [pour_exact' k hx.1.1 hx.2.1 hM]; rfl
  · rw [pour_exact' k hx.1.1 hx.2.1 hM]; rfl
  · intro hab
    rw [pour_exact' k hx.1.1 hx.2.1 hM]
    simp [belowSk, hab]
example : exS.Scaled ∧ exS.scaled ≠ 0 ∧ exS.scaled < 2000 ∧ maxHashForScaled 2000 ≠ 0 :=
  ⟨exS_scaled, by decide, by decide, by decide⟩

/-- **T-pour_keeps**: a receiver whose ceiling is above everything the source holds (equal or finer
scaled) takes every hash. -/
theorem pour_keeps (k : Kind) (x : Sk) (s' : Nat) (hw : SInc x.mins) (hn : x.num = 0)
    (hM : maxHashForScaled s' ≠ 0) (hall : ∀ h ∈ x.mins, h ≤ maxHashForScaled s') :
    (pourScaled k x s').mins = x.mins := by
  rw [pour_exact' k hw hn hM]
  show below _ x.mins = x.mins
  exact List.filter_eq_self.mpr (fun h hh => by simpa using hall h hh)
example : SInc exS.mins ∧ exS.num = 0 ∧ maxHashForScaled 1000 ≠ 0 ∧ ∀ h ∈ exS.mins, h ≤ maxHashForScaled 1000 :=
  ⟨exS_scaled.1.1, rfl, by decide, by decide⟩

/-- **T-pour_exact / T-pour_ds**, closed: any `u64` target `s' ≥ 1` (`Scaled.maxHash_ne_zero`). -/
theorem pour_exact_closed (k : Kind) (x : Sk) (s' : Nat) (hw : SInc x.mins) (hn : x.num = 0)
    (h1 : 1 ≤ s') (h64 : s' < 2 ^ 64) :
    pourScaled k x s' =
      { x with maxHash := maxHashForScaled s', mins := below (maxHashForScaled s') x.mins,
               abunds := x.abunds.map (fun _ => (below (maxHashForScaled s') x.mins).map (fun _ => 1)) } :=
  pour_exact k x s' hw hn (maxHash_ne_zero s' h1 h64)
theorem pour_ds_closed (k : Kind) (x : Sk) (s' : Nat) (hx : x.Scaled) (h0 : x.scaled ≠ 0)
    (hlt : x.scaled < s') (h64 : s' < 2 ^ 64) :
    ∃ r, downsampleScaled k x s' = .ok r ∧ (pourScaled k x s').mins = r.mins ∧
      (pourScaled k x s').maxHash = r.maxHash ∧ (x.abunds = none → pourScaled k x s' = r) :=
  pour_ds k x s' hx h0 hlt (maxHash_ne_zero s' (by omega) h64)
example : exS.Scaled ∧ exS.scaled ≠ 0 ∧ exS.scaled < 2000 ∧ (2000 : Nat) < 2 ^ 64 :=
  ⟨exS_scaled, by decide, by decide, by decide⟩

end Sourmash.C04
