import Sourmash.Lemmas.Downsample
/-! Property C04 — downsampling commutes with sketching and with every comparison.

Property theorems only (helper lemmas: `Lemmas/Downsample*.lean`, `Lemmas/SetOps*.lean`), about the
code-shaped model `Model/SetOps.lean` (`downsampleScaled`, `downsampleMaxHash`, `countCommon`,
`similarity`, `selectScaled`; both container types through `Kind`).  `Sk.Scaled` says: representation
invariant, `num = 0`, non-zero ceiling, every hash under it, positive abundances.  `belowSk m s` is
the specification of the result: ceiling `m`, the hashes `≤ m`, their abundances.

Facts about `max_hash_for_scaled` / `scaled_for_max_hash` themselves (antitone, round trip) belong to
C14 and are proved in `Theorems/C14.lean`; where a statement here needs one, it is an explicit
hypothesis named in the doc comment. -/
namespace Sourmash.C04
open SetOps SetSpec Scaled

/-- example operand: scaled = 1000 (ceiling 18446744073709552), two hashes around the ceiling of 2000 -/
def exS : Sk :=
  { num := 0, maxHash := 18446744073709552, ksize := 21, seed := 42, mol := .dna,
    mins := [5, 9223372036854776, 9223372036854777], abunds := some [2, 1, 4] }
theorem exS_scaled : exS.Scaled :=
  ⟨⟨by decide, by intro ab h; cases h; rfl⟩, rfl, by decide, by decide,
   by intro ab h; cases h; decide⟩
theorem exS_is_1000 : exS.scaled = 1000 := by decide

/-- **T-ds_exact** (first half): downsampling a scaled sketch to a larger scaled value `s'` keeps
exactly the hashes `≤ max_hash_for_scaled s'`, with their abundances, under the new ceiling. -/
theorem ds_exact (k : Kind) (x : Sk) (s' : Nat) (hx : x.Scaled) (h0 : x.scaled ≠ 0)
    (hlt : x.scaled < s') (hM : maxHashForScaled s' ≠ 0) :
    downsampleScaled k x s' = .ok (belowSk (maxHashForScaled s') x) :=
  downsample_exact k hx h0 hlt hM
example : exS.Scaled ∧ exS.scaled ≠ 0 ∧ exS.scaled < 2000 ∧ maxHashForScaled 2000 ≠ 0 :=
  ⟨exS_scaled, by decide, by decide, by decide⟩
/-- … on the example: of 5, mh(2000), mh(2000)+1 the last one goes. -/
example : ∃ r, downsampleScaled .vec exS 2000 = .ok r ∧ r.mins = [5, 9223372036854776] ∧ r.abunds = some [2, 1] := by
  refine ⟨_, downsample_exact .vec exS_scaled (by decide) (by decide) (by decide), ?_, ?_⟩ <;> decide

/-- **T-ds_refuse**: a target below the sketch's own scaled value is refused. -/
theorem ds_refuse (k : Kind) (x : Sk) (s' : Nat) (hlt : s' < x.scaled) :
    downsampleScaled k x s' = .error .CannotUpsampleScaled := by
  have c1 : ¬ (x.scaled = s' ∨ x.scaled = 0) := by omega
  simp [downsampleScaled, c1, hlt]
example : 999 < exS.scaled := by decide

/-- **T-ds_num**: num sketches (ceiling 0, hence `scaled() = 0`) are returned unchanged by both
entry points, whatever the request. -/
theorem ds_num (k : Kind) (x : Sk) (s' m : Nat) (hx : x.maxHash = 0) :
    downsampleScaled k x s' = .ok x ∧ downsampleMaxHash k x m = .ok x := by
  have : x.scaled = 0 := by show scaledForMaxHash x.maxHash = 0; rw [hx]; rfl
  simp [downsampleScaled, downsampleMaxHash, this, hx]
example : (SetOps.Sk.new 0 21 .dna 42 true 5).maxHash = 0 := rfl

/-- the same-scaled request is the identity -/
theorem ds_same (k : Kind) (x : Sk) : downsampleScaled k x x.scaled = .ok x := by
  simp [downsampleScaled]

end Sourmash.C04
