import Sourmash.Model.Json
import Sourmash.Model.Md5
/-!
Spec/SigFormat.lean — what property C06 *says*, independent of how the serde code does it.

* the published sourmash signature format: field names (in the order the reference writer emits them)
  and value encodings;
* `describes`: what an independent JSON reader that only knows the published names sees in a document
  must be exactly the state of the signatures that were saved;
* `legacyView`: a file that lists hashes (in any order, distinct) with aligned abundances denotes those
  hashes sorted, each still paired with the abundance listed next to it;
* `filterSpec`: loading with a ksize / molecule filter returns exactly the matching sketches, one per
  returned signature, in file order;
* a save/load round trip is the identity on everything observable except the container type;
* `sketchDefect`: whatever life a sketch had before it was saved (adds, removals, merges, md5 queries, clones,
  earlier loads), the sketch object in the document stands on its own: its hashes are strictly increasing,
  `abundances` (when present) has one entry per hash, and `md5sum` is the MD5 of `ksize` followed by the
  hashes listed next to it.
-/
namespace SigFormat
open SigJson

/-- published: keys of a signature object -/
def signatureFieldNames : List Str :=
  ["class", "email", "hash_function", "filename", "name", "license", "signatures", "version"].map str

/-- published: keys of a sketch object -/
def sketchFieldNames : List Str :=
  ["num", "ksize", "seed", "max_hash", "mins", "md5sum", "abundances", "molecule"].map str

/-- the reference reader takes the sketch keys in this order (`TempSig`) -/
def sketchReadNames : List Str :=
  ["num", "ksize", "seed", "max_hash", "md5sum", "mins", "abundances", "molecule"].map str

/-- published: the `molecule` strings -/
def moleculeName : Mol → Str
  | .dna => str "DNA"
  | .protein => str "protein"
  | .dayhoff => str "dayhoff"
  | .hp => str "hp"
  | .custom s => s

/-- published defaults of the optional signature keys -/
def defaultClass : Str := str "sourmash_signature"
def defaultLicense : Str := str "CC0"
def defaultEmail : Str := str ""
/-- 0.4 -/
def defaultVersionBits : Nat := 0x3fd999999999999a

/-- keys of the (unpublished, serde-derived) HyperLogLog sketch object -/
def hllFieldNames : List Str := ["registers", "p", "q", "ksize"].map str

/-! ### the independent reader -/

def get (k : String) (kvs : List (Str × Json)) : Option Json :=
  (kvs.find? fun kv => kv.1 == str k).map (·.2)

def isNums (l : List Nat) : Json → Bool
  | .arr xs => xs.length == l.length && (xs.zip l).all fun p => match p.1 with | .num n => n == p.2 | _ => false
  | _ => false

def isNum (n : Nat) : Option Json → Bool
  | some (.num m) => m == n
  | _ => false

def isStr (s : Str) : Option Json → Bool
  | some (.str t) => t == s
  | _ => false

def onlyKeys (allowed : List Str) (kvs : List (Str × Json)) : Bool :=
  kvs.all fun kv => allowed.contains kv.1

def describesMH (kvs : List (Str × Json)) (m : MinHash) : Bool :=
  onlyKeys sketchFieldNames kvs &&
  isNum m.num (get "num" kvs) && isNum m.ksize (get "ksize" kvs) && isNum m.seed (get "seed" kvs) &&
  isNum m.maxHash (get "max_hash" kvs) && isStr m.md5 (get "md5sum" kvs) &&
  isStr (moleculeName m.mol) (get "molecule" kvs) &&
  (match get "mins" kvs with | some j => isNums m.mins j | none => false) &&
  (match m.abunds, get "abundances" kvs with
    | none, none => true
    | some a, some j => isNums a j
    | _, _ => false)

def describesSketch : Json → Sketch → Bool
  | .obj kvs, .vec m => describesMH kvs m
  | .obj kvs, .tree m => describesMH kvs m
  | .obj kvs, .hll regs p q ksize =>
    onlyKeys hllFieldNames kvs && isNum p (get "p" kvs) && isNum q (get "q" kvs) && isNum ksize (get "ksize" kvs) &&
    (match get "registers" kvs with | some j => isNums regs j | none => false)
  | _, _ => false

def describesSig : Json → Signature → Bool
  | .obj kvs, s =>
    onlyKeys signatureFieldNames kvs &&
    isStr s.cls (get "class" kvs) && isStr s.email (get "email" kvs) &&
    isStr s.hashFunction (get "hash_function" kvs) && isStr s.license (get "license" kvs) &&
    (match s.filename, get "filename" kvs with
      | none, some .null => true
      | some f, some (.str t) => t == f
      | _, _ => false) &&
    (match s.name, get "name" kvs with
      | none, none => true
      | some f, some (.str t) => t == f
      | _, _ => false) &&
    (match get "version" kvs with
      | some (.flt b) => b == s.version
      | some (.num n) => f64BitsOfNat n == some s.version
      | _ => false) &&
    (match get "signatures" kvs with
      | some (.arr xs) => xs.length == s.sketches.length && (xs.zip s.sketches).all fun p => describesSketch p.1 p.2
      | _ => false)
  | _, _ => false

/-- the document is an array with one object per signature, each showing exactly that signature's state -/
def describes : Json → List Signature → Bool
  | .arr xs, sigs => xs.length == sigs.length && (xs.zip sigs).all fun p => describesSig p.1 p.2
  | _, _ => false

/-! ### legacy files -/

/-- one sketch of a file: (ksize, hashes, abundances) as the file denotes them -/
abbrev SketchView := Nat × List Nat × Option (List Nat)

def numsOf : Json → Option (List Nat)
  | .arr xs => xs.mapM fun j => match j with | .num n => some n | _ => none
  | _ => none

/-- the abundance the file lists next to hash `h` -/
def listedWith (mins ab : List Nat) (h : Nat) : Nat := ((mins.zip ab).lookup h).getD 0

def sketchView : Json → Option (Option SketchView)   -- `some none` = a HyperLogLog object
  | .obj kvs =>
    match get "mins" kvs, get "ksize" kvs with
    | some jm, some (.num k) =>
      match numsOf jm with
      | none => none
      | some mins =>
        if ¬ mins.Nodup then none else
        let sorted := mins.mergeSort (fun a b => decide (a ≤ b))
        match get "abundances" kvs with
        | none | some .null => some (some (k, sorted, none))
        | some ja =>
          match numsOf ja with
          | some ab => if ab.length = mins.length then some (some (k, sorted, some (sorted.map (listedWith mins ab)))) else none
          | none => none
    | none, _ => if (get "registers" kvs).isSome then some none else none
    | _, _ => none
  | _ => none

/-- per signature, per sketch; `none` = the property says nothing about this document -/
def legacyView : Json → Option (List (List (Option SketchView)))
  | .arr sigs => sigs.mapM fun
    | .obj kvs => match get "signatures" kvs with
      | some (.arr sks) => sks.mapM sketchView
      | _ => none
    | _ => none
  | _ => none

/-! ### a saved sketch object stands on its own -/

/-- the published `md5sum`: MD5 (lower-case hex) of the decimal digits of `ksize` followed by the decimal
    digits of every hash, in the order listed -/
def md5Of (ksize : Nat) (mins : List Nat) : Str := str (Md5.hex (Md5.digest ksize mins))

def strictInc : List Nat → Bool
  | a :: b :: t => decide (a < b) && strictInc (b :: t)
  | _ => true

/-- `none`: the sketch object is coherent — strictly increasing hashes, one abundance per hash when
    abundances are listed, and the md5sum of exactly the `ksize` and hashes written next to it.
    `some what`: the first thing an independent reader would trip over. -/
def sketchDefect : Json → Option String
  | .obj kvs =>
    match get "ksize" kvs, (get "mins" kvs).bind numsOf, get "md5sum" kvs with
    | some (.num k), some mins, some (.str md5) =>
      if !strictInc mins then some "mins-not-strictly-increasing"
      else if (match get "abundances" kvs with
               | none => false
               | some j => match numsOf j with
                 | some ab => ab.length != mins.length
                 | none => true) then some "abundances-not-one-per-hash"
      else if md5 != md5Of k mins then some "md5sum-not-of-the-saved-mins"
      else none
    | _, _, _ => some "not-a-sketch-object"
  | _ => some "not-a-sketch-object"

/-- the sketch objects of a document, per signature -/
def sketchObjects : Json → List (List Json)
  | .arr sigs => sigs.map fun
    | .obj kvs => match get "signatures" kvs with
      | some (.arr sks) => sks
      | _ => []
    | _ => []
  | _ => []

/-- first defect among the sketch objects selected by `which` (per signature, per sketch) -/
def documentDefect (j : Json) (which : List (List Bool)) : Option String :=
  (((sketchObjects j).zip which).flatMap fun p => (p.1.zip p.2).filterMap fun q =>
    if q.2 then sketchDefect q.1 else none).head?

/-- the state of a sketch that the sketch operations keep (C01, C13): what `sketchDefect` asks of the
    document, asked of the state -/
structure Coherent (m : MinHash) : Prop where
  sorted : strictInc m.mins = true
  aligned : ∀ a, m.abunds = some a → a.length = m.mins.length
  md5 : m.md5 = md5Of m.ksize m.mins

def CoherentSketch : Sketch → Prop
  | .vec m | .tree m => Coherent m
  | .hll .. => False

/-! worked instances (evaluated whenever this file is compiled): the two ways a document can betray a sketch
whose life went wrong — an md5sum left over from earlier hashes, abundances of hashes that are gone -/
section
private def obj (ksize : Nat) (mins : List Nat) (ab : Option (List Nat)) (md5 : Str) : Json :=
  .obj ([(str "num", .num 3), (str "ksize", .num ksize), (str "seed", .num 42), (str "max_hash", .num 0),
         (str "mins", .arr (mins.map .num)), (str "md5sum", .str md5)] ++
        (match ab with | some a => [(str "abundances", .arr (a.map .num))] | none => []) ++
        [(str "molecule", .str (str "DNA"))])
#guard sketchDefect (obj 21 [1, 2, 10] none (md5Of 21 [1, 2, 10])) == none
#guard md5Of 21 [1, 2, 10] == str "df5a50fb3214b36f12916dadd6f2a062"   -- what the real `md5sum()` reports
#guard sketchDefect (obj 21 [1, 2, 10] none (md5Of 21 [10, 20, 30])) == some "md5sum-not-of-the-saved-mins"
#guard sketchDefect (obj 31 [1, 2, 10] (some [5, 7, 5, 2, 3]) (md5Of 31 [1, 2, 10])) == some "abundances-not-one-per-hash"
#guard sketchDefect (obj 31 [1, 2, 10] (some [5, 7, 5]) (md5Of 31 [1, 2, 10])) == none
#guard sketchDefect (obj 31 [2, 2, 10] none (md5Of 31 [2, 2, 10])) == some "mins-not-strictly-increasing"
end

/-! ### filters -/

def matchesMH (k : Option Nat) (m : Option Mol) (mh : MinHash) : Bool :=
  (k.isNone || k == some mh.ksize) && (m.isNone || m == some mh.mol)

def sketchOk (k : Option Nat) (m : Option Mol) : Sketch → Bool
  | .vec mh | .tree mh => matchesMH k m mh
  | .hll .. => false

/-- exactly the matching sketches, one per returned signature, order preserved -/
def filterSpec (k : Option Nat) (m : Option Mol) (sigs : List Signature) : List Signature :=
  sigs.flatMap fun s => (s.sketches.filter (sketchOk k m)).map fun sk => { s with sketches := [sk] }

def hasHll (sigs : List Signature) : Bool :=
  sigs.any fun s => s.sketches.any fun | .hll .. => true | _ => false

end SigFormat

/-! ### the states the property quantifies over -/
namespace SigFormat
open SigJson

/-- one of the four hash functions of the format (`HashFunctions::Custom` has no published name) -/
def standard : Mol → Prop
  | .custom _ => False
  | _ => True

instance : DecidablePred standard := fun m => by cases m <;> (unfold standard; infer_instance)

/-- the field types: `num, ksize : u32`, `seed, max_hash : u64`, hashes and abundances `u64` -/
structure InRange (m : MinHash) : Prop where
  num : m.num < 2^32
  ksize : m.ksize < 2^32
  seed : m.seed < 2^64
  maxHash : m.maxHash < 2^64
  mins : ∀ x ∈ m.mins, x < 2^64
  abunds : ∀ a, m.abunds = some a → ∀ x ∈ a, x < 2^64

/-- a sketch state as C01 guarantees it: hashes strictly increasing, abundances aligned; a sketch is a
    num sketch or a scaled sketch (DESIGN App. A: "scaled ≥ 1 or num ≥ 1"), with a standard hash function -/
structure WFMinHash (m : MinHash) : Prop extends InRange m where
  sorted : m.mins.Pairwise (· < ·)
  aligned : ∀ a, m.abunds = some a → a.length = m.mins.length
  numOrScaled : m.maxHash ≠ 0 → m.num = 0
  mol : standard m.mol

def WFSketch : Sketch → Prop
  | .vec m | .tree m => WFMinHash m
  | .hll regs p q ksize => (∀ r ∈ regs, r < 256) ∧ p < 2^64 ∧ q < 2^64 ∧ ksize < 2^64

def WFSignature (s : Signature) : Prop := ∀ sk ∈ s.sketches, WFSketch sk

/-- a sketch without its container type: parameters, hashes, abundances, md5 (or the HyperLogLog state) -/
def content : Sketch → Sum MinHash (List Nat × Nat × Nat × Nat)
  | .vec m | .tree m => .inl m
  | .hll regs p q ksize => .inr (regs, p, q, ksize)

end SigFormat
