/-!
Spec/Similarity.lean — property C05, abstract specification.

Set-level definitions over the retained hashes, written with `filter` / `contains` / `lookup` only —
no two-pointer walk, no sortedness: they mean what they say on any duplicate-free list.
-/
namespace SimilaritySpec

/-- A ∩ B (in the order of A) -/
def inter (a b : List Nat) : List Nat := a.filter (fun h => b.contains h)

/-- A ∪ B (A, then what B adds) -/
def union (a b : List Nat) : List Nat := a ++ b.filter (fun h => !a.contains h)

/-- number of members of `u` below `h` -/
def rank (u : List Nat) (h : Nat) : Nat := (u.filter (fun k => decide (k < h))).length

/-- the `n` smallest members of `u` -/
def bottom (n : Nat) (u : List Nat) : List Nat := u.filter (fun h => decide (rank u h < n))

/-- `(|A ∩ B|, |A ∪ B|)` for scaled sketches (`n = 0`);
    `(|A ∩ B ∩ bottom_n(A ∪ B)|, |bottom_n(A ∪ B)|)` for num sketches -/
def jaccardPair (n : Nat) (a b : List Nat) : Nat × Nat :=
  if n = 0 then ((inter a b).length, (union a b).length)
  else
    let bot := bottom n (union a b)
    (((inter a b).filter (fun h => bot.contains h)).length, bot.length)

/-- `(|A ∩ B|, |A|)` -/
def containmentPair (a b : List Nat) : Nat × Nat := ((inter a b).length, a.length)

/-- abundance of `h` in the sketch `(mins, abunds)`; 0 when absent -/
def abundOf (mins abunds : List Nat) (h : Nat) : Nat := ((mins.zip abunds).lookup h).getD 0

def sum : List Nat → Nat
  | [] => 0
  | x :: xs => x + sum xs

/-- Σ_{h ∈ A ∩ B} a_h · b_h -/
def dot (am aab bm bab : List Nat) : Nat :=
  sum ((inter am bm).map (fun h => abundOf am aab h * abundOf bm bab h))

/-- Σ a_h² -/
def sumSq (ab : List Nat) : Nat := sum (ab.map (fun x => x * x))

/-- `(Σ_{h∈A∩B} a_h·b_h, Σ a², Σ b²)` -/
def angularTriple (am aab bm bab : List Nat) : Nat × Nat × Nat :=
  (dot am aab bm bab, sumSq aab, sumSq bab)

end SimilaritySpec
