import Sourmash.Spec.Sample
import Sourmash.Model.Md5Cache
/-!
Spec/SampleBulk.lean — C01 over EVERY insertion / removal entry point of both sketch types.

`Spec/Sample.lean` speaks about histories of single-hash steps.  The sketch types offer more ways in:
`add_many`, `add_many_with_abund`, `add_from`, `remove_from`, `remove_many`, `add_word`, the C entry
points `kmerminhash_add_many` and `kmerminhash_set_abundances(clear)`.  The property does not give any
of them a meaning of its own: **a bulk step means the single steps it stands for, in order**
(`BOp.expand`; `St.stepB` is literally `foldl St.step`).  Observers (`md5sum`, `Clone`, `==`,
serialising) are steps of a history too and mean *nothing changes* (`BOp.observe`, expansion `[]`).

`HistB` is the history tree over these steps: besides `merge`, `add_from` and `remove_from` take an
arbitrarily built second operand; a clone of a sketch is the same subtree used twice (so
`a.merge(&a.clone())` is `.merge H H`).  `runSpecB` interprets it on the abstract sample,
`runVecB` / `runTreeB` run the executable models, calling the model's own bulk functions
(`Vec.addMany`, `Vec.addManyAbund`, `Vec.addFrom`, `Vec.removeFrom`, `Vec.setAbundances`, `Vec.md5sum`, …).
-/
namespace Sample

inductive BOp
  | one (o : Op)                                     -- the single-hash entry points, remove_many, clear
  | addMany (hs : List Nat)                          -- add_many, kmerminhash_add_many, add_word (one hash)
  | addManyAbund (ps : List (Nat × Nat))             -- add_many_with_abund
  | setAbund (ps : List (Nat × Nat)) (clear : Bool)  -- kmerminhash_set_abundances (vector type only)
  | observe                                          -- md5sum / clone / == / serialise

/-- what a bulk step stands for: single steps, in the order the entry point is documented to take
    them (`kmerminhash_set_abundances`: ascending by hash, then abundance, after the optional clear) -/
def BOp.expand : BOp → List Op
  | .one o => [o]
  | .addMany hs => hs.map (fun h => Op.add h 1)
  | .addManyAbund ps => ps.map (fun p => Op.add p.1 p.2)
  | .setAbund ps clear => (if clear then [Op.clear] else []) ++ (MH.sortPairs ps).map (fun p => Op.add p.1 p.2)
  | .observe => []

/-- the abstract bulk step: the fold of the single steps -/
def St.stepB (k : Kind) (σ : St) (b : BOp) : St := b.expand.foldl (St.step k) σ

/-- `add_from(other)`: `add_hash` for every hash the other sample holds (ascending) -/
def St.addFrom (k : Kind) (σ τ : St) : St := ((keys τ.m).map (fun h => Op.add h 1)).foldl (St.step k) σ

/-- `remove_from(other)` (tree type: `remove_many(other.mins())`) -/
def St.removeFrom (σ τ : St) : St := σ.removeMany (keys τ.m)

def vecStepB (s : MH.Vec) : BOp → MH.Vec
  | .one o => vecStep s o
  | .addMany hs => s.addMany hs
  | .addManyAbund ps => s.addManyAbund ps
  | .setAbund ps c => s.setAbundances ps c
  | .observe => s.md5sum.2

/-- the tree type has neither `set_hash_with_abundance` nor a C API (`HistB.NoSet`) -/
def treeStepB (s : MH.Tree) : BOp → MH.Tree
  | .one o => treeStep s o
  | .addMany hs => s.addMany hs
  | .addManyAbund ps => s.addManyAbund ps
  | .setAbund _ _ => s
  | .observe => s.md5sum.2

inductive HistB
  | new (num : Nat) (track : Bool)
  | op (H : HistB) (o : BOp)
  | merge (H O : HistB)
  | addFrom (H O : HistB)
  | removeFrom (H O : HistB)

def runSpecB (k : Kind) (mh : Nat) : HistB → St
  | .new n t => { num := n, maxHash := mh, track := t }
  | .op H o => (runSpecB k mh H).stepB k o
  | .merge H O => (runSpecB k mh H).merge (runSpecB k mh O)
  | .addFrom H O => (runSpecB k mh H).addFrom k (runSpecB k mh O)
  | .removeFrom H O => (runSpecB k mh H).removeFrom (runSpecB k mh O)

def runVecB (mh : Nat) : HistB → MH.Vec
  | .new n t => MH.Vec.new n mh t
  | .op H o => vecStepB (runVecB mh H) o
  | .merge H O => (runVecB mh H).merge (runVecB mh O)
  | .addFrom H O => (runVecB mh H).addFrom (runVecB mh O)
  | .removeFrom H O => (runVecB mh H).removeFrom (runVecB mh O)

def runTreeB (mh : Nat) : HistB → MH.Tree
  | .new n t => MH.Tree.new n mh t
  | .op H o => treeStepB (runTreeB mh H) o
  | .merge H O => (runTreeB mh H).merge (runTreeB mh O)
  | .addFrom H O => (runTreeB mh H).addFrom (runTreeB mh O)
  | .removeFrom H O => (runTreeB mh H).removeMany (runTreeB mh O).mins

def HistB.WF (mh : Nat) : HistB → Prop
  | .new n _ => WFp n mh
  | .op H _ => H.WF mh
  | .merge H O => H.WF mh ∧ O.WF mh
  | .addFrom H O => H.WF mh ∧ O.WF mh
  | .removeFrom H O => H.WF mh ∧ O.WF mh

def BOp.noSet : BOp → Prop
  | .one o => o.noSet
  | .setAbund _ _ => False
  | _ => True

def HistB.NoSet : HistB → Prop
  | .new _ _ => True
  | .op H o => H.NoSet ∧ o.noSet
  | .merge H O => H.NoSet ∧ O.NoSet
  | .addFrom H O => H.NoSet ∧ O.NoSet
  | .removeFrom H O => H.NoSet ∧ O.NoSet

/-- the single-step histories of `Spec/Sample.lean` are the bulk histories that use `.one` only -/
def Hist.toB : Hist → HistB
  | .new n t => .new n t
  | .op H o => .op H.toB (.one o)
  | .merge H O => .merge H.toB O.toB

end Sample
