import Sourmash.Model.Murmur
/-!
Spec/Kmers.lean — what property C02 *says*, written from the documentation, independently of the
Rust tables and of the `SeqToHashes` state machine:

* a DNA sequence contributes one MurmurHash3 (x64_128, low word) value per length-k window of the
  upper-cased sequence, computed on the lexicographically smaller of the k-mer and its reverse
  complement; a window with a non-ACGT character is skipped when forcing, fails the call otherwise;
* protein / Dayhoff / HP sketches hash every (k/3)-residue window of the residue string after the
  documented alphabet reduction; DNA given to them contributes the windows of the six reading-frame
  translations under the standard genetic code (unknown codons → X).

All tables are byte codes (`Nat`), never `String`s, so that they can be compared with the tables
generated from the source by `decide`.  The only thing taken from the model side is the hash
function itself (`Murmur.hash64`, the MurmurHash3 reference algorithm).
-/
namespace Kmers

/-! ### alphabet -/

/-- ASCII upper-casing (`a`..`z` → `A`..`Z`, everything else unchanged) -/
def upper (b : UInt8) : UInt8 := if 97 ≤ b ∧ b ≤ 122 then b - 32 else b

/-- `A`=65 `C`=67 `G`=71 `T`=84 -/
def isACGTCode (n : Nat) : Bool := n == 65 || n == 67 || n == 71 || n == 84
def isACGT (b : UInt8) : Bool := isACGTCode b.toNat

/-- Watson–Crick complement: A↔T, C↔G, N→N.  A byte that is no base has no complement: 0
    (it can never be part of a hashed DNA k-mer, and translates to X). -/
def compCode (n : Nat) : Nat :=
  if n = 65 then 84 else if n = 84 then 65 else if n = 67 then 71 else if n = 71 then 67
  else if n = 78 then 78 else 0
def comp (b : UInt8) : UInt8 := UInt8.ofNat (compCode b.toNat)

/-- reverse complement -/
def revcomp (s : List UInt8) : List UInt8 := (s.map comp).reverse

/-! ### standard genetic code -/

/-- the standard genetic code, codons in TCAG order:
    `FFLLSSSSYY**CC*WLLLLPPPPHHQQRRRRIIIMTTTTNNKKSSRRVVVVAAAADDEEGGGG` as byte codes -/
def aaCodes : List Nat := [
  70, 70, 76, 76,  83, 83, 83, 83,  89, 89, 42, 42,  67, 67, 42, 87,
  76, 76, 76, 76,  80, 80, 80, 80,  72, 72, 81, 81,  82, 82, 82, 82,
  73, 73, 73, 77,  84, 84, 84, 84,  78, 78, 75, 75,  83, 83, 82, 82,
  86, 86, 86, 86,  65, 65, 65, 65,  68, 68, 69, 69,  71, 71, 71, 71]

/-- the same table as the customary 64-letter string (used by the `selfcheck` op and the `example` in
    Theorems/C02.lean to tie the codes above to the readable form) -/
def aaString : String := "FFLLSSSSYY**CC*WLLLLPPPPHHQQRRRRIIIMTTTTNNKKSSRRVVVVAAAADDEEGGGG"

/-- position of a base in TCAG order -/
def baseIdx (n : Nat) : Option Nat :=
  if n = 84 then some 0 else if n = 67 then some 1 else if n = 65 then some 2 else if n = 71 then some 3
  else none

def aaAt (i : Nat) : Nat := aaCodes.getD i 88

/-- amino acid of a codon (byte codes).  `N` (78) in third position: the common amino acid of the
    four completions if they agree, else X (88).  Anything else that is not a TCAG triple: X. -/
def codonCode (a b c : Nat) : Nat :=
  match baseIdx a, baseIdx b with
  | some i, some j =>
    match baseIdx c with
    | some k => aaAt (16 * i + 4 * j + k)
    | none =>
      if c = 78 then
        let x := aaAt (16 * i + 4 * j)
        if aaAt (16 * i + 4 * j + 1) = x ∧ aaAt (16 * i + 4 * j + 2) = x ∧ aaAt (16 * i + 4 * j + 3) = x
        then x else 88
      else 88
  | _, _ => 88

def codon (a b c : UInt8) : UInt8 := UInt8.ofNat (codonCode a.toNat b.toNat c.toNat)

/-- translation of a nucleotide string, codon by codon; a trailing incomplete codon is dropped -/
def translate : List UInt8 → List UInt8
  | a :: b :: c :: rest => codon a b c :: translate rest
  | _ => []

/-! ### reduced alphabets -/

def memCodes (n : Nat) (l : List Nat) : Bool := l.contains n

/-- Dayhoff classes: C→a, AGPST→b, DENQ→c, HKR→d, ILMV→e, FWY→f, `*`→`*`, everything else X -/
def dayhoffCode (n : Nat) : Nat :=
  if n = 67 then 97
  else if memCodes n [65, 71, 80, 83, 84] then 98
  else if memCodes n [68, 69, 78, 81] then 99
  else if memCodes n [72, 75, 82] then 100
  else if memCodes n [73, 76, 77, 86] then 101
  else if memCodes n [70, 87, 89] then 102
  else if n = 42 then 42 else 88

/-- hydrophobic/polar classes: AFGILMPVWY→h, NCSTDERHKQ→p, `*`→`*`, everything else X -/
def hpCode (n : Nat) : Nat :=
  if memCodes n [65, 70, 71, 73, 76, 77, 80, 86, 87, 89] then 104
  else if memCodes n [78, 67, 83, 84, 68, 69, 82, 72, 75, 81] then 112
  else if n = 42 then 42 else 88

def dayhoff (b : UInt8) : UInt8 := UInt8.ofNat (dayhoffCode b.toNat)
def hp (b : UInt8) : UInt8 := UInt8.ofNat (hpCode b.toNat)

inductive Mol | dna | protein | dayhoff | hp deriving DecidableEq, Repr

/-- the documented alphabet reduction of a residue for a sketch of molecule type `m` -/
def reduce (m : Mol) (b : UInt8) : UInt8 :=
  match m with
  | .dayhoff => dayhoff b
  | .hp => hp b
  | _ => b

/-! ### windows and streams -/

/-- all contiguous length-k windows, left to right (k ≥ 1) -/
def windows {α : Type} (k : Nat) (l : List α) : List (List α) :=
  if k = 0 then [] else (List.range (l.length + 1 - k)).map (fun i => (l.drop i).take k)

/-- the canonical form of a DNA k-mer: the lexicographically smaller of it and its reverse complement -/
def canonical (w : List UInt8) : List UInt8 := if revcomp w < w then revcomp w else w

/-- what one window contributes -/
inductive Ev
  | hash (h : UInt64)   -- this value is added
  | skip                -- nothing is added, processing continues
  | invalidDna          -- the call fails here
  deriving DecidableEq, Repr

/-- DNA: per window, in order; stops at the first failure -/
def dnaEvents (seed : UInt64) (force : Bool) : List (List UInt8) → List Ev
  | [] => []
  | w :: ws =>
    if w.all isACGT then .hash (Murmur.hash64 (canonical w) seed) :: dnaEvents seed force ws
    else if force then .skip :: dnaEvents seed force ws
    else [.invalidDna]

/-- DNA sketch, DNA input -/
def dnaStream (k : Nat) (seed : UInt64) (force : Bool) (seq : List UInt8) : List Ev :=
  dnaEvents seed force (windows k (seq.map upper))

/-- protein-family sketch (`m` ≠ dna), protein input: windows of k/3 residues of the reduced string -/
def proteinHashes (m : Mol) (ksize : Nat) (seed : UInt64) (seq : List UInt8) : List UInt64 :=
  (windows (ksize / 3) ((seq.map upper).map (reduce m))).map (fun w => Murmur.hash64 w seed)

/-- one reading frame: translate, reduce, window, hash -/
def frameHashes (m : Mol) (k : Nat) (seed : UInt64) (nt : List UInt8) : List UInt64 :=
  (windows k ((translate nt).map (reduce m))).map (fun w => Murmur.hash64 w seed)

/-- protein-family sketch, DNA input: frames 0,1,2, forward strand then reverse complement each;
    nothing at all when the sequence is shorter than 3·(k/3) -/
def translateHashes (m : Mol) (ksize : Nat) (seed : UInt64) (seq : List UInt8) : List UInt64 :=
  let k := ksize / 3
  let s := seq.map upper
  if s.length < 3 * k then [] else
  (List.range 3).flatMap (fun f =>
    frameHashes m k seed (s.drop f) ++ frameHashes m k seed ((revcomp s).drop f))

/-- the values a call adds to the sketch, in order, and whether it succeeds.
    (The value 0 cannot be added: the implementation uses it as its "nothing" marker.) -/
def evHashes : List Ev → List UInt64
  | [] => []
  | .hash h :: t => h :: evHashes t
  | .skip :: t => evHashes t
  | .invalidDna :: _ => []

def evOk (l : List Ev) : Bool := !l.contains .invalidDna

end Kmers
