/-!
Specification of the khmer `OXLI` version-4 nodegraph file layout, written from the format
description and **not** through the 32-bit block model of `Model/Nodegraph.lean`:

  `O X L I` 04 02 | k : u32 le | n_tables : u8 | occupied : u64 le |
  per table:  size : u64 le | ⌊size/8⌋+1 bytes, bit b of the table in byte b/8 at bit b%8.

A table at this level is its size and its set of bits (a predicate on bit indices).
-/
namespace Khmer

/-- value of a little-endian bit list -/
def bitsToNat : List Bool → Nat
  | [] => 0
  | b :: t => b.toNat + 2 * bitsToNat t

/-- the byte whose bit j is `f j` (j < 8) -/
def byteOf (f : Nat → Bool) : Nat := bitsToNat ((List.range 8).map f)

/-- data bytes of one table: byte m carries bits 8m .. 8m+7; bits at or above `size` are 0 -/
def tableData (size : Nat) (bit : Nat → Bool) : List Nat :=
  (List.range (size / 8 + 1)).map (fun m => byteOf (fun j => decide (8 * m + j < size) && bit (8 * m + j)))

def u32le (n : Nat) : List Nat := [n % 256, n / 256 % 256, n / 65536 % 256, n / 16777216 % 256]
def u64le (n : Nat) : List Nat := u32le (n % 4294967296) ++ u32le (n / 4294967296)

def fileHeader (k ntables occ : Nat) : List Nat :=
  [0x4f, 0x58, 0x4c, 0x49, 4, 2] ++ u32le k ++ [ntables] ++ u64le occ

/-- one table record from its raw data bytes (what khmer wrote) -/
def tableRecord (size : Nat) (data : List Nat) : List Nat := u64le size ++ data

/-- the whole file for tables given as (size, bit predicate) -/
def file (k occ : Nat) (tables : List (Nat × (Nat → Bool))) : List Nat :=
  fileHeader k tables.length occ ++ tables.flatMap (fun t => tableRecord t.1 (tableData t.1 t.2))

/-- the bit a khmer data block records for index `b` -/
def dataBit (data : List Nat) (b : Nat) : Bool := (data.getD (b / 8) 0).testBit (b % 8)

end Khmer
