import Sourmash.Model.SetOps
/-!
Spec/SetOps.lean — what properties C03 / C04 *say*, in terms of plain list set-operations
(`filter`, `contains`, an insertion sort that drops duplicates).  Nothing here walks two lists in
lock-step; the theorems of `Theorems/C03.lean` / `Theorems/C04.lean` connect the code-shaped model
(`Model/SetOps.lean`) to these definitions, and the drivers print them as the `<spec>` column.

A finite set of hashes is a strictly increasing list (`SInc`); a finite map hash ↦ abundance is a
list of pairs whose keys are strictly increasing.
-/
namespace SetSpec

/-- strictly increasing -/
abbrev SInc (l : List Nat) : Prop := l.Pairwise (· < ·)

/-- insert into a sorted duplicate-free list, keeping it so -/
def insertU (x : Nat) : List Nat → List Nat
  | [] => [x]
  | y :: t => if x < y then x :: y :: t else if x = y then y :: t else y :: insertU x t

/-- the finite set of the elements of `l`, as a sorted list -/
def sortU (l : List Nat) : List Nat := l.foldr insertU []

/-- A ∪ B -/
def union (a b : List Nat) : List Nat := sortU (a ++ b)
/-- A ∩ B (in the order of `a`) -/
def inter (a b : List Nat) : List Nat := a.filter (fun x => b.contains x)
/-- A \ B -/
def diff (a b : List Nat) : List Nat := a.filter (fun x => !b.contains x)
/-- |A ∪ B| by inclusion of the part of B outside A -/
def unionSize (a b : List Nat) : Nat := a.length + (diff b a).length

/-- total abundance of `h` in a multiset of (hash, abundance) insertions -/
def total (items : List (Nat × Nat)) (h : Nat) : Nat :=
  ((items.filter (fun p => p.1 == h)).map Prod.snd).sum

/-- does a sketch with ceiling `maxHash` retain `h`?  (`maxHash = 0`: num sketch, no ceiling) -/
def within (maxHash h : Nat) : Bool := maxHash == 0 || h ≤ maxHash

/-- the `num` smallest of a sorted list (`num = 0`: no bound) -/
def bottom {α : Type} (num : Nat) (l : List α) : List α := if num = 0 then l else l.take num

/-- The sketch (keys) that parameters (`num`, `maxHash`) define for a multiset of inserted hashes:
all distinct hashes `≤ maxHash` for a scaled sketch, the `num` smallest distinct hashes for a num
sketch. -/
def sketchKeys (num maxHash : Nat) (hs : List Nat) : List Nat :=
  bottom num (sortU (hs.filter (within maxHash)))

/-- … and with abundances: every retained hash carries the sum of its inserted abundances. -/
def sketchPairs (num maxHash : Nat) (items : List (Nat × Nat)) : List (Nat × Nat) :=
  (sketchKeys num maxHash (items.map Prod.fst)).map (fun h => (h, total items h))

/-- filter by a ceiling, on keys and on (key, abundance) pairs -/
def below (m : Nat) (ks : List Nat) : List Nat := ks.filter (· ≤ m)
def belowP (m : Nat) (ps : List (Nat × Nat)) : List (Nat × Nat) := ps.filter (fun p => p.1 ≤ m)

end SetSpec

/-! ### the same at the level of sketches -/
namespace SetOps
open SetSpec

/-- abundance of `h` in `s`: 0 when absent (1 for the present hashes of a sketch that does not track) -/
def Sk.ab (s : Sk) (h : Nat) : Nat := look s.pairs h

/-- What `a.merge(b)` must leave in `a`: the (bottom-`num` of the) union of the two hash sets; the
sum of the two abundances for every retained hash when both operands track, no abundances otherwise;
parameters of `a`. -/
def mergeSpec (a b : Sk) : Sk :=
  let ks := bottom a.num (union a.mins b.mins)
  { a with mins := ks,
           abunds := if a.track && b.track then some (ks.map (fun h => a.ab h + b.ab h)) else none }

/-- a scaled sketch: no `num` bound, a non-zero ceiling, every hash under the ceiling,
every abundance positive -/
def Sk.Scaled (s : Sk) : Prop :=
  s.WF ∧ s.num = 0 ∧ s.maxHash ≠ 0 ∧ (∀ h ∈ s.mins, h ≤ s.maxHash) ∧
  (∀ ab, s.abunds = some ab → ∀ a ∈ ab, 0 < a)

/-- What downsampling to ceiling `m` must produce: the hashes `≤ m` with their abundances. -/
def belowSk (m : Nat) (s : Sk) : Sk :=
  { s with maxHash := m, mins := below m s.mins,
           abunds := s.abunds.map (fun ab => (belowP m (s.mins.zip ab)).map Prod.snd) }

end SetOps

namespace SetOps
/-- the same comparison with the operands exchanged: (prod, a_sq, b_sq) ↦ (prod, b_sq, a_sq); the
Jaccard pair is symmetric -/
def SimParts.swap : SimParts → SimParts
  | .jaccard c n => .jaccard c n
  | .angular p a b => .angular p b a
end SetOps
