import Sourmash.Model.Datasets
/-! Spec/Index.lean — what properties C07 / C09 *say*, independent of how the code computes it.

* the two recorded assumptions about the roaring byte format (`ManyCodec.Lawful`);
* the sequential reference build: hash ↦ the sorted list of datasets containing it;
* exact overlaps: dataset ↦ |Q ∩ D_i| for the datasets sharing at least one hash with the query;
* threshold search: the datasets whose overlap meets the threshold.
Core Lean only. -/
namespace RevIdx

/-- strictly increasing -/
abbrev Sorted (l : List Nat) : Prop := l.Pairwise (· < ·)

/-- The two recorded assumptions about roaring's serialisation (checked on every run against the
real crate on generated id sets, not proved): it round-trips sets of ≥ 2 ids, and never produces
the two lengths that `from_slice` reserves for `Empty` (1) and `Unique` (8). -/
structure ManyCodec.Lawful (c : ManyCodec) : Prop where
  dec_enc : ∀ vs, Sorted vs → 2 ≤ vs.length → (∀ x ∈ vs, x < 2 ^ 32) → c.dec (c.enc vs) = vs
  len_ne_one : ∀ vs, 2 ≤ vs.length → (c.enc vs).length ≠ 1
  len_ne_eight : ∀ vs, 2 ≤ vs.length → (c.enc vs).length ≠ 8

/-- the canonical `Datasets` value of a set of ids given as any list -/
def Datasets.ofList (l : List Nat) : Datasets :=
  match insertAll [] l with
  | [] => Datasets.empty
  | [v] => Datasets.unique v
  | vs => Datasets.many vs

/-- a collection: dataset `d` is the `d`-th hash list -/
abbrev Coll := List (List Nat)

/-- sequential reference build: the datasets containing hash `h`, ascending -/
def refIds (C : Coll) (h : Nat) : List Nat :=
  (List.range C.length).filter (fun d => (C.getD d []).contains h)

/-- every hash occurring in the collection, ascending without repetition -/
def allHashes (C : Coll) : List Nat := insertAll [] C.flatten

/-- the reference index as a table `h ↦ refIds C h` over the hashes that occur -/
def refTable (C : Coll) : List (Nat × List Nat) := (allHashes C).map (fun h => (h, refIds C h))

/-- `l` is an interleaving of the task programs `ps`: every step takes the next write of some task
(a schedule of the parallel build loop that respects each dataset's program order) -/
inductive Interleaving {α : Type} : List (List α) → List α → Prop where
  | done {ps : List (List α)} : (∀ p ∈ ps, p = []) → Interleaving ps []
  | step {pre : List (List α)} {p : List α} {post : List (List α)} {x : α} {l : List α} :
      Interleaving (pre ++ p :: post) l → Interleaving (pre ++ (x :: p) :: post) (x :: l)

/-- whatever RocksDB does with the operands of a key, it merges each of them exactly once: the leaves
of the merge forest are the operands, in some order -/
def GroupingOK (g : Option Nat → List Bytes → List (List MTree)) : Prop :=
  ∀ key ops, (forestLeaves (g key ops)).Perm ops

/-- |Q ∩ D| for duplicate-free `Q` -/
def overlap (Q D : List Nat) : Nat := (Q.filter (fun h => D.contains h)).length

/-- exact overlaps: `(i, |Q ∩ D_i|)` for the datasets with non-empty intersection, ascending in `i` -/
def refCounter (C : Coll) (Q : List Nat) : List (Nat × Nat) :=
  (List.range C.length).filterMap (fun i =>
    let n := overlap Q (C.getD i [])
    if n = 0 then none else some (i, n))

/-- the entries a threshold search must report (in some non-increasing order of count) -/
def refMatches (counter : List (Nat × Nat)) (t : Nat) : List (Nat × Nat) :=
  counter.filter (fun e => t ≤ e.2)

end RevIdx
