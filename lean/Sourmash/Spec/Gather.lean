/-!
Specification of gather (property C08), written from the property's text and independently of
`Model/Gather.lean`: no counter, no decrement, no colours — every round recomputes every overlap
from scratch with `filter`/`contains`.

  repeat: among the datasets not yet reported, take the one sharing the most hashes with the
  not-yet-explained part of the query (ties: lowest id); stop if that overlap does not meet the
  threshold (or nothing is shared at all); report it; remove its hashes from the query; a reported
  match exactly at the threshold ends the search.

Per-match statistics are the stated functions of these sets.
-/
namespace GatherSpec

/-- `|D ∩ R|` -/
def overlap (D R : List Nat) : Nat := (D.filter (fun h => R.contains h)).length

/-- the unreported dataset with the largest overlap; scanning ids upwards, a later id only replaces
    the best so far with a strictly larger overlap (so ties stay with the lowest id) -/
def best (dsets : List (List Nat)) (R reported : List Nat) : Option (Nat × Nat) :=
  (List.range dsets.length).foldl (fun b d =>
    if reported.contains d then b else
    let o := overlap (dsets.getD d []) R
    match b with
    | none => some (d, o)
    | some (_, bo) => if o > bo then some (d, o) else b) none

structure Match where
  d : Nat
  /-- overlap with the remaining query when it was chosen -/
  overlap : Nat
  /-- `match ∩ remaining query` -/
  isect : List Nat

def greedy (dsets : List (List Nat)) (t : Nat) : Nat → List Nat → List Nat → List Match
  | 0, _, _ => []
  | fuel + 1, R, reported =>
    match best dsets R reported with
    | none => []
    | some (d, o) =>
      if o < t ∨ o = 0 then [] else
      let D := dsets.getD d []
      let m : Match := { d := d, overlap := o, isect := D.filter (fun h => R.contains h) }
      if o = t then [m]
      else m :: greedy dsets t fuel (R.filter (fun h => !D.contains h)) (reported ++ [d])

/-- the greedy cover of query hashes `Q` at threshold `t` -/
def cover (dsets : List (List Nat)) (t : Nat) (Q : List Nat) : List Match :=
  greedy dsets t dsets.length Q []

/-- abundance of a hash in the query (0 if absent) -/
def abundOf (q : List (Nat × Nat)) (h : Nat) : Nat :=
  match q.find? (fun p => p.1 == h) with
  | some p => p.2
  | none => 0

structure Stat where
  rank : Nat
  uniqueBp : Nat
  remainingBp : Nat
  /-- unique fraction of the query, as numerator / denominator -/
  fUnique : Nat × Nat
  nUniqueW : Nat
  sumW : Nat
  totalW : Nat
  fUniqueW : Nat × Nat

/-- statistics of the matches in order: `explained` = hashes explained by earlier matches,
    `sumW` = weighted hashes found by earlier matches -/
def statsFrom (scaled : Nat) (q : List (Nat × Nat)) : Nat → Nat → Nat → List Match → List Stat
  | _, _, _, [] => []
  | rank, explained, sumW, m :: ms =>
    let u := m.isect.length
    let w := (m.isect.map (abundOf q)).sum
    let total := (q.map (·.2)).sum
    { rank := rank, uniqueBp := scaled * u, remainingBp := scaled * (q.length - (explained + u)),
      fUnique := (u, q.length), nUniqueW := w, sumW := sumW + w, totalW := total,
      fUniqueW := (w, total) } :: statsFrom scaled q (rank + 1) (explained + u) (sumW + w) ms

def stats (scaled : Nat) (q : List (Nat × Nat)) (ms : List Match) : List Stat :=
  statsFrom scaled q 0 0 0 ms

end GatherSpec
