import Sourmash.Model.Select
/-!
Spec/Select.lean — what property C11 *says*: a sketch (or the manifest row describing it) is kept by a
selection iff it satisfies every requested criterion; a scaled request keeps only scaled sketches whose
scaled value is not larger than requested and delivers them cut at the requested ceiling.
Nothing here follows the control flow of the code.
-/
namespace Select
open Scaled

/-- what a selection looks at: ksize **in residues for the protein family**, molecule type,
    abundance tracking, num, scaled -/
structure Descr where
  ksize : Nat
  mol : Option Mol
  abund : Bool
  num : Nat
  scaled : Nat
  deriving DecidableEq, Repr

def Sketch.described (s : Sketch) : Descr :=
  { ksize := if s.mol.proteinFamily then s.ksize / 3 else s.ksize
    mol := some s.mol, abund := s.tracked, num := s.num, scaled := s.scaled }

def Record.described (r : Record) : Descr :=
  { ksize := r.ksize, mol := r.mol?, abund := r.withAbundance, num := r.num, scaled := r.scaled }

/-- absent criterion: no constraint -/
def crit {α : Type} (o : Option α) (p : α → Bool) : Bool :=
  match o with
  | none => true
  | some a => p a

/-- the conjunction of the five optional criteria, as the property states them -/
def satisfies (sel : Selection) (d : Descr) : Bool :=
  crit sel.ksize (fun k => d.ksize == k) &&
  crit sel.moltype (fun m => decide (d.mol = some m)) &&
  crit sel.abund (fun a => d.abund == a) &&
  crit sel.num (fun n => d.num == n) &&
  crit sel.scaled (fun sc => d.scaled != 0 && decide (d.scaled ≤ sc))

/-- a sketch cut at the ceiling that belongs to scaled value `sc`: hashes above the ceiling go, with
    their abundances; everything else about the sketch stays -/
def cutAt (sc : Nat) (s : Sketch) : Sketch :=
  let m := maxHashForScaled sc
  if s.tracked then
    let kept := (s.mins.zip s.abunds).filter (fun p => decide (p.1 ≤ m))
    { s with maxHash := m, mins := kept.map (·.1), abunds := kept.map (·.2) }
  else { s with maxHash := m, mins := s.mins.filter (fun h => decide (h ≤ m)) }

/-- what a retained sketch is delivered as: untouched without a scaled request or when it already
    has the requested scaled value, cut at the requested ceiling otherwise -/
def deliver (sel : Selection) (s : Sketch) : Sketch :=
  match sel.scaled with
  | none => s
  | some sc => if s.scaled = sc then s else cutAt sc s

/-- the specification of selection on a list of sketches -/
def selectSpec (sel : Selection) (l : List Sketch) : List Sketch :=
  (l.filter (fun s => satisfies sel s.described)).map (deliver sel)

/-- sketches the statements are about: protein-family k-mer sizes are stored as three times the
    residue count; a tracked sketch has one non-zero abundance per hash -/
def Sketch.wf (s : Sketch) : Prop :=
  (s.mol.proteinFamily = true → s.ksize % 3 = 0) ∧
  (s.tracked = true → s.abunds.length = s.mins.length ∧ ∀ a ∈ s.abunds, a ≠ 0) ∧
  (s.tracked = false → s.abunds = [])

instance (s : Sketch) : Decidable s.wf := by unfold Sketch.wf; infer_instance

/-- positions (counted from `i`) of the elements of a list that a predicate retains -/
def retainedFrom {α : Type} (p : α → Bool) : Nat → List α → List Nat
  | _, [] => []
  | i, a :: l => if p a then i :: retainedFrom p (i + 1) l else retainedFrom p (i + 1) l

end Select
