import Sourmash.Model.Crash
/-!
Spec/Crash.lean — what property C10 demands, stated over the model's vocabulary.

* the reference state of a completed index over a collection `c`:
  `HASHES[h] = {d : h ∈ D_d}`, every dataset processed, metadata saved (`cleanState`; `refAt`,
  `refKeys` compute the same thing directly from the dataset lists for the driver's spec column);
* `cleanBuild`: the uninterrupted build;
* `Reach`: every state a directory can be in after any number of interrupted runs;
* the reference answers (`refCounter`, `refGather`) computed from the dataset lists alone.
-/
namespace Crash

/-- the loaded processed set `P` denotes the stored one -/
def Agrees (P : List Nat) (s : Disk) : Prop := ∀ d, d ∈ P ↔ d ∈ s.procSet

/-- the graph `{(h,d) : h ∈ D_d}` as a strictly increasing list -/
def graph (c : Coll) : List (Nat × Nat) :=
  union [] ((List.range c.length).flatMap (fun d => (c.hashesOf d).map (fun h => (h, d))))

/-- the state of a completed build of `c` (with whatever STORAGE held before) -/
def cleanState (c : Coll) (sp : Spec) (st : Store) : Disk :=
  { hashes := graph c,
    processed := if c.length = 0 then none else some (List.range c.length),
    version := some DB_VERSION, manifest := some c.manifest, spec := some sp, storage := st }

/-- the uninterrupted build of `c` into an empty directory (single-threaded order; by
`Sourmash.C10.clean_any_order` every other order gives the same state) -/
def cleanBuild (c : Coll) (sp : Spec) : Disk := run Disk.empty (seqLog c [] ++ metaLog c sp)

/-- The states a directory can be in after ANY number of interrupted runs of the build of `c`
(storage spec `sp`) starting from `s0`: each round loads the processed set (`P`, which `Agrees` with
the stored one — `agrees_create` / `agrees_open` show that both `load_processed` branches do),
issues its writes in some linearisation `L`, and is killed after `k` writes (`k` beyond the end =
the run completed). -/
inductive Reach (c : Coll) (sp : Spec) (s0 : Disk) : Disk → Prop where
  | start : Reach c sp s0 s0
  | round {s : Disk} {P : List Nat} {L : List Write} (k : Nat) :
      Reach c sp s0 s → Agrees P s → IsLin c P L → Reach c sp s0 (crashAt s (L ++ metaLog c sp) k)

/-! ### reference answers, from the dataset lists alone (spec column of the driver) -/

/-- `{d : h ∈ D_d}` in increasing order -/
def refAt (c : Coll) (h : Nat) : List Nat :=
  (List.range c.length).filter (fun d => (c.hashesOf d).contains h)

def insNat (a : Nat) : List Nat → List Nat
  | [] => [a]
  | x :: xs => if a < x then a :: x :: xs else if a = x then x :: xs else x :: insNat a xs

/-- every hash that occurs in some dataset, increasing -/
def refKeys (c : Coll) : List Nat := (c.flatMap (·.hashes)).foldl (fun acc h => insNat h acc) []

/-- `|q ∩ D_d|` per dataset, zero overlaps omitted -/
def refCounter (c : Coll) (q : List Nat) : List (Nat × Nat) :=
  (List.range c.length).filterMap (fun d =>
    let k := (q.filter (fun h => (c.hashesOf d).contains h)).length
    if k = 0 then none else some (d, k))

/-- greedy min-set-cover on the dataset lists: repeatedly the dataset with the largest overlap with
what remains of the query (ties: smallest id), reported as (id, |q ∩ D_d|, |remaining ∩ D_d|) -/
def refGather (c : Coll) (q : List Nat) : Nat → List Nat → List Nat → List (Nat × Nat × Nat) → List (Nat × Nat × Nat)
  | 0, _, _, acc => acc
  | fuel + 1, cands, remaining, acc =>
    let scored := cands.map (fun d => (d, (remaining.filter (fun h => (c.hashesOf d).contains h)).length))
    match pickMax scored with
    | none => acc
    | some (d, size) =>
      if size = 0 then acc else
      refGather c q fuel (cands.filter (· != d)) (remaining.filter (fun h => !(c.hashesOf d).contains h))
        (acc ++ [(d, (q.filter (fun h => (c.hashesOf d).contains h)).length, size)])

end Crash
