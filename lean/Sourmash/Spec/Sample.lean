import Sourmash.Model.MinHash
/-!
Spec/Sample.lean — what property C01 *says*: the sample a sketch must hold after a history.

The abstract state is a finite map `hash ⇀ abundance` (an association list with strictly increasing
keys), a tracking flag, and the two parameters.  Each operation has an abstract step that does not
look at the code:

* scaled sketch (`maxHash ≥ 1`, `num = 0`): `add h a` inserts `h` / accumulates `a` iff `h ≤ maxHash`;
* num sketch (`num ≥ 1`, `maxHash = 0`): the same insert, then *evict the largest while more than
  `num` hashes are held*;
* `add h 0` deletes `h` on the vector type and does nothing on the tree type;
* `set h a` overwrites the abundance of a held hash (even with 0), otherwise behaves as `add`;
* `remove`, `remove_many`, `clear` are the map operations;
* `merge` is the key union with summed abundances (every pair of the other sample added into this
  one), then the same eviction; the result tracks abundances iff both operands do.

Histories are trees (`Hist`): a merge takes the sample of an arbitrarily built second sketch.
`runSpec` interprets a history abstractly, `runVec`/`runTree` run the executable models of
`Model/MinHash.lean` on it; `Obs` is what `mins()`/`abunds()` show.
-/
namespace Sample

abbrev FMap := List (Nat × Nat)

def keys (m : FMap) : List Nat := m.map Prod.fst
def vals (m : FMap) : List Nat := m.map Prod.snd

/-- insert `h` with abundance `a`, or add `a` to the abundance `h` already has -/
def ins : FMap → Nat → Nat → FMap
  | [], h, a => [(h, a)]
  | (k, v) :: t, h, a =>
    if h < k then (h, a) :: (k, v) :: t
    else if h = k then (k, v + a) :: t
    else (k, v) :: ins t h a

/-- delete key `h` -/
def del (m : FMap) (h : Nat) : FMap := m.filter (fun kv => kv.1 != h)

def has (m : FMap) (h : Nat) : Bool := m.any (fun kv => kv.1 == h)

/-- overwrite the abundance of key `h` -/
def setv (m : FMap) (h a : Nat) : FMap := m.map (fun kv => if kv.1 = h then (kv.1, a) else kv)

/-- "evict the largest while more than `n` are held" (the largest key is the last entry) -/
def evict (n : Nat) (m : FMap) : FMap :=
  if n < m.length then evict n m.dropLast else m
termination_by m.length
decreasing_by simp; omega

/-- key union with summed abundances: every entry of `o` is added into `m` -/
def union (m o : FMap) : FMap := o.foldl (fun acc kv => ins acc kv.1 kv.2) m

inductive Kind | vec | tree
  deriving DecidableEq, Repr

/-- abstract sketch: parameters, tracking flag, sample -/
structure St where
  num : Nat
  maxHash : Nat
  track : Bool
  m : FMap := []

/-- a num sketch keeps the `num` smallest; a scaled sketch (`num = 0`) keeps everything -/
def St.cap (σ : St) (m : FMap) : FMap := if σ.num = 0 then m else evict σ.num m

def St.add (k : Kind) (σ : St) (h a : Nat) : St :=
  if σ.maxHash ≠ 0 ∧ σ.maxHash < h then σ
  else if a = 0 then
    match k with
    | .vec => { σ with m := del σ.m h }
    | .tree => σ
  else { σ with m := σ.cap (ins σ.m h a) }

def St.set (σ : St) (h a : Nat) : St :=
  if has σ.m h then { σ with m := setv σ.m h a } else σ.add .vec h a

def St.remove (σ : St) (h : Nat) : St := { σ with m := del σ.m h }

def St.removeMany (σ : St) (hs : List Nat) : St := hs.foldl St.remove σ

def St.clear (σ : St) : St := { σ with m := [] }

def St.merge (σ o : St) : St :=
  { σ with m := σ.cap (union σ.m o.m), track := σ.track && o.track }

/-- what `mins()` / `abunds()` show -/
structure Obs where
  mins : List Nat
  abunds : Option (List Nat)
  deriving DecidableEq, Repr

def St.obs (σ : St) : Obs := ⟨keys σ.m, if σ.track then some (vals σ.m) else none⟩
def vecObs (s : MH.Vec) : Obs := ⟨s.mins, s.abunds⟩
def treeObs (s : MH.Tree) : Obs := ⟨s.mins, s.abundVals⟩

/-! ### histories -/

inductive Op
  | add (h a : Nat)
  | set (h a : Nat)            -- vector type only
  | remove (h : Nat)
  | removeMany (hs : List Nat)
  | clear

inductive Hist
  | new (num : Nat) (track : Bool)
  | op (H : Hist) (o : Op)
  | merge (H O : Hist)

def St.step (k : Kind) (σ : St) : Op → St
  | .add h a => σ.add k h a
  | .set h a => σ.set h a
  | .remove h => σ.remove h
  | .removeMany hs => σ.removeMany hs
  | .clear => σ.clear

def vecStep (s : MH.Vec) : Op → MH.Vec
  | .add h a => s.add h a
  | .set h a => s.set h a
  | .remove h => s.remove h
  | .removeMany hs => s.removeMany hs
  | .clear => s.clear

/-- the tree type has no `set_hash_with_abundance`; histories for it carry no `set` (`Hist.NoSet`) -/
def treeStep (s : MH.Tree) : Op → MH.Tree
  | .add h a => s.add h a
  | .set _ _ => s
  | .remove h => s.remove h
  | .removeMany hs => s.removeMany hs
  | .clear => s.clear

def runSpec (k : Kind) (mh : Nat) : Hist → St
  | .new n t => { num := n, maxHash := mh, track := t }
  | .op H o => (runSpec k mh H).step k o
  | .merge H O => (runSpec k mh H).merge (runSpec k mh O)

def runVec (mh : Nat) : Hist → MH.Vec
  | .new n t => MH.Vec.new n mh t
  | .op H o => vecStep (runVec mh H) o
  | .merge H O => (runVec mh H).merge (runVec mh O)

def runTree (mh : Nat) : Hist → MH.Tree
  | .new n t => MH.Tree.new n mh t
  | .op H o => treeStep (runTree mh H) o
  | .merge H O => (runTree mh H).merge (runTree mh O)

/-- parameters well-formed: every sketch of the history is a num sketch (`maxHash = 0`, `num ≥ 1`)
    or a scaled sketch (`maxHash ≥ 1`, `num = 0`) -/
def WFp (num mh : Nat) : Prop := (mh = 0 ∧ 1 ≤ num) ∨ (1 ≤ mh ∧ num = 0)

def Hist.WF (mh : Nat) : Hist → Prop
  | .new n _ => WFp n mh
  | .op H _ => H.WF mh
  | .merge H O => H.WF mh ∧ O.WF mh

def Op.noSet : Op → Prop
  | .set _ _ => False
  | _ => True

def Hist.NoSet : Hist → Prop
  | .new _ _ => True
  | .op H o => H.NoSet ∧ o.noSet
  | .merge H O => H.NoSet ∧ O.NoSet

/-- every inserted abundance is at least 1 (the class on which the two sketch types must agree) -/
def Op.posAb : Op → Prop
  | .add _ a => 1 ≤ a
  | .set _ _ => False
  | _ => True

def Hist.PosAb : Hist → Prop
  | .new _ _ => True
  | .op H o => H.PosAb ∧ o.posAb
  | .merge H O => H.PosAb ∧ O.PosAb

end Sample
