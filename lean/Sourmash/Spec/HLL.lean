/-!
Spec/HLL.lean — what property C17 *says* about a HyperLogLog sketch, stated on the multiset of
inserted hashes and independent of the code's bit tricks and of the insertion order.

"Each register holds the maximum, over inserted hashes routed to it by their low p bits, of the
position of the first set bit in the remaining 64-p bits."
-/
namespace HllSpec

/-- the register a hash is routed to: its low `p` bits -/
def bucket (p h : Nat) : Nat := h % 2 ^ p

/-- position (1-based, counted from bit 63 downwards) of the first set bit among the upper `64-p`
    bits of `h`; `64-p+1` when all of them are zero -/
def rho (p h : Nat) : Nat :=
  match (List.range (64 - p)).find? (fun j => h.testBit (63 - j)) with
  | some j => j + 1
  | none => 64 - p + 1

/-- register `i` of the sketch of the multiset `hs`: max of `rho` over the hashes routed to `i`
    (0 when there is none) -/
def reg (p : Nat) (hs : List Nat) (i : Nat) : Nat :=
  (hs.filter (fun h => bucket p h == i)).foldl (fun acc h => max acc (rho p h)) 0

/-- all `2^p` registers at once (what the driver prints in the spec column); `regs_getElem` in
    `Lemmas/HLL.lean` shows entry `i` is `reg p hs i` -/
def regs (p : Nat) (hs : List Nat) : Array Nat :=
  hs.foldl (fun a h => a.set! (bucket p h) (max a[bucket p h]! (rho p h))) (Array.replicate (2 ^ p) 0)

/-- one more batch of hashes folded into a register array: the fold of `regs` continued.  The driver's
    spec column keeps the array of a sketch and continues it over whatever arrives later, whichever
    way it arrives (`regs p (A ++ B) = accum p (regs p A) B`, `Sourmash.C17.spec_accum`). -/
def accum (p : Nat) (a : Array Nat) (hs : List Nat) : Array Nat :=
  hs.foldl (fun a h => a.set! (bucket p h) (max a[bucket p h]! (rho p h))) a

/-- the register-wise union: what merging must produce -/
def mergeRegs (a b : Array Nat) : Array Nat := Array.zipWith max a b

end HllSpec

/-! ### histograms (C18) -/
namespace HllSpec

/-- cell `k` of the register histogram: how many registers equal `k` -/
def hist (regs : List Nat) (k : Nat) : Nat := regs.countP (· == k)

/-- the register pairs `(K1[j], K2[j])` position by position -/
abbrev Pairs := List (Nat × Nat)

/-- cell `i < q` of the "A × B half" histogram of Ertl's joint estimator as used by
    `joint_mle_dispatch`: positions where A's register is `i` and not below B's, plus positions
    where B's register is `i+1` and above A's -/
def halfCell (zs : Pairs) (i : Nat) : Nat :=
  zs.countP (fun ab => (ab.1 == i && decide (ab.2 ≤ ab.1)) || (ab.2 == i + 1 && decide (ab.1 < ab.2)))

/-- the same cell, through the class of a position: `K1` if `K2 ≤ K1`, else `K2 - 1` -/
def halfClass (ab : Nat × Nat) : Nat := if ab.2 ≤ ab.1 then ab.1 else ab.2 - 1

def swap (zs : Pairs) : Pairs := zs.map (fun ab => (ab.2, ab.1))

end HllSpec
