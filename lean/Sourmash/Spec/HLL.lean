/-!
Spec/HLL.lean — what property C17 *says* about a HyperLogLog sketch, stated on the multiset of
inserted hashes and independent of the code's bit tricks and of the insertion order.

"Each register holds the maximum, over inserted hashes routed to it by their low p bits, of the
position of the first set bit in the remaining 64-p bits."
-/
namespace HllSpec

/-- the register a hash is routed to: its low `p` bits -/
def bucket (p h : Nat) : Nat := h % 2 ^ p

/-- position (1-based, counted from bit 63 downwards) of the first set bit among the upper `64-p`
    bits of `h`; `64-p+1` when all of them are zero -/
def rho (p h : Nat) : Nat :=
  match (List.range (64 - p)).find? (fun j => h.testBit (63 - j)) with
  | some j => j + 1
  | none => 64 - p + 1

/-- register `i` of the sketch of the multiset `hs`: max of `rho` over the hashes routed to `i`
    (0 when there is none) -/
def reg (p : Nat) (hs : List Nat) (i : Nat) : Nat :=
  (hs.filter (fun h => bucket p h == i)).foldl (fun acc h => max acc (rho p h)) 0

/-- all `2^p` registers at once (what the driver prints in the spec column); `regs_getElem` in
    `Lemmas/HLL.lean` shows entry `i` is `reg p hs i` -/
def regs (p : Nat) (hs : List Nat) : Array Nat :=
  hs.foldl (fun a h => a.set! (bucket p h) (max a[bucket p h]! (rho p h))) (Array.replicate (2 ^ p) 0)

/-- the register-wise union: what merging must produce -/
def mergeRegs (a b : Array Nat) : Array Nat := Array.zipWith max a b

end HllSpec
