/-!
Reference multi-table Bloom filter (the specification of property C15).

The reference filter is nothing but its table sizes and the hashes that were put into it (its own
insertions and those of every filter that was unioned in).  Bit `b` of the table of size `s` is set
iff some inserted hash `h` has `h % s = b`.  Everything the property talks about is read off that.
No blocks, no counters.
-/
namespace Bloom

/-- bit `b` of the reference table of size `s` after the hashes `H` were inserted -/
def refBit (H : List Nat) (s b : Nat) : Bool := H.any (fun h => h % s == b)

structure Ref where
  sizes : List Nat
  hashes : List Nat := []

/-- membership: 1 iff bit `h % s` is set in every table -/
def Ref.get (r : Ref) (h : Nat) : Nat := if r.sizes.all (fun s => refBit r.hashes s (h % s)) then 1 else 0

/-- would inserting `h` set at least one new bit? -/
def Ref.isNew (r : Ref) (h : Nat) : Bool := r.sizes.any (fun s => !refBit r.hashes s (h % s))

def Ref.insert (r : Ref) (h : Nat) : Ref := { r with hashes := h :: r.hashes }

/-- union with another reference filter (same sizes): its hashes are now in this one too -/
def Ref.union (r o : Ref) : Ref := { r with hashes := r.hashes ++ o.hashes }

/-- the set bits of the table of size `s`, ascending -/
def refOnes (H : List Nat) (s : Nat) : List Nat := (List.range s).filter (refBit H s)

/-- number of set bits of the table of size `s` -/
def refCount (H : List Nat) (s : Nat) : Nat := (refOnes H s).length

/-- occupied bins = set bits of the first table (0 without tables) -/
def Ref.occupied (r : Ref) : Nat :=
  match r.sizes with
  | [] => 0
  | s :: _ => refCount r.hashes s

/-- |A ∩ B| and |A ∪ B| for the tables of size `s` of two reference filters -/
def refInter (Ha Hb : List Nat) (s : Nat) : Nat :=
  ((List.range s).filter (fun b => refBit Ha s b && refBit Hb s b)).length
def refUnion (Ha Hb : List Nat) (s : Nat) : Nat :=
  ((List.range s).filter (fun b => refBit Ha s b || refBit Hb s b)).length

/-- similarity = (Σ |Aᵢ ∩ Bᵢ|, Σ |Aᵢ ∪ Bᵢ|), containment = (Σ |Aᵢ ∩ Bᵢ|, Σ |Aᵢ|) -/
def Ref.similarity (a b : Ref) : Nat × Nat :=
  ((a.sizes.map (refInter a.hashes b.hashes)).sum, (a.sizes.map (refUnion a.hashes b.hashes)).sum)
def Ref.containment (a b : Ref) : Nat × Nat :=
  ((a.sizes.map (refInter a.hashes b.hashes)).sum, (a.sizes.map (refCount a.hashes)).sum)

/-! ### k-mers: the khmer two-bit encoding, written from its description

A = 0, T = 1, C = 2, G = 3, first base most significant; the canonical value of a k-mer is the smaller
of its own encoding and that of its reverse complement. -/

def code (c : Nat) : Nat := if c == 65 then 0 else if c == 84 then 1 else if c == 67 then 2 else 3
def complement (c : Nat) : Nat := if c == 65 then 84 else if c == 84 then 65 else if c == 67 then 71 else 67
def isACGT (c : Nat) : Bool := c == 65 || c == 67 || c == 71 || c == 84

def encode (kmer : List Nat) : Nat := kmer.foldl (fun a c => 4 * a + code c) 0
def revcomp (kmer : List Nat) : List Nat := kmer.reverse.map complement
def canonical (kmer : List Nat) : Nat := min (encode kmer) (encode (revcomp kmer))

end Bloom
