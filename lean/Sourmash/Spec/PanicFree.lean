/-!
# C20 — hand-justified allow-list for exports that are NOT routed through `ffi_fn!`

An `extern "C"` function outside `ffi_fn!` has no landing pad: any panic in it aborts the host
process.  `T-exports` (Theorems/C20.lean) therefore demands, for every row of the export table
that the translator regenerates from `src/core/src/ffi/**/*.rs`, that the function is guarded
**or** that every identifier it calls directly (token scan of its body) is listed here.

Meaning of an entry: *for every argument inside the pointer contract (valid handle, NUL-terminated
string, correct length) the callee returns normally, and if it returns a `Result`/`Option` that the
export unwraps, it returns `Ok`/`Some`.*  Out-of-memory is outside the claim (an allocation
failure aborts under a landing pad as well).  This table is **trusted**: it is the reviewed part of
the argument, the theorem only guarantees that nothing outside it is reachable without a guard.
The keys are tokens, not resolved paths (`.update` is a method name, not an `impl`): entries whose
justification depends on the receiver type are given per export in `panicFreeAt`.

Format of the keys (as produced by translator/c20.py): `Type::func` for path calls (last two
segments), `.method` for method calls, `name!` for macros, `name` for bare calls.
-/
namespace Sourmash.Spec.PanicFree

/-- callees that are total wherever they occur in `ffi/` -/
def panicFree : List String := [
  -- ForeignObject plumbing (ffi/utils.rs:21-56): pointer casts, Box::new / Box::from_raw, drop with null check
  "SourmashComputeParameters::as_rust", "SourmashComputeParameters::as_rust_mut",
  "SourmashComputeParameters::drop", "SourmashComputeParameters::from_rust",
  "SourmashHyperLogLog::as_rust", "SourmashHyperLogLog::as_rust_mut",
  "SourmashHyperLogLog::drop", "SourmashHyperLogLog::from_rust",
  "SourmashKmerMinHash::as_rust", "SourmashKmerMinHash::as_rust_mut",
  "SourmashKmerMinHash::drop", "SourmashKmerMinHash::from_rust",
  "SourmashNodegraph::as_rust", "SourmashNodegraph::as_rust_mut",
  "SourmashNodegraph::drop", "SourmashNodegraph::from_rust",
  "SourmashRevIndex::as_rust", "SourmashRevIndex::drop",
  "SourmashSearchResult::as_rust", "SourmashSearchResult::drop",
  "SourmashSignature::as_rust", "SourmashSignature::drop", "SourmashSignature::from_rust",
  "SourmashZipStorage::drop",
  -- raw-pointer and slice plumbing inside the pointer contract
  ".is_null", "Vec::from_raw_parts", "slice::from_raw_parts", "Box::into_raw", ".into_boxed_slice",
  "CStr::from_ptr", ".to_bytes", ".len", ".iter", ".copied", ".clone", "Some", "Sketch::MinHash",
  -- constructors of empty / default objects (derive(Default), TypedBuilder defaults, Vec::new)
  "ComputeParameters::default", "HyperLogLog::default", "Nodegraph::default", "Signature::default",
  "Default::default", "SourmashStr::default", "SourmashStr::from_string",
  -- KmerMinHash::new: two Vec::with_capacity + max_hash_for_scaled (float division, saturating cast)
  "KmerMinHash::new",
  -- Signature::from_params: builder calls + BTree sketches (cmd.rs:108-190), no indexing, no unwrap
  "Signature::from_params",
  -- field getters / setters (getset-generated or one-line `self.field` bodies)
  ".dayhoff", ".dna", ".hp", ".protein", ".track_abundance", ".num_hashes", ".scaled", ".seed",
  ".set_dayhoff", ".set_dna", ".set_hp", ".set_protein", ".set_track_abundance",
  ".set_num_hashes", ".set_scaled", ".set_seed",
  ".is_protein", ".num", ".ksize", ".max_hash", ".size", ".hash_function",
  ".noccupied", ".ntables", ".tablesizes", ".template",
  -- KmerMinHash::clear / disable_abundance / remove_hash: Vec::clear, assignment, binary_search +
  -- Vec::remove at the found position; the md5 Mutex is never poisoned (no panic while it is held)
  ".clear", ".disable_abundance", ".remove_hash",
  -- check_compatible returns a Result that is only inspected with is_ok
  ".check_compatible", ".is_ok",
  -- hashing of a byte slice; reduced-alphabet look-ups: `HashMap<u8, u8>::get` with a default, total on
  -- every byte value - the argument is a C `char`, so 0x80..0xff (negative chars) are in contract; the
  -- run-time side calls both exports on all 256 values on every run (scenario class `all256`)
  "_hash_murmur", "aa_to_dayhoff", "aa_to_hp",
  -- error channel itself: thread-local RefCell, never borrowed re-entrantly; Display of the stored
  -- error; a total `match` (T-codes); SourmashStr::free is `String::from_raw_parts` + drop
  ".with", ".borrow", ".borrow_mut", ".to_string", "SourmashErrorCode::from_error", ".free",
  "set_panic_hook",
  -- total `Option`/`Result` combinators and moves of std (a closure handed to one of them is written,
  -- and therefore token-scanned, at the call site); `RefCell::replace`/`take` on the error slot borrow
  -- it mutably for the duration of a move only — the same non-re-entrancy argument as `.borrow_mut`
  ".as_ref", ".as_mut", ".as_deref", ".map", ".map_or", ".map_or_else", ".unwrap_or", ".unwrap_or_default",
  ".unwrap_or_else", ".and_then", ".is_some", ".is_none", ".take", ".replace", "drop", "mem::take", "mem::replace"
]

/-- callees that are total *in this export* (receiver- or contract-specific justification) -/
def panicFreeAt : List (String × String) := [
  -- `assert!(!ptr.is_null())`: a non-null pointer is the pointer contract
  ("hash_murmur", "assert!"),
  ("kmerminhash_remove_many", "assert!"),
  -- KmerMinHash::remove_many is a loop over remove_hash and always returns Ok(()) (minhash.rs:426-431)
  ("kmerminhash_remove_many", ".remove_many"),
  ("kmerminhash_remove_many", ".expect"),
  -- `Update<Nodegraph> for Nodegraph` (nodegraph.rs:32-50): zip + union_with, always Ok(())
  ("nodegraph_update", ".update"),
  ("nodegraph_update", ".unwrap"),
  -- ffi::HashFunctions -> encodings::HashFunctions: total four-arm match (ffi/mod.rs:38-50)
  ("kmerminhash_new", ".into"),
  -- encodings::HashFunctions -> ffi::HashFunctions has `todo!()` for `Custom(_)` only; no C-API path
  -- creates a Custom hash function (deserialisation rejects unknown molecules before that)
  ("kmerminhash_hash_function", ".into"),
  -- String -> SourmashStr
  ("searchresult_filename", ".into"),
  -- RevIndex::template() is always Sketch::MinHash: both C constructors build the template with
  -- `Sketch::MinHash(...)` (ffi/index/revindex.rs:63-67,118-122)
  ("revindex_scaled", "unimplemented!")
]

/-- Exports that are unguarded **and abort the process on in-contract arguments**.  Empty since
    /repo 4bca13d routed the 17 exports found by the child-process harness (hll_add_hash,
    hll_cardinality, hll_similarity, hll_containment, hll_intersection_size, hll_matches,
    kmerminhash_add_hash, kmerminhash_add_hash_with_abundance, kmerminhash_add_word,
    nodegraph_with_tables, nodegraph_count, nodegraph_get, nodegraph_count_kmer, nodegraph_get_kmer,
    nodegraph_expected_collisions, nodegraph_matches, nodegraph_update_mh) through `ffi_fn!`;
    corpus/C20/aborts.ops keeps their argument classes as regression inputs.  `T-exports` no longer
    exempts anything. -/
def knownUnguardedAborting : List String := []

/-- the check `T-exports` performs on one row -/
def calleeAllowed (exportName callee : String) : Bool :=
  panicFree.contains callee || panicFreeAt.contains (exportName, callee)

def rowOk (name : String) (guarded : Bool) (callees : List String) : Bool :=
  guarded || callees.all (calleeAllowed name)

end Sourmash.Spec.PanicFree
