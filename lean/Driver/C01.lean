import Driver.Common
import Sourmash.Spec.Sample
import Sourmash.Spec.SampleBulk
import Sourmash.Model.Murmur
/-! C01 driver.  model column: observation of the executable sketch model (`MH.Vec` / `MH.Tree`) after
the op; spec column: observation of the abstract sample (`Sample.St`) after the same op.

Bulk entry points (`addh addmany addab addword csetab`, and the `c…` spellings of the C API, which
are answered as the native op): model column = the model's own bulk function (`vecStepB` /
`treeStepB`: `Vec.addMany`, `Vec.addManyAbund`, `Vec.setAbundances`, …), spec column = the FOLD of the
abstract single steps over the expansion of the bulk step (`St.stepB`, `Spec/SampleBulk.lean`).
`addfrom` / `rmfrom`: `Vec.addFrom` / `Vec.removeFrom` against `St.addFrom` / `St.removeFrom`.
Observers (`md5 eq clone ser reload`): the model goes through `md5sum` / `clone` / `eq` / `serde`
(filling the digest cache as the code does), the abstract sample is left alone; `md5` also answers
the digest (model: the cached or computed one; spec: MD5 of ksize and the sample's keys), `eq` the
verdict (spec: the digests of the two abstract samples agree — `==` is defined through the digest, and
the digest's preimage has no separators, so {13} and {1,3} compare equal: that is C13's recorded
finding (findings/C13.json), not a statement about the sample). -/
open Driver Sample

inductive Sk
  | v (s : MH.Vec)
  | t (s : MH.Tree)

structure DSt where
  kind : Kind := .vec
  main : Sk := .v (MH.Vec.new 0 0 false)
  other : Sk := .v (MH.Vec.new 0 0 false)
  smain : St := { num := 0, maxHash := 0, track := false }
  sother : St := { num := 0, maxHash := 0, track := false }

def kvGet (ws : List String) (key : String) : Nat :=
  match ws.filterMap (fun w => match w.splitOn "=" with
      | [k, v] => if k == key then v.toNat? else none
      | _ => none) with
  | n :: _ => n
  | [] => 0

def showObs (o : Obs) : String :=
  let sum := match o.abunds with
    | some l => l.foldl (· + ·) 0
    | none => o.mins.length
  "mins=" ++ showNats o.mins ++ " abunds=" ++ (match o.abunds with | some l => showNats l | none => "none")
    ++ " size=" ++ toString o.mins.length ++ " sum=" ++ toString sum
    ++ " empty=" ++ (if o.mins.isEmpty then "1" else "0")

def Sk.obs : Sk → Obs
  | .v s => vecObs s
  | .t s => treeObs s

/-- apply a unary op to a model sketch; `none` = op not available on this type -/
def Sk.apply (s : Sk) (o : Op) : Option Sk :=
  match s, o with
  | .v s, o => some (.v (vecStep s o))
  | .t _, .set _ _ => none
  | .t s, o => some (.t (treeStep s o))

def Sk.merge : Sk → Sk → Option Sk
  | .v s, .v o => some (.v (s.merge o))
  | .t s, .t o => some (.t (s.merge o))
  | _, _ => none

def parseOp (op : String) (args : List String) : Option Op :=
  match op, args with
  | "add", [h, a] => some (.add h.toNat! a.toNat!)
  | "set", [h, a] => some (.set h.toNat! a.toNat!)
  | "rm", [h] => some (.remove h.toNat!)
  | "rmmany", [hs] => some (.removeMany (natList hs))
  | "clear", [] => some .clear
  | _, _ => none

def parsePairs (s : String) : List (Nat × Nat) :=
  if s == "-" || s == "" then [] else
  (s.splitOn ",").filterMap (fun w => match w.splitOn ":" with
    | [h, a] => some (h.toNat!, a.toNat!)
    | _ => none)

/-- every entry point as a (bulk) step -/
def parseBOp (op : String) (args : List String) : Option BOp :=
  match op, args with
  | "addh", [h] => some (.addMany [h.toNat!])
  | "addmany", [hs] => some (.addMany (natList hs))
  | "addab", [ps] => some (.addManyAbund (parsePairs ps))
  | "addword", [w] => some (.addMany [(Murmur.hash64 (unhex w) 42).toNat])
  | "csetab", [c, ps] => some (.setAbund (parsePairs ps) (c == "1"))
  | "ser", [] => some .observe
  | _, _ => (parseOp op args).map .one

/-- the native op behind a C-API spelling -/
def capiOf (op : String) : String :=
  if ["cadd", "caddh", "crm", "crmmany", "cclear", "cmerge", "caddfrom", "crmfrom", "caddmany"].contains op
  then (op.drop 1).toString else op

def Sk.applyB (s : Sk) (o : BOp) : Option Sk :=
  match s, o with
  | .v s, o => some (.v (vecStepB s o))
  | .t _, .one (.set _ _) => none
  | .t _, .setAbund _ _ => none
  | .t s, o => some (.t (treeStepB s o))

def Sk.addFrom : Sk → Sk → Option Sk
  | .v s, .v o => some (.v (s.addFrom o))
  | .t s, .t o => some (.t (s.addFrom o))
  | _, _ => none

def Sk.removeFrom : Sk → Sk → Option Sk
  | .v s, .v o => some (.v (s.removeFrom o))
  | .t s, .t o => some (.t (s.removeMany o.mins))
  | _, _ => none

/-- `md5sum()`: the digest and the sketch with its cache filled -/
def Sk.md5 : Sk → MH.Digest × Sk
  | .v s => (s.md5sum.1, .v s.md5sum.2)
  | .t s => (s.md5sum.1, .t s.md5sum.2)

/-- `self == other` (both caches filled) -/
def Sk.eqv : Sk → Sk → Option (Bool × Sk × Sk)
  | .v s, .v o => let r := s.eq o; some (r.1, .v r.2.1, .v r.2.2)
  | .t s, .t o => let r := s.eq o; some (r.1, .t r.2.1, .t r.2.2)
  | _, _ => none

/-- `Clone`: (the copy, the original with its cache filled) -/
def Sk.cloned : Sk → Sk × Sk
  | .v s => (.v s.clone.1, .v s.clone.2)
  | .t s => (.t s.clone.1, .t s.clone.2)

/-- `from_str(to_string(self))` -/
def Sk.reload : Sk → Sk
  | .v s => .v s.serde.1
  | .t s => .t s.serde.1

def stepC01 (s : DSt) (ws : List String) : DSt × Resp :=
  match ws with
  | "case" :: _ :: ty :: rest =>
    let num := kvGet rest "num"; let mh := kvGet rest "mh"; let onum := kvGet rest "onum"
    let track := kvGet rest "track" == 1; let otrack := kvGet rest "otrack" == 1
    let tree := ty == "tree"
    ({ kind := if tree then .tree else .vec,
       main := if tree then .t (MH.Tree.new num mh track) else .v (MH.Vec.new num mh track),
       other := if tree then .t (MH.Tree.new onum mh otrack) else .v (MH.Vec.new onum mh otrack),
       smain := { num := num, maxHash := mh, track := track },
       sother := { num := onum, maxHash := mh, track := otrack } }, { model := "ok" })
  | w :: args =>
    let (onOther, op) := match w.splitOn "." with
      | ["o", op] => (true, op)
      | _ => (false, w)
    let isCapi := capiOf op != op || op == "csetab"
    let op := capiOf op
    let (tgt, src, stgt, ssrc) := if onOther then (s.other, s.main, s.sother, s.smain) else (s.main, s.other, s.smain, s.sother)
    -- the C API knows the vector type only
    if isCapi && s.kind == .tree then (s, { model := "bad-op" }) else
    -- result: new target, new operand (observers fill its cache), new abstract target, answer prefixes
    let res : Option (Sk × Sk × St × String × String) :=
      if !args.isEmpty then
        match parseBOp op args with
        | some o => (tgt.applyB o).map (fun t => (t, src, stgt.stepB s.kind o, "", ""))
        | none => none
      else if op == "merge" then (tgt.merge src).map (fun t => (t, src, stgt.merge ssrc, "", ""))
      else if op == "addfrom" then (tgt.addFrom src).map (fun t => (t, src, stgt.addFrom s.kind ssrc, "", ""))
      else if op == "rmfrom" then (tgt.removeFrom src).map (fun t => (t, src, stgt.removeFrom ssrc, "", ""))
      else if op == "md5" then
        let (d, t) := tgt.md5
        some (t, src, stgt, "md5=" ++ Md5.hex d ++ " ", "md5=" ++ Md5.hex (Md5.digest 21 (keys stgt.m)) ++ " ")
      else if op == "eq" then
        (tgt.eqv src).map (fun (b, t, o) =>
          (t, o, stgt, if b then "eq=1 " else "eq=0 ",
           if Md5.digest 21 (keys stgt.m) == Md5.digest 21 (keys ssrc.m) then "eq=1 " else "eq=0 "))
      else if op == "clone" then
        let (c, o) := src.cloned
        some (c, o, ssrc, "", "")
      else if op == "reload" then some (tgt.reload, src, stgt, "", "")
      else match parseBOp op args with
        | some o => (tgt.applyB o).map (fun t => (t, src, stgt.stepB s.kind o, "", ""))
        | none => none
    match res with
    | none => (s, { model := "bad-op" })
    | some (t, o, st, pm, ps) =>
      let s' := if onOther then { s with other := t, main := o, sother := st } else { s with main := t, other := o, smain := st }
      (s', { model := pm ++ showObs t.obs, spec := ps ++ showObs st.obs })
  | _ => (s, { model := "bad-op" })

def main : IO Unit := Driver.run ({} : DSt) stepC01
