import Driver.Common
import Sourmash.Spec.Sample
/-! C01 driver.  model column: observation of the executable sketch model (`MH.Vec` / `MH.Tree`) after
the op; spec column: observation of the abstract sample (`Sample.St`) after the same op. -/
open Driver Sample

inductive Sk
  | v (s : MH.Vec)
  | t (s : MH.Tree)

structure DSt where
  kind : Kind := .vec
  main : Sk := .v (MH.Vec.new 0 0 false)
  other : Sk := .v (MH.Vec.new 0 0 false)
  smain : St := { num := 0, maxHash := 0, track := false }
  sother : St := { num := 0, maxHash := 0, track := false }

def kvGet (ws : List String) (key : String) : Nat :=
  match ws.filterMap (fun w => match w.splitOn "=" with
      | [k, v] => if k == key then v.toNat? else none
      | _ => none) with
  | n :: _ => n
  | [] => 0

def showObs (o : Obs) : String :=
  let sum := match o.abunds with
    | some l => l.foldl (· + ·) 0
    | none => o.mins.length
  "mins=" ++ showNats o.mins ++ " abunds=" ++ (match o.abunds with | some l => showNats l | none => "none")
    ++ " size=" ++ toString o.mins.length ++ " sum=" ++ toString sum
    ++ " empty=" ++ (if o.mins.isEmpty then "1" else "0")

def Sk.obs : Sk → Obs
  | .v s => vecObs s
  | .t s => treeObs s

/-- apply a unary op to a model sketch; `none` = op not available on this type -/
def Sk.apply (s : Sk) (o : Op) : Option Sk :=
  match s, o with
  | .v s, o => some (.v (vecStep s o))
  | .t _, .set _ _ => none
  | .t s, o => some (.t (treeStep s o))

def Sk.merge : Sk → Sk → Option Sk
  | .v s, .v o => some (.v (s.merge o))
  | .t s, .t o => some (.t (s.merge o))
  | _, _ => none

def parseOp (op : String) (args : List String) : Option Op :=
  match op, args with
  | "add", [h, a] => some (.add h.toNat! a.toNat!)
  | "set", [h, a] => some (.set h.toNat! a.toNat!)
  | "rm", [h] => some (.remove h.toNat!)
  | "rmmany", [hs] => some (.removeMany (natList hs))
  | "clear", [] => some .clear
  | _, _ => none

def stepC01 (s : DSt) (ws : List String) : DSt × Resp :=
  match ws with
  | "case" :: _ :: ty :: rest =>
    let num := kvGet rest "num"; let mh := kvGet rest "mh"; let onum := kvGet rest "onum"
    let track := kvGet rest "track" == 1; let otrack := kvGet rest "otrack" == 1
    let tree := ty == "tree"
    ({ kind := if tree then .tree else .vec,
       main := if tree then .t (MH.Tree.new num mh track) else .v (MH.Vec.new num mh track),
       other := if tree then .t (MH.Tree.new onum mh otrack) else .v (MH.Vec.new onum mh otrack),
       smain := { num := num, maxHash := mh, track := track },
       sother := { num := onum, maxHash := mh, track := otrack } }, { model := "ok" })
  | w :: args =>
    let (onOther, op) := match w.splitOn "." with
      | ["o", op] => (true, op)
      | _ => (false, w)
    let (tgt, src, stgt, ssrc) := if onOther then (s.other, s.main, s.sother, s.smain) else (s.main, s.other, s.smain, s.sother)
    let res : Option (Sk × St) :=
      if op == "merge" && args.isEmpty then
        (tgt.merge src).map (fun t => (t, stgt.merge ssrc))
      else match parseOp op args with
        | some o => (tgt.apply o).map (fun t => (t, stgt.step s.kind o))
        | none => none
    match res with
    | none => (s, { model := "bad-op" })
    | some (t, st) =>
      let s' := if onOther then { s with other := t, sother := st } else { s with main := t, smain := st }
      (s', { model := showObs t.obs, spec := showObs st.obs })
  | _ => (s, { model := "bad-op" })

def main : IO Unit := Driver.run ({} : DSt) stepC01
