import Driver.Common
/-! C01 driver (stub: answers bad-op until the property's model is wired in). -/
open Driver

def stepC01 (s : Unit) (ws : List String) : Unit × Resp :=
  match ws with
  | "case" :: _ => (s, { model := "ok" })
  | _ => (s, { model := "bad-op" })

def main : IO Unit := Driver.run () stepC01
