import Driver.Common
import Sourmash.Model.Ffi
import Sourmash.Generated.C20
/-! C20 driver: the error-channel state machine (`Sourmash.Ffi`) instantiated with the generated
error kinds and codes.

* `case … seq` + step lines: one thread's history; the model column is the code the state machine
  reports after the step, the spec column is `specLast` (scan of the history since `sourmash_init`).
* `call <fn> <cls> <cmp|nocmp> <seed>`: one export in a fresh process after `sourmash_init`
  (classes `…_noinit`: without it).
  `bodyOutcome` says what the body of `<fn>` does on arguments of class `<cls>` (value / which
  `Err` / panic); whether `<fn>` has a landing pad comes from the generated export table.
  Model column: the code as it is (an unguarded panic is `abort`); spec column: what C20 demands
  (`ret`, zeroed value, documented code, non-empty message, clear resets). -/
open Driver Sourmash.Ffi Sourmash.Generated.C20

abbrev K := ErrKind
abbrev Out := Outcome K Unit

/-- the steps of a sequence, as concrete calls whose outcome follows from their arguments -/
def seqCall : String → Option (Call K)
  | "init" => some .init
  | "clear" => some .clear
  | "code" => some .getCode
  | "msg" => some .getMessage
  | "backtrace" => some .getBacktrace
  | "merge_mismatch_ksize" => some (.exported true (.err .MismatchKSizes))
  | "merge_mismatch_moltype" => some (.exported true (.err .MismatchDNAProt))
  | "merge_mismatch_scaled" => some (.exported true (.err .MismatchScaled))
  | "merge_mismatch_seed" => some (.exported true (.err .MismatchSeed))
  | "add_seq_invalid" => some (.exported true (.err .InvalidDNA))
  | "hll_add_seq_invalid" => some (.exported true (.err .InvalidDNA))
  | "sig_add_seq_invalid" => some (.exported true (.err .InvalidDNA))
  | "translate_codon_len5" => some (.exported true (.err .InvalidCodonLength))
  | "hash_function_set_nonempty" => some (.exported true (.err .NonEmptyMinHash))
  | "enable_abundance_nonempty" => some (.exported true (.err .NonEmptyMinHash))
  | "hll_bad_error_rate" => some (.exported true (.err .HLLPrecisionBounds))
  | "hll_merge_mismatch_ksize" => some (.exported true (.err .MismatchKSizes))
  | "hll_merge_mismatch_p" => some (.exported true (.err .MismatchNum))
  | "angular_needs_abund" => some (.exported true (.err .NeedsAbundanceTracking))
  | "count_common_num_vs_scaled" => some (.exported true (.err .MismatchScaled))
  | "load_sigs_bad_json" => some (.exported true (.err .SerdeError))
  | "str_from_cstr_bad_utf8" => some (.exported true (.err .Utf8Error))
  | "first_mh_empty_sig" => some (.exported true (.err .Internal))
  | "ng_from_path_missing" => some (.exported true (.err .NifflerError))
  | "zip_missing" => some (.exported true (.err .IOError))
  | "ng_from_buffer_empty" => some (.exported true (.err .NifflerError))
  | "add_seq_hi_invalid" => some (.exported true (.err .InvalidDNA))
  | "hll_save_bad_utf8_path" => some (.exported true (.err .Utf8Error))
  | "ng_from_path_missing_long" => some (.exported true (.err .NifflerError))
  | "load_sigs_long_moltype" => some (.exported true .panic)
  | "load_path_long_moltype" => some (.exported true .panic)
  | "get_abunds_no_track" => some (.exported true .panic)
  | "hll_update_mh_default" => some (.exported true .panic)
  | "load_sigs_bad_moltype" => some (.exported true .panic)
  | "ng_from_buffer_garbage" => some (.exported true .panic)
  | "ok_add_hash" => some (.exported true (.ok ()))
  | "ok_merge" => some (.exported true (.ok ()))
  | "ok_get_mins" => some (.exported true (.ok ()))
  | "ok_md5sum" => some (.exported true (.ok ()))
  | "ok_add_seq" => some (.exported true (.ok ()))
  | "ok_add_seq_force" => some (.exported true (.ok ()))
  | "ok_is_compatible_false" => some (.exported false (.ok ()))
  | "ok_isect_union_mismatch" => some (.exported true (.ok ()))
  | "ok_hll_cardinality" => some (.exported true (.ok ()))
  | "ok_ng_count" => some (.exported true (.ok ()))
  | "ok_sig_json" => some (.exported true (.ok ()))
  | "ok_str_from_cstr" => some (.exported true (.ok ()))
  -- sourmash_aa_to_dayhoff / sourmash_aa_to_hp have no landing pad: a table look-up that is total on bytes
  | "ok_aa_class_hi" => some (.exported false (.ok ()))
  | "ok_add_protein_hi" => some (.exported true (.ok ()))
  | "ok_set_name_hi" => some (.exported true (.ok ()))
  | "ok_set_name_long" => some (.exported true (.ok ()))
  | _ => none

def mismatchKind : String → Option K
  | "mismatch_ksize" => some .MismatchKSizes
  | "mismatch_moltype" => some .MismatchDNAProt
  | "mismatch_scaled" => some .MismatchScaled
  | "num_vs_scaled" => some .MismatchScaled
  | "mismatch_seed" => some .MismatchSeed
  | _ => none

def errOr (k : Option K) : Out := match k with | some k => .err k | none => .ok ()

/-- byte classes of `char` data: DEL, the first and the last non-ASCII byte (negative C chars), a
    two-byte UTF-8 character, and NUL where the length travels separately -/
def byteClasses : List String := ["b00", "b7f", "b80", "bff", "utf8"]

/-- does the child skip `sourmash_init` (default panic hook)? -/
def isNoinit (cls : String) : Bool := (cls.splitOn "_").getLast? == some "noinit"

/-- long text classes `[<param>_]long_<kind>_<len>[_noinit]`: which parameter (`""` = the function's
    first / only text parameter, `moltype`, or `missing` = a long path with nothing there) and whether
    the text has multi-byte UTF-8 characters (`u2`, `u2o`, `u3`, … ) or is ASCII valid for the
    parameter's domain (`a`).  The length (255 … 1000 bytes) never changes the outcome. -/
def longClass (cls : String) : Option (String × Bool) :=
  let ws := cls.splitOn "_"
  let ws := if ws.getLast? == some "noinit" then ws.dropLast else ws
  match ws.reverse with
  | _len :: kind :: "long" :: pre => some ("_".intercalate pre.reverse, kind != "a")
  | _ => none

/-- what the body does on a long text argument -/
def longOutcome (f pre : String) (multiByte : Bool) : Out :=
  let e (k : K) : Out := .err k
  if pre == "moltype" then .panic                       -- unknown molecule type: `unimplemented!("{v}")` echoes it
  else if pre == "missing" then
    match f with
    | "zipstorage_new" => e .IOError
    | "revindex_new_with_paths" => .panic
    | _ => e .NifflerError
  else match f with
    -- non-ASCII bytes are not DNA; the ASCII class is valid DNA of that length
    | "hll_add_sequence" | "kmerminhash_add_sequence" | "kmerminhash_seq_to_hashes" | "signature_add_sequence" =>
      if multiByte then e .InvalidDNA else .ok ()
    | "sourmash_translate_codon" => e .InvalidCodonLength
    -- text where a serialized sketch is expected: the signature `assert_eq!` of `from_reader`
    | "hll_from_buffer" | "nodegraph_from_buffer" => .panic
    -- only the first ksize bytes are hashed
    | "nodegraph_count_kmer" | "nodegraph_get_kmer" => if multiByte then .panic else .ok ()
    | "zipstorage_load" => e .StorageError
    -- hashing any bytes, names, residues of any byte value, existing files at long paths, a serialized
    -- signature with a long name: success
    | _ => .ok ()

/-- classes `loaded_<doc>[_<variant>]`: the sketch handle comes from `signatures_load_buffer` +
    `signature_first_mh` on a document the reader accepts although no writer produces it (fewer / more
    abundances than mins, mins out of order or repeated, no mins next to abundances, num and max_hash
    both set, more mins than num, mins above max_hash, abundances near 2^64, a wrong md5sum field);
    the variant is the hash argument (`first` / `last` / `absent`) or the second operand (`self` = a
    second copy of the same loaded object, `other` = a well-formed loaded sketch with the same header). -/
def loadedClass (cls : String) : Option (String × String) :=
  match cls.splitOn "_" with
  | ["loaded", doc] => some (doc, "")
  | ["loaded", doc, var] => some (doc, var)
  | _ => none

/-- what the body does on a loaded object: reading pairs mins and abundances up (both cut to the shorter
    list) and sorts them, so every loaded sketch is an ordinary one - possibly with repeated hashes, more
    hashes than `num`, hashes above `max_hash`, abundances that overflow on the next addition -/
def loadedOutcome (f doc var : String) : Out :=
  let e (k : K) : Out := .err k
  let noAb := ["noab", "dupsnoab"].contains doc
  let empty := ["emptymins", "shortab0"].contains doc
  let huge := doc == "hugeab"
  match f with
  | "kmerminhash_get_abunds" => if noAb then .panic else .ok ()
  | "kmerminhash_enable_abundance" | "kmerminhash_hash_function_set" => if empty then .ok () else e .NonEmptyMinHash
  -- `abunds[pos] += abundance` on an abundance at 2^64 - 1 (overflow checks are on in the harness build)
  | "kmerminhash_add_hash" | "kmerminhash_add_hash_with_abundance" => if huge && var != "absent" then .panic else .ok ()
  | "kmerminhash_add_many" | "kmerminhash_set_abundances" | "kmerminhash_merge" | "kmerminhash_add_from" =>
    if huge then .panic else .ok ()
  | "kmerminhash_angular_similarity" => if noAb then e .NeedsAbundanceTracking else if huge then .panic else .ok ()
  | "kmerminhash_similarity" => if huge then .panic else .ok ()
  | _ => .ok ()

/-- what the body of export `f` does on in-contract arguments of class `cls`
    (read off the native API: which `Err` it returns, where it panics) -/
def bodyOutcome (f cls : String) : Out :=
  let e (k : K) : Out := .err k
  let isIn (l : List String) := l.contains cls
  match longClass cls with
  | some (pre, mb) => longOutcome f pre mb
  | none =>
  match loadedClass cls with
  | some (doc, var) => loadedOutcome f doc var
  | none =>
  match f with
  -- helpers / error channel
  -- every length other than 1, 2, 3 is refused; unknown codons (any bytes) translate to 'X'
  | "sourmash_translate_codon" => if isIn ["empty", "len5", "hi5", "large"] then e .InvalidCodonLength else .ok ()
  | "sourmash_str_from_cstr" => if isIn ["bad_utf8", "b80"] then e .Utf8Error else .ok ()
  -- HyperLogLog
  | "hll_with_error_rate" => if isIn ["valid", "k0", "k1", "k_max"] then .ok () else e .HLLPrecisionBounds
  | "hll_cardinality" => if cls == "default" then .panic else .ok ()
  | "hll_similarity" | "hll_containment" | "hll_intersection_size" =>
    if isIn ["default", "mismatch_p4"] then .panic else .ok ()
  -- a byte outside ACGT (upper case) is invalid DNA whatever its value; `…_force` skips the k-mers
  | "hll_add_sequence" =>
    if cls == "invalid" || byteClasses.contains cls then e .InvalidDNA else if cls == "default" then .panic else .ok ()
  | "hll_add_hash" => if cls == "default" then .panic else .ok ()
  | "hll_merge" =>
    if cls == "mismatch_ksize" then e .MismatchKSizes else if cls == "mismatch_p" then e .MismatchNum else .ok ()
  | "hll_update_mh" => if cls == "default" then .panic else .ok ()
  | "hll_matches" => if isIn ["default", "p4"] then .panic else .ok ()
  | "hll_from_path" | "nodegraph_from_path" =>
    if isIn ["missing", "directory"] then e .NifflerError else if cls == "garbage" then .panic
    else if cls == "bad_utf8" then e .Utf8Error else .ok ()
  | "hll_from_buffer" | "nodegraph_from_buffer" =>
    -- fewer than two bytes: niffler cannot sniff a format; a wrong signature: `assert_eq!` in from_reader
    if isIn ["empty", "len1", "len1_hi"] then e .NifflerError else if isIn ["garbage", "hi_bytes", "nul_bytes"] then .panic
    else if cls == "truncated" then e .IOError else .ok ()
  | "hll_save" | "nodegraph_save" =>
    if cls == "missing_dir" then e .IOError else if cls == "bad_utf8" then e .Utf8Error else .ok ()
  -- KmerMinHash
  -- (DNA that is translated for a protein sketch is not validated: `translated_<byte>` succeed)
  | "kmerminhash_add_sequence" | "kmerminhash_seq_to_hashes" =>
    if cls == "invalid" || byteClasses.contains cls then e .InvalidDNA else .ok ()
  | "kmerminhash_add_protein" => if cls == "dna_mh" then e .InvalidHashFunction else .ok ()
  | "kmerminhash_add_hash" | "kmerminhash_add_word" => if cls == "abund_overflow" then .panic else .ok ()
  | "kmerminhash_add_hash_with_abundance" => if cls == "max_abund" then .panic else .ok ()
  | "kmerminhash_get_abunds" => if cls == "no_track" then .panic else .ok ()
  | "kmerminhash_enable_abundance" | "kmerminhash_hash_function_set" =>
    if cls == "nonempty" then e .NonEmptyMinHash else .ok ()
  | "kmerminhash_merge" | "kmerminhash_intersection" | "kmerminhash_jaccard" => errOr (mismatchKind cls)
  | "kmerminhash_count_common" | "kmerminhash_similarity" =>
    if cls == "downsample_num" then e .MismatchScaled else errOr (mismatchKind cls)
  | "kmerminhash_angular_similarity" =>
    if isIn ["compat", "empty", "k1", "zero_zero"] then e .NeedsAbundanceTracking
    else if cls == "abund_overflow" then .panic else errOr (mismatchKind cls)
  -- Nodegraph
  | "nodegraph_count" | "nodegraph_get" | "nodegraph_matches" | "nodegraph_update_mh" =>
    if cls == "zero_len_table" then .panic else .ok ()
  -- only the first ksize bytes are hashed (`long`); fewer bytes than ksize hash nothing (`len1`)
  | "nodegraph_count_kmer" | "nodegraph_get_kmer" => if isIn ["valid", "len1", "long"] then .ok () else .panic
  | "nodegraph_expected_collisions" => if isIn ["default", "zero_tables"] then .panic else .ok ()
  -- Signature
  | "signature_add_sequence" => if cls == "invalid" || byteClasses.contains cls then e .InvalidDNA else .ok ()
  | "signature_add_protein" => if cls == "dna_sig" then e .InvalidHashFunction else .ok ()
  | "signature_first_mh" => if isIn ["empty_sig", "hll_sketch"] then e .Internal else .ok ()
  | "signature_eq" => if cls == "empty" then .panic else .ok ()
  | "signatures_load_path" =>
    if isIn ["bad_moltype", "moltype_utf8"] then .panic else if cls == "missing" then e .NifflerError
    else if cls == "garbage" then e .SerdeError
    else if isIn ["bad_utf8", "moltype_bad_utf8"] then e .Utf8Error else .ok ()
  | "signatures_load_buffer" =>
    if isIn ["bad_moltype", "bad_molecule", "hll_sketch"] then .panic
    else if isIn ["empty", "len1", "len1_hi"] then e .NifflerError
    else if isIn ["garbage", "hi_bytes", "nul_bytes"] then e .SerdeError else .ok ()
  -- ZipStorage
  | "zipstorage_new" =>
    if isIn ["missing", "empty_path", "directory", "b00", "len1"] then e .IOError else if cls == "not_a_zip" then .panic
    else if cls == "bad_utf8" then e .Utf8Error else .ok ()
  | "zipstorage_load" =>
    if isIn ["missing_entry", "utf8", "b00", "len1", "large"] then e .StorageError
    else if isIn ["bad_utf8", "b80"] then e .Utf8Error else .ok ()
  | "zipstorage_set_subdir" => if isIn ["bad_utf8", "b80"] then e .Utf8Error else .ok ()
  -- RevIndex
  | "revindex_new_with_sigs" =>
    if isIn ["empty_sigs", "empty_queries", "queries_threshold0_mismatch", "template_mismatch"] then .panic else .ok ()
  | "revindex_new_with_paths" => if isIn ["missing", "empty_paths", "garbage"] then .panic else .ok ()
  | "revindex_search" => if cls == "large_mh" then .panic else .ok ()
  | "revindex_gather" => if isIn ["large_mh", "mismatch_ksize"] then .panic else .ok ()
  | _ => .ok ()

def showCall (r : Option (Chan K)) (cmp : String) : String :=
  match r with
  | none => "abort"
  | some s =>
    let code := errGetLastCode fromError s
    let msg := if (errGetLastMessage s).isSome then 1 else 0
    let cleared := errGetLastCode fromError (errClear s)
    s!"ret {cmp} code={code} msg={msg} cleared={cleared}"

/-- a `call` scenario as calls of the state machine: what the child does before the export under
    test (only the error-channel scenarios need a failing call first), then the export itself -/
def scenarioCalls (f cls : String) (guarded : Bool) : List (Call K) :=
  let pre : List (Call K) :=
    if cls == "after_error" then [.exported true (.err .InvalidCodonLength)] else []
  let c : Call K := match f with
    | "sourmash_init" => .init
    | "sourmash_err_clear" => .clear
    | "sourmash_err_get_last_code" => .getCode
    | "sourmash_err_get_last_message" => .getMessage
    | "sourmash_err_get_backtrace" => .getBacktrace
    | _ => .exported guarded (bodyOutcome f cls)
  pre ++ [c]

structure St where
  chan : Option (Chan K) := some Chan.fresh     -- `none`: the (model) process aborted
  /-- history since the first `sourmash_init`, most recent first (`none` before it) -/
  hist : Option (List (Call K)) := none
  /-- what was stored when `sourmash_init` was first called -/
  dflt : Option K := none

def codeOf (o : Option K) : Nat := match o with | none => 0 | some k => fromError k

def stepC20 (st : St) (ws : List String) : St × Resp :=
  match ws with
  | "case" :: _ => ({}, { model := "ok" })
  | ["call", f, cls, flag, _seed] =>
    let cmp := if flag == "cmp" then "same" else "-"
    -- classes ending in `_noinit` never call `sourmash_init`: the default hook records nothing
    let s0 : Chan K := if isNoinit cls then Chan.fresh else sourmashInit Chan.fresh
    match exportGuarded f with
    | none => (st, { model := "no-such-export", spec := "-" })
    | some g =>
      (st, { model := showCall (run .Panic s0 (scenarioCalls f cls g)) cmp,
             spec := showCall (run .Panic s0 (scenarioCalls f cls true)) cmp })
  | [name] =>
    match seqCall name, st.chan with
    | none, _ => (st, { model := "unknown-step" })
    | _, none => (st, { model := "dead" })
    | some c, some ch =>
      match step .Panic ch c with
      | none => ({ st with chan := none }, { model := "abort", spec := "-" })
      | some ch' =>
        -- specification side: history since the first init
        let (hist, dflt) := match st.hist, c with
          | none, .init => (some [], ch.last)
          | none, _ => (none, none)
          | some h, _ => (some (c :: h), st.dflt)
        let pre := match c with
          | .getMessage => s!"msg={if (errGetLastMessage ch').isSome then 1 else 0} "
          | .getBacktrace => "bt=0 "
          | _ => ""
        let spec := match hist with
          | none => "-"
          | some h =>
            let l := specLast .Panic dflt h
            let pre := match c with
              | .getMessage => s!"msg={if l.isSome then 1 else 0} "
              | .getBacktrace => "bt=0 "
              | _ => ""
            s!"{pre}code={codeOf l}"
        ({ chan := some ch', hist := hist, dflt := dflt },
         { model := s!"{pre}code={errGetLastCode fromError ch'}", spec := spec })
  | _ => (st, { model := "bad-op" })

def main : IO Unit := Driver.run {} stepC20
