import Driver.Common
import Sourmash.Model.Scaled
import Sourmash.Model.Datasets
import Sourmash.Model.Index
import Sourmash.Spec.Index
/-! C07 driver: counters and threshold searches of the three index types over one collection, and
histories on the index objects (select on a LinearIndex, Collection::select before a build, update /
reopen of the on-disk index).  Request grammar: harness/src/bin/c07.rs. -/
open Driver RevIdx

namespace C07

structure St where
  raw : List Rec := []                              -- the case's signatures, one sketch each
  chain : List Sel := []                            -- `csel` selections, applied before every `mk`
  lin : Option Lin := none
  mem : Option (List Rec × (H2C × Colors)) := none  -- the index's collection and its two maps
  disk : Option (List Rec × Db) := none             -- the index's collection and the database

def codec : ManyCodec := roaringCodec

def molOf (s : String) : Nat :=
  if s == "protein" then 1 else if s == "dayhoff" then 2 else if s == "hp" then 3 else 0

/-- `<k>:<mol>:<abund>:<s|n><v>:<hashes>`, or a bare hash list = k 21, DNA, flat, scaled 1 -/
def parseRec (loc : Nat) (s : String) : Rec :=
  match s.splitOn ":" with
  | [k, mol, ab, kind, hs] =>
    let v := (kind.drop 1).toString.toNat!
    let isNum := kind.startsWith "n"
    let mh := if isNum then 0 else Scaled.maxHashForScaled v
    { loc := loc, ksize := k.toNat!, mol := molOf mol, tracked := ab == "1", num := if isNum then v else 0,
      maxHash := mh, scaled := Scaled.scaledForMaxHash mh, hashes := natList hs }
  | _ =>
    let mh := Scaled.maxHashForScaled 1
    { loc := loc, ksize := 21, mol := 0, tracked := false, num := 0, maxHash := mh,
      scaled := Scaled.scaledForMaxHash mh, hashes := natList s }

def parseRecs (s : String) : List Rec :=
  let parts := s.splitOn ";"
  (List.range parts.length).zipWith parseRec parts

/-- `-` or `key=value,…` with keys k, mol, abund, scaled, num -/
def parseSel (s : String) : Sel :=
  if s == "-" then {} else
  (s.splitOn ",").foldl (fun (sel : Sel) kv =>
    match kv.splitOn "=" with
    | ["k", v] => { sel with ksize := some v.toNat! }
    | ["mol", v] => { sel with moltype := some (molOf v) }
    | ["abund", v] => { sel with abund := some (v == "1") }
    | ["scaled", v] => { sel with scaled := some v.toNat! }
    | ["num", v] => { sel with num := some v.toNat! }
    | _ => sel) {}

def parseColl (s : String) : List (List Nat) := (s.splitOn ";").map natList

def showCounter (c : List (Nat × Nat)) : String :=
  if c.isEmpty then "-" else ",".intercalate (c.map (fun (i, n) => s!"{i}:{n}"))

def showMatches (m : List (Nat × Nat)) : String := s!"{showCounter m} ordered"

def errName : Nat → String
  | 1 => "err MismatchKSizes"
  | _ => "err MismatchDNAProt"

partial def balanced : List Nat → RTree
  | [] => .ident
  | [d] => .leaf d
  | ds => .node (balanced (ds.take (ds.length / 2))) (balanced (ds.drop (ds.length / 2)))

def scoreBits (size qsize : Nat) : Nat := (Float.ofNat size / Float.ofNat qsize).toBits.toNat

def hashesOf (rs : List Rec) : List (List Nat) := rs.map (·.hashes)

def applyChain (chain : List Sel) (rs : List Rec) : List Rec := chain.foldl (fun rs s => selectRecs s rs) rs

/-- the collection a `mk` / `upd` sees: the selections of the chain over the first `n` signatures -/
def current (st : St) (n : Option String) : List Rec :=
  applyChain st.chain (match n with
    | some n => st.raw.take n.toNat!
    | none => st.raw)

/-- mem `RevIndex::new_with_sigs` without queries: `none` = a panic (empty collection, or a sketch not
compatible with the template = dataset 0) -/
def memBuild (rs : List Rec) : Option (H2C × Colors) :=
  match Lin.make rs with
  | none => none
  | some l => if rs.all (fun r => r.compat l.template) then (balanced (List.range rs.length)).eval (hashesOf rs) else none

def diskGrouping : Grouping := chunkGrouping 3 2 false

/-- the collection of the index of one kind, if it exists -/
def recsOf (st : St) (kind : String) : Option (List Rec) :=
  match kind with
  | "lin" => st.lin.map (·.recs)
  | "mem" => st.mem.map (·.1)
  | _ => st.disk.map (·.1)

/-- the model's counter; `none` = PANIC -/
def counterOf (st : St) (kind : String) (q : Rec) : Option (List (Nat × Nat)) :=
  match kind with
  | "lin" => st.lin.bind (fun l => l.counter q)
  | "mem" => st.mem.map (fun m => memCounter m.2 q.hashes)
  | _ => st.disk.map (fun d => diskCounter codec d.2 q.hashes)

/-- what the property demands: the exact overlaps with the datasets of the index as it is now, when
these are compatible scaled sketches (compatible with the query too); nothing otherwise -/
def specCounter (st : St) (kind : String) (q : Rec) : Option (List (Nat × Nat)) :=
  match recsOf st kind with
  | none => none
  | some rs => if rs.all (fun r => r.compat q && r.num == 0) then some (refCounter (hashesOf rs) q.hashes) else none

def step (st : St) (ws : List String) : St × Resp :=
  match ws with
  | ["case", _, "coll", s] =>
    let rs := parseRecs s
    let C := hashesOf rs
    ({ raw := rs, lin := Lin.make rs, mem := (memBuild rs).map (fun r => (rs, r)),
       disk := some (rs, createDb codec C [] diskGrouping) }, { model := "ok" })
  | ["case", _, "mix", s] => ({ raw := parseRecs s }, { model := "ok" })
  | "case" :: _ => ({}, { model := "ok" })
  | ["csel", sel] =>
    let st := { st with chain := st.chain ++ [parseSel sel] }
    (st, { model := showNats (locsOf (current st none)) })
  | "mk" :: kind :: n =>
    let rs := current st n.head?
    match setCheck rs with
    | 0 =>
      let ok : String := s!"ok {rs.length}"
      match kind with
      | "lin" => match Lin.make rs with
        | some l => ({ st with lin := some l }, { model := ok })
        | none => ({ st with lin := none }, { model := "PANIC" })
      | _ => ({ st with disk := some (rs, createDb codec (hashesOf rs) [] diskGrouping) }, { model := ok })
    | e => (if kind == "lin" then { st with lin := none } else { st with disk := none }, { model := errName e })
  | "mkmem" :: sel :: n =>
    let rs := selectRecs (parseSel sel) (match n.head? with
      | some n => st.raw.take n.toNat!
      | none => st.raw)
    match setCheck rs with
    | 0 => match memBuild rs with
      | some r => ({ st with mem := some (rs, r) }, { model := s!"ok {rs.length}" })
      | none => ({ st with mem := none }, { model := "PANIC" })
    | e => ({ st with mem := none }, { model := errName e })
  | ["sel", "lin", sel] =>
    match st.lin with
    | none => (st, { model := "PANIC" })
    | some l => match l.select (parseSel sel) with
      | .ok l' => ({ st with lin := some l' }, { model := s!"ok {l'.recs.length}" })
      | .error e => ({ st with lin := none }, { model := errName e })
  | ["upd", "disk", n] =>
    match st.disk with
    | none => (st, { model := "PANIC" })
    | some (old, db) =>
      let rs := current st (some n)
      match setCheck rs with
      | 0 => match updateDb codec db old rs (hashesOf rs) [] diskGrouping with
        | some db' => ({ st with disk := some (rs, db') }, { model := s!"ok {rs.length}" })
        | none => ({ st with disk := none }, { model := "err MismatchKSizes" })
      | e => (st, { model := errName e })
  | ["reopen", "disk"] =>
    match st.disk with
    | none => (st, { model := "PANIC" })
    | some (rs, _) => (st, { model := s!"ok {rs.length}" })
  | ["locs", kind] =>
    (st, { model := match recsOf st kind with
      | some rs => showNats (locsOf rs)
      | none => "PANIC" })
  | ["cnt", kind, q] =>
    let Q := parseRec 0 q
    let m := match counterOf st kind Q with
      | some c => showCounter c
      | none => "PANIC"
    (st, { model := m, spec := match specCounter st kind Q with
      | some c => showCounter c
      | none => "-" })
  | ["search", kind, q, t] =>
    let Q := parseRec 0 q
    let t := t.toNat!
    let m := match counterOf st kind Q with
      | some c => showMatches (if kind == "disk" then matchesFromCounter c t else linearSearch c t)
      | none => "PANIC"
    -- spec: the entries of the exact counter meeting the threshold, by (count desc, id)
    (st, { model := m, spec := match specCounter st kind Q with
      | some c => showMatches (mostCommon (refMatches c t))
      | none => "-" })
  | ["cntq", t, qs, q] =>
    -- mem index built with `queries = Some(qs)`: exact for a query covered by `qs`
    let Q := natList q
    let C := hashesOf st.raw
    let m := match (balanced (List.range C.length)).evalQ C (parseColl qs) t.toNat! with
      | some r => showCounter (memCounter r Q)
      | none => "PANIC"
    (st, { model := m, spec := showCounter (refCounter C Q) })
  | ["capi", q, num, k, _] =>
    let Q := natList q
    let C := hashesOf st.raw
    let thr := findThreshold num.toNat! k.toNat! Q.length
    let withScore (l : List (Nat × Nat)) := l.map (fun (i, n) => (i, scoreBits n Q.length))
    let m := match st.mem with
      | some r => showMatches (withScore (linearSearch (memCounter r.2 Q) thr))
      | none => "PANIC"
    (st, { model := m, spec := showMatches (withScore (mostCommon (refMatches (refCounter C Q) thr))) })
  | _ => (st, { model := "bad-op" })

end C07

def main : IO Unit := Driver.run ({} : C07.St) C07.step
