import Driver.Common
import Sourmash.Model.Datasets
import Sourmash.Model.Index
import Sourmash.Spec.Index
/-! C07 driver: counters and threshold searches of the three index types over one collection.
Request grammar: harness/src/bin/c07.rs. -/
open Driver RevIdx

namespace C07

structure St where
  C : List (List Nat) := []
  mem : Option (H2C × Colors) := none
  disk : Db := {}

def parseColl (s : String) : List (List Nat) := (s.splitOn ";").map natList

def showCounter (c : List (Nat × Nat)) : String :=
  if c.isEmpty then "-" else ",".intercalate (c.map (fun (i, n) => s!"{i}:{n}"))

def showMatches (m : List (Nat × Nat)) : String := s!"{showCounter m} ordered"

partial def balanced : List Nat → RTree
  | [] => .ident
  | [d] => .leaf d
  | ds => .node (balanced (ds.take (ds.length / 2))) (balanced (ds.drop (ds.length / 2)))

def scoreBits (size qsize : Nat) : Nat := (Float.ofNat size / Float.ofNat qsize).toBits.toNat

def step (st : St) (ws : List String) : St × Resp :=
  match ws with
  | ["case", _, "coll", s] =>
    let C := parseColl s
    ({ C := C, mem := (balanced (List.range C.length)).eval C,
       disk := createDb roaringCodec C [] (chunkGrouping 3 2 false) }, { model := "ok" })
  | "case" :: _ => ({}, { model := "ok" })
  | ["cnt", kind, q] =>
    let Q := natList q
    let m := match kind with
      | "lin" => showCounter (linearCounter st.C Q)
      | "mem" => match st.mem with
        | some r => showCounter (memCounter r Q)
        | none => "PANIC"
      | _ => showCounter (diskCounter roaringCodec st.disk Q)
    (st, { model := m, spec := showCounter (refCounter st.C Q) })
  | ["search", kind, q, t] =>
    let Q := natList q
    let t := t.toNat!
    let m := match kind with
      | "lin" => showMatches (linearSearch (linearCounter st.C Q) t)
      | "mem" => match st.mem with
        | some r => showMatches (linearSearch (memCounter r Q) t)
        | none => "PANIC"
      | _ => showMatches (matchesFromCounter (diskCounter roaringCodec st.disk Q) t)
    -- spec: the entries of the exact counter meeting the threshold, by (count desc, id)
    (st, { model := m, spec := showMatches (mostCommon (refMatches (refCounter st.C Q) t)) })
  | ["cntq", t, qs, q] =>
    -- mem index built with `queries = Some(qs)`: exact for a query covered by `qs`
    let Q := natList q
    let m := match (balanced (List.range st.C.length)).evalQ st.C (parseColl qs) t.toNat! with
      | some r => showCounter (memCounter r Q)
      | none => "PANIC"
    (st, { model := m, spec := showCounter (refCounter st.C Q) })
  | ["capi", q, num, k, _] =>
    let Q := natList q
    let thr := findThreshold num.toNat! k.toNat! Q.length
    let withScore (l : List (Nat × Nat)) := l.map (fun (i, n) => (i, scoreBits n Q.length))
    let m := match st.mem with
      | some r => showMatches (withScore (linearSearch (memCounter r Q) thr))
      | none => "PANIC"
    (st, { model := m, spec := showMatches (withScore (mostCommon (refMatches (refCounter st.C Q) thr))) })
  | _ => (st, { model := "bad-op" })

end C07

def main : IO Unit := Driver.run ({} : C07.St) C07.step
