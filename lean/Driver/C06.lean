import Driver.Common
import Lean.Data.Json
import Sourmash.Model.Json
import Sourmash.Spec.SigFormat
/-! C06 driver.  Request grammar: see `harness/src/bin/c06.rs`.  The JSON *text* in a request line is read
with `Lean.Json.parse` (an independent reader with exact integers) and converted to the abstract tree the
model is about; object key order is lost by `Lean.Json`, so trees are compared modulo key order (the order
is cross-checked by `translator/c06.py` against `harness c06 dump`). -/
open Driver SigJson

namespace C06

/-! ### hex / strings -/

def unhexBytes (s : String) : ByteArray := Id.run do
  if s == "-" then return ByteArray.empty
  let mut out := ByteArray.emptyWithCapacity (s.length / 2)
  let mut hi : Option Nat := none
  for c in s.toList do
    match hi with
    | none => hi := some (hexVal c)
    | some h =>
      out := out.push (UInt8.ofNat (h * 16 + hexVal c))
      hi := none
  return out

def toStr (s : String) : Str := s.toList.map Char.toNat
def ofStr (s : Str) : String := String.ofList (s.map Char.ofNat)

def unhexStr (s : String) : Str :=
  match String.fromUTF8? (unhexBytes s) with
  | some t => toStr t
  | none => []

def hexStr (s : Str) : String :=
  let b := (ofStr s).toUTF8
  if b.size == 0 then "-" else
  String.ofList (b.toList.flatMap fun x => [hexDigit (x.toNat / 16), hexDigit (x.toNat % 16)])

def optOf (s : String) : Option Str := if s == "~" then none else some (unhexStr s)
def hexOpt : Option Str → String
  | none => "~"
  | some s => hexStr s

def hexNat (s : String) : Nat := s.toList.foldl (fun a c => a * 16 + hexVal c) 0
def hex16 (n : Nat) : String :=
  String.ofList ((List.range 16).map fun i => hexDigit ((n / 16 ^ (15 - i)) % 16))

/-! ### sigspec -/

def molOf (s : String) : Mol :=
  if s == "dna" then .dna else if s == "protein" then .protein else if s == "dayhoff" then .dayhoff
  else if s == "hp" then .hp else .custom (unhexStr (s.drop 1).toString)

def showMol : Mol → String
  | .dna => "dna" | .protein => "protein" | .dayhoff => "dayhoff" | .hp => "hp"
  | .custom s => "x" ++ hexStr s

def sketchOf (s : String) : Sketch :=
  match s.splitOn ":" with
  | ["h", p, q, k, regs] => .hll ((unhexBytes regs).toList.map UInt8.toNat) p.toNat! q.toNat! k.toNat!
  | [kind, num, ksize, seed, mh, mol, mins, ab, md5] =>
    let m : MinHash := { num := num.toNat!, ksize := ksize.toNat!, seed := seed.toNat!, maxHash := mh.toNat!,
                         mol := molOf mol, mins := natList mins,
                         abunds := if ab == "~" then none else some (natList ab),
                         md5 := unhexStr (md5.drop 1).toString }
    if kind == "t" then .tree m else .vec m
  | [kind, num, ksize, seed, mh, mol, mins, ab, md5, _life] =>
    -- a lived sketch: the fields are the observation of the real sketch after `_life` (run by the harness)
    let m : MinHash := { num := num.toNat!, ksize := ksize.toNat!, seed := seed.toNat!, maxHash := mh.toNat!,
                         mol := molOf mol, mins := natList mins,
                         abunds := if ab == "~" then none else some (natList ab),
                         md5 := unhexStr (md5.drop 1).toString }
    if kind == "t" then .tree m else .vec m
  | _ => .hll [] 0 0 0

/-- which sketches of a sigspec are lived ones (per signature, per sketch) -/
def livedOf (s : String) : List (List Bool) :=
  if s == "-" then [] else (s.splitOn "+").map fun g =>
    match g.splitOn ";" with
    | [_, _, _, _, _, _, _, sk] => if sk == "-" then [] else (sk.splitOn "|").map fun k => (k.splitOn ":").length == 10
    | _ => []

/-- `letter = none`: hide the container type (`m`) -/
def showSketch (hide : Bool) : Sketch → String
  | .hll regs p q k => s!"h:{p}:{q}:{k}:" ++ hex (regs.map UInt8.ofNat)
  | .vec m => go (if hide then "m" else "v") m
  | .tree m => go (if hide then "m" else "t") m
where go (l : String) (m : MinHash) : String :=
  s!"{l}:{m.num}:{m.ksize}:{m.seed}:{m.maxHash}:{showMol m.mol}:{showNats m.mins}:" ++
    (match m.abunds with | none => "~" | some a => showNats a) ++ ":c" ++ hexStr m.md5

def sigOf (s : String) : Signature :=
  match s.splitOn ";" with
  | [c, e, h, f, n, l, v, sk] =>
    { cls := unhexStr c, email := unhexStr e, hashFunction := unhexStr h, filename := optOf f, name := optOf n,
      license := unhexStr l, version := hexNat v,
      sketches := if sk == "-" then [] else (sk.splitOn "|").map sketchOf }
  | _ => default

def showSig (hide : Bool) (s : Signature) : String :=
  ";".intercalate [hexStr s.cls, hexStr s.email, hexStr s.hashFunction, hexOpt s.filename, hexOpt s.name,
    hexStr s.license, hex16 s.version,
    if s.sketches.isEmpty then "-" else "|".intercalate (s.sketches.map (showSketch hide))]

def listOf (s : String) : List Signature := if s == "-" then [] else (s.splitOn "+").map sigOf
def showList (hide : Bool) (l : List Signature) : String :=
  if l.isEmpty then "-" else "+".intercalate (l.map (showSig hide))

def showErr : Err → String
  | .serde => "err SerdeError"
  | .niffler => "err NifflerError"
  | .panic => "PANIC"

def showRes (hide : Bool) : Except Err (List Signature) → String
  | .ok l => showList hide l
  | .error e => showErr e

/-! ### `Lean.Json` → the abstract tree -/

partial def ofLean : Lean.Json → Json
  | .null => .null
  | .bool b => .bool b
  | .num n =>
    if n.exponent == 0 && n.mantissa ≥ 0 then .num n.mantissa.toNat
    else .flt n.toFloat.toBits.toNat
  | .str s => .str (toStr s)
  | .arr a => .arr (a.toList.map ofLean)
  | .obj kvs => .obj (kvs.foldl (fun acc k v => acc ++ [(toStr k, ofLean v)]) [])

/-- the abstract tree as a `Lean.Json` value (keys end up in `Lean.Json`'s own order) — used by the `emit`
    request that produced `corpus/C06/lean_written.ops`: documents written by Lean, loaded by the real code -/
partial def toLean : Json → Lean.Json
  | .null => .null
  | .bool b => .bool b
  | .num n => .num ⟨n, 0⟩
  | .flt b => match Lean.JsonNumber.fromFloat? (Float.ofBits b.toUInt64) with
    | .inr n => .num n
    | .inl _ => .null
  | .str s => .str (ofStr s)
  | .arr xs => .arr (xs.map toLean).toArray
  | .obj kvs => Lean.Json.mkObj (kvs.map fun kv => (ofStr kv.1, toLean kv.2))

def strLt : Str → Str → Bool
  | [], [] => false
  | [], _ => true
  | _, [] => false
  | a :: s, b :: t => a < b || (a == b && strLt s t)

/-- canonical key order, recursively -/
partial def sortKeys : Json → Json
  | .arr xs => .arr (xs.map sortKeys)
  | .obj kvs => .obj ((kvs.map fun kv => (kv.1, sortKeys kv.2)).mergeSort fun a b => !strLt b.1 a.1)
  | j => j

partial def jsonEq : Json → Json → Bool
  | .null, .null => true
  | .bool a, .bool b => a == b
  | .num a, .num b => a == b
  | .flt a, .flt b => a == b
  | .str a, .str b => a == b
  | .arr a, .arr b => a.length == b.length && (a.zip b).all fun p => jsonEq p.1 p.2
  | .obj a, .obj b => a.length == b.length && (a.zip b).all fun p => p.1.1 == p.2.1 && jsonEq p.1.2 p.2.2
  | _, _ => false

def parseJson (b : ByteArray) : Except Err Json :=
  match String.fromUTF8? b with
  | none => .error .serde
  | some t =>
    match Lean.Json.parse t with
    | .ok j => .ok (ofLean j)
    | .error _ => .error .serde

/-- the text layer of `Signature::from_reader`: niffler needs 5 bytes to sniff; then the JSON parser -/
def parseText (hexText : String) : Except Err Json :=
  let b := unhexBytes hexText
  if b.size < 5 then .error .niffler else parseJson b

/-- what `from_reader(save(sigs))` does below the text layer: `[]` is 2 bytes -/
def reload (sigs : List Signature) : Except Err (List Signature) :=
  if sigs.isEmpty then .error .niffler else fromJson (toJson sigs)

def showView (v : List (List (Option SigFormat.SketchView))) : String :=
  if v.isEmpty then "-" else "+".intercalate (v.map fun sks =>
    if sks.isEmpty then "-" else "|".intercalate (sks.map fun
      | none => "h"
      | some (k, mins, ab) => s!"{k}:{showNats mins}:" ++ (match ab with | none => "~" | some a => showNats a)))

def viewOf (l : List Signature) : List (List (Option SigFormat.SketchView)) :=
  l.map fun s => s.sketches.map fun
    | .vec m | .tree m => some (m.ksize, m.mins, m.abunds)
    | .hll .. => none

/-- the states the property quantifies over: a sketch is a num sketch or a scaled sketch, hashes strictly
    increasing with aligned abundances (C01), one of the four hash functions -/
def inScopeSk : Sketch → Bool
  | .vec m | .tree m =>
    (m.mins.zip (m.mins.drop 1)).all (fun p => p.1 < p.2) &&
    (match m.abunds with | none => true | some a => a.length == m.mins.length)
  | .hll .. => true

/-- … for the sketches that a request line assembles field by field.  A *lived* sketch (made by the real
    operations) is in scope whatever it looks like: the property is about every sketch the library can hold. -/
def inScope (l : List Signature) (lived : List (List Bool)) : Bool :=
  (l.zip (lived ++ List.replicate l.length [])).all fun p =>
    (p.1.sketches.zip (p.2 ++ List.replicate p.1.sketches.length false)).all fun q => q.2 || inScopeSk q.1

/-- what the property expects to come back for the saved state: the state itself, where a lived sketch's md5
    is *the md5 of its hashes* (`SigFormat.md5Of`), whatever its cache said when it was saved -/
def expected (l : List Signature) (lived : List (List Bool)) : List Signature :=
  (l.zip (lived ++ List.replicate l.length [])).map fun p =>
    { p.1 with sketches := (p.1.sketches.zip (p.2 ++ List.replicate p.1.sketches.length false)).map fun q =>
        match q.1, q.2 with
        | .vec m, true => .vec { m with md5 := SigFormat.md5Of m.ksize m.mins }
        | .tree m, true => .tree { m with md5 := SigFormat.md5Of m.ksize m.mins }
        | sk, _ => sk }

def molArg (s : String) : Option Mol :=
  if s == "any" then none else
  match molOfString (toStr s) with
  | .ok m => some m
  | .error _ => none

def showSk : Except Err MinHash → (MinHash → Sketch) → String
  | .ok m, f => showSketch false (f m)
  | .error e, _ => showErr e

/-! ### `big`: large signatures described by a generator instead of listed

`big <route> <level> <desc>`, `desc := sig ('+' sig)*`, `sig := hex(name) ';' sketch ('|' sketch)*`,
`sketch := ('v'|'t') ':' n ':' track ':' seed ':' scaled ':' ksize`: a sketch made by `new(scaled, ksize,
dna, 42, track, 0)` and fed the `n` values of the 64-bit LCG started at `seed` (abundance `1 + h % 3`
when tracking).  The harness saves the signatures through `signatures_save_buffer` at the given level
(`ffi`) or through `Signature::to_writer` / `serde_json::to_writer` into niffler's gzip writer
(`writer`), gunzips with the system gzip, reads the text with a generic JSON reader and loads the bytes
back through `Signature::from_reader` and `signatures_load_buffer`; it answers with DIGESTS (per
sketch: parameters, number of hashes, xor of the hashes, sum of abundances, xor of
hash·(2·abundance+1) mod 2^64, md5sum) so that lines stay small.

The Lean side does not see the megabyte of JSON text (hex on a request line it would be several MB per
request, and `Lean.Json.parse` of it dominates the run).  `<spec>`: the digest of the in-memory state
the description defines, with md5 = MD5(ksize, hashes) (`Spec/SigFormat.md5Of`) — what must come back.
`<model>`: the digest of `fromJson (toJson state)`, the abstract-tree model of writer and reader that
T-roundtrip is about, on the same large state. -/

def lcgNext (x : Nat) : Nat := (x * 6364136223846793005 + 1442695040888963407) % 2 ^ 64

def lcgList : Nat → Nat → List Nat → List Nat
  | 0, _, acc => acc.reverse
  | n + 1, x, acc => let y := lcgNext x; lcgList n y (y :: acc)

def bigSketch (d : String) : Option Sketch :=
  match d.splitOn ":" with
  | [kind, n, track, seed, scaled, ksize] =>
    let mh := Scaled.maxHashForScaled scaled.toNat!
    let hs := ((lcgList n.toNat! seed.toNat! []).filter (· ≤ mh)).toArray.qsort (· < ·) |>.toList
    let m : MinHash := { num := 0, ksize := ksize.toNat!, seed := 42, maxHash := mh, mins := hs,
                         abunds := if track == "1" then some (hs.map (fun h => 1 + h % 3)) else none,
                         md5 := SigFormat.md5Of ksize.toNat! hs, mol := .dna }
    some (if kind == "t" then .tree m else .vec m)
  | _ => none

def bigSigs (desc : String) : List Signature :=
  (desc.splitOn "+").map fun g =>
    match g.splitOn ";" with
    | [name, sks] =>
      { sigOf "736f75726d6173685f7369676e6174757265;-;302e6d75726d75723634;~;~;434330;3fd999999999999a;-" with
        name := some (unhexStr name), sketches := (sks.splitOn "|").filterMap bigSketch }
    | _ => default

def xorAll (l : List Nat) : Nat := l.foldl (fun x h => x ^^^ h) 0

def digestSk (name : Option Str) : Sketch → String
  | .vec m | .tree m =>
    hexOpt name ++ "/" ++ s!"k={m.ksize},num={m.num},mh={m.maxHash},n={m.mins.length},x={xorAll m.mins}," ++
      (match m.abunds with
       | none => "s=~,m=~"
       | some a => s!"s={a.foldl (· + ·) 0},m={xorAll ((m.mins.zip a).map fun p => p.1 * (2 * p.2 + 1) % 2 ^ 64)}")
      ++ ",md5=" ++ ofStr m.md5
  | .hll .. => hexOpt name ++ "/h"

/-- one entry per (signature, sketch), in order — the shape `signatures_load_buffer` hands back -/
def digestList (l : List Signature) : String :=
  let items := l.flatMap fun g => g.sketches.map (digestSk g.name)
  if items.isEmpty then "-" else "|".intercalate items

end C06
open C06

def stepC06 (s : Unit) (ws : List String) : Unit × Resp :=
  match ws with
  | "case" :: _ => (s, { model := "ok" })
  | ["save", spec, text] =>
    let sigs := listOf spec
    match parseJson (unhexBytes text) with
    | .ok j =>
      (s, { model := if jsonEq (sortKeys j) (sortKeys (toJson sigs)) then "same" else "differs",
            spec := if !SigFormat.describes j sigs then "not-described" else
                    match SigFormat.documentDefect j (livedOf spec) with
                    | some what => what
                    | none => "same" })
    | .error _ => (s, { model := "unparsable", spec := "same" })
  | ["roundtrip", spec] =>
    let sigs := listOf spec
    let lived := livedOf spec
    (s, { model := showRes true (reload sigs),
          spec := if sigs.isEmpty || !inScope sigs lived then "-" else showList true (expected sigs lived) })
  | ["rtypes", spec] =>
    let r := match reload (listOf spec) with
      | .ok l =>
        if l.isEmpty then "-" else "+".intercalate (l.map fun g =>
          if g.sketches.isEmpty then "-" else String.ofList (g.sketches.map fun
          | .vec _ => 'v' | .tree _ => 't' | .hll .. => 'h'))
      | .error e => showErr e
    (s, { model := r })
  | ["gz", level, spec] =>
    let sigs := listOf spec
    let lv := level.toNat!
    -- level 0 writes the plain text (`[]` cannot be sniffed); any other level writes gzip, which can
    let back := if lv == 0 then reload sigs else fromJson (toJson sigs)
    let pre := if lv == 0 then "plain eq " else "gz eq "
    (s, { model := pre ++ showRes true back,
          spec := if (sigs.isEmpty && lv == 0) || !inScope sigs (livedOf spec) then "-"
                  else pre ++ showList true (expected sigs (livedOf spec)) })
  | ["load", text] | ["file", _, text] =>
    let r := match parseText text with
      | .ok j => fromJson j
      | .error e => .error e
    (s, { model := showRes false r })
  | ["legacy", text] | ["filefmt", _, text] =>
    match parseText text with
    | .ok j =>
      match fromJson j with
      | .ok l =>
        (s, { model := showView (viewOf l),
              spec := match SigFormat.legacyView j with
                | some v => showView v
                | none => "-" })
      | .error e => (s, { model := showErr e })
    | .error e => (s, { model := showErr e })
  | ["filter", k, mol, spec] =>
    let sigs := listOf spec
    let ko := if k.toNat! == 0 then none else some k.toNat!
    let mo := molArg mol
    let r := if sigs.isEmpty then .error .niffler else loadSignatures ko mo (toJson sigs)
    (s, { model := showRes true r,
          spec := if sigs.isEmpty || SigFormat.hasHll sigs || !inScope sigs (livedOf spec) then "-"
                  else showList true (SigFormat.filterSpec ko mo (expected sigs (livedOf spec))) })
  | ["loadvec", text] =>
    let r := match parseText text with
      | .ok j => fromJsonVec j
      | .error _ => .error .serde
    (s, { model := showSk r .vec })
  | ["loadtree", text] =>
    let r := match parseText text with
      | .ok j => fromJsonTree j
      | .error _ => .error .serde
    (s, { model := showSk r .tree })
  | ["big", route, level, desc] =>
    let sigs := bigSigs desc
    let pre := if route == "ffi" && level.toNat! == 0 then "plain eq " else "gz eq "
    (s, { model := pre ++ (match fromJson (toJson sigs) with
                           | .ok l => digestList l
                           | .error e => showErr e),
          spec := pre ++ digestList sigs })
  | ["emit", spec] =>
    let t := (toLean (toJson (listOf spec))).compress
    (s, { model := String.ofList (t.toUTF8.toList.flatMap fun x => [hexDigit (x.toNat / 16), hexDigit (x.toNat % 16)]) })
  | _ => (s, { model := "bad-op" })

def main : IO Unit := Driver.run () stepC06
