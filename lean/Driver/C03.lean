import Driver.Common
import Sourmash.Model.SetOps
import Sourmash.Model.Seq
import Sourmash.Model.SigAdd
import Sourmash.Spec.SetOps
import Sourmash.Spec.Kmers
/-! C03 driver.  `<model>` column: the code-shaped two-pointer model (`Model/SetOps.lean`).
`<spec>` column: the answer computed from plain list set-operations (`Spec/SetOps.lean`) on the
*multisets of hashes that were inserted* into each register — for scaled sketches (and for num
sketches merged at equal `num`) the spec state of a register is the whole insertion history, so
`merge` is checked against "sketch of the concatenation".

`sigadd` / `sigprot` (`Signature::add_sequence` / `add_protein` over several sketches, T-sig_add).
`<model>`: the parallel machine of `Model/SigAdd.lean` run on the single-sketch call
`SigAdd.sketchAdd` (hash stream: the `SeqToHashes` machine of `Model/Seq.lean`; `add_hash`:
`SetOps.Sk.add · · 1`) — under the in-order schedule for a pool of one thread (= the serial variant,
`Sourmash.C03.sig_add_serial`), under an all-in-flight schedule in a rotated order otherwise (any
schedule gives the same sketches when no call fails, `Sourmash.C03.sig_add`).  `<spec>`: every sketch
updated independently — the sketch that `Spec/SetOps.lean` defines for the hashes that
`Spec/Kmers.lean` (windows, genetic code; not the state machine) assigns to the sequence under that
sketch's own ksize / molecule / seed.  After a failing call on several threads the implementation's
state depends on the schedule; the harness then answers `err <Variant> legal` (see c03.rs).

C-API stream.  The ops `cnew cobs cparams cadd caddm crmmany cmerge caddfrom crmfrom cisize ccc` are
the native op of the same name without the `c`, executed by the harness through the exported
`kmerminhash_*` function: they are answered by the same model function and the same spec expression
(`cisize`: the model is `capiIntersectionUnionSize`, which swallows the error; the spec still demands
the rejection).  `cisect D A B` (the sketch returned by `kmerminhash_intersection`), `csetab`
(`kmerminhash_set_abundances`) and `ccompat` (`kmerminhash_is_compatible`) exist only there.
`newmh R max_hash …` makes a sketch whose ceiling is given directly (builder / deserialised sketch)
instead of derived from a scaled value: `Sk.maxHash` is a free field of the model.  -/
open Driver SetOps SetSpec

/-- spec-side register: parameters and the multiset of (hash, abundance) insertions it stands for -/
structure SReg where
  num : Nat
  maxHash : Nat
  ksize : Nat
  seed : Nat
  mol : String
  track : Bool
  src : List (Nat × Nat)

def SReg.content (r : SReg) : List (Nat × Nat) := sketchPairs r.num r.maxHash r.src
def SReg.keys (r : SReg) : List Nat := r.content.map Prod.fst

structure St where
  kind : Kind := .vec
  nospec : Bool := false
  regs : List (Nat × Sk) := []
  sregs : List (Nat × SReg) := []
  /-- tree registers whose cached `current_max` is NOT the largest hash they hold (a sketch made by the
  builder with an explicit stale `.current_max(..)`, and its clones): register ↦ cached value -/
  cms : List (Nat × Nat) := []

def getR {α : Type} (l : List (Nat × α)) (i : Nat) : Option α := (l.find? (·.1 == i)).map (·.2)
def setR {α : Type} (l : List (Nat × α)) (i : Nat) (v : α) : List (Nat × α) :=
  (i, v) :: l.filter (·.1 != i)

/-- the `current_max` field of register `r` holding `s` -/
def cmGet (st : St) (r : Nat) (s : Sk) : Nat := (getR st.cms r).getD s.curMax
/-- record the field after an update (an exact cache needs no entry) -/
def cmSet (cms : List (Nat × Nat)) (r : Nat) (s : Sk) (cm : Nat) : List (Nat × Nat) :=
  if cm == s.curMax then cms.filter (·.1 != r) else setR cms r cm

def parseMol (s : String) : Mol :=
  if s == "protein" then .protein else if s == "dayhoff" then .dayhoff else if s == "hp" then .hp else .dna

def parsePairs (s : String) : List (Nat × Nat) :=
  if s == "-" || s == "" then [] else
  (s.splitOn ",").filterMap (fun w => match w.splitOn ":" with
    | [h, a] => some (h.toNat!, a.toNat!)
    | [h] => some (h.toNat!, 1)
    | _ => none)

def showErr : Err → String
  | .MismatchKSizes => "err MismatchKSizes"
  | .MismatchDNAProt => "err MismatchDNAProt"
  | .MismatchScaled => "err MismatchScaled"
  | .MismatchSeed => "err MismatchSeed"
  | .NeedsAbundanceTracking => "err NeedsAbundanceTracking"
  | .CannotUpsampleScaled => "err CannotUpsampleScaled"

/-- sketches holding more than this many hashes are answered by a digest instead of the lists (the
large-batch family): `#<count>:<xor of the hashes>`, and for the abundances
`#<sum>:<xor of hash * (2 * abundance + 1) mod 2^64>` -/
def digestAbove : Nat := 200

def showMins (mins : List Nat) : String :=
  if mins.length > digestAbove then
    "#" ++ toString mins.length ++ ":" ++ toString (mins.foldl (fun x h => x ^^^ h) 0)
  else showNats mins

def showAbunds (mins ab : List Nat) : String :=
  if mins.length > digestAbove then
    "#" ++ toString (ab.foldl (· + ·) 0) ++ ":"
      ++ toString ((mins.zip ab).foldl (fun x p => x ^^^ (p.1 * (2 * p.2 + 1) % 2 ^ 64)) 0)
  else showNats ab

def showObs (mins : List Nat) (ab : Option (List Nat)) : String :=
  "mins=" ++ showMins mins ++ " abunds=" ++ (match ab with | some l => showAbunds mins l | none => "none")

def SetOps.Sk.obs (s : Sk) : String := showObs s.mins s.abunds
def SReg.obs (r : SReg) : String :=
  let c := r.content
  showObs (c.map Prod.fst) (if r.track then some (c.map Prod.snd) else none)

/-- the property's reading of `check_compatible` -/
def specCompat (a b : SReg) : Option String :=
  if a.ksize != b.ksize then some "err MismatchKSizes"
  else if a.mol != b.mol then some "err MismatchDNAProt"
  else if a.maxHash != b.maxHash then some "err MismatchScaled"
  else if a.seed != b.seed then some "err MismatchSeed"
  else none

def lookP (ps : List (Nat × Nat)) (h : Nat) : Nat :=
  match ps.find? (·.1 == h) with | some p => p.2 | none => 0

def resp (st : St) (m s : String) : Resp := { model := m, spec := if st.nospec then "-" else s }

def showMol : Mol → String
  | .dna => "dna" | .protein => "protein" | .dayhoff => "dayhoff" | .hp => "hp"

def showParams (num maxHash ksize seed : Nat) (mol : String) (track : Bool) : String :=
  s!"num={num} max_hash={maxHash} ksize={ksize} seed={seed} mol={mol} track={if track then 1 else 0}"

/-- the common hashes the property assigns to a compatible pair (see `isect`) -/
def specCommon (sa sb : SReg) : List Nat × Nat :=
  let ka := sa.keys
  let kb := sb.keys
  if sa.num == 0 then (inter ka kb, unionSize ka kb)
  else
    -- num sketches: the estimate is taken inside the bottom-`num` of the union
    let comb := (union ka kb).take sa.num
    (inter (inter ka kb) comb, comb.length)

/-- the native op behind a C-API op name -/
def capiOf (op : String) : Option String :=
  if ["cnew", "cobs", "cparams", "cadd", "caddm", "crmmany", "cmerge", "caddfrom", "crmfrom", "cisize", "ccc"].contains op
  then some (op.drop 1).toString else none

def binop (st : St) (capi : Bool) (op : String) (r1 r2 : Nat) : St × Resp :=
  match getR st.regs r1, getR st.regs r2, getR st.sregs r1, getR st.sregs r2 with
  | some a, some b, some sa, some sb =>
    if op == "merge" then
      let (st', m) := match a.merge st.kind b with
        | .ok a' => ({ st with regs := setR st.regs r1 a' }, a'.obs)
        | .error e => (st, showErr e)
      match specCompat sa sb with
      | some e => (st', resp st m e)
      | none =>
        let src := if sa.num == 0 || sb.num == sa.num then sa.src ++ sb.src else sa.content ++ sb.content
        let sa' := { sa with src := src, track := sa.track && sb.track }
        ({ st' with sregs := setR st'.sregs r1 sa' }, resp st m sa'.obs)
    else if op == "addfrom" then
      let (a', cm) := if st.kind == .tree then a.addManyTc (cmGet st r1 a) b.mins else (a.addFrom st.kind b, 0)
      let sa' := { sa with src := sa.src ++ sb.keys.map (fun h => (h, 1)) }
      ({ st with regs := setR st.regs r1 a', sregs := setR st.sregs r1 sa',
                 cms := if st.kind == .tree then cmSet st.cms r1 a' cm else st.cms }, resp st a'.obs sa'.obs)
    else if op == "rmfrom" then
      let (a', cm) := if st.kind == .tree then a.removeManyTc (cmGet st r1 a) b.mins else (a.removeFrom b, 0)
      let st := { st with cms := if st.kind == .tree then cmSet st.cms r1 a' cm else st.cms }
      let ks := sb.keys
      let base := if sa.num == 0 then sa.src else sa.content
      let sa' := { sa with src := base.filter (fun p => !ks.contains p.1) }
      ({ st with regs := setR st.regs r1 a', sregs := setR st.sregs r1 sa' }, resp st a'.obs sa'.obs)
    else if op == "isect" || op == "isize" then
      let m := if op == "isect" then
          match intersection st.kind a b with
          | .ok (c, u) => "common=" ++ showMins c ++ " union=" ++ toString u
          | .error e => showErr e
        else if capi then
          let (c, u) := capiIntersectionUnionSize a b
          "common=" ++ toString c ++ " union=" ++ toString u
        else
          match intersectionSize st.kind a b with
          | .ok (c, u) => "common=" ++ toString c ++ " union=" ++ toString u
          | .error e => showErr e
      let s := match specCompat sa sb with
        | some e => e
        | none =>
          let (c, u) := specCommon sa sb
          if op == "isect" then "common=" ++ showMins c ++ " union=" ++ toString u
          else "common=" ++ toString c.length ++ " union=" ++ toString u
      (st, resp st m s)
    else if op == "inflate" then
      let (st', m) := match a.inflate b with
        | .ok a' => ({ st with regs := setR st.regs r1 a' }, a'.obs)
        | .error e => (st, showErr e)
      match specCompat sa sb with
      | some e => (st', resp st m e)
      | none =>
        if !sb.track then (st', resp st m "err NeedsAbundanceTracking") else
        let cb := sb.content
        let sa' := { sa with src := (inter sa.keys sb.keys).map (fun h => (h, lookP cb h)), track := true }
        ({ st' with sregs := setR st'.sregs r1 sa' }, resp st m sa'.obs)
    else if op == "infab" then
      let m := match a.inflatedAbundances b with
        | .ok (l, t) => "abunds=" ++ showNats l ++ " total=" ++ toString t
        | .error e => showErr e
      let s := match specCompat sa sb with
        | some e => e
        | none =>
          if !sb.track then "err NeedsAbundanceTracking" else
          let cb := sb.content
          let l := (inter sa.keys sb.keys).map (lookP cb)
          "abunds=" ++ showNats l ++ " total=" ++ toString (l.foldl (· + ·) 0)
      (st, resp st m s)
    else (st, { model := "bad-op" })
  | _, _, _, _ => (st, { model := "bad-reg" })

/-! ### `sigadd` / `sigprot` -/

def molK : Mol → Kmers.Mol
  | .dna => .dna | .protein => .protein | .dayhoff => .dayhoff | .hp => .hp

/-- a sketch of the signature: container type and contents -/
abbrev SSk := Kind × Sk

def parseSpec (sp : String) : Option (SSk × Bool) :=
  match sp.splitOn ":" with
  | [ty, scaled, num, ksize, mol, seed, track] =>
    some ((if ty == "t" then .tree else .vec,
           Sk.new scaled.toNat! ksize.toNat! (parseMol mol) seed.toNat! (track == "1") num.toNat!), track == "1")
  | _ => none

def itemExc : Seq.Item → Except String Nat
  | .ok h => .ok h.toNat
  | .errDna => .error "InvalidDNA"
  | .errHf => .error "InvalidHashFunction"
  | .panic => .error "PANIC"

/-- the items of `SeqToHashes::new(seq, ksize(), force, is_protein, hash_function(), seed())` -/
def sigStream (seq : List UInt8) (force isProt : Bool) (s : SSk) : List (Except String Nat) :=
  (Seq.run (Seq.St.new seq s.2.ksize force isProt (molK s.2.mol) (UInt64.ofNat s.2.seed)) (Seq.fuelFor seq)).map itemExc

/-- `sketch.add_sequence(seq, force)` / `sketch.add_protein(seq)` on one sketch -/
def sigOne (seq : List UInt8) (force isProt : Bool) : SSk → SSk × Option String :=
  SigAdd.sketchAdd (sigStream seq force isProt) (fun s h => (s.1, s.2.add s.1 h 1))

def showSk (mins : List Nat) (ab : Option (List Nat)) : String :=
  showNats mins ++ "/" ++ (match ab with | some l => showNats l | none => "none")

def showSig (l : List SSk) : String := "|".intercalate (l.map (fun s => showSk s.2.mins s.2.abunds))

/-- the schedule the model column is evaluated under -/
def schedule (threads n : Nat) : List SigAdd.Ev :=
  if threads ≤ 1 then SigAdd.seqTrace (List.range n)
  else
    let order := (List.range n).map (fun i => (i + threads) % n)
    SigAdd.eagerTrace order.reverse

def sigModel (threads : Nat) (force isProt : Bool) : List SSk → List (List UInt8) → String
  | sig, [] => "ok " ++ showSig sig
  | sig, seq :: rest =>
    let m := SigAdd.exec (sigOne seq force isProt) (SigAdd.Par.init sig) (schedule threads sig.length)
    if !m.complete then "incomplete-schedule" else
    match m.result with
    | none => sigModel threads force isProt m.sketches rest
    | some e => if threads ≤ 1 then "err " ++ e ++ " " ++ showSig m.sketches else "err " ++ e ++ " legal"

/-- the property's view of one sketch and one sequence: `none` = it says nothing, otherwise the
non-zero hashes to add (in order) and whether the call must fail -/
def specHashes (s : Sk) (force isProt : Bool) (seq : List UInt8) : Option (List Nat × Bool) :=
  let seed := UInt64.ofNat s.seed
  if s.mol == .dna then
    if isProt || s.ksize == 0 then none else
    let evs := Kmers.dnaStream s.ksize seed force seq
    some (((Kmers.evHashes evs).filter (· != 0)).map UInt64.toNat, !Kmers.evOk evs)
  else if s.ksize < 3 then none
  else if isProt then
    some (((Kmers.proteinHashes (molK s.mol) s.ksize seed seq).filter (· != 0)).map UInt64.toNat, false)
  else
    some (((Kmers.translateHashes (molK s.mol) s.ksize seed seq).filter (· != 0)).map UInt64.toNat, false)

/-- spec column: every sketch on its own.  `acc` = the hashes fed to each sketch so far. -/
def sigSpec (threads : Nat) (force isProt : Bool) (sks : List Sk) :
    List (List Nat) → List (List UInt8) → String
  | acc, [] =>
    "ok " ++ "|".intercalate ((sks.zip acc).map (fun (s, hs) =>
      let c := sketchPairs s.num s.maxHash (hs.map (fun h => (h, 1)))
      showSk (c.map Prod.fst) (if s.track then some (c.map Prod.snd) else none)))
  | acc, seq :: rest =>
    let per := sks.map (fun s => specHashes s force isProt seq)
    if per.any Option.isNone then "-" else
    let per := per.filterMap id
    if per.any (·.2) then (if threads ≤ 1 then "-" else "err InvalidDNA legal") else
    sigSpec threads force isProt sks ((acc.zip per).map (fun (a, p) => a ++ p.1)) rest

def sigReq (threads : String) (force isProt : Bool) (specs : String) (seqs : List String) : Resp :=
  let ps := (specs.splitOn ";").filterMap parseSpec
  let sig := ps.map (·.1)
  let bs := seqs.map unhex
  { model := sigModel threads.toNat! force isProt sig bs,
    spec := sigSpec threads.toNat! force isProt (sig.map (·.2)) (sig.map (fun _ => [])) bs }

def stepCore (st : St) (capi : Bool) (ws : List String) : St × Resp :=
  match ws with
  | "case" :: _ :: ty :: rest =>
    ({ kind := if ty == "tree" then .tree else .vec, nospec := rest.contains "nospec" }, { model := "ok" })
  | "sigadd" :: threads :: force :: specs :: seqs => (st, sigReq threads (force == "1") false specs seqs)
  | "sigprot" :: threads :: specs :: seqs => (st, sigReq threads false true specs seqs)
  | ["new", r, scaled, num, ksize, mol, seed, track] =>
    let r := r.toNat!
    let tr := track == "1"
    let sk := Sk.new scaled.toNat! ksize.toNat! (parseMol mol) seed.toNat! tr num.toNat!
    let sr : SReg := { num := num.toNat!, maxHash := Scaled.maxHashForScaled scaled.toNat!, ksize := ksize.toNat!,
                       seed := seed.toNat!, mol := mol, track := tr, src := [] }
    ({ st with regs := setR st.regs r sk, sregs := setR st.sregs r sr }, { model := "ok" })
  | ["newmh", r, maxHash, num, ksize, mol, seed, track] =>
    let r := r.toNat!
    let tr := track == "1"
    let sk : Sk := { num := num.toNat!, maxHash := maxHash.toNat!, ksize := ksize.toNat!, seed := seed.toNat!,
                     mol := parseMol mol, mins := [], abunds := if tr then some [] else none }
    let sr : SReg := { num := num.toNat!, maxHash := maxHash.toNat!, ksize := ksize.toNat!,
                       seed := seed.toNat!, mol := mol, track := tr, src := [] }
    ({ st with regs := setR st.regs r sk, sregs := setR st.sregs r sr }, { model := "ok" })
  | ["params", r] =>
    match getR st.regs r.toNat!, getR st.sregs r.toNat! with
    | some a, some sa =>
      (st, resp st (showParams a.num a.maxHash a.ksize a.seed (showMol a.mol) a.track)
                   (showParams sa.num sa.maxHash sa.ksize sa.seed sa.mol sa.track))
    | _, _ => (st, { model := "bad-reg" })
  | ["cisect", d, r1, r2] =>
    match getR st.regs r1.toNat!, getR st.regs r2.toNat!, getR st.sregs r1.toNat!, getR st.sregs r2.toNat! with
    | some a, some b, some sa, some sb =>
      let d := d.toNat!
      let (st', m) := match capiIntersection a b with
        | .ok r => ({ st with regs := setR st.regs d r }, r.obs)
        | .error e => (st, showErr e)
      match specCompat sa sb with
      | some e => (st', resp st m e)
      | none =>
        -- a sketch with the parameters of the first operand holding exactly the common hashes
        let sd := { sa with src := (specCommon sa sb).1.map (fun h => (h, 1)) }
        ({ st' with sregs := setR st'.sregs d sd }, resp st m sd.obs)
    | _, _, _, _ => (st, { model := "bad-reg" })
  | ["csetab", r, clear, items] =>
    let r := r.toNat!
    match getR st.regs r, getR st.sregs r with
    | some a, some sa =>
      let ps := parsePairs items
      let a' := capiSetAbundances a ps (clear == "1")
      let sa' := { sa with src := (if clear == "1" then [] else sa.src) ++ ps }
      ({ st with regs := setR st.regs r a', sregs := setR st.sregs r sa' }, resp st a'.obs sa'.obs)
    | _, _ => (st, { model := "bad-reg" })
  | ["ccompat", r1, r2] =>
    match getR st.regs r1.toNat!, getR st.regs r2.toNat!, getR st.sregs r1.toNat!, getR st.sregs r2.toNat! with
    | some a, some b, some sa, some sb =>
      (st, resp st (match checkCompatible a b with | .ok _ => "compatible=1" | .error _ => "compatible=0")
                   (if (specCompat sa sb).isNone then "compatible=1" else "compatible=0"))
    | _, _, _, _ => (st, { model := "bad-reg" })
  | ["copy", r1, r2] =>
    match getR st.regs r2.toNat!, getR st.sregs r2.toNat! with
    | some a, some sa =>
      ({ st with regs := setR st.regs r1.toNat! a, sregs := setR st.sregs r1.toNat! sa,
                 cms := cmSet st.cms r1.toNat! a (cmGet st r2.toNat! a) }, { model := "ok" })
    | _, _ => (st, { model := "bad-reg" })
  | "build" :: r :: ctor :: maxHash :: num :: ksize :: mol :: seed :: track :: items :: cmArg =>
    -- a sketch handed over ready-made (builder / JSON document): the state is what was given; a JSON
    -- document is sorted by (hash, abundance) on the way in and loses `num` next to a ceiling; the
    -- tree builder derives `current_max` from the hashes unless it is given explicitly (`bc … cm`:
    -- taken as it is, possibly stale)
    let r := r.toNat!
    let tr := track == "1"
    let ps := if ctor == "js" then sortPairs (parsePairs items) else parsePairs items
    let nm := if ctor == "js" && maxHash.toNat! != 0 then 0 else num.toNat!
    let sk : Sk := { num := nm, maxHash := maxHash.toNat!, ksize := ksize.toNat!, seed := seed.toNat!,
                     mol := parseMol mol, mins := ps.map Prod.fst, abunds := if tr then some (ps.map Prod.snd) else none }
    let sr : SReg := { num := num.toNat!, maxHash := maxHash.toNat!, ksize := ksize.toNat!,
                       seed := seed.toNat!, mol := mol, track := tr, src := parsePairs items }
    ({ st with regs := setR st.regs r sk, sregs := setR st.sregs r sr,
               cms := match cmArg with
                 | [cm] => if st.kind == .tree && ctor == "bc" then cmSet st.cms r sk cm.toNat! else st.cms.filter (·.1 != r)
                 | _ => st.cms.filter (·.1 != r) },
     resp st sk.obs sr.obs)
  | ["newdef", r] =>
    let sr : SReg := { num := 1000, maxHash := 0, ksize := 21, seed := 42, mol := "dna", track := false, src := [] }
    ({ st with regs := setR st.regs r.toNat! Sk.defaultSk, sregs := setR st.sregs r.toNat! sr }, { model := "ok" })
  | ["conv", r1, r2, how] =>
    -- Clone / From conversions there and back (two conversions, each re-deriving the ceiling from
    -- scaled()) / serde round trip: the property expects the same sketch
    match getR st.regs r2.toNat!, getR st.sregs r2.toNat! with
    | some a, some sa =>
      let a' := if how == "rt" || how == "rtr" then a.convert.convert else if how == "serde" then a.serdeRoundTrip else a
      -- `Clone` copies the cache, the other routes recompute it
      let cms := if how == "clone" then cmSet st.cms r1.toNat! a (cmGet st r2.toNat! a) else st.cms.filter (·.1 != r1.toNat!)
      ({ st with regs := setR st.regs r1.toNat! a', sregs := setR st.sregs r1.toNat! sa, cms := cms },
       resp st (showParams a'.num a'.maxHash a'.ksize a'.seed (showMol a'.mol) a'.track ++ " " ++ a'.obs)
               (showParams sa.num sa.maxHash sa.ksize sa.seed sa.mol sa.track ++ " " ++ sa.obs))
    | _, _ => (st, { model := "bad-reg" })
  | ["obs", r] =>
    match getR st.regs r.toNat!, getR st.sregs r.toNat! with
    | some a, some sa => (st, resp st a.obs sa.obs)
    | _, _ => (st, { model := "bad-reg" })
  | [op, r, items] =>
    if !(op == "add" || op == "addm" || op == "rmmany") then binop st capi op r.toNat! items.toNat! else
    let r := r.toNat!
    match getR st.regs r, getR st.sregs r with
    | some a, some sa =>
      if op == "add" then
        let ps := parsePairs items
        let (a', cm) := if st.kind == .tree then a.addManyAbTc (cmGet st r a) ps else (a.addManyAb st.kind ps, 0)
        let sa' := { sa with src := sa.src ++ ps }
        ({ st with regs := setR st.regs r a', sregs := setR st.sregs r sa',
                   cms := if st.kind == .tree then cmSet st.cms r a' cm else st.cms }, resp st a'.obs sa'.obs)
      else if op == "addm" then
        let hs := natList items
        let (a', cm) := if st.kind == .tree then a.addManyTc (cmGet st r a) hs else (a.addMany st.kind hs, 0)
        let sa' := { sa with src := sa.src ++ hs.map (fun h => (h, 1)) }
        ({ st with regs := setR st.regs r a', sregs := setR st.sregs r sa',
                   cms := if st.kind == .tree then cmSet st.cms r a' cm else st.cms }, resp st a'.obs sa'.obs)
      else if op == "rmmany" then
        let hs := natList items
        let (a', cm) := if st.kind == .tree then a.removeManyTc (cmGet st r a) hs else (a.removeMany hs, 0)
        let st := { st with cms := if st.kind == .tree then cmSet st.cms r a' cm else st.cms }
        let base := if sa.num == 0 then sa.src else sa.content
        let sa' := { sa with src := base.filter (fun p => !hs.contains p.1) }
        ({ st with regs := setR st.regs r a', sregs := setR st.sregs r sa' }, resp st a'.obs sa'.obs)
      else (st, { model := "bad-op" })
    | _, _ => (st, { model := "bad-reg" })
  | ["cc", r1, r2, d] =>
    match getR st.regs r1.toNat!, getR st.regs r2.toNat!, getR st.sregs r1.toNat!, getR st.sregs r2.toNat! with
    | some a, some b, some sa, some sb =>
      let m := match countCommon st.kind a b (d == "1") with
        | .ok c => "common=" ++ toString c
        | .error e => showErr e
      -- C03 speaks about the counts of the call without downsampling (C04 covers the counts under
      -- downsample = true).  With downsample = true and different scaled values it still demands the
      -- rejection of a pair that differs in ANOTHER parameter as well, with that parameter's error
      -- (T-reject_downsample): ksize, molecule, num against scaled; the seed when the coarser
      -- operand's ceiling is the one its scaled() maps back to (otherwise the downsampled copy has
      -- another ceiling and MismatchScaled comes first - C04's ground).
      let s := if d == "1" && a.scaled != b.scaled then
          let first := if Scaled.scaledForMaxHash sa.maxHash > Scaled.scaledForMaxHash sb.maxHash then sa else sb
          if sa.ksize != sb.ksize then "err MismatchKSizes"
          else if sa.mol != sb.mol then "err MismatchDNAProt"
          else if sa.maxHash == 0 || sb.maxHash == 0 then "err MismatchScaled"
          else if sa.seed != sb.seed
              && Scaled.maxHashForScaled (Scaled.scaledForMaxHash first.maxHash) == first.maxHash then "err MismatchSeed"
          else "-"
        else
        match specCompat sa sb with
        | some e => e
        | none => "common=" ++ toString (inter sa.keys sb.keys).length
      (st, resp st m s)
    | _, _, _, _ => (st, { model := "bad-reg" })
  | _ => (st, { model := "bad-op" })

/-- the ops that leave an exact `current_max` in their target register (`new`, `merge` recompute it) -/
def resetsCache (op : String) : Bool := ["new", "newmh", "newdef", "merge"].contains op

def stepC03 (st : St) (ws : List String) : St × Resp :=
  match ws with
  | op :: rest =>
    match capiOf op with
    | some native => stepCore st true (native :: rest)
    | none =>
      let (st', r) := stepCore st false ws
      if resetsCache op && !r.model.startsWith "err" then ({ st' with cms := st'.cms.filter (·.1 != (rest.headD "").toNat!) }, r) else (st', r)
  | [] => stepCore st false ws

def main : IO Unit := Driver.run ({} : St) stepC03
