import Driver.Common
import Sourmash.Model.Select
import Sourmash.Spec.Select
import Sourmash.Model.Csv
import Sourmash.Model.Manifest
/-! C11 driver: selection on signatures, manifests, collections.
Model column = the functions of `Model/Select.lean` (what the theorems are about);
spec column = filter by `satisfies` + `deliver` from `Spec/Select.lean`, on positions.

Cases with an `mcsv` line: the manifest is what `Manifest::from_reader` (model: `Model/Manifest.lean`
over `Model/Csv.lean`) makes of a CSV document; the rows keep the spelling of the document
(`Record.moltype` is the raw column, `Record.mol?` parses it the way `Record::moltype()` does).  The
spec column then says what the property says — *selection on the manifest agrees with selection on
the signatures it describes*: row `p` is retained iff the sketch it describes (`map[p]`-th of the
case) satisfies the request; nothing is said when a row describes no sketch. -/
open Driver Select Scaled

structure St where
  sigs : List Sig := []
  /-- rows read by `mcsv`, and for each row the flat index of the sketch it describes -/
  csv : Option (List Record × List Nat) := none

def seed0 : Nat := 1000

def molOfString (s : String) : Mol :=
  if s == "protein" then .protein else if s == "dayhoff" then .dayhoff else if s == "hp" then .hp else .dna

def molString : Mol → String
  | .dna => "dna" | .protein => "protein" | .dayhoff => "dayhoff" | .hp => "hp"

def optBytes (s : String) : Option Select.Bytes := if s == "~" then none else some (unhex s)

def bytesString (b : Select.Bytes) : String := String.fromUTF8! (ByteArray.mk b.toArray)

def parseSel (ws : List String) : Selection :=
  match ws with
  | [k, m, a, n, s] =>
    { ksize := if k == "-" then none else some k.toNat!
      moltype := if m == "-" then none else some (molOfString m)
      abund := if a == "-" then none else some (a == "1")
      num := if n == "-" then none else some n.toNat!
      scaled := if s == "-" then none else some s.toNat! }
  | _ => {}

def descr (s : Sketch) : String :=
  "/".intercalate [toString (s.seed - seed0), toString s.ksize, molString s.mol, toString s.num,
    toString s.scaled, (if s.tracked then "1" else "0"), (match s.container with | .vec => "v" | .tree => "t"),
    toString s.mins.length, showNats s.mins, showNats s.abunds]

def descrList (l : List Sketch) : String :=
  if l.isEmpty then "-" else ";".intercalate (l.map descr)

def showSel (r : Except Err Sig) : String :=
  match r with
  | .ok s => descrList s.sketches
  | .error e => "err " ++ (match e with
      | .CannotUpsampleScaled => "CannotUpsampleScaled"
      | .MismatchKSizes => "MismatchKSizes"
      | .MismatchDNAProt => "MismatchDNAProt")

def errName : Err → String
  | .CannotUpsampleScaled => "CannotUpsampleScaled"
  | .MismatchKSizes => "MismatchKSizes"
  | .MismatchDNAProt => "MismatchDNAProt"

def rowString (g : String) (r : Record) : String :=
  ":".intercalate [g, bytesString r.internalLocation, toString r.ksize,
    (match r.mol? with | some m => molString m | none => "custom"), toString r.num, toString r.scaled,
    (if r.withAbundance then "1" else "0"), toString r.nHashes]

/-- leftmost order-preserving embedding of `kept` into `orig` (same canonicalisation as the harness) -/
def embed (orig : List Record) (kept : List Record) : List (Option Nat) :=
  let rec go (fuel : Nat) (p : Nat) (o : List Record) (k : List Record) : List (Option Nat) :=
    match fuel, k with
    | 0, _ => k.map (fun _ => none)
    | _, [] => []
    | fuel + 1, r :: ks =>
      match o with
      | [] => none :: go fuel p [] ks
      | x :: xs => if x == r then some p :: go fuel (p + 1) xs ks else go fuel (p + 1) xs (r :: ks)
  go (orig.length + kept.length + 1) 0 orig kept

def rowsString (orig kept : List Record) : String :=
  if kept.isEmpty then "-" else
  ";".intercalate ((embed orig kept).zip kept |>.map (fun (g, r) =>
    rowString (match g with | some p => toString p | none => "?") r))

/-- spec: rows at the positions that `satisfies` retains -/
def rowsSpec (sel : Selection) (orig : List Record) : String :=
  let pos := retainedFrom (fun r => satisfies sel r.described) 0 orig
  if pos.isEmpty then "-" else
  ";".intercalate (pos.map (fun p => rowString (toString p) (orig[p]!)))

/-- md5 is not observed by this property; names are always present in its cases -/
def md5of (_ : Sketch) : Select.Bytes := []

def allRows (st : St) : List Record :=
  match st.csv with
  | some (rows, _) => rows
  | none => (st.sigs.zipIdx.map (fun (s, i) => (fromSig md5of s (natBytes i)).getD [])).flatten

/-- `Collection::from_sigs`, or `Collection::new(manifest read by mcsv, MemStorage of the signatures)` -/
def collOf (st : St) : Option Collection :=
  match Collection.fromSigs md5of st.sigs with
  | none => none
  | some c =>
    match st.csv with
    | some (rows, _) => some { c with manifest := rows }
    | none => some c

/-- every sketch of the case with the position of its signature, in collection order -/
def flatSketches (st : St) : List (Nat × Sketch) :=
  (st.sigs.zipIdx.map (fun (sg, i) => sg.sketches.map (fun s => (i, s)))).flatten

/-- for every manifest row of the case, the sketch it describes (`none` = describes no sketch) -/
def described (st : St) : List (Option (Nat × Sketch)) :=
  let flat := flatSketches st
  match st.csv with
  | some (_, map) => map.map (fun j => flat[j]?)
  | none => flat.map some

/-- spec: the rows whose sketch satisfies the request, with their positions -/
def rowsSpecOf (st : St) (sel : Selection) : String :=
  let orig := allRows st
  let d := described st
  if d.any Option.isNone || d.length != orig.length then "-" else
  let pos := retainedFrom (fun (o : Option (Nat × Sketch)) =>
    match o with | some (_, s) => satisfies sel s.described | none => false) 0 d
  if pos.isEmpty then "-" else
  ";".intercalate (pos.map (fun p => rowString (toString p) (orig[p]!)))

def showRead (l : List Record) : String :=
  if l.isEmpty then "-" else
  ";".intercalate (l.map (fun r => ":".intercalate [bytesString r.internalLocation, toString r.ksize,
    hex r.moltype, toString r.num, toString r.scaled, (if r.withAbundance then "1" else "0"),
    toString r.nHashes]))

def stepC11 (st : St) (ws : List String) : St × Resp :=
  match ws with
  | "case" :: _ => ({}, { model := "ok" })
  | ["sig", n, f] =>
    ({ st with sigs := st.sigs ++ [{ name := optBytes n, filename := optBytes f, sketches := [] }] }, { model := "ok" })
  | ["sk", k, m, n, sc, tr, c, mins, abunds] =>
    match st.sigs.reverse with
    | [] => (st, { model := "bad-op" })
    | sg :: before =>
      let sk : Sketch :=
        { ksize := k.toNat!, mol := molOfString m, num := n.toNat!, maxHash := maxHashForScaled sc.toNat!,
          tracked := tr == "1", container := if c == "v" then .vec else .tree,
          seed := seed0 + sg.sketches.length, mins := natList mins, abunds := natList abunds }
      let sg' := { sg with sketches := sg.sketches ++ [sk] }
      ({ st with sigs := (sg' :: before).reverse }, { model := descr sk })
  | ["mcsv", doc, map] =>
    (match Manifest.fromReader (unhex doc) with
     | some rows => ({ st with csv := some (rows, natList map) }, { model := showRead rows })
     | none => (st, { model := "err CsvError" }))
  | op :: rest =>
    if op == "ssel" || op == "stsel" then
      match rest with
      | i :: selw =>
        let sel := parseSel selw
        let sg := st.sigs[i.toNat!]!
        let r := if op == "ssel" then sg.select sel else sigStoreSelect sel sg
        (st, { model := showSel r, spec := descrList (selectSpec sel sg.sketches) })
      | _ => (st, { model := "bad-op" })
    else if op == "msel" || op == "msel2" || op == "csel" || op == "lsel" then
      let sel := parseSel rest
      let orig := allRows st
      let model :=
        if op == "msel" then
          match manifestSelect? sel orig with
          | some kept => rowsString orig kept
          | none => "PANIC"
        else if op == "msel2" then
          match (manifestSelect? sel orig).bind (manifestSelect? sel) with
          | some kept => rowsString orig kept
          | none => "PANIC"
        else
          match collOf st with
          | none => "PANIC"
          | some c =>
            if (manifestSelect? sel c.manifest).isNone then "PANIC"
            else if op == "csel" then rowsString c.manifest (c.select sel).manifest
            else match linearSelect sel c with
              | .ok c' => rowsString c.manifest c'.manifest
              | .error e => "err " ++ errName e
      (st, { model := model, spec := if st.csv.isSome then rowsSpecOf st sel else rowsSpec sel orig })
    else if op == "cset" then
      let sel := parseSel rest
      match collOf st with
      | none => (st, { model := "PANIC" })
      | some c =>
        let c' := c.select sel
        (st, { model := match collectionSetCheck c'.manifest with
                        | .ok () => "ok " ++ toString c'.manifest.length
                        | .error e => "err " ++ errName e })
    else if op == "cload" then
      let sel := parseSel rest
      match collOf st with
      | none => (st, { model := "PANIC" })
      | some c =>
        let c' := c.select sel
        let one (r : Record) : Option String :=
          match c'.sigFromRecord r with
          | none => none
          | some (.error e) => some ("err " ++ errName e)
          | some (.ok sg) =>
            match sigStoreSelect sel sg with
            | .ok sg' => some (bytesString r.internalLocation ++ "=" ++ descrList sg'.sketches)
            | .error e => some ("err " ++ errName e)
        let outs := c'.manifest.map one
        let model :=
          if outs.any Option.isNone then "PANIC"
          else if outs.isEmpty then "-" else "|".intercalate (outs.filterMap id)
        -- spec: for every row whose sketch satisfies the request, in manifest order, that one sketch delivered
        let d := described st
        let specs := d.filterMap (fun o =>
          match o with
          | some (i, s) => if satisfies sel s.described then some (toString i ++ "=" ++ descr (deliver sel s)) else none
          | none => none)
        (st, { model := model,
               spec := if d.any Option.isNone then "-" else if specs.isEmpty then "-" else "|".intercalate specs })
    else if op == "agree" then
      match rest with
      | i :: selw =>
        let sel := parseSel selw
        let sg := st.sigs[i.toNat!]!
        let recs := (fromSig md5of sg [120]).getD []
        let mpos := (embed recs (manifestSelect sel recs)).filterMap id
        let spos := match sg.select sel with
          | .ok s => s.sketches.map (fun s => s.seed - seed0)
          | .error _ => []
        let want := retainedFrom (fun s => satisfies sel s.described) 0 sg.sketches
        (st, { model := "m=" ++ showNats mpos ++ " s=" ++ showNats spos,
               spec := "m=" ++ showNats want ++ " s=" ++ showNats want })
      | _ => (st, { model := "bad-op" })
    else (st, { model := "bad-op" })
  | _ => (st, { model := "bad-op" })

def main : IO Unit := Driver.run ({} : St) stepC11
