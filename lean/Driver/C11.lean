import Driver.Common
import Sourmash.Model.Select
import Sourmash.Spec.Select
import Sourmash.Model.Csv
import Sourmash.Model.Manifest
/-! C11 driver: selection on signatures, manifests, collections.
Model column = the functions of `Model/Select.lean` (what the theorems are about);
spec column = filter by `satisfies` + `deliver` from `Spec/Select.lean`, on positions.

Cases with an `mcsv` line: the manifest is what `Manifest::from_reader` (model: `Model/Manifest.lean`
over `Model/Csv.lean`) makes of a CSV document; the rows keep the spelling of the document
(`Record.moltype` is the raw column, `Record.mol?` parses it the way `Record::moltype()` does).  The
spec column then says what the property says — *selection on the manifest agrees with selection on
the signatures it describes*: row `p` is retained iff the sketch it describes (`map[p]`-th of the
case) satisfies the request; nothing is said when a row describes no sketch. -/
open Driver Select Scaled

structure St where
  sigs : List Sig := []
  /-- rows read by `mcsv`, and for each row the flat index of the sketch it describes -/
  csv : Option (List Record × List Nat) := none
  /-- the manifest `hnew` saw -/
  orig : List Record := []
  /-- the collection of the history: is it inside a `LinearIndex`, and its current rows, each with
      its position in `orig` -/
  hist : Option (Bool × List (Nat × Record)) := none

def seed0 : Nat := 1000

def molOfString (s : String) : Mol :=
  if s == "protein" then .protein else if s == "dayhoff" then .dayhoff else if s == "hp" then .hp else .dna

def molString : Mol → String
  | .dna => "dna" | .protein => "protein" | .dayhoff => "dayhoff" | .hp => "hp"

def optBytes (s : String) : Option Select.Bytes := if s == "~" then none else some (unhex s)

def bytesString (b : Select.Bytes) : String := String.fromUTF8! (ByteArray.mk b.toArray)

def parseSel (ws : List String) : Selection :=
  match ws with
  | [k, m, a, n, s] =>
    { ksize := if k == "-" then none else some k.toNat!
      moltype := if m == "-" then none else some (molOfString m)
      abund := if a == "-" then none else some (a == "1")
      num := if n == "-" then none else some n.toNat!
      scaled := if s == "-" then none else some s.toNat! }
  | _ => {}

def descr (s : Sketch) : String :=
  "/".intercalate [toString (s.seed - seed0), toString s.ksize, molString s.mol, toString s.num,
    toString s.scaled, (if s.tracked then "1" else "0"), (match s.container with | .vec => "v" | .tree => "t"),
    toString s.mins.length, showNats s.mins, showNats s.abunds]

def descrList (l : List Sketch) : String :=
  if l.isEmpty then "-" else ";".intercalate (l.map descr)

def showSel (r : Except Err Sig) : String :=
  match r with
  | .ok s => descrList s.sketches
  | .error e => "err " ++ (match e with
      | .CannotUpsampleScaled => "CannotUpsampleScaled"
      | .MismatchKSizes => "MismatchKSizes"
      | .MismatchDNAProt => "MismatchDNAProt")

def errName : Err → String
  | .CannotUpsampleScaled => "CannotUpsampleScaled"
  | .MismatchKSizes => "MismatchKSizes"
  | .MismatchDNAProt => "MismatchDNAProt"

def rowString (g : String) (r : Record) : String :=
  ":".intercalate [g, bytesString r.internalLocation, toString r.ksize,
    (match r.mol? with | some m => molString m | none => "custom"), toString r.num, toString r.scaled,
    (if r.withAbundance then "1" else "0"), toString r.nHashes]

/-- leftmost order-preserving embedding of `kept` into `orig` (same canonicalisation as the harness) -/
def embed (orig : List Record) (kept : List Record) : List (Option Nat) :=
  let rec go (fuel : Nat) (p : Nat) (o : List Record) (k : List Record) : List (Option Nat) :=
    match fuel, k with
    | 0, _ => k.map (fun _ => none)
    | _, [] => []
    | fuel + 1, r :: ks =>
      match o with
      | [] => none :: go fuel p [] ks
      | x :: xs => if x == r then some p :: go fuel (p + 1) xs ks else go fuel (p + 1) xs (r :: ks)
  go (orig.length + kept.length + 1) 0 orig kept

def rowsString (orig kept : List Record) : String :=
  if kept.isEmpty then "-" else
  ";".intercalate ((embed orig kept).zip kept |>.map (fun (g, r) =>
    rowString (match g with | some p => toString p | none => "?") r))

/-- spec: rows at the positions that `satisfies` retains -/
def rowsSpec (sel : Selection) (orig : List Record) : String :=
  let pos := retainedFrom (fun r => satisfies sel r.described) 0 orig
  if pos.isEmpty then "-" else
  ";".intercalate (pos.map (fun p => rowString (toString p) (orig[p]!)))

/-- md5 is not printed by this property (names are always present in its cases); record equality
    (`hisect`) looks at it: the stand-in is the text `md5sum` digests - the decimal ksize followed by
    the decimal hashes, nothing in between - so two sketches get equal stand-ins iff the crate feeds
    md5 the same bytes -/
def md5of (s : Sketch) : Select.Bytes :=
  (toString s.ksize ++ String.join (s.mins.map toString)).toUTF8.toList

def allRows (st : St) : List Record :=
  match st.csv with
  | some (rows, _) => rows
  | none => (st.sigs.zipIdx.map (fun (s, i) => (fromSig md5of s (natBytes i)).getD [])).flatten

/-- `Collection::from_sigs`, or `Collection::new(manifest read by mcsv, MemStorage of the signatures)` -/
def collOf (st : St) : Option Collection :=
  match Collection.fromSigs md5of st.sigs with
  | none => none
  | some c =>
    match st.csv with
    | some (rows, _) => some { c with manifest := rows }
    | none => some c

/-- every sketch of the case with the position of its signature, in collection order -/
def flatSketches (st : St) : List (Nat × Sketch) :=
  (st.sigs.zipIdx.map (fun (sg, i) => sg.sketches.map (fun s => (i, s)))).flatten

/-- for every manifest row of the case, the sketch it describes (`none` = describes no sketch) -/
def described (st : St) : List (Option (Nat × Sketch)) :=
  let flat := flatSketches st
  match st.csv with
  | some (_, map) => map.map (fun j => flat[j]?)
  | none => flat.map some

/-- spec: the rows whose sketch satisfies the request, with their positions -/
def rowsSpecOf (st : St) (sel : Selection) : String :=
  let orig := allRows st
  let d := described st
  if d.any Option.isNone || d.length != orig.length then "-" else
  let pos := retainedFrom (fun (o : Option (Nat × Sketch)) =>
    match o with | some (_, s) => satisfies sel s.described | none => false) 0 d
  if pos.isEmpty then "-" else
  ";".intercalate (pos.map (fun p => rowString (toString p) (orig[p]!)))

def showRead (l : List Record) : String :=
  if l.isEmpty then "-" else
  ";".intercalate (l.map (fun r => ":".intercalate [bytesString r.internalLocation, toString r.ksize,
    hex r.moltype, toString r.num, toString r.scaled, (if r.withAbundance then "1" else "0"),
    toString r.nHashes]))

/-! ### `SigStore` in every state (`st` / `stget`)

`Select.Store` is the model of the store; what a storage hands back went through the signature's
JSON form: one sketch type, `num` dropped when `max_hash ≠ 0` (`stored`; JSON is property C06's). -/

def stored (s : Sketch) : Sketch :=
  { s with container := .vec, num := if s.maxHash != 0 then 0 else s.num }
def storedSig (sg : Sig) : Sig := { sg with sketches := sg.sketches.map stored }

/-- the store a route builds: `.error` = the answer of the line (the store never came to be) -/
def storeOf (st : St) (route : String) (i : Nat) : Except String Store :=
  if route == "cfd" || route == "cfr" || route == "lin" then
    match collOf st with
    | none => .error "PANIC"
    | some c =>
      let pre : Except String Unit :=
        if route == "lin" then
          match collectionSetCheck c.manifest with
          | .error e => .error ("err " ++ errName e)
          | .ok () =>
            match c.sigForDataset 0 with
            | some (.ok _) => .ok ()
            | _ => .error "PANIC"
        else .ok ()
      match pre with
      | .error e => .error e
      | .ok () =>
        match c.manifest[i]? with
        | none => .error "PANIC"
        | some r =>
          match c.sigFromRecord r with
          | none => .error "PANIC"
          | some (.error e) => .error ("err " ++ errName e)
          | some (.ok sg) => .ok { data := some sg, backing := (loadSig c.storage r.internalLocation).map storedSig }
  else
    match st.sigs[i]? with
    | none => .error "PANIC"
    | some sg =>
      if route == "from" then .ok { data := some sg, backing := none }
      else if route == "nws" || route == "lmem" then .ok { data := some sg, backing := some (storedSig sg) }
      else if route == "lfs" || route == "lzip" then .ok { data := some (storedSig sg), backing := some (storedSig sg) }
      else if route == "bmem" || route == "bfs" || route == "bzip" then .ok { data := none, backing := some (storedSig sg) }
      else if route == "dsi" || route == "def" then .ok { data := none, backing := none }
      else .error "bad-op"

/-- the letters of a program, run on the model store (`retry`: a refused select is answered by a
    read and a second select) -/
def runProg (sel : Selection) (retry : Bool) : List Char → Store → String
  | [], s =>
    (match s.read with
     | some (sg, _) => "ok " ++ descrList sg.sketches
     | none => "err ReadDataError")
  | c :: rest, s =>
    if c == 'r' then
      runProg sel retry rest (match s.read with | some (_, s') => s' | none => s)
    else if c == 'k' || c == 'K' then runProg sel retry rest s
    else if c == 's' || c == 'e' then
      let x : Selection := if c == 's' then sel else {}
      match s.select x with
      | .ok s' => runProg sel retry rest s'
      | .error e =>
        if !retry then "err " ++ errName e
        else
          match s.read with
          | none => "err ReadDataError"
          | some (_, s1) =>
            match s1.select x with
            | .ok s2 => runProg sel retry rest s2
            | .error e => "err " ++ errName e
    else "bad-op"

/-- what the property demands of `stget`: the caller holds exactly the sketches of the stored
    signature that satisfy the request, each delivered at the requested scaled value.  Selecting
    twice with a scaled request needs the requested value to survive the conversion to a ceiling and
    back (C14, every value ≤ 2^31): nothing is said beyond. -/
def stgetSpec (st : St) (route : String) (i : Nat) (prog : List Char) (sel : Selection) : String :=
  let nsel := (prog.filter (· == 's')).length
  let base : Option (List Sketch) :=
    if route == "cfd" || route == "cfr" || route == "lin" then
      match (described st)[i]? with
      | some (some (_, s)) => some [s]
      | _ => none
    else if route == "dsi" || route == "def" then none
    else
      match st.sigs[i]? with
      | none => none
      | some sg =>
        if route == "from" || route == "nws" || route == "lmem" then some sg.sketches
        else some (sg.sketches.map stored)
  match base with
  | none => "-"
  | some l =>
    if nsel == 0 then "ok " ++ descrList l
    else if nsel ≥ 2 && (match sel.scaled with | some sc => decide (sc > 2147483648) | none => false) then "-"
    else "ok " ++ descrList (selectSpec sel l)

/-! ### histories (`h…`) -/

def histRows (cur : List (Nat × Record)) : String :=
  if cur.isEmpty then "-" else ";".intercalate (cur.map (fun (p, r) => rowString (toString p) r))

/-- rows of the current manifest whose described sketch satisfies the request -/
def histSpec (st : St) (sel : Selection) (cur : List (Nat × Record)) : String :=
  let d := described st
  if cur.any (fun (p, _) => match d[p]? with | some (some _) => false | _ => true) then "-" else
  histRows (cur.filter (fun (p, _) =>
    match d[p]? with | some (some (_, s)) => satisfies sel s.described | _ => false))

def stepHist (st : St) (op : String) (rest : List String) : St × Resp :=
  if op == "hnew" then
    match collOf st with
    | none => ({ st with hist := none }, { model := "PANIC" })
    | some c =>
      let cur := c.manifest.zipIdx.map (fun (r, p) => (p, r))
      ({ st with orig := c.manifest, hist := some (false, cur) }, { model := histRows cur })
  else
  match st.hist with
  | none => (st, { model := "none" })
  | some (isLin, cur) =>
    let recs := cur.map (·.2)
    if op == "hsel" || op == "hmsel" then
      let sel := parseSel rest
      if recs.any (rowPanics sel) then
        ((if op == "hsel" then { st with hist := none } else st), { model := "PANIC" })
      else
        let cur' := cur.filter (fun (_, r) => rowValid sel r)
        if op == "hmsel" then (st, { model := histRows cur', spec := histSpec st sel cur })
        else if isLin then
          match collectionSetCheck (cur'.map (·.2)) with
          | .error e => ({ st with hist := none }, { model := "err " ++ errName e })
          | .ok () => ({ st with hist := some (isLin, cur') }, { model := histRows cur', spec := histSpec st sel cur })
        else ({ st with hist := some (isLin, cur') }, { model := histRows cur', spec := histSpec st sel cur })
    else if op == "hisect" then
      match rest with
      | [l] =>
        let idx := natList l
        if idx.any (fun q => (st.orig[q]?).isNone) then (st, { model := "PANIC" })
        else if isLin then (st, { model := "bad-state" })
        else
          let other := idx.filterMap (fun q => st.orig[q]?)
          let cur' := cur.filter (fun (_, r) => other.any (fun q => Manifest.recEq r q))
          ({ st with hist := some (isLin, cur') }, { model := histRows cur' })
      | _ => (st, { model := "bad-op" })
    else if op == "hlin" then
      if isLin then (st, { model := "bad-state" })
      else
        match collectionSetCheck recs with
        | .error e => ({ st with hist := none }, { model := "err " ++ errName e })
        | .ok () =>
          if recs.isEmpty then (st, { model := "empty" })
          else
            match collOf st with
            | none => ({ st with hist := none }, { model := "PANIC" })
            | some c =>
              match ({ c with manifest := recs } : Collection).sigForDataset 0 with
              | some (.ok _) => ({ st with hist := some (true, cur) }, { model := "ok " ++ toString recs.length })
              | _ => ({ st with hist := none }, { model := "PANIC" })
    else if op == "hcoll" then
      if !isLin then (st, { model := "bad-state" })
      else ({ st with hist := some (false, cur) }, { model := "ok " ++ toString recs.length })
    else if op == "hget" then
      match rest with
      | j :: selw =>
        let sel := parseSel selw
        let j := j.toNat!
        match collOf st with
        | none => (st, { model := "PANIC" })
        | some c =>
          let c' : Collection := { c with manifest := recs }
          let model :=
            match c'.sigForDataset j, recs[j]? with
            | some (.ok sg), some r =>
              (match sigStoreSelect sel sg with
               | .ok sg' => bytesString r.internalLocation ++ "=" ++ descrList sg'.sketches
               | .error e => "err " ++ errName e)
            | some (.error e), _ => "err " ++ errName e
            | _, _ => "PANIC"
          let spec :=
            match cur[j]? with
            | some (p, _) =>
              (match (described st)[p]? with
               | some (some (i, s)) =>
                 toString i ++ "=" ++ (if satisfies sel s.described then descr (deliver sel s) else "-")
               | _ => "-")
            | none => "-"
          (st, { model := model, spec := spec })
      | _ => (st, { model := "bad-op" })
    else (st, { model := "bad-op" })

def stepC11 (st : St) (ws : List String) : St × Resp :=
  match ws with
  | "case" :: _ => ({}, { model := "ok" })
  | ["sig", n, f] =>
    ({ st with sigs := st.sigs ++ [{ name := optBytes n, filename := optBytes f, sketches := [] }] }, { model := "ok" })
  | ["sk", k, m, n, sc, tr, c, mins, abunds] =>
    match st.sigs.reverse with
    | [] => (st, { model := "bad-op" })
    | sg :: before =>
      let sk : Sketch :=
        { ksize := k.toNat!, mol := molOfString m, num := n.toNat!, maxHash := maxHashForScaled sc.toNat!,
          tracked := tr == "1", container := if c == "v" then .vec else .tree,
          seed := seed0 + sg.sketches.length, mins := natList mins, abunds := natList abunds }
      let sg' := { sg with sketches := sg.sketches ++ [sk] }
      ({ st with sigs := (sg' :: before).reverse }, { model := descr sk })
  | ["mcsv", doc, map] =>
    (match Manifest.fromReader (unhex doc) with
     | some rows => ({ st with csv := some (rows, natList map) }, { model := showRead rows })
     | none => (st, { model := "err CsvError" }))
  | op :: rest =>
    if op == "st" || op == "stget" then
      match rest with
      | route :: i :: prog :: selw =>
        let sel := parseSel selw
        let retry := op == "stget"
        let model := match storeOf st route i.toNat! with
          | .error e => e
          | .ok s => runProg sel retry prog.toList s
        (st, { model := model,
               spec := if retry then stgetSpec st route i.toNat! prog.toList sel else "-" })
      | _ => (st, { model := "bad-op" })
    else if op.startsWith "h" then stepHist st op rest
    else if op == "ssel" || op == "stsel" then
      match rest with
      | i :: selw =>
        let sel := parseSel selw
        let sg := st.sigs[i.toNat!]!
        let r := if op == "ssel" then sg.select sel else sigStoreSelect sel sg
        (st, { model := showSel r, spec := descrList (selectSpec sel sg.sketches) })
      | _ => (st, { model := "bad-op" })
    else if op == "msel" || op == "msel2" || op == "csel" || op == "lsel" then
      let sel := parseSel rest
      let orig := allRows st
      let model :=
        if op == "msel" then
          match manifestSelect? sel orig with
          | some kept => rowsString orig kept
          | none => "PANIC"
        else if op == "msel2" then
          match (manifestSelect? sel orig).bind (manifestSelect? sel) with
          | some kept => rowsString orig kept
          | none => "PANIC"
        else
          match collOf st with
          | none => "PANIC"
          | some c =>
            if (manifestSelect? sel c.manifest).isNone then "PANIC"
            else if op == "csel" then rowsString c.manifest (c.select sel).manifest
            else match linearSelect sel c with
              | .ok c' => rowsString c.manifest c'.manifest
              | .error e => "err " ++ errName e
      (st, { model := model, spec := if st.csv.isSome then rowsSpecOf st sel else rowsSpec sel orig })
    else if op == "cset" then
      let sel := parseSel rest
      match collOf st with
      | none => (st, { model := "PANIC" })
      | some c =>
        let c' := c.select sel
        (st, { model := match collectionSetCheck c'.manifest with
                        | .ok () => "ok " ++ toString c'.manifest.length
                        | .error e => "err " ++ errName e })
    else if op == "cload" then
      let sel := parseSel rest
      match collOf st with
      | none => (st, { model := "PANIC" })
      | some c =>
        let c' := c.select sel
        let one (r : Record) : Option String :=
          match c'.sigFromRecord r with
          | none => none
          | some (.error e) => some ("err " ++ errName e)
          | some (.ok sg) =>
            match sigStoreSelect sel sg with
            | .ok sg' => some (bytesString r.internalLocation ++ "=" ++ descrList sg'.sketches)
            | .error e => some ("err " ++ errName e)
        let outs := c'.manifest.map one
        let model :=
          if outs.any Option.isNone then "PANIC"
          else if outs.isEmpty then "-" else "|".intercalate (outs.filterMap id)
        -- spec: for every row whose sketch satisfies the request, in manifest order, that one sketch delivered
        let d := described st
        let specs := d.filterMap (fun o =>
          match o with
          | some (i, s) => if satisfies sel s.described then some (toString i ++ "=" ++ descr (deliver sel s)) else none
          | none => none)
        (st, { model := model,
               spec := if d.any Option.isNone then "-" else if specs.isEmpty then "-" else "|".intercalate specs })
    else if op == "agree" then
      match rest with
      | i :: selw =>
        let sel := parseSel selw
        let sg := st.sigs[i.toNat!]!
        let recs := (fromSig md5of sg [120]).getD []
        let mpos := (embed recs (manifestSelect sel recs)).filterMap id
        let spos := match sg.select sel with
          | .ok s => s.sketches.map (fun s => s.seed - seed0)
          | .error _ => []
        let want := retainedFrom (fun s => satisfies sel s.described) 0 sg.sketches
        (st, { model := "m=" ++ showNats mpos ++ " s=" ++ showNats spos,
               spec := "m=" ++ showNats want ++ " s=" ++ showNats want })
      | _ => (st, { model := "bad-op" })
    else (st, { model := "bad-op" })
  | _ => (st, { model := "bad-op" })

def main : IO Unit := Driver.run ({} : St) stepC11
