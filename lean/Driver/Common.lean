/-!
Line-protocol loop shared by all per-property drivers.

Every request line gets exactly one response line `<model>\t<spec>`; `<spec>` is `-` when the
property's abstract specification says nothing about that request.  A line starting with `case`
resets the state.  No imports beyond core Lean so that the drivers link as native executables.
-/
namespace Driver

def splitWords (s : String) : List String :=
  (s.trimAscii.toString.splitOn " ").filter (· ≠ "")

def natList (s : String) : List Nat :=
  if s == "-" || s == "" then [] else (s.splitOn ",").filterMap String.toNat?

def showNats (l : List Nat) : String :=
  if l.isEmpty then "-" else ",".intercalate (l.map toString)

def hexVal (c : Char) : Nat :=
  if '0' ≤ c && c ≤ '9' then c.toNat - '0'.toNat
  else if 'a' ≤ c && c ≤ 'f' then c.toNat - 'a'.toNat + 10
  else if 'A' ≤ c && c ≤ 'F' then c.toNat - 'A'.toNat + 10 else 0

/-- bytes from a hex string (`-` = empty) -/
def unhex (s : String) : List UInt8 :=
  if s == "-" then [] else
  let rec go : List Char → List UInt8
    | a :: b :: t => UInt8.ofNat (hexVal a * 16 + hexVal b) :: go t
    | _ => []
  go s.toList

def hexDigit (n : Nat) : Char := if n < 10 then Char.ofNat (48 + n) else Char.ofNat (87 + n)

def hex (bs : List UInt8) : String :=
  if bs.isEmpty then "-" else
  String.ofList (bs.flatMap (fun b => [hexDigit (b.toNat / 16), hexDigit (b.toNat % 16)]))

structure Resp where
  model : String
  spec : String := "-"

partial def loop {σ : Type} (h : IO.FS.Stream) (out : IO.FS.Stream) (init : σ)
    (step : σ → List String → σ × Resp) (s : σ) : IO Unit := do
  let line ← h.getLine
  if line.isEmpty then return ()
  let ws := splitWords line
  let s := match ws with
    | "case" :: _ => init
    | _ => s
  let (s', r) := step s ws
  out.putStrLn (r.model ++ "\t" ++ r.spec)
  loop h out init step s'

def run {σ : Type} (init : σ) (step : σ → List String → σ × Resp) : IO Unit := do
  let i ← IO.getStdin
  let o ← IO.getStdout
  loop i o init step init
  o.flush

end Driver
