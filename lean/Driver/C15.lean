import Driver.Common
import Sourmash.Model.Nodegraph
import Sourmash.Spec.Bloom
/-! C15 driver: the nodegraph as a multi-table Bloom filter.  Model column = `NG.G` (block model of
the code); spec column = the reference filter of `Spec/Bloom.lean` (sizes + inserted hashes).

A case owns three filters (0, 1, 2).  `new`/`wt` cases give all three the same size vector; `mixed`
cases give filter 2 another one (unions across different size vectors are outside the property: the
spec column is `-` for a filter once it took part in one). -/
open Driver

structure SpecF where
  r : Bloom.Ref
  uniq : Nat := 0
  ok : Bool := true       -- still inside the property's quantifier

structure St where
  g : Array NG.G := #[]
  s : Array SpecF := #[]

def f64 (p : Nat × Nat) : String :=
  let x := Float.ofNat p.1 / Float.ofNat p.2
  if x.isNaN then "nan" else toString x.toBits

def counters (g : NG.G) : String := s!"occ={g.occupied} uniq={g.unique}"
def sCounters (f : SpecF) : String := s!"occ={f.r.occupied} uniq={f.uniq}"

def kmerCodes (s : String) : List Nat := s.toList.map Char.toNat

def sortDedup (l : List Nat) : List Nat :=
  let a := l.toArray.qsort (· < ·)
  a.toList.eraseDups

def specInsert (f : SpecF) (h : Nat) : SpecF × Bool :=
  let n := f.r.isNew h
  ({ f with r := f.r.insert h, uniq := if n then f.uniq + 1 else f.uniq }, n)

def b01 (b : Bool) : String := if b then "1" else "0"

def stepC15 (st : St) (ws : List String) : St × Resp :=
  match ws with
  | ["case", _, "new", k, sizes] =>
    let sz := natList sizes
    let g := NG.G.new sz k.toNat!
    ({ g := #[g, g, g], s := #[{ r := { sizes := sz } }, { r := { sizes := sz } }, { r := { sizes := sz } }] },
     { model := showNats (g.tables.map (·.size)), spec := showNats sz })
  | ["case", _, "wt", ts, n, k] =>
    let g := NG.G.withTables ts.toNat! n.toNat! k.toNat!
    let sz := g.tables.map (·.size)
    ({ g := #[g, g, g], s := #[{ r := { sizes := sz } }, { r := { sizes := sz } }, { r := { sizes := sz } }] },
     { model := showNats sz })
  | ["case", _, "mixed", k, sa, sb] =>
    let a := natList sa
    let b := natList sb
    let ga := NG.G.new a k.toNat!
    let gb := NG.G.new b k.toNat!
    ({ g := #[ga, ga, gb], s := #[{ r := { sizes := a } }, { r := { sizes := a } }, { r := { sizes := b } }] },
     { model := "ok" })
  | "case" :: _ => ({}, { model := "ok" })
  | [op, i, x] =>
    let i := i.toNat!
    match st.g[i]?, st.s[i]? with
    | some g, some f =>
      if op == "count" || op == "kmer" then
        let h? : Option Nat := if op == "count" then some x.toNat! else NG.hashKmer (kmerCodes x)
        let hs : Option Nat := if op == "count" then some x.toNat! else
          (if (kmerCodes x).all Bloom.isACGT && x.length ≥ 1 && x.length ≤ 32 then some (Bloom.canonical (kmerCodes x)) else none)
        match h? with
        | none => (st, { model := "PANIC" })
        | some h =>
          let (g', r) := g.count h
          let (f', rs) := match hs with
            | some h' => specInsert f h'
            | none => ({ f with ok := false }, false)
          ({ g := st.g.set! i g', s := st.s.set! i f' },
           { model := s!"{b01 r} {counters g'}",
             spec := if f'.ok then s!"{b01 rs} {sCounters f'}" else "-" })
      else if op == "get" || op == "getk" then
        let h? : Option Nat := if op == "get" then some x.toNat! else NG.hashKmer (kmerCodes x)
        let hs : Option Nat := if op == "get" then some x.toNat! else
          (if (kmerCodes x).all Bloom.isACGT && x.length ≥ 1 && x.length ≤ 32 then some (Bloom.canonical (kmerCodes x)) else none)
        match h?, hs with
        | some h, some h' =>
          (st, { model := toString (g.get h),
                 spec := if f.ok then toString (f.r.get h') else "-" })
        | some h, none => (st, { model := toString (g.get h) })
        | none, _ => (st, { model := "PANIC" })
      else if op == "upd" then
        -- `src.update(&mut dst)`: i = dst, x = src
        let j := x.toNat!
        match st.g[j]?, st.s[j]? with
        | some src, some fs =>
          let g' := g.updateFrom src
          let same := f.r.sizes == fs.r.sizes
          let f' : SpecF := if same && f.ok && fs.ok then { f with r := f.r.union fs.r } else { f with ok := false }
          ({ g := st.g.set! i g', s := st.s.set! i f' },
           { model := s!"ok {counters g'}", spec := if f'.ok then s!"ok {sCounters f'}" else "-" })
        | _, _ => (st, { model := "bad-op" })
      else if op == "updmh" || op == "updbt" then
        let hs := sortDedup (natList x)
        let g' := g.updateHashes hs
        let f' := hs.foldl (fun f h => (specInsert f h).1) f
        ({ g := st.g.set! i g', s := st.s.set! i f' },
         { model := s!"ok {counters g'}", spec := if f'.ok then s!"ok {sCounters f'}" else "-" })
      else if op == "matches" then
        let hs := sortDedup (natList x)
        (st, { model := toString (g.matches hs),
               spec := if f.ok then toString ((hs.filter (fun h => f.r.get h == 1)).length) else "-" })
      else if op == "sim" || op == "cont" then
        let j := x.toNat!
        match st.g[j]?, st.s[j]? with
        | some o, some fo =>
          let m := if op == "sim" then g.similarity o else g.containment o
          let sp := if op == "sim" then f.r.similarity fo.r else f.r.containment fo.r
          (st, { model := f64 m, spec := if f.ok && fo.ok && f.r.sizes == fo.r.sizes then f64 sp else "-" })
        | _, _ => (st, { model := "bad-op" })
      else (st, { model := "bad-op" })
    | _, _ => (st, { model := "bad-op" })
  | _ => (st, { model := "bad-op" })

def main : IO Unit := Driver.run ({} : St) stepC15
