import Driver.Common
import Sourmash.Model.Seq
import Sourmash.Spec.Kmers
/-! C02 driver.  Model column: the `SeqToHashes` state machine of `Model/Seq.lean` (generated tables).
Spec column: `Spec/Kmers.lean` (windows + independent genetic code / alphabet classes), never the
state machine.

Raw-stream framing (`s2h`): a forced skip is the item `0`; in translate mode the implementation
brackets the buffered hashes with two `0` items (documented in the iterator's comment).  `feed` /
`addseq` / `capi` carry the marker-free statement: exactly the non-zero spec hashes, in order. -/
open Driver Seq

def molOf (s : String) : Kmers.Mol :=
  if s == "dna" then .dna else if s == "protein" then .protein else if s == "dayhoff" then .dayhoff else .hp

def u64s (l : List UInt64) : String := showNats (l.map UInt64.toNat)

def itemStr : Item → String
  | .ok h => toString h.toNat
  | .errDna => "E:InvalidDNA"
  | .errHf => "E:InvalidHashFunction"
  | .panic => "PANIC"

def showItems (l : List Item) : String :=
  if l.isEmpty then "-" else ",".intercalate (l.map itemStr)

def errName : Item → String
  | .errDna => "InvalidDNA"
  | .errHf => "InvalidHashFunction"
  | _ => "?"
def errCode : Item → String
  | .errDna => "1101"
  | .errHf => "1104"
  | _ => "?"

/-- sorted, duplicate-free (what `mins()` of a scaled=1 sketch holds) -/
def insertSorted (x : Nat) : List Nat → List Nat
  | [] => [x]
  | y :: t => if x < y then x :: y :: t else if x == y then y :: t else y :: insertSorted x t
def sortDedup (l : List UInt64) : List Nat := l.foldl (fun acc h => insertSorted h.toNat acc) []

def evStr : Kmers.Ev → String
  | .hash h => toString h.toNat
  | .skip => "0"
  | .invalidDna => "E:InvalidDNA"

structure Req where
  mol : Kmers.Mol
  k : Nat
  seed : UInt64
  force : Bool
  isProt : Bool
  seq : List UInt8

/-- what the property demands for this request: `none` = it says nothing;
    otherwise (raw stream text, values to add in order, error) -/
def specOf (r : Req) : Option (String × List UInt64 × Option String) :=
  if r.mol == .dna then
    if r.isProt || r.k == 0 then none else
    let evs := Kmers.dnaStream r.k r.seed r.force r.seq
    some (if evs.isEmpty then "-" else ",".intercalate (evs.map evStr),
          (Kmers.evHashes evs).filter (· != 0),
          if Kmers.evOk evs then none else some "InvalidDNA")
  else if r.k < 3 then none
  else if r.isProt then
    let hs := Kmers.proteinHashes r.mol r.k r.seed r.seq
    some (u64s hs, hs.filter (· != 0), none)
  else
    let hs := Kmers.translateHashes r.mol r.k r.seed r.seq
    some (if hs.isEmpty then "-" else ",".intercalate ("0" :: hs.map (fun h => toString h.toNat) ++ ["0"]),
          hs.filter (· != 0), none)

def parseReq (mol k seed force isprot hexs : String) : Req :=
  { mol := molOf mol, k := k.toNat!, seed := UInt64.ofNat seed.toNat!, force := force == "1",
    isProt := isprot == "1", seq := unhex hexs }

def modelItems (r : Req) : List Item :=
  run (St.new r.seq r.k r.force r.isProt r.mol r.seed) (fuelFor r.seq)

def stepC02 (s : Unit) (ws : List String) : Unit × Resp :=
  match ws with
  | "case" :: _ => (s, { model := "ok" })
  | ["selfcheck"] =>
    -- the byte codes of Spec/Kmers.lean are the customary 64-letter string
    let ok := Kmers.aaCodes == Kmers.aaString.toList.map Char.toNat
    (s, { model := "-", spec := if ok then "ok" else "aaCodes-differs-from-aaString" })
  | ["murmur", seed, hx] =>
    let bs := unhex hx
    let sd := UInt64.ofNat seed.toNat!
    (s, { model := toString (Murmur.hash64 bs sd).toNat,
          spec := if bs == [65, 67, 71] && sd == 42 then "1731421407650554201" else "-" })
  | ["codon", hx] =>
    let bs := unhex hx
    let m := match translateCodon bs with
      | some v => toString v.toNat
      | none => "err InvalidCodonLength"
    let sp := match bs with
      | [_] => "88"
      | [a, b] => toString (Kmers.codon a b 78).toNat
      | [a, b, c] => toString (Kmers.codon a b c).toNat
      | _ => "-"
    (s, { model := m, spec := sp })
  | ["rc", hx] =>
    let bs := unhex hx
    (s, { model := hex (revcomp bs), spec := hex (Kmers.revcomp bs) })
  | ["toaa", mol, hx] =>
    let bs := unhex hx
    let m := molOf mol
    (s, { model := hex (toAA (m == .dayhoff) (m == .hp) bs),
          spec := hex ((Kmers.translate bs).map (Kmers.reduce m)) })
  | ["s2h", mol, k, seed, force, isprot, hx] =>
    let r := parseReq mol k seed force isprot hx
    (s, { model := showItems (modelItems r),
          spec := match specOf r with | some (t, _, _) => t | none => "-" })
  | ["feed", mol, k, seed, force, isprot, hx] =>
    let r := parseReq mol k seed force isprot hx
    let its := modelItems r
    let tail := fun (e : Option String) => match e with | none => "ok" | some v => "err " ++ v
    (s, { model := if firstErr its == some .panic then "PANIC" else
            u64s (fedHashes its) ++ "|" ++ tail ((firstErr its).map errName),
          spec := match specOf r with
            | some (_, hs, e) => u64s hs ++ "|" ++ tail e
            | none => "-" })
  | ["addseq", mol, k, seed, force, isprot, hx] =>
    let r := parseReq mol k seed force isprot hx
    let its := modelItems r
    (s, { model := match firstErr its with
            | some .panic => "PANIC"
            | some e => "err " ++ errName e
            | none => showNats (sortDedup (fedHashes its)),
          spec := match specOf r with
            | some (_, _, some e) => "err " ++ e
            | some (_, hs, none) => showNats (sortDedup hs)
            | none => "-" })
  | ["capi", mol, k, seed, force, zeroes, isprot, hx] =>
    let r := parseReq mol k seed force isprot hx
    let its := modelItems r
    let raw := r.force && zeroes == "1"
    (s, { model := match firstErr its with
            | some .panic => "PANIC"
            | some e => "err " ++ errCode e
            | none => if raw then u64s (its.filterMap (fun | .ok h => some h | _ => none))
                      else u64s (fedHashes its),
          spec := if raw then "-" else match specOf r with
            | some (_, _, some _) => "err 1101"
            | some (_, hs, none) => u64s hs
            | none => "-" })
  | _ => (s, { model := "bad-op" })

def main : IO Unit := Driver.run () stepC02
