import Driver.Common
import Sourmash.Model.Seq
import Sourmash.Model.Scaled
import Sourmash.Spec.Kmers
/-! C02 driver.  Model column: the `SeqToHashes` state machine of `Model/Seq.lean` (generated tables).
Spec column: `Spec/Kmers.lean` (windows + independent genetic code / alphabet classes), never the
state machine.

Raw-stream framing (`s2h`): a forced skip is the item `0`; in translate mode the implementation
brackets the buffered hashes with two `0` items (documented in the iterator's comment).  `feed` /
`addseq` / `capi` carry the marker-free statement: exactly the non-zero spec hashes, in order.

Digest ops (`ds2h`, `dfeed`, `daddseq`, `sigadd 1 …`) answer with a digest of the same value lists
and exist for inputs of 65 000 … 200 000 bytes.  `Seq.run` and `Kmers.windows` walk `List.drop i`
for every window (quadratic) and are not tail recursive, so for these ops the two columns are
computed by the linear-time array loops of the section "linear-time paths" below.  They are NOT
what the theorems speak about; they are tied to the theorem-level functions in the same run: on
every digest request whose sequence has at most `refLimit` bytes (the generator attaches digest
ops to a quarter of all short cases, every mode) the driver also evaluates `Seq.run` resp.
`Kmers.dnaStream / proteinHashes / translateHashes` and answers `FAST-PATH-DIFFERS` in the column
whose loop disagrees with them.  The loops reuse the per-byte / per-window functions of the model
(`Seq.valid`, `Seq.complement`, `Seq.codon3`, `Seq.dayhoff`, `Seq.hp`, `Seq.lexMin`) resp. of the
specification (`Kmers.isACGT`, `Kmers.canonical`, `Kmers.comp`, `Kmers.codon`, `Kmers.reduce`) and
`Murmur.hash64`; only the enumeration of windows is re-done on arrays
(`(a.extract i (i+k)).toList` in place of `(l.drop i).take k`). -/
open Driver Seq

def molOf (s : String) : Kmers.Mol :=
  if s == "dna" then .dna else if s == "protein" then .protein else if s == "dayhoff" then .dayhoff else .hp

def u64s (l : List UInt64) : String := showNats (l.map UInt64.toNat)

def errName : Item → String
  | .errDna => "InvalidDNA"
  | .errHf => "InvalidHashFunction"
  | .panic => "PANIC"
  | _ => "?"
def errCode : Item → String
  | .errDna => "1101"
  | .errHf => "1104"
  | _ => "?"

/-- sorted, duplicate-free (what `mins()` of a scaled=1 sketch holds) -/
def insertSorted (x : Nat) : List Nat → List Nat
  | [] => [x]
  | y :: t => if x < y then x :: y :: t else if x == y then y :: t else y :: insertSorted x t
def sortDedup (l : List UInt64) : List Nat := l.foldl (fun acc h => insertSorted h.toNat acc) []

structure Req where
  mol : Kmers.Mol
  k : Nat
  seed : UInt64
  force : Bool
  isProt : Bool
  bs : ByteArray
  seq : List UInt8

/-- a raw item stream: the `Ok` values in order, and the error that ended it (if any) -/
abbrev Raw := Array UInt64 × Option Item

/-! ### theorem-level functions (what `Theorems/C02.lean` is about) -/

def modelItems (r : Req) : List Item :=
  run (St.new r.seq r.k r.force r.isProt r.mol r.seed) (fuelFor r.seq)

def modelRef (r : Req) : Raw :=
  let its := modelItems r
  ((its.filterMap (fun | .ok h => some h | _ => none)).toArray, firstErr its)

/-- what the property demands for this request: `none` = it says nothing; otherwise the raw stream
    (markers included) and whether the call fails with `InvalidDNA` -/
def specRef (r : Req) : Option (Array UInt64 × Bool) :=
  if r.mol == .dna then
    if r.isProt || r.k == 0 then none else
    let evs := Kmers.dnaStream r.k r.seed r.force r.seq
    some ((evs.filterMap (fun | .hash h => some h | .skip => some 0 | .invalidDna => none)).toArray,
          !Kmers.evOk evs)
  else if r.k < 3 then none
  else if r.isProt then
    some ((Kmers.proteinHashes r.mol r.k r.seed r.seq).toArray, false)
  else
    let hs := Kmers.translateHashes r.mol r.k r.seed r.seq
    some (if hs.isEmpty then #[] else (0 :: hs ++ [0]).toArray, false)

/-! ### linear-time paths (digest ops only; validated against the functions above, see the header) -/

def refLimit : Nat := 1500

def mapBytes (f : UInt8 → UInt8) (a : ByteArray) : ByteArray := Id.run do
  let mut out := ByteArray.emptyWithCapacity a.size
  for i in [0:a.size] do
    out := out.push (f (a.get! i))
  return out

/-- reverse, then `f` on every byte -/
def revMapBytes (f : UInt8 → UInt8) (a : ByteArray) : ByteArray := Id.run do
  let mut out := ByteArray.emptyWithCapacity a.size
  for i in [0:a.size] do
    out := out.push (f (a.get! (a.size - 1 - i)))
  return out

def win (a : ByteArray) (i k : Nat) : List UInt8 := (a.extract i (i + k)).toList

/-- hashes of all length-k windows of `a`, left to right (`a.size + 1 - k` of them; none for k = 0
    when `zeroOk` is off — `Kmers.windows` — and `a.size + 1` empty windows when it is on, as the
    state machine does for protein input with ksize < 3) -/
def windowHashes (zeroOk : Bool) (a : ByteArray) (k : Nat) (seed : UInt64) (acc : Array UInt64) : Array UInt64 :=
  if k == 0 && !zeroOk then acc else Id.run do
  let mut out := acc
  for i in [0:a.size + 1 - k] do
    out := out.push (Murmur.hash64 (win a i k) seed)
  return out

/-- codon by codon from offset `f`, trailing incomplete codon dropped, then the alphabet reduction -/
def translateFrom (codonF : UInt8 → UInt8 → UInt8 → UInt8) (reduceF : UInt8 → UInt8) (a : ByteArray) (f : Nat) : ByteArray :=
  Id.run do
  let n := (a.size - f) / 3
  let mut out := ByteArray.emptyWithCapacity n
  for j in [0:n] do
    out := out.push (reduceF (codonF (a.get! (f + 3 * j)) (a.get! (f + 3 * j + 1)) (a.get! (f + 3 * j + 2))))
  return out

/-- the six frames: 0, 1, 2; forward strand then reverse complement each -/
def sixFrames (compF : UInt8 → UInt8) (codonF : UInt8 → UInt8 → UInt8 → UInt8) (reduceF : UInt8 → UInt8)
    (up : ByteArray) (kk : Nat) (seed : UInt64) : Array UInt64 := Id.run do
  let rc := revMapBytes compF up
  let mut out : Array UInt64 := #[]
  for f in [0:3] do
    out := windowHashes false (translateFrom codonF reduceF up f) kk seed out
    out := windowHashes false (translateFrom codonF reduceF rc f) kk seed out
  return out

/-- the state machine of `Model/Seq.lean` on arrays: same fields, same branches -/
def modelFast (r : Req) : Raw :=
  let up := mapBytes upper r.bs
  let n := up.size
  let kS := if r.isProt || r.mol != .dna then r.k / 3 else r.k
  let maxIndex := if n ≥ kS then n - kS + 1 else 0
  if maxIndex == 0 then (#[], none)
  else if r.isProt then
    match r.mol with
    | .dna => (#[], some .errHf)
    | .protein => (windowHashes true up kS r.seed #[], none)
    | .dayhoff => (windowHashes true (mapBytes dayhoff up) kS r.seed #[], none)
    | .hp => (windowHashes true (mapBytes hp up) kS r.seed #[], none)
  else if r.mol != .dna then
    if n < kS * 3 then (#[], none)
    else if kS == 0 then (#[], some .panic)
    else
      let red : UInt8 → UInt8 := if r.mol == .dayhoff then dayhoff else if r.mol == .hp then hp else id
      let buf := sixFrames complement codon3 red up kS r.seed
      ((#[0] ++ buf).push 0, none)
  else Id.run do
    let rc := revMapBytes complement up
    let mut out : Array UInt64 := Array.emptyWithCapacity maxIndex
    let mut lc := 0           -- dna_last_position_check
    let mut err : Option Item := none
    for idx in [0:maxIndex] do
      -- for j in max(kmer_index, dna_last_position_check) .. kmer_index + dna_ksize
      let mut j := max idx lc
      let mut ok := true
      while ok && j < idx + kS do
        if !valid (up.get! j) then ok := false
        else
          lc := lc + 1
          j := j + 1
      if !ok then
        if !r.force then
          err := some .errDna
          break
        else out := out.push 0
      else
        out := out.push (Murmur.hash64 (lexMin (win up idx kS) (win rc (n - kS - idx) kS)) r.seed)
    return (out, err)

/-- the specification on arrays: every window of the upper-cased sequence on its own -/
def specFast (r : Req) : Option (Array UInt64 × Bool) :=
  let up := mapBytes Kmers.upper r.bs
  let n := up.size
  if r.mol == .dna then
    if r.isProt || r.k == 0 then none else some (Id.run do
      let mut out : Array UInt64 := Array.emptyWithCapacity (n + 1 - r.k)
      let mut bad := false
      for i in [0:n + 1 - r.k] do
        let w := win up i r.k
        if w.all Kmers.isACGT then out := out.push (Murmur.hash64 (Kmers.canonical w) r.seed)
        else if r.force then out := out.push 0
        else
          bad := true
          break
      return (out, bad))
  else if r.k < 3 then none
  else if r.isProt then
    some (windowHashes false (mapBytes (Kmers.reduce r.mol) up) (r.k / 3) r.seed #[], false)
  else
    if n < 3 * (r.k / 3) then some (#[], false) else
    let hs := sixFrames Kmers.comp Kmers.codon (Kmers.reduce r.mol) up (r.k / 3) r.seed
    some (if hs.isEmpty then #[] else (#[0] ++ hs).push 0, false)

/-- model column of a request; `dg` = digest op (array path, checked against `Seq.run` when short) -/
def getModel (dg : Bool) (r : Req) : Except String Raw :=
  if !dg then .ok (modelRef r) else
  let f := modelFast r
  if r.bs.size ≤ refLimit && f != modelRef r then .error "FAST-PATH-DIFFERS" else .ok f

def getSpec (dg : Bool) (r : Req) : Except String (Option (Array UInt64 × Bool)) :=
  if !dg then .ok (specRef r) else
  let f := specFast r
  if r.bs.size ≤ refLimit && f != specRef r then .error "FAST-PATH-DIFFERS" else .ok f

/-! ### rendering -/

def rawText (vals : Array UInt64) (e : Option String) : String :=
  let l := vals.toList.map (fun h => toString h.toNat) ++ (match e with | some x => ["E:" ++ x] | none => [])
  if l.isEmpty then "-" else ",".intercalate l

/-- count, xor, wrapping sum, order-sensitive polynomial, first and last (up to) 8 values -/
def digest (v : Array UInt64) : String := Id.run do
  let mut x : UInt64 := 0
  let mut s : UInt64 := 0
  let mut p : UInt64 := 0
  for h in v do
    x := x ^^^ h
    s := s + h
    p := p * 0x00000100000001b3 + h
  let m := min v.size 8
  return s!"n={v.size} x={x.toNat} s={s.toNat} p={p.toNat} f={u64s (v.extract 0 m).toList} l={u64s (v.extract (v.size - m) v.size).toList}"

def nonzero (v : Array UInt64) : Array UInt64 := v.filter (· != 0)

/-- sorted, duplicate-free, on arrays (the list version above is quadratic) -/
def sortDedupA (v : Array UInt64) : Array UInt64 := Id.run do
  let s := v.qsort (· < ·)
  let mut out : Array UInt64 := Array.emptyWithCapacity s.size
  for h in s do
    if out.back? != some h then out := out.push h
  return out

/-- what a sketch with this num bound / scaled value keeps of the hashes it is handed:
    the `num` smallest distinct ones, resp. the distinct ones up to `max_hash(scaled)` -/
def kept (dg : Bool) (num scaled : Nat) (fed : Array UInt64) : Array UInt64 :=
  let sorted := if dg then sortDedupA fed else (sortDedup fed.toList).toArray.map UInt64.ofNat
  if num > 0 then sorted.extract 0 num
  else
    let mx := Scaled.maxHashForScaled scaled
    sorted.filter (fun h => h.toNat ≤ mx)

def showVals (dg : Bool) (v : Array UInt64) : String := if dg then digest v else u64s v.toList

def mkReq (mol k seed force isprot : String) (bs : ByteArray) : Req :=
  { mol := molOf mol, k := k.toNat!, seed := UInt64.ofNat seed.toNat!, force := force == "1",
    isProt := isprot == "1", bs := bs, seq := bs.toList }

def hexNib (b : UInt8) : Nat :=
  if 48 ≤ b && b ≤ 57 then b.toNat - 48 else if 97 ≤ b && b ≤ 102 then b.toNat - 87
  else if 65 ≤ b && b ≤ 70 then b.toNat - 55 else 0

/-- bytes from a hex string (`-` = empty), linear and without recursion -/
def unhexA (s : String) : ByteArray :=
  if s == "-" then ByteArray.empty else Id.run do
  let u := s.toUTF8
  let n := u.size / 2
  let mut out := ByteArray.emptyWithCapacity n
  for i in [0:n] do
    out := out.push (UInt8.ofNat (hexNib (u.get! (2 * i)) * 16 + hexNib (u.get! (2 * i + 1))))
  return out

/-- `@` = the case's current sequence -/
def seqArg (cur : ByteArray) (w : String) : ByteArray := if w == "@" then cur else unhexA w

def errTail (e : Option String) : String := match e with | none => "ok" | some v => "err " ++ v

/-- s2h / feed / addseq and their digest forms on one request -/
def seqOp (op : String) (dg tree : Bool) (num : Nat) (r : Req) : Resp :=
  let _ := tree   -- both containers keep the same set
  let m := getModel dg r
  let sp := getSpec dg r
  match op with
  | "s2h" =>
    { model := match m with
        | .error e => e
        | .ok (_, some .panic) => "PANIC"
        | .ok (vals, e) =>
          if dg then digest vals ++ "|" ++ (match e with | none => "end" | some x => "E:" ++ errName x)
          else rawText vals (e.map errName),
      spec := match sp with
        | .error e => e
        | .ok none => "-"
        | .ok (some (vals, bad)) =>
          if dg then digest vals ++ "|" ++ (if bad then "E:InvalidDNA" else "end")
          else rawText vals (if bad then some "InvalidDNA" else none) }
  | "feed" =>
    { model := match m with
        | .error e => e
        | .ok (vals, e) =>
          if e == some .panic then "PANIC" else showVals dg (nonzero vals) ++ "|" ++ errTail (e.map errName),
      spec := match sp with
        | .error e => e
        | .ok none => "-"
        | .ok (some (vals, bad)) =>
          showVals dg (nonzero vals) ++ "|" ++ errTail (if bad then some "InvalidDNA" else none) }
  | _ =>
    let scaled := if num == 0 then 1 else 0
    { model := match m with
        | .error e => e
        | .ok (_, some .panic) => "PANIC"
        | .ok (_, some e) => "err " ++ errName e
        | .ok (vals, none) => showVals dg (kept dg num scaled (nonzero vals)),
      spec := match sp with
        | .error e => e
        | .ok none => "-"
        | .ok (some (_, true)) => "err InvalidDNA"
        | .ok (some (vals, false)) => showVals dg (kept dg num scaled (nonzero vals)) }

structure SkSpec where
  num : Nat
  scaled : Nat
  mol : String
  k : String
  seed : String

def parseSk (s : String) : Option SkSpec :=
  match s.splitOn ":" with
  | [_, num, scaled, mol, k, seed] => some { num := num.toNat!, scaled := scaled.toNat!, mol, k, seed }
  | _ => none

/-- `Signature::add_sequence` / `add_protein`: every sketch of the signature is handed the sequence
    with its own ksize, molecule type and seed; the call fails iff one of them fails -/
def sigOp (dg : Bool) (force isprot specs : String) (bs : ByteArray) : Resp :=
  let sks := (specs.splitOn ";").filterMap parseSk
  let reqs := sks.map (fun s => (s, mkReq s.mol s.k s.seed force isprot bs))
  let ms := reqs.map (fun (s, r) => (s, getModel dg r))
  let ss := reqs.map (fun (s, r) => (s, getSpec dg r))
  let model :=
    match ms.findSome? (fun (_, m) => match m with | .error e => some e | _ => none) with
    | some e => e
    | none =>
      match (ms.findSome? (fun (_, m) => match m with | .ok (_, some e) => some e | _ => none) : Option Item) with
      | some Item.panic => "PANIC"
      | some e => "err " ++ errName e
      | none => "ok " ++ "|".intercalate (ms.map (fun (s, m) => match m with
          | .ok (vals, _) => showVals dg (kept dg s.num s.scaled (nonzero vals))
          | .error e => e))
  let spec :=
    match ss.findSome? (fun (_, m) => match m with | .error e => some e | _ => none) with
    | some e => e
    | none =>
      if ss.any (fun (_, m) => match m with | .ok none => true | _ => false) then "-"
      else if ss.any (fun (_, m) => match m with | .ok (some (_, true)) => true | _ => false) then "err InvalidDNA"
      else "ok " ++ "|".intercalate (ss.map (fun (s, m) => match m with
          | .ok (some (vals, _)) => showVals dg (kept dg s.num s.scaled (nonzero vals))
          | _ => "?"))
  { model := model, spec := spec }

def stepC02 (s : ByteArray) (ws : List String) : ByteArray × Resp :=
  match ws with
  | "case" :: _ => (s, { model := "ok" })
  | ["selfcheck"] =>
    -- the byte codes of Spec/Kmers.lean are the customary 64-letter string
    let ok := Kmers.aaCodes == Kmers.aaString.toList.map Char.toNat
    (s, { model := "-", spec := if ok then "ok" else "aaCodes-differs-from-aaString" })
  | ["seq", hx] =>
    let bs := unhexA hx
    (bs, { model := s!"len={bs.size}", spec := if hx == "-" then "len=0" else s!"len={hx.length / 2}" })
  | ["murmur", seed, hx] =>
    let bs := unhex hx
    let sd := UInt64.ofNat seed.toNat!
    (s, { model := toString (Murmur.hash64 bs sd).toNat,
          spec := if bs == [65, 67, 71] && sd == 42 then "1731421407650554201" else "-" })
  | ["codon", hx] =>
    let bs := unhex hx
    let m := match translateCodon bs with
      | some v => toString v.toNat
      | none => "err InvalidCodonLength"
    let sp := match bs with
      | [_] => "88"
      | [a, b] => toString (Kmers.codon a b 78).toNat
      | [a, b, c] => toString (Kmers.codon a b c).toNat
      | _ => "-"
    (s, { model := m, spec := sp })
  | ["rc", hx] =>
    let bs := unhex hx
    (s, { model := hex (revcomp bs), spec := hex (Kmers.revcomp bs) })
  | ["toaa", mol, hx] =>
    let bs := unhex hx
    let m := molOf mol
    (s, { model := hex (toAA (m == .dayhoff) (m == .hp) bs),
          spec := hex ((Kmers.translate bs).map (Kmers.reduce m)) })
  | [op, mol, k, seed, force, isprot, hx] =>
    let r := mkReq mol k seed force isprot (seqArg s hx)
    match op with
    | "s2h" | "feed" | "addseq" => (s, seqOp op false false 0 r)
    | "ds2h" => (s, seqOp "s2h" true false 0 r)
    | "dfeed" => (s, seqOp "feed" true false 0 r)
    | _ => (s, { model := "bad-op" })
  | ["daddseq", ty, num, mol, k, seed, force, isprot, hx] =>
    (s, seqOp "addseq" true (ty == "t") num.toNat! (mkReq mol k seed force isprot (seqArg s hx)))
  | ["sigadd", dg, force, isprot, specs, hx] =>
    (s, sigOp (dg == "1") force isprot specs (seqArg s hx))
  | ["capi", mol, k, seed, force, zeroes, isprot, hx] =>
    let r := mkReq mol k seed force isprot (seqArg s hx)
    let its := modelItems r
    let raw := r.force && zeroes == "1"
    (s, { model := match firstErr its with
            | some .panic => "PANIC"
            | some e => "err " ++ errCode e
            | none => if raw then u64s (its.filterMap (fun | .ok h => some h | _ => none))
                      else u64s (fedHashes its),
          spec := if raw then "-" else match specRef r with
            | none => "-"
            | some (_, true) => "err 1101"
            | some (vals, false) => u64s (nonzero vals).toList })
  | _ => (s, { model := "bad-op" })

def main : IO Unit := Driver.run ByteArray.empty stepC02
