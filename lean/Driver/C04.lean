import Driver.Common
import Sourmash.Model.SetOps
import Sourmash.Spec.SetOps
/-! C04 driver.  `<model>` column: `downsampleScaled` / `downsampleMaxHash` / `countCommon` /
`similarity` / `selectScaled` of `Model/SetOps.lean`.  `<spec>` column: a register stands for the
multiset of (hash, abundance) insertions it received; downsampling to `s'` only replaces the ceiling
by `maxHashForScaled s'`, so the expected content is that multiset *filtered by the new ceiling*
(= the sketch of the same data made directly at `s'`), and every comparison with `downsample = true`
is expected to equal the plain set computation on the two filtered contents. -/
open Driver SetOps SetSpec

/-- spec-side register: parameters and the multiset of (hash, abundance) insertions it stands for -/
structure SReg where
  num : Nat
  maxHash : Nat
  ksize : Nat
  seed : Nat
  mol : String
  track : Bool
  src : List (Nat × Nat)
  /-- outside the property's parameter space: a vector-type sketch carrying BOTH num and scaled whose
  num bound has cut.  `KmerMinHash::add_hash_with_abundance` enforces `num` only in its insert-in-the-
  middle branch (a hash above the current largest and under the ceiling is pushed without the check),
  so what such a sketch holds depends on the insertion order (DESIGN App. A); the spec column is silent
  for it and for everything derived from it, the model column still follows the code. -/
  out : Bool := false

def SReg.content (r : SReg) : List (Nat × Nat) := sketchPairs r.num r.maxHash r.src
def SReg.keys (r : SReg) : List Nat := r.content.map Prod.fst
/-- more distinct hashes under the ceiling than `num` admits, on a sketch with both bounds -/
def SReg.cutNow (r : SReg) : Bool :=
  r.num != 0 && r.maxHash != 0 &&
    (sortU ((r.src.map Prod.fst).filter (within r.maxHash))).length > r.num
def SReg.mark (k : Kind) (r : SReg) : SReg :=
  if k == .vec && r.cutNow then { r with out := true } else r

structure St where
  kind : Kind := .vec
  nospec : Bool := false
  regs : List (Nat × Sk) := []
  sregs : List (Nat × SReg) := []
  /-- registers mirroring the sketches of the `fpnew` signature, in template order -/
  sigRegs : List Nat := []

def getR {α : Type} (l : List (Nat × α)) (i : Nat) : Option α := (l.find? (·.1 == i)).map (·.2)
def setR {α : Type} (l : List (Nat × α)) (i : Nat) (v : α) : List (Nat × α) :=
  (i, v) :: l.filter (·.1 != i)

def parseMol (s : String) : Mol :=
  if s == "protein" then .protein else if s == "dayhoff" then .dayhoff else if s == "hp" then .hp else .dna

def parsePairs (s : String) : List (Nat × Nat) :=
  if s == "-" || s == "" then [] else
  (s.splitOn ",").filterMap (fun w => match w.splitOn ":" with
    | [h, a] => some (h.toNat!, a.toNat!)
    | [h] => some (h.toNat!, 1)
    | _ => none)

def showErr : Err → String
  | .MismatchKSizes => "err MismatchKSizes"
  | .MismatchDNAProt => "err MismatchDNAProt"
  | .MismatchScaled => "err MismatchScaled"
  | .MismatchSeed => "err MismatchSeed"
  | .NeedsAbundanceTracking => "err NeedsAbundanceTracking"
  | .CannotUpsampleScaled => "err CannotUpsampleScaled"

def showObs (num mh : Nat) (mins : List Nat) (ab : Option (List Nat)) : String :=
  "num=" ++ toString num ++ " mh=" ++ toString mh ++ " mins=" ++ showNats mins ++ " abunds=" ++
    (match ab with | some l => showNats l | none => "none")

def molName : Mol → String
  | .dna => "dna" | .protein => "protein" | .dayhoff => "dayhoff" | .hp => "hp"

def SetOps.Sk.obs (s : Sk) : String := showObs s.num s.maxHash s.mins s.abunds
def SReg.obs (r : SReg) : String :=
  let c := r.content
  showObs r.num r.maxHash (c.map Prod.fst) (if r.track then some (c.map Prod.snd) else none)
/-- every parameter a sketch carries, then its content -/
def showParams (k : Nat) (mol : String) (seed : Nat) : String :=
  "k=" ++ toString k ++ " mol=" ++ mol ++ " seed=" ++ toString seed ++ " "
def SetOps.Sk.obsp (s : Sk) : String := showParams s.ksize (molName s.mol) s.seed ++ s.obs
def SReg.obsp (r : SReg) : String := showParams r.ksize r.mol r.seed ++ r.obs

/-- the property's reading of `check_compatible` -/
def specCompat (a b : SReg) : Option String :=
  if a.ksize != b.ksize then some "err MismatchKSizes"
  else if a.mol != b.mol then some "err MismatchDNAProt"
  else if a.maxHash != b.maxHash then some "err MismatchScaled"
  else if a.seed != b.seed then some "err MismatchSeed"
  else none

def lookP (ps : List (Nat × Nat)) (h : Nat) : Nat :=
  match ps.find? (·.1 == h) with | some p => p.2 | none => 0

def resp (st : St) (m s : String) : Resp := { model := m, spec := if st.nospec then "-" else s }


def SReg.scaled (r : SReg) : Nat := Scaled.scaledForMaxHash r.maxHash

/-- the property's reading of `downsample_scaled` -/
def specDs (r : SReg) (s : Nat) : Except String SReg :=
  if r.maxHash == 0 then .ok r                      -- num sketches pass through unchanged
  else if r.scaled == s then .ok r
  else if r.scaled > s then .error "err CannotUpsampleScaled"
  else .ok { r with maxHash := Scaled.maxHashForScaled s }

def showF (f : Float) : String :=
  let n := f.toBits.toNat
  String.ofList ((List.range 16).reverse.map (fun i => hexDigit ((n / 16 ^ i) % 16)))

/-- both operands brought to the larger scaled (what `downsample = true` promises) -/
def specBoth (sa sb : SReg) : Except String (SReg × SReg) :=
  let m := max sa.scaled sb.scaled
  match specDs sa m, specDs sb m with
  | .ok a, .ok b => .ok (a, b)
  | .error e, _ => .error e
  | _, .error e => .error e

/-- `intersection` / `intersection_size` (hence `jaccard` and the gather statistics) of sketches that
carry a `num` bound are computed inside the bottom-`num` of the union; when that bound cuts the union
they are no longer the plain set quantities and the property (scaled sketches; num sketches only
"pass through") says nothing. -/
def numCuts (a b : SReg) : Bool :=
  let u := unionSize a.keys b.keys
  (a.num != 0 && u > a.num) || (b.num != 0 && u > b.num)

def specCount (a b : SReg) : String :=
  match specCompat a b with
  | some e => e
  | none => "common=" ++ toString (inter a.keys b.keys).length

def specIsz (a b : SReg) : String :=
  match specCompat a b with
  | some e => e
  | none =>
    if numCuts a b then "-" else
    "common=" ++ toString (inter a.keys b.keys).length ++ " union=" ++ toString (unionSize a.keys b.keys)

def specSim (a b : SReg) (ig : Bool) : String :=
  match specCompat a b with
  | some e => e
  | none =>
    if ig || !a.track || !b.track then
      if numCuts a b then "-" else
      showF (SimParts.jaccard (inter a.keys b.keys).length (unionSize a.keys b.keys)).toFloat
    else
      let ca := a.content
      let cb := b.content
      let sq := fun (c : List (Nat × Nat)) => (c.map (fun p => p.2 * p.2)).foldl (· + ·) 0
      let dot := ((inter a.keys b.keys).map (fun h => lookP ca h * lookP cb h)).foldl (· + ·) 0
      showF (SimParts.angular dot (sq ca) (sq cb)).toFloat

def showSim (r : Except Err SimParts) : String :=
  match r with
  | .ok p => showF p.toFloat
  | .error e => showErr e

def explicitBoth (k : Kind) (a b : Sk) : Except Err (Sk × Sk) := do
  let m := max a.scaled b.scaled
  let a2 ← downsampleScaled k a m
  let b2 ← downsampleScaled k b m
  pure (a2, b2)

def showFrac (p : Nat × Nat) : String :=
  let f := Float.ofNat p.1 / Float.ofNat p.2
  if f.isNaN then "nan" else showF f

def showG (g : GStats) : String :=
  "isect_bp=" ++ toString g.intersectBp ++ " rem_bp=" ++ toString g.remainingBp ++
  " uniq_bp=" ++ toString g.uniqueIntersectBp ++ " fo=" ++ showFrac g.fOrigQuery ++
  " fm=" ++ showFrac g.fMatch ++ " fmo=" ++ showFrac g.fMatchOrig ++ " fu=" ++ showFrac g.fUniqueToQuery

/-- the property's reading of the gather statistics: the match is first cut at the query's ceiling -/
def specG (q m : SReg) : String :=
  if m.scaled > q.scaled then "err CannotUpsampleScaled" else
  match specDs m q.scaled with
  | .error e => e
  | .ok m' =>
    match specCompat m' q with
    | some _ => "-"          -- the code panics here (`expect`); outside the property
    | none =>
      if numCuts m' q then "-" else
      let mk := m'.keys
      let qk := q.keys
      let io := (inter mk qk).length
      showG { intersectBp := q.scaled * io, remainingBp := (qk.length - io) * q.scaled,
              uniqueIntersectBp := q.scaled * io, fOrigQuery := (io, qk.length), fMatch := (1, mk.length),
              fMatchOrig := (io, mk.length), fUniqueToQuery := (io, qk.length) }

def binop (st : St) (op : String) (r1 r2 : Nat) (args : List String) : St × Resp :=
  match getR st.regs r1, getR st.regs r2, getR st.sregs r1, getR st.sregs r2 with
  | some a, some b, some sa, some sb =>
    if op == "merge" then
      let (st', m) := match a.merge st.kind b with
        | .ok a' => ({ st with regs := setR st.regs r1 a' }, a'.obs)
        | .error e => (st, showErr e)
      match specCompat sa sb with
      | some e => (st', resp st m e)
      | none =>
        -- what `b` holds is its content (its own `num` bound may have cut its insertions)
        let sa' := SReg.mark st.kind { sa with src := sa.src ++ sb.content, track := sa.track && sb.track, out := sa.out || sb.out }
        ({ st' with sregs := setR st'.sregs r1 sa' }, resp st m sa'.obs)
    else if op == "addfrom" || op == "caddfrom" then
      -- no compatibility check: the hashes `b` holds are added one by one with abundance 1
      let a' := a.addFrom st.kind b
      let sa' := SReg.mark st.kind { sa with src := sa.src ++ sb.keys.map (fun h => (h, 1)), out := sa.out || sb.out }
      ({ st with regs := setR st.regs r1 a', sregs := setR st.sregs r1 sa' }, resp st a'.obs sa'.obs)
    else if op == "rmfrom" then
      let a' := a.removeFrom b
      let ks := sb.keys
      let sa' := { sa with src := sa.content.filter (fun p => !ks.contains p.1), out := sa.out || sb.out }
      ({ st with regs := setR st.regs r1 a', sregs := setR st.sregs r1 sa' }, resp st a'.obs sa'.obs)
    else if op == "isect" then
      let m := match intersection st.kind a b with
        | .ok (c, u) => "common=" ++ showNats c ++ " union=" ++ toString u
        | .error e => showErr e
      let s := match specCompat sa sb with
        | some e => e
        | none =>
          if numCuts sa sb then "-" else
          "common=" ++ showNats (inter sa.keys sb.keys) ++ " union=" ++ toString (unionSize sa.keys sb.keys)
      (st, resp st m s)
    else if op == "cc" then
      let d := args == ["1"]
      let m := match countCommon st.kind a b d with
        | .ok c => "common=" ++ toString c
        | .error e => showErr e
      let s := if d then (match specBoth sa sb with | .ok (x, y) => specCount x y | .error e => e) else specCount sa sb
      (st, resp st m s)
    else if op == "sim" then
      let ig := args.head? == some "1"
      let d := args.drop 1 == ["1"]
      let m := showSim (similarity st.kind a b ig d)
      let s := if d then (match specBoth sa sb with | .ok (x, y) => specSim x y ig | .error e => e) else specSim sa sb ig
      (st, resp st m s)
    else if op == "gstats" then
      -- gstats Q M : calculate_gather_stats(orig_query = Q, remaining_query = Q, match = M, match_size = 1)
      let m := match gatherStats st.kind a a b 1 with
        | .ok g => showG g
        | .error e => showErr e
      (st, resp st m (specG sa sb))
    else if op == "gstatsx" then
      -- the same with the match explicitly downsampled to the query's scaled beforehand
      let m := match downsampleScaled st.kind b a.scaled with
        | .ok b' => (match gatherStats st.kind a a b' 1 with | .ok g => showG g | .error e => showErr e)
        | .error e => showErr e
      (st, resp st m (specG sa sb))
    else if op == "ccx" then
      let m := match explicitBoth st.kind a b with
        | .ok (x, y) => (match countCommon st.kind x y false with | .ok c => "common=" ++ toString c | .error e => showErr e)
        | .error e => showErr e
      (st, resp st m (match specBoth sa sb with | .ok (x, y) => specCount x y | .error e => e))
    else if op == "iszx" then
      let m := match explicitBoth st.kind a b with
        | .ok (x, y) => (match intersectionSize st.kind x y with
            | .ok (c, u) => "common=" ++ toString c ++ " union=" ++ toString u | .error e => showErr e)
        | .error e => showErr e
      (st, resp st m (match specBoth sa sb with | .ok (x, y) => specIsz x y | .error e => e))
    else if op == "simx" then
      let ig := args == ["1"]
      let m := match explicitBoth st.kind a b with
        | .ok (x, y) => showSim (similarity st.kind x y ig false)
        | .error e => showErr e
      (st, resp st m (match specBoth sa sb with | .ok (x, y) => specSim x y ig | .error e => e))
    else (st, { model := "bad-op" })
  | _, _, _, _ => (st, { model := "bad-reg" })

/-- `sel` / `selx` / `fpsel` / `fpselx`: a signature holding the listed sketches selected at scaled `s`
(`explicit`: retain test, then `downsample_scaled` of every retained sketch) -/
def selOp (st : St) (ids : List Nat) (s : Nat) (explicit full : Bool) : St × Resp :=
  let sks := ids.filterMap (getR st.regs)
  let srs := ids.filterMap (getR st.sregs)
  if sks.length != ids.length then (st, { model := "bad-reg" }) else
  let res := if explicit then (sks.filter (keepScaled · s)).mapM (fun x => downsampleScaled st.kind x s)
             else selectScaled st.kind sks s
  let m := match res with
    | .ok l => " | ".intercalate (("n=" ++ toString l.length) :: l.map (if full then Sk.obsp else Sk.obs))
    | .error e => showErr e
  let kept := srs.filter (fun r => r.scaled != 0 && r.scaled ≤ s)
  let outs := kept.map (fun r => specDs r s)
  let sp := match outs.find? (fun o => match o with | .error _ => true | .ok _ => false) with
    | some (.error e) => e
    | _ => " | ".intercalate (("n=" ++ toString kept.length) ::
             outs.map (fun o => match o with | .ok r => (if full then r.obsp else r.obs) | .error e => e))
  (st, resp st m sp)

def stepC04 (st : St) (ws : List String) : St × Resp :=
  match ws with
  | "case" :: _ :: ty :: rest =>
    ({ kind := if ty == "tree" then .tree else .vec, nospec := rest.contains "nospec" }, { model := "ok" })
  | ["new", r, scaled, num, ksize, mol, seed, track] =>
    let r := r.toNat!
    let tr := track == "1"
    let sk := Sk.new scaled.toNat! ksize.toNat! (parseMol mol) seed.toNat! tr num.toNat!
    let sr : SReg := { num := num.toNat!, maxHash := Scaled.maxHashForScaled scaled.toNat!, ksize := ksize.toNat!,
                       seed := seed.toNat!, mol := mol, track := tr, src := [] }
    ({ st with regs := setR st.regs r sk, sregs := setR st.sregs r sr }, { model := "ok" })
  | "build" :: r :: ctor :: maxHash :: num :: ksize :: mol :: seed :: track :: items :: _cm =>
    -- a sketch handed over ready-made (builder / JSON document): the state is what was given; a JSON
    -- document is sorted by (hash, abundance) on the way in and loses `num` next to a ceiling.  `_cm`:
    -- an explicit (possibly stale) `current_max` for the tree builder - only given to sketches with a
    -- ceiling, where the code never reads the field, so it is no part of the modelled state here
    let r := r.toNat!
    let tr := track == "1"
    let ps := if ctor == "js" then sortPairs (parsePairs items) else parsePairs items
    let nm := if ctor == "js" && maxHash.toNat! != 0 then 0 else num.toNat!
    let sk : Sk := { num := nm, maxHash := maxHash.toNat!, ksize := ksize.toNat!, seed := seed.toNat!,
                     mol := parseMol mol, mins := ps.map Prod.fst, abunds := if tr then some (ps.map Prod.snd) else none }
    let sr : SReg := { num := num.toNat!, maxHash := maxHash.toNat!, ksize := ksize.toNat!,
                       seed := seed.toNat!, mol := mol, track := tr, src := parsePairs items }
    ({ st with regs := setR st.regs r sk, sregs := setR st.sregs r sr }, resp st sk.obs sr.obs)
  | ["newdef", r] =>
    let sr : SReg := { num := 1000, maxHash := 0, ksize := 21, seed := 42, mol := "dna", track := false, src := [] }
    ({ st with regs := setR st.regs r.toNat! Sk.defaultSk, sregs := setR st.sregs r.toNat! sr },
     resp st Sk.defaultSk.obsp sr.obsp)
  | ["conv", r1, r2, how] =>
    -- Clone / From conversions there and back (two conversions, each re-deriving the ceiling from
    -- scaled()) / serde round trip: the property expects the same sketch
    match getR st.regs r2.toNat!, getR st.sregs r2.toNat! with
    | some a, some sa =>
      let a' := if how == "rt" || how == "rtr" then a.convert.convert else if how == "serde" then a.serdeRoundTrip else a
      ({ st with regs := setR st.regs r1.toNat! a', sregs := setR st.sregs r1.toNat! sa }, resp st a'.obsp sa.obsp)
    | _, _ => (st, { model := "bad-reg" })
  | ["addm", r, hs] =>
    let r := r.toNat!
    match getR st.regs r, getR st.sregs r with
    | some a, some sa =>
      let hs := natList hs
      let a' := a.addMany st.kind hs
      let sa' := SReg.mark st.kind { sa with src := sa.src ++ hs.map (fun h => (h, 1)) }
      ({ st with regs := setR st.regs r a', sregs := setR st.sregs r sa' }, resp st a'.obs sa'.obs)
    | _, _ => (st, { model := "bad-reg" })
  | ["pour", r1, r2, s, how] =>
    -- an empty sketch at scaled `s` with the other parameters of R2, R2 poured in; the property: every
    -- hash of R2 goes through the new sketch's own admission rule (ceiling of `s`, bottom-`num`)
    match getR st.regs r2.toNat!, getR st.sregs r2.toNat! with
    | some b, some sb =>
      let n := Sk.new s.toNat! b.ksize b.mol b.seed b.track b.num
      let b' := if how == "abund" then n.addManyAb st.kind b.pairs
                else if how == "many" then n.addMany st.kind b.mins
                else pourScaled st.kind b s.toNat!
      let src := if how == "abund" && sb.track then sb.content else sb.keys.map (fun h => (h, 1))
      let sb' := SReg.mark st.kind { sb with maxHash := Scaled.maxHashForScaled s.toNat!, src := src }
      ({ st with regs := setR st.regs r1.toNat! b', sregs := setR st.sregs r1.toNat! sb' }, resp st b'.obs sb'.obs)
    | _, _ => (st, { model := "bad-reg" })
  | ["copy", r1, r2] =>
    match getR st.regs r2.toNat!, getR st.sregs r2.toNat! with
    | some a, some sa => ({ st with regs := setR st.regs r1.toNat! a, sregs := setR st.sregs r1.toNat! sa }, { model := "ok" })
    | _, _ => (st, { model := "bad-reg" })
  | ["obs", r] =>
    match getR st.regs r.toNat!, getR st.sregs r.toNat! with
    | some a, some sa => (st, resp st a.obs sa.obs)
    | _, _ => (st, { model := "bad-reg" })
  | ["scaled", r] =>
    match getR st.regs r.toNat! with
    | some a => (st, { model := "scaled=" ++ toString a.scaled })
    | _ => (st, { model := "bad-reg" })
  | ["add", r, items] =>
    let r := r.toNat!
    match getR st.regs r, getR st.sregs r with
    | some a, some sa =>
      let ps := parsePairs items
      let a' := a.addManyAb st.kind ps
      let sa' := SReg.mark st.kind { sa with src := sa.src ++ ps }
      ({ st with regs := setR st.regs r a', sregs := setR st.sregs r sa' }, resp st a'.obs sa'.obs)
    | _, _ => (st, { model := "bad-reg" })
  | ["set", r, h, a] =>
    -- vector type only: set_hash_with_abundance; the register then stands for "h inserted with total a"
    let r := r.toNat!
    match getR st.regs r, getR st.sregs r with
    | some x, some sx =>
      let x' := x.setV h.toNat! a.toNat!
      let present := sx.keys.contains h.toNat!
      let sx' := SReg.mark st.kind <| if present then { sx with src := sx.src.filter (fun p => p.1 != h.toNat!) ++ [(h.toNat!, a.toNat!)] }
                 else if a.toNat! == 0 then sx else { sx with src := sx.src ++ [(h.toNat!, a.toNat!)] }
      ({ st with regs := setR st.regs r x', sregs := setR st.sregs r sx' }, resp st x'.obs sx'.obs)
    | _, _ => (st, { model := "bad-reg" })
  | "sel" :: s :: rs => selOp st (rs.map String.toNat!) s.toNat! false false
  | "selx" :: s :: rs => selOp st (rs.map String.toNat!) s.toNat! true false
  | ["fpsel", s] => if st.sigRegs.isEmpty then (st, { model := "bad-reg" }) else selOp st st.sigRegs s.toNat! false true
  | ["fpselx", s] => if st.sigRegs.isEmpty then (st, { model := "bad-reg" }) else selOp st st.sigRegs s.toNat! true true
  | ["rm", r, hs] =>
    let r := r.toNat!
    match getR st.regs r, getR st.sregs r with
    | some a, some sa =>
      let hs := natList hs
      let a' := a.removeMany hs
      -- the register now stands for what it held, without the removed hashes
      let sa' := { sa with src := sa.content.filter (fun p => !hs.contains p.1) }
      ({ st with regs := setR st.regs r a', sregs := setR st.sregs r sa' }, resp st a'.obs sa'.obs)
    | _, _ => (st, { model := "bad-reg" })
  | ["clear", r] =>
    let r := r.toNat!
    match getR st.regs r, getR st.sregs r with
    | some a, some sa =>
      let a' := a.clear
      let sa' := { sa with src := [], out := false }
      ({ st with regs := setR st.regs r a', sregs := setR st.sregs r sa' }, resp st a'.obs sa'.obs)
    | _, _ => (st, { model := "bad-reg" })
  | ["md5", r] =>
    match getR st.regs r.toNat! with
    | some _ => (st, resp st "md5ok" "md5ok")
    | none => (st, { model := "bad-reg" })
  | "fpnew" :: mols :: ksizes :: scaled :: num :: track :: rs =>
    -- `build_template`: per ksize protein, dayhoff, hp, dna; seed 42; num_hashes 500 unless given
    let ms := mols.splitOn ","
    let tr := track == "1"
    let nm := if num == "d" then 500 else num.toNat!
    let tmpl := (natList ksizes).flatMap (fun k =>
      (["protein", "dayhoff", "hp", "dna"].filter ms.contains).map (fun m => (k, m)))
    let ids := rs.map String.toNat!
    if tmpl.length != ids.length then (st, { model := "n=" ++ toString tmpl.length }) else
    let sks := tmpl.map (fun (k, m) => Sk.new scaled.toNat! k (parseMol m) 42 tr nm)
    let srs : List SReg := tmpl.map (fun (k, m) =>
      { num := nm, maxHash := Scaled.maxHashForScaled scaled.toNat!, ksize := k, seed := 42, mol := m, track := tr, src := [] })
    let regs := (ids.zip sks).foldl (fun l (i, v) => setR l i v) st.regs
    let sregs := (ids.zip srs).foldl (fun l (i, v) => setR l i v) st.sregs
    ({ st with regs := regs, sregs := sregs, sigRegs := ids },
     resp st (" | ".intercalate (("n=" ++ toString sks.length) :: sks.map Sk.obsp))
             (" | ".intercalate (("n=" ++ toString srs.length) :: srs.map SReg.obsp)))
  | ["fpadd", _] =>
    -- the hash multisets of the sequence were `add`ed to the mirror registers by the preceding lines
    let sks := st.sigRegs.filterMap (getR st.regs)
    let srs := st.sigRegs.filterMap (getR st.sregs)
    if st.sigRegs.isEmpty then (st, { model := "bad-reg" }) else
    (st, resp st (" | ".intercalate (("n=" ++ toString sks.length) :: sks.map Sk.obs))
                 (" | ".intercalate (("n=" ++ toString srs.length) :: srs.map SReg.obs)))
  | ["fpget", r, i] =>
    match st.sigRegs[i.toNat!]? with
    | some j =>
      match getR st.regs j, getR st.sregs j with
      | some a, some sa =>
        ({ st with regs := setR st.regs r.toNat! a, sregs := setR st.sregs r.toNat! sa }, resp st a.obs sa.obs)
      | _, _ => (st, { model := "bad-reg" })
    | none => (st, { model := "bad-reg" })
  | [op, r1, r2, x] =>
    if op == "ds" || op == "dsm" then
      match getR st.regs r2.toNat!, getR st.sregs r2.toNat! with
      | some b, some sb =>
        let res := if op == "ds" then downsampleScaled st.kind b x.toNat! else downsampleMaxHash st.kind b x.toNat!
        let sres := if op == "ds" then specDs sb x.toNat!
                    else if sb.maxHash == 0 then .ok sb else specDs sb (Scaled.scaledForMaxHash x.toNat!)
        let (st1, m) := match res with
          | .ok b' => ({ st with regs := setR st.regs r1.toNat! b' }, b'.obs)
          | .error e => (st, showErr e)
        match sres with
        | .ok sb' => ({ st1 with sregs := setR st1.sregs r1.toNat! sb' }, resp st m sb'.obs)
        | .error e => (st1, resp st m e)
      | _, _ => (st, { model := "bad-reg" })
    else binop st op r1.toNat! r2.toNat! [x]
  | [op, r1, r2] => binop st op r1.toNat! r2.toNat! []
  | [op, r1, r2, x, y] => binop st op r1.toNat! r2.toNat! [x, y]
  | _ => (st, { model := "bad-op" })

/-- the registers an op reads -/
def operands (st : St) (ws : List String) : List Nat :=
  match ws with
  | "sel" :: _ :: rs => rs.filterMap String.toNat?
  | "selx" :: _ :: rs => rs.filterMap String.toNat?
  | "fpnew" :: _ => []
  | "fpget" :: _ :: i :: _ => (i.toNat?.bind (st.sigRegs[·]?)).toList
  | op :: rest =>
    if op == "fpsel" || op == "fpselx" || op == "fpadd" then st.sigRegs
    else if op == "copy" || op == "ds" || op == "dsm" || op == "conv" || op == "pour" then (rest.drop 1).take 1 |>.filterMap String.toNat?
    else if ["obs", "scaled", "add", "addm", "set", "rm", "clear", "md5"].contains op then rest.take 1 |>.filterMap String.toNat?
    else if op == "new" || op == "case" || op == "build" || op == "newdef" then []
    else rest.take 2 |>.filterMap String.toNat?
  | [] => []

/-- the spec column is silent as soon as an operand is outside the property's parameter space -/
def stepC04' (st : St) (ws : List String) : St × Resp :=
  let (st', r) := stepC04 st ws
  if (operands st' ws).any (fun i => (getR st'.sregs i).any (·.out)) then (st', { r with spec := "-" })
  else (st', r)

def main : IO Unit := Driver.run ({} : St) stepC04'
