import Driver.Common
import Sourmash.Model.Similarity
import Sourmash.Spec.Similarity
import Sourmash.Model.MinHash
/-!
C05 driver.  Request lines (see `harness/src/bin/c05.rs`):

  sk <x> <scaled> <num> <ksize> <dna|protein|dayhoff|hp> <seed> <track 0|1> <mins> <abunds>
  isz|isect|jac|jacx|jacv|ang|angin|angone|angzero  V|T ab|ba
  cc V|T ab|ba <downsample 0|1>
  sim V|T ab|ba <ignore_abundance 0|1> <downsample 0|1>
  cmp|cmpv sig|store|large sim|cont ab|ba
  search sig|store sim|cont ab|ba <threshold bits>
  ffi jac|ang|ius <xy> ; ffi cc <xy> <ds> ; ffi sim <xy> <ign> <ds>      (C API, vector-backed handles)
  addab|setab <x> <h> <n> ; rm <x> <h> ; clear <x> ; merge <x> <y> ; md5 <x> ; clone <x> <z>   (history)

Sketch names are single letters and every order word names two of them (`ab`, `ba`, `cb`, …).  The
state is tracked op by op (`Ent`); model and spec columns of every comparison are computed from the
CURRENT contents of the container the request names.

model column: the executable model of `Sourmash.Model.Similarity` (integer core, then the float tail
over Lean `Float`); spec column: the set-level definitions of `Sourmash.Spec.Similarity`
(filter / contains / lookup) pushed through the same tail, plus the verdicts the property demands.
-/
open Driver Similarity

/-- one named sketch of a case: the parameter block that `check_compatible` reads plus the CURRENT
    contents of both real objects, tracked op by op with the list functions of C01's model
    (`MH.Vec` = `KmerMinHash`, `MH.Tree` = `KmerMinHashBTree`, md5 cache field included) -/
structure Ent where
  hf : Nat
  seed : Nat
  v : MH.Vec
  t : MH.Tree

structure St where
  sk : List (String × Ent) := []

def St.get (st : St) (n : String) : Option Ent := st.sk.lookup n

def St.put (st : St) (n : String) (e : Ent) : St :=
  { sk := (n, e) :: st.sk.filter (fun p => p.1 != n) }

/-- the operand the comparison functions see: the current contents of the chosen container -/
def Ent.sketch (e : Ent) : Container → Sketch
  | .vec => { num := e.v.num, ksize := e.v.ksize, hf := e.hf, seed := e.seed, maxHash := e.v.maxHash,
              mins := e.v.mins, abunds := e.v.abunds }
  | .tree => { num := e.t.num, ksize := e.t.ksize, hf := e.hf, seed := e.seed, maxHash := e.t.maxHash,
               mins := e.t.mins, abunds := e.t.abundVals }

def hex16 (u : UInt64) : String :=
  String.ofList ((List.range 16).map (fun i => hexDigit ((u.toNat >>> (4 * (15 - i))) % 16)))

/-- IEEE-754 bit pattern of a value `(m, e)` of the exact integer model (`m·2^e`, `m ∈ [2^52, 2^53]`
    or `m = 0`; normal range only) -/
def bitsOfPair (x : Nat × Int) : UInt64 :=
  if x.1 == 0 then 0 else
  let (m, e) := if x.1 == 2^53 then (2^52, x.2 + 1) else x
  UInt64.ofNat (((e + 52 + 1023).toNat <<< 52) ||| (m - 2^52))

/-- `common as f64 / max(1, size) as f64` on the exact model of Model/Scaled.lean -/
def jaccardExact (c s : Nat) : String :=
  hex16 (bitsOfPair (Scaled.fdiv (Scaled.ofNat c) (Scaled.ofNat (max 1 s))))

def showF (x : Float) : String := if x.isNaN then "nan" else hex16 x.toBits

def hfCode (s : String) : Nat :=
  if s == "dna" then 0 else if s == "protein" then 1 else if s == "dayhoff" then 2 else 3

def showSketch (s : Sketch) : String :=
  showNats s.mins ++ "|" ++ (match s.abunds with | some ab => showNats ab | none => "none")

def showErr (e : Err) : String := "err " ++ e.name

def showPair (p : Nat × Nat) : String := toString p.1 ++ " " ++ toString p.2

def b01 (b : Bool) : String := if b then "1" else "0"

def container (s : String) : Container := if s == "T" then .tree else .vec

/-- the operands named by a two-letter order word, read off the chosen container -/
def order (st : St) (c : Container) (o : String) : Option (Sketch × Sketch) :=
  match o.toList with
  | [p, q] =>
    match st.get (String.singleton p), st.get (String.singleton q) with
    | some x, some y => some (x.sketch c, y.sketch c)
    | _, _ => none
  | _ => none

def isOk {ε α : Type} : Except ε α → Bool
  | .ok _ => true
  | .error _ => false

/-- the parameter space of the property: scaled sketches (num = 0, ceiling set) or num sketches with
    the same num (no ceiling); outside it the spec column is `-` -/
def regime (x y : Sketch) : Bool :=
  isOk (checkCompatible x y) &&
  ((x.num == 0 && y.num == 0 && x.maxHash != 0) || (x.num != 0 && x.num == y.num && x.maxHash == 0))

def specPair (x y : Sketch) : Option (Nat × Nat) :=
  if regime x y then some (SimilaritySpec.jaccardPair x.num x.mins y.mins) else none

def specJaccard (x y : Sketch) : Option (Nat × Nat) :=
  match specPair x y with
  | some (c, s) => if s == 0 then none else some (c, s)
  | none => none

def specTriple (x y : Sketch) : Option (Nat × Nat × Nat) :=
  match x.abunds, y.abunds with
  | some xa, some ya =>
    if isOk (checkCompatible x y) then some (SimilaritySpec.angularTriple x.mins xa y.mins ya) else none
  | _, _ => none

def verdict (v : Float) (one zero : Bool) : String :=
  if v.isNaN then "nan" else
  b01 (0.0 ≤ v && v ≤ 1.0) ++ " " ++ b01 one ++ " " ++ b01 zero

/-- which definition the dispatcher must use, at the set level -/
def specSim (x y : Sketch) (ign : Bool) : String :=
  if ign || !x.tracked || !y.tracked then
    match specJaccard x y with
    | some (c, s) => showF (jaccardTail c s : Float)
    | none => "-"
  else
    match specTriple x y with
    | some (p, a, b) => showF (angularTail p a b : Float)
    | none => "-"

def cmpModel (which : String) (x y : Sketch) : Option Float :=
  if which == "sim" then
    match similarityCore .vec x y true false with
    | .ok r => some (simTail r)
    | .error _ => none
  else
    match containmentPair x y with
    | .ok (c, n) => some (containmentTail c n)
    | .error _ => none

def cmpSpec (which : String) (x y : Sketch) : Option (Nat × Nat) :=
  if which == "sim" then specJaccard x y
  else if isOk (checkCompatible x y) && !x.mins.isEmpty then
    some (SimilaritySpec.containmentPair x.mins y.mins)
  else none

def cmpSpecF (which : String) (p : Nat × Nat) : Float :=
  if which == "sim" then jaccardTail p.1 p.2 else containmentTail p.1 p.2

/-! ### the comparison requests (native and through the C API) -/

def opIsz (c : Container) (x y : Sketch) : Resp :=
  { model := match intersectionSize c x y with
             | .ok p => showPair p
             | .error e => showErr e,
    spec := match specPair x y with
            | some p => showPair p
            | none => "-" }

def opIsect (c : Container) (x y : Sketch) : Resp :=
  { model := match intersection c x y with
             | .ok (l, s) => showNats l ++ " " ++ toString s
             | .error e => showErr e,
    spec := match specPair x y with
            | some (_, s) =>
              let i := SimilaritySpec.inter x.mins y.mins
              let i := if x.num == 0 then i else
                i.filter (fun h => (SimilaritySpec.bottom x.num (SimilaritySpec.union x.mins y.mins)).contains h)
              showNats i ++ " " ++ toString s
            | none => "-" }

def opJac (c : Container) (x y : Sketch) : Resp :=
  { model := match jaccardCore c x y with
             | .ok r => showF (simTail r)
             | .error e => showErr e,
    spec := match specJaccard x y with
            | some (cm, s) => showF (jaccardTail cm s : Float)
            | none => "-" }

/-- the same request as `jac`, answered by the exact integer model of binary64 division -/
def opJacx (c : Container) (x y : Sketch) : Resp :=
  { model := match jaccardCore c x y with
             | .ok (.jaccard cm s) => jaccardExact cm s
             | .ok r => showF (simTail r)
             | .error e => showErr e,
    spec := match specJaccard x y with
            | some (cm, s) => jaccardExact cm s
            | none => "-" }

def opJacv (c : Container) (x y : Sketch) : Resp :=
  { model := match jaccardCore c x y with
             | .ok r => let v : Float := simTail r; verdict v (v == 1.0) (v == 0.0)
             | .error e => showErr e,
    spec := match specJaccard x y with
            | some (cm, s) => "1 " ++ b01 (cm == s) ++ " " ++ b01 (cm == 0)
            | none => "-" }

def opAng (c : Container) (x y : Sketch) : Resp :=
  { model := match angularCore c x y with
             | .ok r => showF (simTail r)
             | .error e => showErr e,
    spec := if !isOk (checkCompatible x y) then "-"
            else match specTriple x y with
              | some (p, a, b) => showF (angularTail p a b : Float)
              | none => showErr .NeedsAbundanceTracking }

def opAngV (op : String) (c : Container) (x y : Sketch) : Resp :=
  let m := match angularCore c x y with
    | .ok r =>
      let v : Float := simTail r
      if op == "angin" then b01 (0.0 ≤ v && v ≤ 1.0)
      else if op == "angone" then b01 (Float.abs (v - 1.0) ≤ 1e-7)
      else b01 (v == 0.0)
    | .error e => showErr e
  let s := match specTriple x y with
    | some (p, a, b) =>
      if op == "angin" then "1"
      else if op == "angone" then
        -- equal, non-zero abundance vectors: the cosine is 1
        if x.mins == y.mins && x.abunds == y.abunds && a != 0 then "1" else "-"
      else if p == 0 || a == 0 || b == 0 then "1" else "-"
    | none => "-"
  { model := m, spec := s }

def opCc (x y : Sketch) (ds : Bool) : Resp :=
  { model := match countCommon x y ds with
             | .ok n => toString n ++ " " ++ toString x.size
             | .error e => showErr e,
    spec := if isOk (checkCompatible x y) then showPair (SimilaritySpec.containmentPair x.mins y.mins) else "-" }

def opSim (c : Container) (x y : Sketch) (ign ds : Bool) : Resp :=
  { model := match similarityCore c x y ign ds with
             | .ok r => showF (simTail r)
             | .error e => showErr e,
    spec := if isOk (checkCompatible x y) && x.tracked && y.tracked && !ign then
              -- both tracked, abundance not ignored: the angular definition, refusal impossible
              specSim x y false
            else specSim x y true }

/-- `kmerminhash_intersection_union_size`: every error of `intersection_size` is swallowed into `0 0` -/
def opIus (x y : Sketch) : Resp :=
  { model := showPair (ffiIntersectionUnionSize x y),
    spec := match specPair x y with
            | some p => showPair p
            | none => "-" }

/-! ### the history requests -/

def showEnt (e : Ent) : String :=
  "V:" ++ showSketch (e.sketch .vec) ++ " T:" ++ showSketch (e.sketch .tree)

/-- apply a mutation of both containers to the named sketch; the answer is what they hold afterwards.
    The property says nothing about these requests (spec `-`): they are C01's. -/
def mutate (st : St) (n : String) (f : Ent → Ent) : St × Resp :=
  match st.get n with
  | none => (st, { model := "no-sketch" })
  | some e => let e' := f e; (st.put n e', { model := showEnt e' })

def stepC05 (st : St) (ws : List String) : St × Resp :=
  match ws with
  | "case" :: _ => (st, { model := "ok" })
  | ["sk", w, sc, num, k, hf, seed, tr, mins, ab] =>
    let mins := natList mins
    let ab := natList ab
    let tracked := tr == "1"
    let mh := Scaled.maxHashForScaled sc.toNat!
    -- the harness overwrites with `set_hash_with_abundance(h, 0)` and converts a Clone of the vector
    -- into the tree when a 0 abundance is asked for: the vector's md5 cache is then filled
    let zeros := tracked && ab.any (· == 0)
    let v : MH.Vec := { num := num.toNat!, maxHash := mh, ksize := k.toNat!, mins := mins,
                        abunds := if tracked then some ab else none,
                        md5 := if zeros then some (Md5.digest k.toNat! mins) else none }
    let t : MH.Tree := { num := num.toNat!, maxHash := mh, ksize := k.toNat!, mins := mins,
                         abunds := if tracked then some (mins.zip ab) else none,
                         currentMax := MH.lastOr0 mins, md5 := none }
    let e : Ent := { hf := hfCode hf, seed := seed.toNat!, v := v, t := t }
    let r := showEnt e
    (st.put w e, { model := r, spec := r })
  | ["addab", n, h, a] => mutate st n (fun e => { e with v := e.v.add h.toNat! a.toNat!, t := e.t.add h.toNat! a.toNat! })
  | ["setab", n, h, a] =>
    mutate st n (fun e => { e with v := e.v.set h.toNat! a.toNat!, t := (e.t.remove h.toNat!).add h.toNat! a.toNat! })
  | ["rm", n, h] => mutate st n (fun e => { e with v := e.v.remove h.toNat!, t := e.t.remove h.toNat! })
  | ["clear", n] => mutate st n (fun e => { e with v := e.v.clear, t := e.t.clear })
  | ["md5", n] =>
    match st.get n with
    | none => (st, { model := "no-sketch" })
    | some e =>
      let (dv, v') := e.v.md5sum
      let (dt, t') := e.t.md5sum
      (st.put n { e with v := v', t := t' },
       { model := "V:" ++ Md5.hex dv ++ " T:" ++ Md5.hex dt })
  | ["clone", n, z] =>
    match st.get n with
    | none => (st, { model := "no-sketch" })
    | some e =>
      let (cv, v') := e.v.clone
      let (ct, t') := e.t.clone
      let c : Ent := { e with v := cv, t := ct }
      (((st.put n { e with v := v', t := t' }).put z c), { model := showEnt c })
  | ["merge", n, m] =>
    if n == m then (st, { model := "no-sketch" }) else
    match st.get n, st.get m with
    | some x, some y =>
      -- `check_compatible` first (same parameter block in both containers), then the container's merge
      let chk (c : Container) := checkCompatible (x.sketch c) (y.sketch c)
      let x' : Ent := { x with v := if isOk (chk .vec) then x.v.merge y.v else x.v,
                               t := if isOk (chk .tree) then x.t.merge y.t else x.t }
      let show1 (c : Container) := match chk c with
        | .ok _ => showSketch (x'.sketch c)
        | .error e => showErr e
      (st.put n x', { model := "V:" ++ show1 .vec ++ " T:" ++ show1 .tree })
    | _, _ => (st, { model := "no-sketch" })
  | ["ffi", what, o] =>
    match order st .vec o with
    | none => (st, { model := "no-sketch" })
    | some (x, y) =>
      if what == "jac" then (st, opJac .vec x y)
      else if what == "ang" then (st, opAng .vec x y)
      else if what == "ius" then (st, opIus x y)
      else (st, { model := "bad-op" })
  | ["ffi", "cc", o, ds] =>
    match order st .vec o with
    | none => (st, { model := "no-sketch" })
    | some (x, y) => (st, opCc x y (ds == "1"))
  | ["ffi", "sim", o, ign, ds] =>
    match order st .vec o with
    | none => (st, { model := "no-sketch" })
    | some (x, y) => (st, opSim .vec x y (ign == "1") (ds == "1"))
  | ["cc", c, o, ds] =>
    match order st (container c) o with
    | none => (st, { model := "no-sketch" })
    | some (x, y) => (st, opCc x y (ds == "1"))
  | ["sim", c, o, ign, ds] =>
    match order st (container c) o with
    | none => (st, { model := "no-sketch" })
    | some (x, y) => (st, opSim (container c) x y (ign == "1") (ds == "1"))
  | ["search", kind, which, o, thr] =>
    -- `Sketch::MinHash` of the vector-backed object
    match order st .vec o with
    | none => (st, { model := "no-sketch" })
    | some (x, y) =>
      let t := Float.ofBits (UInt64.ofNat (thr.toNat!))
      let _ := kind
      (st, { model := match cmpModel which x y with
                      | some v => toString (decide (v > t))
                      | none => "PANIC",
             spec := match cmpSpec which x y with
                     | some p => toString (decide (cmpSpecF which p > t))
                     | none => "-" })
  | [op, kind, which, o] =>
    match order st .vec o with
    | none => (st, { model := "no-sketch" })
    | some (x, y) =>
      if kind == "large" then (st, { model := "PANIC" })   -- `unimplemented!()` for LargeMinHash
      else
      let m := cmpModel which x y
      let s := cmpSpec which x y
      if op == "cmp" then
        (st, { model := match m with | some v => showF v | none => "PANIC",
               spec := match s with | some p => showF (cmpSpecF which p) | none => "-" })
      else if op == "cmpv" then
        (st, { model := match m with | some v => verdict v (v == 1.0) (v == 0.0) | none => "PANIC",
               spec := match s with
                       | some (cm, n) => "1 " ++ b01 (cm == n) ++ " " ++ b01 (cm == 0)
                       | none => "-" })
      else (st, { model := "bad-op" })
  | [op, c, o] =>
    let c := container c
    match order st c o with
    | none => (st, { model := "no-sketch" })
    | some (x, y) =>
      if op == "isz" then (st, opIsz c x y)
      else if op == "isect" then (st, opIsect c x y)
      else if op == "jac" then (st, opJac c x y)
      else if op == "jacx" then (st, opJacx c x y)
      else if op == "jacv" then (st, opJacv c x y)
      else if op == "ang" then (st, opAng c x y)
      else if op == "angin" || op == "angone" || op == "angzero" then (st, opAngV op c x y)
      else (st, { model := "bad-op" })
  | _ => (st, { model := "bad-op" })

def main : IO Unit := Driver.run ({} : St) stepC05
