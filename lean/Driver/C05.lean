import Driver.Common
import Sourmash.Model.Similarity
import Sourmash.Spec.Similarity
/-!
C05 driver.  Request lines (see `harness/src/bin/c05.rs`):

  sk a|b <scaled> <num> <ksize> <dna|protein|dayhoff|hp> <seed> <track 0|1> <mins> <abunds>
  isz|isect|jac|jacx|jacv|ang|angin|angone|angzero  V|T ab|ba
  cc V|T ab|ba <downsample 0|1>
  sim V|T ab|ba <ignore_abundance 0|1> <downsample 0|1>
  cmp|cmpv sig|store|large sim|cont ab|ba
  search sig|store sim|cont ab|ba <threshold bits>

model column: the executable model of `Sourmash.Model.Similarity` (integer core, then the float tail
over Lean `Float`); spec column: the set-level definitions of `Sourmash.Spec.Similarity`
(filter / contains / lookup) pushed through the same tail, plus the verdicts the property demands.
-/
open Driver Similarity

structure St where
  a : Option Sketch := none
  b : Option Sketch := none

def hex16 (u : UInt64) : String :=
  String.ofList ((List.range 16).map (fun i => hexDigit ((u.toNat >>> (4 * (15 - i))) % 16)))

/-- IEEE-754 bit pattern of a value `(m, e)` of the exact integer model (`m·2^e`, `m ∈ [2^52, 2^53]`
    or `m = 0`; normal range only) -/
def bitsOfPair (x : Nat × Int) : UInt64 :=
  if x.1 == 0 then 0 else
  let (m, e) := if x.1 == 2^53 then (2^52, x.2 + 1) else x
  UInt64.ofNat (((e + 52 + 1023).toNat <<< 52) ||| (m - 2^52))

/-- `common as f64 / max(1, size) as f64` on the exact model of Model/Scaled.lean -/
def jaccardExact (c s : Nat) : String :=
  hex16 (bitsOfPair (Scaled.fdiv (Scaled.ofNat c) (Scaled.ofNat (max 1 s))))

def showF (x : Float) : String := if x.isNaN then "nan" else hex16 x.toBits

def hfCode (s : String) : Nat :=
  if s == "dna" then 0 else if s == "protein" then 1 else if s == "dayhoff" then 2 else 3

def showSketch (s : Sketch) : String :=
  showNats s.mins ++ "|" ++ (match s.abunds with | some ab => showNats ab | none => "none")

def showErr (e : Err) : String := "err " ++ e.name

def showPair (p : Nat × Nat) : String := toString p.1 ++ " " ++ toString p.2

def b01 (b : Bool) : String := if b then "1" else "0"

def container (s : String) : Container := if s == "T" then .tree else .vec

def order (st : St) (o : String) : Option (Sketch × Sketch) :=
  match st.a, st.b with
  | some a, some b => some (if o == "ba" then (b, a) else (a, b))
  | _, _ => none

def isOk {ε α : Type} : Except ε α → Bool
  | .ok _ => true
  | .error _ => false

/-- the parameter space of the property: scaled sketches (num = 0, ceiling set) or num sketches with
    the same num (no ceiling); outside it the spec column is `-` -/
def regime (x y : Sketch) : Bool :=
  isOk (checkCompatible x y) &&
  ((x.num == 0 && y.num == 0 && x.maxHash != 0) || (x.num != 0 && x.num == y.num && x.maxHash == 0))

def specPair (x y : Sketch) : Option (Nat × Nat) :=
  if regime x y then some (SimilaritySpec.jaccardPair x.num x.mins y.mins) else none

def specJaccard (x y : Sketch) : Option (Nat × Nat) :=
  match specPair x y with
  | some (c, s) => if s == 0 then none else some (c, s)
  | none => none

def specTriple (x y : Sketch) : Option (Nat × Nat × Nat) :=
  match x.abunds, y.abunds with
  | some xa, some ya =>
    if isOk (checkCompatible x y) then some (SimilaritySpec.angularTriple x.mins xa y.mins ya) else none
  | _, _ => none

def verdict (v : Float) (one zero : Bool) : String :=
  if v.isNaN then "nan" else
  b01 (0.0 ≤ v && v ≤ 1.0) ++ " " ++ b01 one ++ " " ++ b01 zero

/-- which definition the dispatcher must use, at the set level -/
def specSim (x y : Sketch) (ign : Bool) : String :=
  if ign || !x.tracked || !y.tracked then
    match specJaccard x y with
    | some (c, s) => showF (jaccardTail c s : Float)
    | none => "-"
  else
    match specTriple x y with
    | some (p, a, b) => showF (angularTail p a b : Float)
    | none => "-"

def cmpModel (which : String) (x y : Sketch) : Option Float :=
  if which == "sim" then
    match similarityCore .vec x y true false with
    | .ok r => some (simTail r)
    | .error _ => none
  else
    match containmentPair x y with
    | .ok (c, n) => some (containmentTail c n)
    | .error _ => none

def cmpSpec (which : String) (x y : Sketch) : Option (Nat × Nat) :=
  if which == "sim" then specJaccard x y
  else if isOk (checkCompatible x y) && !x.mins.isEmpty then
    some (SimilaritySpec.containmentPair x.mins y.mins)
  else none

def cmpSpecF (which : String) (p : Nat × Nat) : Float :=
  if which == "sim" then jaccardTail p.1 p.2 else containmentTail p.1 p.2

def stepC05 (st : St) (ws : List String) : St × Resp :=
  match ws with
  | "case" :: _ => (st, { model := "ok" })
  | ["sk", w, sc, num, k, hf, seed, tr, mins, ab] =>
    let s : Sketch := {
      num := num.toNat!, ksize := k.toNat!, hf := hfCode hf, seed := seed.toNat!,
      maxHash := Scaled.maxHashForScaled sc.toNat!, mins := natList mins,
      abunds := if tr == "1" then some (natList ab) else none }
    let st := if w == "a" then { st with a := some s } else { st with b := some s }
    let r := "V:" ++ showSketch s ++ " T:" ++ showSketch s
    (st, { model := r, spec := r })
  | [op, c, o] =>
    match order st o with
    | none => (st, { model := "no-sketch" })
    | some (x, y) =>
      let c := container c
      if op == "isz" then
        (st, { model := match intersectionSize c x y with
                        | .ok p => showPair p
                        | .error e => showErr e,
               spec := match specPair x y with
                       | some p => showPair p
                       | none => "-" })
      else if op == "isect" then
        (st, { model := match intersection c x y with
                        | .ok (l, s) => showNats l ++ " " ++ toString s
                        | .error e => showErr e,
               spec := match specPair x y with
                       | some (_, s) =>
                         let i := SimilaritySpec.inter x.mins y.mins
                         let i := if x.num == 0 then i else
                           i.filter (fun h => (SimilaritySpec.bottom x.num (SimilaritySpec.union x.mins y.mins)).contains h)
                         showNats i ++ " " ++ toString s
                       | none => "-" })
      else if op == "jac" then
        (st, { model := match jaccardCore c x y with
                        | .ok r => showF (simTail r)
                        | .error e => showErr e,
               spec := match specJaccard x y with
                       | some (cm, s) => showF (jaccardTail cm s : Float)
                       | none => "-" })
      else if op == "jacx" then
        -- the same request as `jac`, answered by the exact integer model of binary64 division
        (st, { model := match jaccardCore c x y with
                        | .ok (.jaccard cm s) => jaccardExact cm s
                        | .ok r => showF (simTail r)
                        | .error e => showErr e,
               spec := match specJaccard x y with
                       | some (cm, s) => jaccardExact cm s
                       | none => "-" })
      else if op == "jacv" then
        (st, { model := match jaccardCore c x y with
                        | .ok r => let v : Float := simTail r; verdict v (v == 1.0) (v == 0.0)
                        | .error e => showErr e,
               spec := match specJaccard x y with
                       | some (cm, s) => "1 " ++ b01 (cm == s) ++ " " ++ b01 (cm == 0)
                       | none => "-" })
      else if op == "ang" then
        (st, { model := match angularCore c x y with
                        | .ok r => showF (simTail r)
                        | .error e => showErr e,
               spec := if !isOk (checkCompatible x y) then "-"
                       else match specTriple x y with
                         | some (p, a, b) => showF (angularTail p a b : Float)
                         | none => showErr .NeedsAbundanceTracking })
      else if op == "angin" || op == "angone" || op == "angzero" then
        let m := match angularCore c x y with
          | .ok r =>
            let v : Float := simTail r
            if op == "angin" then b01 (0.0 ≤ v && v ≤ 1.0)
            else if op == "angone" then b01 (Float.abs (v - 1.0) ≤ 1e-7)
            else b01 (v == 0.0)
          | .error e => showErr e
        let s := match specTriple x y with
          | some (p, a, b) =>
            if op == "angin" then "1"
            else if op == "angone" then
              -- equal, non-zero abundance vectors: the cosine is 1
              if x.mins == y.mins && x.abunds == y.abunds && a != 0 then "1" else "-"
            else if p == 0 || a == 0 || b == 0 then "1" else "-"
          | none => "-"
        (st, { model := m, spec := s })
      else (st, { model := "bad-op" })
  | ["cc", _, o, ds] =>
    match order st o with
    | none => (st, { model := "no-sketch" })
    | some (x, y) =>
      (st, { model := match countCommon x y (ds == "1") with
                      | .ok n => toString n ++ " " ++ toString x.size
                      | .error e => showErr e,
             spec := if isOk (checkCompatible x y) then showPair (SimilaritySpec.containmentPair x.mins y.mins) else "-" })
  | ["sim", c, o, ign, ds] =>
    match order st o with
    | none => (st, { model := "no-sketch" })
    | some (x, y) =>
      (st, { model := match similarityCore (container c) x y (ign == "1") (ds == "1") with
                      | .ok r => showF (simTail r)
                      | .error e => showErr e,
             spec := if isOk (checkCompatible x y) && x.tracked && y.tracked && ign != "1" then
                       -- both tracked, abundance not ignored: the angular definition, refusal impossible
                       specSim x y false
                     else specSim x y true })
  | [op, kind, which, o] =>
    match order st o with
    | none => (st, { model := "no-sketch" })
    | some (x, y) =>
      if kind == "large" then (st, { model := "PANIC" })   -- `unimplemented!()` for LargeMinHash
      else
      let m := cmpModel which x y
      let s := cmpSpec which x y
      if op == "cmp" then
        (st, { model := match m with | some v => showF v | none => "PANIC",
               spec := match s with | some p => showF (cmpSpecF which p) | none => "-" })
      else if op == "cmpv" then
        (st, { model := match m with | some v => verdict v (v == 1.0) (v == 0.0) | none => "PANIC",
               spec := match s with
                       | some (cm, n) => "1 " ++ b01 (cm == n) ++ " " ++ b01 (cm == 0)
                       | none => "-" })
      else (st, { model := "bad-op" })
  | ["search", kind, which, o, thr] =>
    match order st o with
    | none => (st, { model := "no-sketch" })
    | some (x, y) =>
      let t := Float.ofBits (UInt64.ofNat (thr.toNat!))
      let _ := kind
      (st, { model := match cmpModel which x y with
                      | some v => toString (decide (v > t))
                      | none => "PANIC",
             spec := match cmpSpec which x y with
                     | some p => toString (decide (cmpSpecF which p > t))
                     | none => "-" })
  | _ => (st, { model := "bad-op" })

def main : IO Unit := Driver.run ({} : St) stepC05
