import Driver.Common
import Sourmash.Model.Crash
import Sourmash.Spec.Crash
/-! C10 driver: the crash / resume / reopen model of the on-disk index against the real code.

Model column: the durable state and the answers the executable model (`Sourmash/Model/Crash.lean`,
single-threaded linearisation) predicts.  Spec column (final observations only): the reference
computed from the dataset lists alone (`Sourmash/Spec/Crash.lean`: `HASHES[h] = {d : h ∈ D_d}`, all
datasets processed, `|q ∩ D_d|`, greedy gather, the signatures themselves).  The property does not
constrain the incidental parts of an observation line (storage-spec string, number of STORAGE keys,
the per-step results of a reopen sequence); for those the spec column repeats the model's value.
For a crash state with more than one thread the interleaving is unknown: the harness reports the
verdict of the marker invariants (`inv-ok`), which is what the spec column demands.
`crashw i k js exact` forces one particular interleaving on the real code (the datasets `js` complete
and marked, then the first `k` writes of dataset `i`): the model column is the state after exactly
that prefix of that linearisation (`Crash.run` over `js.flatMap dsWrites ++ (dsWrites i).take k`).
EXTENSION histories (`stages=`, `mk`, `ext`): stage `j` is the collection of the first `n_j` datasets
with dataset `i` stored under location `o_j + i`; `mk` = `Crash.createSess`, `ext` = `Crash.extendSess`
(the model's `create` / `update` that keep the handle open), followed by `internalize` for a
memory-backed stage; the world the model reads external signatures from is the stage's own storage.
MULTI-STAGE crash histories (`hist=<n_0>[c][f][r],<n_1>…`): the state the build under test starts from is
the one after COMPLETED builds over the first `n_0 < n_1 < …` datasets, stage 0 by `createLog` on the
empty directory, a later stage by `openIdx` + `updateLog` (`c`: `createLog` on the directory as it is);
the flush / read-only open after a stage changes nothing.  `settle <seq>` (open, flush, drop on a crash
state): each step `ok` iff `openIdx` succeeds, the durable state unchanged.  The killed build and its
re-runs are the `crash` / `resume` lines of the single-stage cases; what is demanded of the re-run is the
reference state of the whole collection.
The name a signature is printed with is the dataset's position (what the specification demands); the
hashes come from the model's `sig_for_dataset`. -/
open Driver Crash

structure DState where
  coll : Coll := []
  base : Nat := 0
  update : Bool := false
  threads : Nat := 1
  q : List Nat := []
  sess : Sess := { disk := Disk.empty }
  /-- the last build on the directory ran to completion (the property speaks about such indexes only) -/
  complete : Bool := false
  /-- every dataset of the case line (`st.coll` is the collection the index is currently built over) -/
  all : Coll := []
  /-- `stages=`: (number of datasets, location offset) -/
  stages : List (Nat × Nat) := []
  /-- `hist=`: (number of datasets, built by `create`) -/
  hist : List (Nat × Bool) := []

def parseColl (s : String) : Coll :=
  let ds := (s.splitOn "/").map natList
  (List.range ds.length).zip ds |>.map (fun p => { loc := p.1, hashes := p.2 })

def world (c : Coll) : World := c.map (fun d => (d.loc, d.hashes))

def rtId : Manifest → Option Manifest := some

def specStr : Option Spec → String
  | none => "-"
  | some .fs => "fs://"
  | some .rocksdb => "rocksdb://"

/-- `h:ids;…` from the lexicographically sorted graph -/
def showGraph (H : List (Nat × Nat)) : String :=
  let groups := H.foldl (fun (acc : List (Nat × List Nat)) p =>
    match acc with
    | (h, ids) :: rest => if h == p.1 then (h, ids ++ [p.2]) :: rest else (p.1, [p.2]) :: acc
    | [] => [(p.1, [p.2])]) []
  if groups.isEmpty then "-" else
  ";".intercalate (groups.reverse.map (fun g => toString g.1 ++ ":" ++ showNats g.2))

def optNat : Option Nat → String
  | none => "-"
  | some n => toString n

def showScan (d : Disk) : String :=
  "H=" ++ showGraph d.hashes ++ " P=" ++ (match d.processed with | none => "none" | some p => showNats p)
    ++ " M=" ++ optNat d.version ++ "/" ++ optNat (d.manifest.map List.length) ++ "/" ++ specStr d.spec
    ++ " X=" ++ toString d.storage.keys.length

def showCounter (c : List (Nat × Nat)) : String :=
  if c.isEmpty then "-" else ",".intercalate (c.map (fun e => toString e.1 ++ ":" ++ toString e.2))

def showGather (g : Option (List (Nat × Nat × Nat))) : String :=
  match g with
  | none => "PANIC"
  | some [] => "-"
  | some l => ",".intercalate (l.map (fun e => "d" ++ toString e.1 ++ ":" ++ toString e.2.1 ++ ":" ++ toString e.2.2))

/-- per dataset position `i`: the name the specification demands (`d<i>`), the hashes handed out -/
def showSigs (l : List (Option (Nat × Sketch))) : String :=
  if l.isEmpty then "-" else
  ";".intercalate (l.map (fun e => match e with
    | none => "err"
    | some (i, sk) => "d" ++ toString i ++ ":" ++ showNats sk ++ ":md5ok"))

/-- C, G, S through a handle -/
def answers (st : DState) (h : Handle) : String :=
  let d := st.sess.disk
  let w := world st.coll
  let sig := sigFor w d h
  let sigs := (List.range h.manifest.length).map (fun i =>
    match h.manifest[i]?, sig i with
    | some _, some sk => some (i, sk)
    | _, _ => none)
  match gather d.hashes sig st.q with
  | none => "PANIC"      -- `sig_for_dataset` of an id the manifest does not have: index out of bounds
  | some g =>
    "C=" ++ showCounter (counterFor d.hashes st.q) ++ " G=" ++ showGather (some g) ++ " S=" ++ showSigs sigs

def observe (st : DState) : String :=
  let ans := match st.sess.handle with
    | some h => answers st h
    | none => match openIdx rtId st.sess.disk true with
      | some h => answers st h
      | none => "open-err"
  if ans == "PANIC" then "PANIC" else showScan st.sess.disk ++ " " ++ ans

/-- the reference observation: semantic fields from the dataset lists, incidental ones from the model -/
def refObserve (st : DState) : String :=
  let c := st.coll
  let d := st.sess.disk
  let n := c.length
  let h := (refKeys c).map (fun h => toString h ++ ":" ++ showNats (refAt c h))
  let g := refGather c st.q (n + 1) (List.range n) st.q []
  "H=" ++ (if h.isEmpty then "-" else ";".intercalate h)
    ++ " P=" ++ (if n == 0 then "none" else showNats (List.range n))
    ++ " M=1/" ++ toString n ++ "/" ++ specStr d.spec ++ " X=" ++ toString d.storage.keys.length
    ++ " C=" ++ showCounter (refCounter c st.q) ++ " G=" ++ showGather (some g)
    ++ " S=" ++ showSigs ((List.range n).map (fun i => some (i, c.hashesOf i)))

/-- the writes of the build under test on the current directory (`none`: open / check_superset fails) -/
def buildLog (st : DState) : Option (List Write) :=
  if st.update then
    match openIdx rtId st.sess.disk false with
    | none => none
    | some h => updateLog h st.coll .fs
  else some (createLog st.sess.disk st.coll .fs)

def parseOp : String → Option ROp
  | "flush" => some .flush
  | "close" => some .close
  | "openro" => some .openRo
  | "openrw" => some .openRw
  | "intern" => some .intern
  | "move" => some .move
  | _ => none

def showRes : RRes → String
  | .ok => "ok" | .err => "err" | .closed => "closed" | .already => "already" | .isOpen => "open" | .panic => "PANIC"

def setField (st : DState) (w : String) : DState :=
  match w.splitOn "=" with
  | ["coll", v] => { st with coll := parseColl v }
  | ["base", v] => { st with base := v.toNat! }
  | ["via", v] => { st with update := v == "update" }
  | ["threads", v] => { st with threads := v.toNat! }
  | ["q", v] => { st with q := natList v }
  | ["stages", v] => { st with stages := (v.splitOn ",").filterMap (fun x =>
      match x.splitOn ":" with
      | [n, o] => some (n.toNat!, o.toNat!)
      | _ => none) }
  | ["hist", v] => { st with hist := (v.splitOn ",").map (fun x =>
      ((x.takeWhile Char.isDigit).toNat!, x.contains 'c')) }
  | _ => st

/-- the durable state after the completed builds of `hist=` (`none`: a stage cannot open the index or
`check_superset` refuses) -/
def histDisk (c : Coll) (hist : List (Nat × Bool)) : Option Disk :=
  (List.range hist.length).zip hist |>.foldl (fun (acc : Option Disk) (j, n, create) =>
    acc.bind (fun d =>
      let cj := c.take n
      if j == 0 || create then some (run d (createLog d cj .fs))
      else (openIdx rtId d false).bind (fun h => (updateLog h cj .fs).map (run d)))) (some Disk.empty)

/-- the collection of stage `j`: the first `n` datasets, dataset `i` under location `o + i` -/
def stageColl (st : DState) (j : Nat) : Option Coll :=
  st.stages[j]?.map (fun (n, o) =>
    (List.range (min n st.all.length)).map (fun i => { loc := o + i, hashes := st.all.hashesOf i }))

/-- `internalize_storage` right after a step over a memory-backed stage (`none` = it failed) -/
def internNow (c : Coll) (s : Sess) : Option Sess :=
  match s.handle with
  | none => some s
  | some h => (internalize (world c) s.disk h).map (fun (d, h') => { s with disk := d, handle := some h' })

def stepC10 (st : DState) (ws : List String) : DState × Resp :=
  match ws with
  | "case" :: _ :: params =>
    let st := params.foldl setField {}
    if !st.hist.isEmpty then
      match histDisk st.coll st.hist with
      | some d0 => ({ st with sess := { disk := d0 }, all := st.coll, base := (st.hist.getLast?.map (·.1)).getD 0 },
                    { model := "ok" })
      | none => (st, { model := "PANIC" })
    else
    let d0 := if st.base > 0 || st.update then
        run Disk.empty (createLog Disk.empty (st.coll.take st.base) .fs) else Disk.empty
    ({ st with sess := { disk := d0 }, all := st.coll }, { model := "ok" })
  | [op, j, kind] =>
    if op != "mk" && op != "ext" then (st, { model := "bad-op" }) else
    match stageColl st j.toNat! with
    | none => (st, { model := "no-stage" })
    | some c =>
      let mem := kind == "mem"
      let fin (st : DState) (r : String) : DState × Resp :=
        (st, { model := r ++ "|" ++ observe st, spec := if st.complete then r ++ "|" ++ refObserve st else "-" })
      if op == "mk" then
        let s1 := createSess st.sess c .fs
        match (if mem then internNow c s1 else some s1) with
        | some s2 => fin { st with sess := s2, coll := c, complete := true } "ok"
        | none => fin { st with sess := s1, coll := c, complete := true } "err-intern"
      else
        -- the stages are prefixes of one list of datasets: equal rows at equal positions
        match extendSess true st.sess c .fs with
        | (s1, .ok) =>
          (match (if mem then internNow c s1 else some s1) with
          | some s2 => fin { st with sess := s2, coll := c, complete := true } "ok"
          | none => fin { st with sess := s1, coll := c, complete := true } "err-intern")
        | (s1, .closed) => fin { st with sess := s1 } "closed"
        | (s1, .panic) => ({ st with sess := s1 }, { model := "PANIC" })
        | (s1, _) => fin { st with sess := s1 } "err"
  | ["crash", n] =>
    match buildLog st with
    | none => (st, { model := "child-failed:Some(101)" })
    | some log =>
      let d := crashAt st.sess.disk log n.toNat!
      let st := { st with sess := { st.sess with disk := d, handle := none }, complete := decide (log.length ≤ n.toNat!) }
      if st.threads == 1 then (st, { model := showScan d }) else (st, { model := "-", spec := "inv-ok" })
  | ["crashw", i, k, js, mode] =>
    match buildLog st with
    | none => (st, { model := "child-failed:Some(101)" })
    | some _ =>
      let js := if js == "-" then [] else (js.splitOn "+").filterMap String.toNat?
      -- a prefix of the linearisation "the datasets js one after the other, then dataset i"
      let log := js.flatMap (dsWrites st.coll) ++ (dsWrites st.coll i.toNat!).take k.toNat!
      let d := run st.sess.disk log
      let st := { st with sess := { st.sess with disk := d, handle := none }, complete := false }
      if mode == "exact" then (st, { model := showScan d }) else (st, { model := "-", spec := "inv-ok" })
  | ["crashn", _, _, _] =>
    -- natural timing: nothing is known about the state except the invariants (and the re-run's result)
    match buildLog st with
    | none => (st, { model := "child-failed:Some(101)" })
    | some _ => ({ st with sess := { st.sess with handle := none }, complete := false }, { model := "-", spec := "inv-ok" })
  | ["inv"] => (st, { model := "-", spec := "inv-ok" })
  | ["crashc", _] =>
    match buildLog st with
    | none => (st, { model := "child-failed:Some(101)" })
    | some log =>
      let d := run st.sess.disk log
      ({ st with sess := { st.sess with disk := d, handle := none }, complete := true }, { model := showScan d })
  | [op] =>
    if op == "resume" || op == "resumec" then
      match buildLog st with
      | none => (st, { model := "err" })
      | some log =>
        let st := { st with sess := { st.sess with disk := run st.sess.disk log, handle := none }, complete := true }
        (st, { model := observe st, spec := refObserve st })
    else if op == "obs" then (st, { model := observe st, spec := if st.complete then refObserve st else "-" })
    else (st, { model := "bad-op" })
  | ["settle", seq] =>
    let rs := (seq.splitOn ",").map (fun _ =>
      if (openIdx rtId st.sess.disk false).isSome then "ok" else "err")
    ({ st with sess := { st.sess with handle := none } },
      { model := ",".intercalate rs ++ "|" ++ showScan st.sess.disk })
  | ["reopen", seq] =>
    let ops := (seq.splitOn ",").filterMap parseOp
    let (s', rs) := reopenSeq rtId (world st.coll) st.sess ops
    let st := { st with sess := s' }
    let r := ",".intercalate (rs.map showRes)
    (st, { model := r ++ "|" ++ observe st, spec := if st.complete then r ++ "|" ++ refObserve st else "-" })
  | _ => (st, { model := "bad-op" })

def main : IO Unit := Driver.run ({} : DState) stepC10
