import Driver.Common
import Sourmash.Model.Select
import Sourmash.Model.Csv
import Sourmash.Model.Manifest
/-! C12 driver: records from signatures, manifests through CSV text, record look-up.
Model column = `Model/Csv.lean`, `Model/Manifest.lean`, `Model/Select.lean`;
spec column = what the property demands (records read back = records written; each record field =
the sketch's observable; a look-up returns the one sketch the record was built from). -/
open Driver Select Scaled

structure St where
  recs : List Record := []
  sigs : List Sig := []
  md5s : List (Sketch × Select.Bytes) := []

def seed0 : Nat := 1000

def molOfString (s : String) : Mol :=
  if s == "protein" then .protein else if s == "dayhoff" then .dayhoff else if s == "hp" then .hp else .dna
def molString : Mol → String
  | .dna => "dna" | .protein => "protein" | .dayhoff => "dayhoff" | .hp => "hp"

def optBytes (s : String) : Option Select.Bytes := if s == "~" then none else some (unhex s)

def showRecord (r : Record) : String :=
  ":".intercalate [hex r.internalLocation, hex r.md5, hex r.md5short, toString r.ksize, hex r.moltype,
    toString r.num, toString r.scaled, toString r.nHashes, (if r.withAbundance then "1" else "0"),
    hex r.name, hex r.filename]

def showRecords (l : List Record) : String :=
  if l.isEmpty then "-" else "|".intercalate (l.map showRecord)

def md5Lookup (t : List (Sketch × Select.Bytes)) (s : Sketch) : Select.Bytes :=
  match t.find? (fun p => p.1 == s) with
  | some p => p.2
  | none => []

def descr (md5 : Select.Bytes) (s : Sketch) : String :=
  "/".intercalate [toString (s.seed - seed0), toString s.ksize, molString s.mol, toString s.num,
    toString s.scaled, (if s.tracked then "1" else "0"), (match s.container with | .vec => "v" | .tree => "t"),
    toString s.mins.length, showNats s.mins, showNats s.abunds,
    String.fromUTF8! (ByteArray.mk md5.toArray)]

def pickIdx (st : St) (s : String) : List Record := (natList s).map (fun i => st.recs[i]!)

/-- spec of `from_sig`, field by field from the sketch's observables -/
def fromSigSpec (md5of : Sketch → Select.Bytes) (sg : Sig) (loc : Select.Bytes) : Option (List Record) :=
  let name? : Option Select.Bytes :=
    match sg.name, sg.filename with
    | some n, _ => some n
    | none, some f => some f
    | none, none => match sg.sketches with | [s] => some (md5of s) | _ => none
  match sg.sketches, name? with
  | [], _ => some []
  | _, none => none      -- the property says nothing: the code panics (name of a nameless multi-sketch signature)
  | sks, some nm => some (sks.map (fun s =>
      { internalLocation := loc, md5 := md5of s, md5short := (md5of s).take 8,
        ksize := if s.mol == .dna then s.ksize else s.ksize / 3,
        moltype := (match s.mol with | .dna => "DNA" | .protein => "protein" | .dayhoff => "dayhoff" | .hp => "hp").toUTF8.toList,
        num := s.num, scaled := s.scaled, nHashes := s.mins.length, withAbundance := s.tracked,
        name := nm, filename := sg.filename.getD [] }))

def stepC12 (st : St) (ws : List String) : St × Resp :=
  match ws with
  | "case" :: _ => ({}, { model := "ok" })
  | ["rec", loc, m5, m5s, k, mt, n, sc, nh, ab, nm, fnm] =>
    let r : Record :=
      { internalLocation := unhex loc
        md5 := unhex m5
        md5short := unhex m5s
        ksize := k.toNat!
        moltype := unhex mt
        num := n.toNat!
        scaled := sc.toNat!
        nHashes := nh.toNat!
        withAbundance := (ab == "1")
        name := unhex nm
        filename := unhex fnm }
    ({ st with recs := st.recs ++ [r] }, { model := "ok" })
  | ["write"] => (st, { model := hex (Manifest.toWriter st.recs) })
  | ["rt"] =>
    (st, { model := match Manifest.fromReader (Manifest.toWriter st.recs) with
                    | some l => showRecords l
                    | none => "err CsvError",
           spec := showRecords st.recs })
  | ["read", bs] =>
    (st, { model := match Manifest.fromReader (unhex bs) with
                    | some l => showRecords l
                    | none => "err CsvError" })
  | ["isect", a, b] =>
    let ra := pickIdx st a
    let rb := pickIdx st b
    -- spec: rows of `a` that agree with some row of `b` on every field but location/md5short, in order
    let same (x y : Record) : Bool :=
      decide ({ x with internalLocation := [], md5short := [] } = { y with internalLocation := [], md5short := [] })
    (st, { model := showRecords (Manifest.intersect ra rb),
           spec := showRecords (ra.filter (fun x => rb.any (same x))) })
  | ["sig", n, f] =>
    ({ st with sigs := st.sigs ++ [{ name := optBytes n, filename := optBytes f, sketches := [] }] }, { model := "ok" })
  | ["sk", k, m, n, sc, tr, c, mins, abunds, md5] =>
    match st.sigs.reverse with
    | [] => (st, { model := "bad-op" })
    | sg :: before =>
      let sk : Sketch :=
        { ksize := k.toNat!, mol := molOfString m, num := n.toNat!, maxHash := maxHashForScaled sc.toNat!,
          tracked := tr == "1", container := if c == "v" then .vec else .tree,
          seed := seed0 + sg.sketches.length, mins := natList mins, abunds := natList abunds }
      let sg' := { sg with sketches := sg.sketches ++ [sk] }
      let md5b := md5.toUTF8.toList
      ({ st with sigs := (sg' :: before).reverse, md5s := st.md5s ++ [(sk, md5b)] }, { model := descr md5b sk })
  | ["fromsig", i, loc] =>
    let sg := st.sigs[i.toNat!]!
    let md5of := md5Lookup st.md5s
    (st, { model := match fromSig md5of sg (unhex loc) with
                    | some l => showRecords l
                    | none => "PANIC",
           spec := match fromSigSpec md5of sg (unhex loc) with
                   | some l => showRecords l
                   | none => "-" })
  | ["lookup", i] =>
    let i := i.toNat!
    let md5of := md5Lookup st.md5s
    let flat := (st.sigs.zipIdx.map (fun (sg, si) => sg.sketches.map (fun s => (si, s)))).flatten
    let spec := match flat[i]? with
      | some (si, s) => toString si ++ "=" ++ descr (md5of s) s
      | none => "-"
    match Collection.fromSigs md5of st.sigs with
    | none => (st, { model := "PANIC" })
    | some c =>
      let model := match c.sigForDataset i with
        | none => "PANIC"
        | some (.error _) => "err"
        | some (.ok sg) =>
          String.fromUTF8! (ByteArray.mk ((c.manifest[i]!).internalLocation.toArray)) ++ "=" ++
            (if sg.sketches.isEmpty then "-" else ";".intercalate (sg.sketches.map (fun s => descr (md5of s) s)))
      (st, { model := model, spec := spec })
  | ["zipcheck", _] => (st, { model := "-", spec := "faithful" })
  | _ => (st, { model := "bad-op" })

def main : IO Unit := Driver.run ({} : St) stepC12
