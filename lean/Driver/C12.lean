import Driver.Common
import Sourmash.Model.Select
import Sourmash.Model.Csv
import Sourmash.Model.Manifest
/-! C12 driver: records from signatures, manifests through CSV text, record look-up.
Model column = `Model/Csv.lean`, `Model/Manifest.lean`, `Model/Select.lean`;
spec column = what the property demands (records read back = records written; each record field =
the sketch's observable; a look-up returns the one sketch the record was built from).

`lookup i <backend>`: the same collection over filesystem / zip / RocksDB storage.  Storage only
changes `load`: the model is `Collection.fromSigs` / `sigForDataset` over the signatures *as the
storage hands them back* — a signature travels through its JSON form, which has one sketch type
(`LargeMinHash` comes back as `MinHash`) and whose reader drops `num` when `max_hash ≠ 0`
(`stored`); `rdb` first needs a `CollectionSet` (`collectionSetCheck`).  Locations are reported as
the signature's position, as memory storage names them.  `fsm` (all signatures in ONE file):
`Storage::load_sig` keeps the first signature of the file (`swap_remove(0)`), whatever the record.

`mcsv` + `lookup i csv|csvzip`: the manifest is what `Manifest::from_reader` makes of a document that
was not written by this crate (respelled molecule types / booleans / integers, other column order);
the spec column still demands the sketch the row describes.  `readm`: the records read replace the
case's manifest, so `isect` / `cisect` / `superset` are also asked of records that came out of the
reader.  Spec of `isect` / `cisect` / `superset`: two records are *the same record* when they agree
in every column except `internal_location` / `md5short`, the molecule type compared as
`Record::moltype()` reports it (the raw column has no other observer). -/
open Driver Select Scaled

structure St where
  recs : List Record := []
  sigs : List Sig := []
  md5s : List (Sketch × Select.Bytes) := []
  /-- rows read by `mcsv` (locations already reduced to the signature's position), and for each row
      the flat index of the sketch it describes -/
  csv : Option (List Record × List Nat) := none

def seed0 : Nat := 1000

def molOfString (s : String) : Mol :=
  if s == "protein" then .protein else if s == "dayhoff" then .dayhoff else if s == "hp" then .hp else .dna
def molString : Mol → String
  | .dna => "dna" | .protein => "protein" | .dayhoff => "dayhoff" | .hp => "hp"

def optBytes (s : String) : Option Select.Bytes := if s == "~" then none else some (unhex s)

def showRecord (r : Record) : String :=
  ":".intercalate [hex r.internalLocation, hex r.md5, hex r.md5short, toString r.ksize, hex r.moltype,
    toString r.num, toString r.scaled, toString r.nHashes, (if r.withAbundance then "1" else "0"),
    hex r.name, hex r.filename]

def showRecords (l : List Record) : String :=
  if l.isEmpty then "-" else "|".intercalate (l.map showRecord)

def md5Lookup (t : List (Sketch × Select.Bytes)) (s : Sketch) : Select.Bytes :=
  match t.find? (fun p => p.1 == s) with
  | some p => p.2
  | none => []

def descr (md5 : Select.Bytes) (s : Sketch) : String :=
  "/".intercalate [toString (s.seed - seed0), toString s.ksize, molString s.mol, toString s.num,
    toString s.scaled, (if s.tracked then "1" else "0"), (match s.container with | .vec => "v" | .tree => "t"),
    toString s.mins.length, showNats s.mins, showNats s.abunds,
    String.fromUTF8! (ByteArray.mk md5.toArray)]

/-- `signatures/d<i>.sig` → `<i>` (what the harness prints, and what memory storage uses as key) -/
def canonLoc (b : Select.Bytes) : Select.Bytes :=
  let pre := "signatures/d".toUTF8.toList
  let suf := ".sig".toUTF8.toList
  if b.take pre.length == pre && b.drop (b.length - suf.length) == suf && b.length > pre.length + suf.length then
    (b.drop pre.length).take (b.length - pre.length - suf.length)
  else b

/-- spec-level "the same record": every column but location / md5short, the molecule type as
    `Record::moltype()` parses it (a name it does not know: as it lower-cases it before it gives up) -/
def sameRec (x y : Record) : Bool :=
  let strip (r : Record) : Record := { r with internalLocation := [], md5short := [], moltype := [] }
  decide (strip x = strip y) &&
    (match x.mol?, y.mol? with
     | some a, some b => decide (a = b)
     | _, _ => x.moltype.map asciiLower == y.moltype.map asciiLower)

def pickIdx (st : St) (s : String) : List Record := (natList s).map (fun i => st.recs[i]!)

/-- spec of `from_sig`, field by field from the sketch's observables -/
def fromSigSpec (md5of : Sketch → Select.Bytes) (sg : Sig) (loc : Select.Bytes) : Option (List Record) :=
  let name? : Option Select.Bytes :=
    match sg.name, sg.filename with
    | some n, _ => some n
    | none, some f => some f
    | none, none => match sg.sketches with | [s] => some (md5of s) | _ => none
  match sg.sketches, name? with
  | [], _ => some []
  | _, none => none      -- the property says nothing: the code panics (name of a nameless multi-sketch signature)
  | sks, some nm => some (sks.map (fun s =>
      { internalLocation := loc, md5 := md5of s, md5short := (md5of s).take 8,
        ksize := if s.mol == .dna then s.ksize else s.ksize / 3,
        moltype := (match s.mol with | .dna => "DNA" | .protein => "protein" | .dayhoff => "dayhoff" | .hp => "hp").toUTF8.toList,
        num := s.num, scaled := s.scaled, nHashes := s.mins.length, withAbundance := s.tracked,
        name := nm, filename := sg.filename.getD [] }))

/-- a sketch after `serde_json` out and in again (`impl Deserialize for KmerMinHash`) -/
def stored (s : Sketch) : Sketch :=
  { s with container := .vec, num := if s.maxHash != 0 then 0 else s.num }
def storedSig (sg : Sig) : Sig := { sg with sketches := sg.sketches.map stored }

def showLookup (md5of : Sketch → Select.Bytes) (c : Collection) (i : Nat) : String :=
  match c.sigForDataset i with
  | none => "PANIC"
  | some (.error _) => "err"
  | some (.ok sg) =>
    String.fromUTF8! (ByteArray.mk ((c.manifest[i]!).internalLocation.toArray)) ++ "=" ++
      (if sg.sketches.isEmpty then "-" else ";".intercalate (sg.sketches.map (fun s => descr (md5of s) s)))

def showSelErr : Select.Err → String
  | .CannotUpsampleScaled => "err CannotUpsampleScaled"
  | .MismatchKSizes => "err MismatchKSizes"
  | .MismatchDNAProt => "err MismatchDNAProt"

/-- manifest and storage of a collection whose signatures sit in files / zip entries / database
values, one signature per location: the records come from `Record::from_sig` (which panics on a
nameless signature with several sketches); a signature is turned into a `SigStore` (which evaluates
its name) only when it is loaded -/
def storedParts (md5of : Sketch → Select.Bytes) : Nat → List Sig → Option (List Record × List (Select.Bytes × Sig))
  | _, [] => some ([], [])
  | i, s :: rest =>
    match fromSig md5of s (natBytes i), storedParts md5of (i + 1) rest with
    | some recs, some (rs, sts) => some (recs ++ rs, (natBytes i, s) :: sts)
    | _, _ => none

/-- look-up in a collection over a non-memory storage -/
def lookupStored (st : St) (i : Nat) (be : String) : Resp :=
  let tbl := st.md5s ++ st.md5s.map (fun p => (stored p.1, p.2))
  let md5of := md5Lookup tbl
  let sigs := st.sigs.map storedSig
  let flat := (sigs.zipIdx.map (fun (sg, si) => sg.sketches.map (fun s => (si, s)))).flatten
  match storedParts md5of 0 sigs with
  | none => { model := "PANIC" }
  | some (recs, sts) =>
    if be == "csv" || be == "csvzip" then
      match st.csv with
      | none => { model := "err CsvError" }
      | some (rows, map) =>
        let spec := match (map[i]?).bind (fun j => flat[j]?) with
          | some (si, s) => toString si ++ "=" ++ descr (md5of s) s
          | none => "-"
        if be == "csvzip" then
          { model := showLookup md5of { manifest := rows, storage := sts } i, spec := spec }
        else
          -- memory storage: the signatures as they are, turned into `SigStore`s when saved
          let flat0 := (st.sigs.zipIdx.map (fun (sg, si) => sg.sketches.map (fun s => (si, s)))).flatten
          let spec0 := match (map[i]?).bind (fun j => flat0[j]?) with
            | some (si, s) => toString si ++ "=" ++ descr (md5of s) s
            | none => "-"
          match Collection.fromSigs md5of st.sigs with
          | none => { model := "PANIC" }
          | some c => { model := showLookup md5of { c with manifest := rows } i, spec := spec0 }
    else
    if be == "fsm" then
      -- one file: every record points at it, `load_sig` returns its first signature
      let c' : Collection :=
        { manifest := recs.map (fun r => { r with internalLocation := natBytes 0 }),
          storage := match sts with | [] => [] | p :: _ => [(natBytes 0, p.2)] }
      let loadable := match sts with | [] => true | p :: _ => (sigStoreOf md5of p.2).isSome
      { model := if loadable then showLookup md5of c' i else "PANIC",
        spec := match flat[i]? with
          | some (_, s) => "0=" ++ descr (md5of s) s
          | none => "-" }
    else
    let c : Collection := { manifest := recs, storage := sts }
    let spec := match flat[i]? with
      | some (si, s) => toString si ++ "=" ++ descr (md5of s) s
      | none => "-"
    if be == "rdb" then
      match collectionSetCheck c.manifest with
      | .error e => { model := showSelErr e }      -- no such collection: the property says nothing
      | .ok () => { model := showLookup md5of c i, spec := spec }
    else { model := showLookup md5of c i, spec := spec }

def stepC12 (st : St) (ws : List String) : St × Resp :=
  match ws with
  | "case" :: _ => ({}, { model := "ok" })
  | ["rec", loc, m5, m5s, k, mt, n, sc, nh, ab, nm, fnm] =>
    let r : Record :=
      { internalLocation := unhex loc
        md5 := unhex m5
        md5short := unhex m5s
        ksize := k.toNat!
        moltype := unhex mt
        num := n.toNat!
        scaled := sc.toNat!
        nHashes := nh.toNat!
        withAbundance := (ab == "1")
        name := unhex nm
        filename := unhex fnm }
    ({ st with recs := st.recs ++ [r] }, { model := "ok" })
  | ["write"] => (st, { model := hex (Manifest.toWriter st.recs) })
  | ["rt"] =>
    (st, { model := match Manifest.fromReader (Manifest.toWriter st.recs) with
                    | some l => showRecords l
                    | none => "err CsvError",
           spec := showRecords st.recs })
  | ["read", bs] =>
    (st, { model := match Manifest.fromReader (unhex bs) with
                    | some l => showRecords l
                    | none => "err CsvError" })
  | ["readm", bs] =>
    (match Manifest.fromReader (unhex bs) with
     | some l => ({ st with recs := l }, { model := showRecords l })
     | none => (st, { model := "err CsvError" }))
  | ["mcsv", doc, map] =>
    (match Manifest.fromReader (unhex doc) with
     | some l =>
       ({ st with csv := some (l.map (fun r => { r with internalLocation := canonLoc r.internalLocation }), natList map) },
        { model := showRecords l })
     | none => (st, { model := "err CsvError" }))
  | [op, a, b] =>
    if op == "isect" || op == "cisect" then
      let ra := pickIdx st a
      let rb := pickIdx st b
      -- spec: rows of `a` that are the same record as some row of `b`, in order
      (st, { model := showRecords (Manifest.intersect ra rb),
             spec := showRecords (ra.filter (fun x => rb.any (sameRec x))) })
    else if op == "superset" then
      let ra := pickIdx st a
      let rb := pickIdx st b
      (st, { model := match Manifest.checkSuperset ra rb with
                      | some n => "ok " ++ toString n
                      | none => "err MismatchKSizes",
             spec := if (ra.zip rb).all (fun p => sameRec p.1 p.2) then "ok " ++ toString ra.length
                     else "err MismatchKSizes" })
    else if op == "lookup" then (st, lookupStored st a.toNat! b)
    else if op == "fromsig" then
      let sg := st.sigs[a.toNat!]!
      let md5of := md5Lookup st.md5s
      (st, { model := match fromSig md5of sg (unhex b) with
                      | some l => showRecords l
                      | none => "PANIC",
             spec := match fromSigSpec md5of sg (unhex b) with
                     | some l => showRecords l
                     | none => "-" })
    else if op == "sig" then
      ({ st with sigs := st.sigs ++ [{ name := optBytes a, filename := optBytes b, sketches := [] }] }, { model := "ok" })
    else (st, { model := "bad-op" })
  | ["sk", k, m, n, sc, tr, c, mins, abunds, md5] =>
    match st.sigs.reverse with
    | [] => (st, { model := "bad-op" })
    | sg :: before =>
      let sk : Sketch :=
        { ksize := k.toNat!, mol := molOfString m, num := n.toNat!, maxHash := maxHashForScaled sc.toNat!,
          tracked := tr == "1", container := if c == "v" then .vec else .tree,
          seed := seed0 + sg.sketches.length, mins := natList mins, abunds := natList abunds }
      let sg' := { sg with sketches := sg.sketches ++ [sk] }
      let md5b := md5.toUTF8.toList
      ({ st with sigs := (sg' :: before).reverse, md5s := st.md5s ++ [(sk, md5b)] }, { model := descr md5b sk })
  | ["lookup", i] =>
    let i := i.toNat!
    let md5of := md5Lookup st.md5s
    let flat := (st.sigs.zipIdx.map (fun (sg, si) => sg.sketches.map (fun s => (si, s)))).flatten
    let spec := match flat[i]? with
      | some (si, s) => toString si ++ "=" ++ descr (md5of s) s
      | none => "-"
    match Collection.fromSigs md5of st.sigs with
    | none => (st, { model := "PANIC" })
    | some c =>
      let model := match c.sigForDataset i with
        | none => "PANIC"
        | some (.error _) => "err"
        | some (.ok sg) =>
          String.fromUTF8! (ByteArray.mk ((c.manifest[i]!).internalLocation.toArray)) ++ "=" ++
            (if sg.sketches.isEmpty then "-" else ";".intercalate (sg.sketches.map (fun s => descr (md5of s) s)))
      (st, { model := model, spec := spec })
  | ["zipcheck", _] => (st, { model := "-", spec := "faithful" })
  | _ => (st, { model := "bad-op" })

def main : IO Unit := Driver.run ({} : St) stepC12
