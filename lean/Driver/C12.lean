import Driver.Common
import Sourmash.Model.Select
import Sourmash.Spec.Select
import Sourmash.Model.Csv
import Sourmash.Model.Manifest
/-! C12 driver: records from signatures, manifests through CSV text, record look-up.
Model column = `Model/Csv.lean`, `Model/Manifest.lean`, `Model/Select.lean`;
spec column = what the property demands (records read back = records written; each record field =
the sketch's observable; a look-up returns the one sketch the record was built from).

`lookup i <backend>`: the same collection over filesystem / zip / RocksDB storage.  Storage only
changes `load`: the model is `Collection.fromSigs` / `sigForDataset` over the signatures *as the
storage hands them back* — a signature travels through its JSON form, which has one sketch type
(`LargeMinHash` comes back as `MinHash`) and whose reader drops `num` when `max_hash ≠ 0`
(`stored`); `rdb` first needs a `CollectionSet` (`collectionSetCheck`).  Locations are reported as
the signature's position, as memory storage names them.  `fsm` (all signatures in ONE file):
`Storage::load_sig` keeps the first signature of the file (`swap_remove(0)`), whatever the record.

`mcsv` + `lookup i csv|csvzip`: the manifest is what `Manifest::from_reader` makes of a document that
was not written by this crate (respelled molecule types / booleans / integers, other column order);
the spec column still demands the sketch the row describes.  `readm`: the records read replace the
case's manifest, so `isect` / `cisect` / `superset` are also asked of records that came out of the
reader.  Spec of `isect` / `cisect` / `superset`: two records are *the same record* when they agree
in every column except `internal_location` / `md5short`, the molecule type compared as
`Record::moltype()` reports it (the raw column has no other observer). -/
open Driver Select Scaled

structure St where
  recs : List Record := []
  sigs : List Sig := []
  md5s : List (Sketch × Select.Bytes) := []
  /-- rows read by `mcsv` (locations already reduced to the signature's position), and for each row
      the flat index of the sketch it describes -/
  csv : Option (List Record × List Nat) := none
  /-- histories: backend of `hnew`; per slot the model's current manifest (rows with their position
      in the original manifest) and, independently, the positions the SPECIFICATION says are left -/
  hbe : String := ""
  slots : List (Option (List (Nat × Record) × List Nat)) := [none, none, none]

def seed0 : Nat := 1000

def molOfString (s : String) : Mol :=
  if s == "protein" then .protein else if s == "dayhoff" then .dayhoff else if s == "hp" then .hp else .dna
def molString : Mol → String
  | .dna => "dna" | .protein => "protein" | .dayhoff => "dayhoff" | .hp => "hp"

def optBytes (s : String) : Option Select.Bytes := if s == "~" then none else some (unhex s)

def showRecord (r : Record) : String :=
  ":".intercalate [hex r.internalLocation, hex r.md5, hex r.md5short, toString r.ksize, hex r.moltype,
    toString r.num, toString r.scaled, toString r.nHashes, (if r.withAbundance then "1" else "0"),
    hex r.name, hex r.filename]

def showRecords (l : List Record) : String :=
  if l.isEmpty then "-" else "|".intercalate (l.map showRecord)

def md5Lookup (t : List (Sketch × Select.Bytes)) (s : Sketch) : Select.Bytes :=
  match t.find? (fun p => p.1 == s) with
  | some p => p.2
  | none => []

def descr (md5 : Select.Bytes) (s : Sketch) : String :=
  "/".intercalate [toString (s.seed - seed0), toString s.ksize, molString s.mol, toString s.num,
    toString s.scaled, (if s.tracked then "1" else "0"), (match s.container with | .vec => "v" | .tree => "t"),
    toString s.mins.length, showNats s.mins, showNats s.abunds,
    String.fromUTF8! (ByteArray.mk md5.toArray)]

/-- `signatures/d<i>.sig` → `<i>` (what the harness prints, and what memory storage uses as key) -/
def canonLoc (b : Select.Bytes) : Select.Bytes :=
  let pre := "signatures/d".toUTF8.toList
  let suf := ".sig".toUTF8.toList
  if b.take pre.length == pre && b.drop (b.length - suf.length) == suf && b.length > pre.length + suf.length then
    (b.drop pre.length).take (b.length - pre.length - suf.length)
  else b

/-- spec-level "the same record": every column but location / md5short, the molecule type as
    `Record::moltype()` parses it (a name it does not know: as it lower-cases it before it gives up) -/
def sameRec (x y : Record) : Bool :=
  let strip (r : Record) : Record := { r with internalLocation := [], md5short := [], moltype := [] }
  decide (strip x = strip y) &&
    (match x.mol?, y.mol? with
     | some a, some b => decide (a = b)
     | _, _ => x.moltype.map asciiLower == y.moltype.map asciiLower)

def pickIdx (st : St) (s : String) : List Record := (natList s).map (fun i => st.recs[i]!)

/-- spec of `from_sig`, field by field from the sketch's observables -/
def fromSigSpec (md5of : Sketch → Select.Bytes) (sg : Sig) (loc : Select.Bytes) : Option (List Record) :=
  let name? : Option Select.Bytes :=
    match sg.name, sg.filename with
    | some n, _ => some n
    | none, some f => some f
    | none, none => match sg.sketches with | [s] => some (md5of s) | _ => none
  match sg.sketches, name? with
  | [], _ => some []
  | _, none => none      -- the property says nothing: the code panics (name of a nameless multi-sketch signature)
  | sks, some nm => some (sks.map (fun s =>
      { internalLocation := loc, md5 := md5of s, md5short := (md5of s).take 8,
        ksize := if s.mol == .dna then s.ksize else s.ksize / 3,
        moltype := (match s.mol with | .dna => "DNA" | .protein => "protein" | .dayhoff => "dayhoff" | .hp => "hp").toUTF8.toList,
        num := s.num, scaled := s.scaled, nHashes := s.mins.length, withAbundance := s.tracked,
        name := nm, filename := sg.filename.getD [] }))

/-- a sketch after `serde_json` out and in again (`impl Deserialize for KmerMinHash`) -/
def stored (s : Sketch) : Sketch :=
  { s with container := .vec, num := if s.maxHash != 0 then 0 else s.num }
def storedSig (sg : Sig) : Sig := { sg with sketches := sg.sketches.map stored }

def showLookup (md5of : Sketch → Select.Bytes) (c : Collection) (i : Nat) : String :=
  match c.sigForDataset i with
  | none => "PANIC"
  | some (.error _) => "err"
  | some (.ok sg) =>
    String.fromUTF8! (ByteArray.mk ((c.manifest[i]!).internalLocation.toArray)) ++ "=" ++
      (if sg.sketches.isEmpty then "-" else ";".intercalate (sg.sketches.map (fun s => descr (md5of s) s)))

def showSelErr : Select.Err → String
  | .CannotUpsampleScaled => "err CannotUpsampleScaled"
  | .MismatchKSizes => "err MismatchKSizes"
  | .MismatchDNAProt => "err MismatchDNAProt"

/-- manifest and storage of a collection whose signatures sit in files / zip entries / database
values, one signature per location: the records come from `Record::from_sig` (which panics on a
nameless signature with several sketches); a signature is turned into a `SigStore` (which evaluates
its name) only when it is loaded -/
def storedParts (md5of : Sketch → Select.Bytes) : Nat → List Sig → Option (List Record × List (Select.Bytes × Sig))
  | _, [] => some ([], [])
  | i, s :: rest =>
    match fromSig md5of s (natBytes i), storedParts md5of (i + 1) rest with
    | some recs, some (rs, sts) => some (recs ++ rs, (natBytes i, s) :: sts)
    | _, _ => none

/-- look-up in a collection over a non-memory storage -/
def lookupStored (st : St) (i : Nat) (be : String) : Resp :=
  let tbl := st.md5s ++ st.md5s.map (fun p => (stored p.1, p.2))
  let md5of := md5Lookup tbl
  let sigs := st.sigs.map storedSig
  let flat := (sigs.zipIdx.map (fun (sg, si) => sg.sketches.map (fun s => (si, s)))).flatten
  match storedParts md5of 0 sigs with
  | none => { model := "PANIC" }
  | some (recs, sts) =>
    if be == "csv" || be == "csvzip" then
      match st.csv with
      | none => { model := "err CsvError" }
      | some (rows, map) =>
        let spec := match (map[i]?).bind (fun j => flat[j]?) with
          | some (si, s) => toString si ++ "=" ++ descr (md5of s) s
          | none => "-"
        if be == "csvzip" then
          { model := showLookup md5of { manifest := rows, storage := sts } i, spec := spec }
        else
          -- memory storage: the signatures as they are, turned into `SigStore`s when saved
          let flat0 := (st.sigs.zipIdx.map (fun (sg, si) => sg.sketches.map (fun s => (si, s)))).flatten
          let spec0 := match (map[i]?).bind (fun j => flat0[j]?) with
            | some (si, s) => toString si ++ "=" ++ descr (md5of s) s
            | none => "-"
          match Collection.fromSigs md5of st.sigs with
          | none => { model := "PANIC" }
          | some c => { model := showLookup md5of { c with manifest := rows } i, spec := spec0 }
    else
    if be == "fsm" then
      -- one file: every record points at it, `load_sig` returns its first signature
      let c' : Collection :=
        { manifest := recs.map (fun r => { r with internalLocation := natBytes 0 }),
          storage := match sts with | [] => [] | p :: _ => [(natBytes 0, p.2)] }
      let loadable := match sts with | [] => true | p :: _ => (sigStoreOf md5of p.2).isSome
      { model := if loadable then showLookup md5of c' i else "PANIC",
        spec := match flat[i]? with
          | some (_, s) => "0=" ++ descr (md5of s) s
          | none => "-" }
    else
    let c : Collection := { manifest := recs, storage := sts }
    let spec := match flat[i]? with
      | some (si, s) => toString si ++ "=" ++ descr (md5of s) s
      | none => "-"
    if be == "rdb" then
      match collectionSetCheck c.manifest with
      | .error e => { model := showSelErr e }      -- no such collection: the property says nothing
      | .ok () => { model := showLookup md5of c i, spec := spec }
    else { model := showLookup md5of c i, spec := spec }

/-! ### histories (`h…` lines)

One collection per slot.  Model: `Collection` = manifest + storage; `intersect_manifest` and `select`
replace the manifest, `clone` copies both, a storage swap keeps the content; every look-up is
`sigForDataset` / `sigFromRecord` on the manifest as it is NOW.  Specification: the rows left after
`hisect` are those that are the same record as one of the given rows, after `hsel` those whose sketch
satisfies the request; look-up `i` returns the sketch that the `i`-th row left was built from. -/

def parseSel (ws : List String) : Selection :=
  match ws with
  | [k, m, a, n, sc] =>
    { ksize := if k == "-" then none else some k.toNat!
      moltype := if m == "-" then none else some (molOfString m)
      abund := if a == "-" then none else some (a == "1")
      num := if n == "-" then none else some n.toNat!
      scaled := if sc == "-" then none else some sc.toNat! }
  | _ => {}

structure HistEnv where
  md5of : Sketch → Select.Bytes
  /-- the signatures as the backend's storage hands them back -/
  sigs : List Sig
  recs : List Record
  storage : List (Select.Bytes × Sig)
  /-- every sketch with the position of its signature, in manifest order, as the storage returns it -/
  flat : List (Nat × Sketch)
  /-- … and as the manifest was built from it (the zip's manifest is written by the harness from the
      signatures in memory, before they went through JSON) -/
  flatRec : List (Nat × Sketch)
  /-- the record the property demands for each sketch (`none`: it says nothing) -/
  specRecs : Option (List Record)

/-- the collection `hnew <be>` builds: `.error` = the answer when there is none -/
def histEnv (st : St) (be : String) : Except String HistEnv :=
  let tbl := st.md5s ++ st.md5s.map (fun p => (stored p.1, p.2))
  let md5of := md5Lookup tbl
  let sigs := if be == "mem" then st.sigs else st.sigs.map storedSig
  let flatOf (l : List Sig) := (l.zipIdx.map (fun (sg, si) => sg.sketches.map (fun s => (si, s)))).flatten
  let flat := flatOf sigs
  let recSigs := if be == "zip" then st.sigs else sigs
  let flatRec := flatOf recSigs
  let specRecs := (recSigs.zipIdx.map (fun (sg, si) => fromSigSpec md5of sg (natBytes si))).foldr
    (fun o acc => match o, acc with | some l, some r => some (l ++ r) | _, _ => none) (some [])
  if be == "mem" then
    match Collection.fromSigs md5of st.sigs with
    | none => .error "PANIC"
    | some c => .ok { md5of, sigs, recs := c.manifest, storage := c.storage, flat, flatRec, specRecs }
  else if be == "fs" || be == "zip" || be == "rdb" then
    match storedParts md5of 0 sigs, storedParts md5of 0 recSigs with
    | some (_, sts), some (recs, _) =>
      if be == "rdb" then
        match collectionSetCheck recs with
        | .error e => .error (showSelErr e)
        | .ok () =>
          -- building the index loads every dataset once (a look-up that panics takes the build with it)
          let c : Collection := { manifest := recs, storage := sts }
          if (List.range recs.length).any (fun i => (c.sigForDataset i).isNone) then .error "PANIC"
          else .ok { md5of, sigs, recs, storage := sts, flat, flatRec, specRecs }
      else .ok { md5of, sigs, recs, storage := sts, flat, flatRec, specRecs }
    | _, _ => .error "PANIC"
  else .error "bad-backend"

def showRows (l : List (Nat × Record)) : String := showRecords (l.map (·.2))

def showLoaded (md5of : Sketch → Select.Bytes) (loc : Select.Bytes) (r : Option (Except Select.Err Sig)) : String :=
  match r with
  | none => "PANIC"
  | some (.error e) => showSelErr e
  | some (.ok sg) =>
    String.fromUTF8! (ByteArray.mk loc.toArray) ++ "=" ++
      (if sg.sketches.isEmpty then "-" else ";".intercalate (sg.sketches.map (fun s => descr (md5of s) s)))

def setSlot (st : St) (a : Nat) (v : Option (List (Nat × Record) × List Nat)) : St :=
  { st with slots := st.slots.set a v }

def stepHist (st : St) (ws : List String) : St × Resp :=
  match ws with
  | ["hnew", be] =>
    let st := { st with hbe := be, slots := [none, none, none] }
    (match histEnv st be with
     | .error e => (st, { model := e })
     | .ok env =>
       let cur := env.recs.zipIdx.map (fun (r, p) => (p, r))
       (setSlot st 0 (some (cur, List.range env.recs.length)), { model := "ok " ++ toString env.recs.length }))
  | op :: a :: rest =>
    let a := a.toNat!
    match histEnv st st.hbe, (st.slots[a]?).join with
    | .ok env, some (cur, spos) =>
      if op == "hclone" then
        match rest with
        | [b] => (setSlot st b.toNat! (some (cur, spos)), { model := "ok" })
        | _ => (st, { model := "bad-op" })
      else if op == "hswap" then (st, { model := "ok" })
      else if op == "hisect" then
        match rest with
        | [l] =>
          let idx := natList l
          if idx.any (fun q => (env.recs[q]?).isNone) then (st, { model := "PANIC" }) else
          let other := idx.filterMap (fun q => env.recs[q]?)
          let cur' := cur.filter (fun (_, r) => other.any (fun q => Manifest.recEq r q))
          let spos' := spos.filter (fun p => match env.recs[p]? with
            | some r => other.any (sameRec r) | none => false)
          (setSlot st a (some (cur', spos')),
           { model := showRows cur', spec := showRecords (spos'.filterMap (fun p => env.recs[p]?)) })
        | _ => (st, { model := "bad-op" })
      else if op == "hsel" then
        let sel := parseSel rest
        let cur' := cur.filter (fun (_, r) => rowValid sel r)
        let spos' := spos.filter (fun p => match env.flatRec[p]? with
          | some (_, s) => satisfies sel s.described | none => false)
        (setSlot st a (some (cur', spos')),
         { model := showRows cur', spec := showRecords (spos'.filterMap (fun p => env.recs[p]?)) })
      else if op == "hiter" then
        let line (i : Nat) (loc md5 : Select.Bytes) : String :=
          toString i ++ ":" ++ String.fromUTF8! (ByteArray.mk loc.toArray) ++ ":" ++ String.fromUTF8! (ByteArray.mk md5.toArray)
        let model := cur.zipIdx.map (fun ((_, r), i) => line i r.internalLocation r.md5)
        let spec := spos.zipIdx.filterMap (fun (p, i) => (env.flat[p]?).map (fun (si, s) => line i (natBytes si) (env.md5of s)))
        (st, { model := if model.isEmpty then "-" else "|".intercalate model,
               spec := if spec.isEmpty then "-" else "|".intercalate spec })
      else
        match rest with
        | [i] =>
          let i := i.toNat!
          let c : Collection := { manifest := cur.map (·.2), storage := env.storage }
          let specSketch : String :=
            match (spos[i]?).bind (fun p => env.flat[p]?) with
            | some (si, s) =>
              let s := if op == "hlazy" then stored s else s
              toString si ++ "=" ++ descr (env.md5of s) s
            | none => "-"
          if op == "hget" || op == "hfr" then
            match c.manifest[i]? with
            | none => (st, { model := "PANIC" })
            | some r => (st, { model := showLoaded env.md5of r.internalLocation (c.sigFromRecord r), spec := specSketch })
          else if op == "hrec" then
            match c.manifest[i]? with
            | none => (st, { model := "PANIC" })
            | some r =>
              (st, { model := showRecord r,
                     spec := match (spos[i]?), env.specRecs with
                       | some p, some l => (match l[p]? with | some r => showRecord r | none => "-")
                       | _, _ => "-" })
          else if op == "hlazy" then
            match c.manifest[i]? with
            | none => (st, { model := "PANIC" })
            | some r =>
              -- a store that was not read yet: refused, read (through the JSON form, whatever the
              -- backend), selected
              let model :=
                match Selection.fromRecord r, loadSig c.storage r.internalLocation with
                | some sel, some sg =>
                  let s0 : Store := { data := none, backing := some (storedSig sg) }
                  (match s0.select sel with
                   | .ok s1 => (match s1.read with
                     | some (g, _) => showLoaded env.md5of r.internalLocation (some (.ok g))
                     | none => "err ReadDataError")
                   | .error _ =>
                     match s0.read with
                     | none => "err ReadDataError"
                     | some (_, s1) =>
                       match s1.select sel with
                       | .error e => showSelErr e
                       | .ok s2 => (match s2.read with
                         | some (g, _) => showLoaded env.md5of r.internalLocation (some (.ok g))
                         | none => "err ReadDataError"))
                | _, _ => "PANIC"
              (st, { model := model, spec := specSketch })
          else (st, { model := "bad-op" })
        | _ => (st, { model := "bad-op" })
    | .error e, some _ => (st, { model := e })
    | _, none => (st, { model := "none" })
  | _ => (st, { model := "bad-op" })

def isHistOp (op : String) : Bool :=
  ["hnew", "hclone", "hisect", "hsel", "hswap", "hget", "hfr", "hlazy", "hrec", "hiter"].contains op

def stepC12 (st : St) (ws : List String) : St × Resp :=
  if (ws.head?.map isHistOp).getD false then stepHist st ws else
  match ws with
  | "case" :: _ => ({}, { model := "ok" })
  | ["rec", loc, m5, m5s, k, mt, n, sc, nh, ab, nm, fnm] =>
    let r : Record :=
      { internalLocation := unhex loc
        md5 := unhex m5
        md5short := unhex m5s
        ksize := k.toNat!
        moltype := unhex mt
        num := n.toNat!
        scaled := sc.toNat!
        nHashes := nh.toNat!
        withAbundance := (ab == "1")
        name := unhex nm
        filename := unhex fnm }
    ({ st with recs := st.recs ++ [r] }, { model := "ok" })
  | ["write"] => (st, { model := hex (Manifest.toWriter st.recs) })
  | ["rt"] =>
    (st, { model := match Manifest.fromReader (Manifest.toWriter st.recs) with
                    | some l => showRecords l
                    | none => "err CsvError",
           spec := showRecords st.recs })
  | ["read", bs] =>
    (st, { model := match Manifest.fromReader (unhex bs) with
                    | some l => showRecords l
                    | none => "err CsvError" })
  | ["readm", bs] =>
    (match Manifest.fromReader (unhex bs) with
     | some l => ({ st with recs := l }, { model := showRecords l })
     | none => (st, { model := "err CsvError" }))
  | ["mcsv", doc, map] =>
    (match Manifest.fromReader (unhex doc) with
     | some l =>
       ({ st with csv := some (l.map (fun r => { r with internalLocation := canonLoc r.internalLocation }), natList map) },
        { model := showRecords l })
     | none => (st, { model := "err CsvError" }))
  | [op, a, b] =>
    if op == "isect" || op == "cisect" then
      let ra := pickIdx st a
      let rb := pickIdx st b
      -- spec: rows of `a` that are the same record as some row of `b`, in order
      (st, { model := showRecords (Manifest.intersect ra rb),
             spec := showRecords (ra.filter (fun x => rb.any (sameRec x))) })
    else if op == "superset" then
      let ra := pickIdx st a
      let rb := pickIdx st b
      (st, { model := match Manifest.checkSuperset ra rb with
                      | some n => "ok " ++ toString n
                      | none => "err MismatchKSizes",
             spec := if (ra.zip rb).all (fun p => sameRec p.1 p.2) then "ok " ++ toString ra.length
                     else "err MismatchKSizes" })
    else if op == "lookup" then (st, lookupStored st a.toNat! b)
    else if op == "fromsig" then
      let sg := st.sigs[a.toNat!]!
      let md5of := md5Lookup st.md5s
      (st, { model := match fromSig md5of sg (unhex b) with
                      | some l => showRecords l
                      | none => "PANIC",
             spec := match fromSigSpec md5of sg (unhex b) with
                     | some l => showRecords l
                     | none => "-" })
    else if op == "sig" then
      ({ st with sigs := st.sigs ++ [{ name := optBytes a, filename := optBytes b, sketches := [] }] }, { model := "ok" })
    else (st, { model := "bad-op" })
  | ["sk", k, m, n, sc, tr, c, mins, abunds, md5] =>
    match st.sigs.reverse with
    | [] => (st, { model := "bad-op" })
    | sg :: before =>
      let sk : Sketch :=
        { ksize := k.toNat!, mol := molOfString m, num := n.toNat!, maxHash := maxHashForScaled sc.toNat!,
          tracked := tr == "1", container := if c == "v" then .vec else .tree,
          seed := seed0 + sg.sketches.length, mins := natList mins, abunds := natList abunds }
      let sg' := { sg with sketches := sg.sketches ++ [sk] }
      let md5b := md5.toUTF8.toList
      ({ st with sigs := (sg' :: before).reverse, md5s := st.md5s ++ [(sk, md5b)] }, { model := descr md5b sk })
  | ["lookup", i] =>
    let i := i.toNat!
    let md5of := md5Lookup st.md5s
    let flat := (st.sigs.zipIdx.map (fun (sg, si) => sg.sketches.map (fun s => (si, s)))).flatten
    let spec := match flat[i]? with
      | some (si, s) => toString si ++ "=" ++ descr (md5of s) s
      | none => "-"
    match Collection.fromSigs md5of st.sigs with
    | none => (st, { model := "PANIC" })
    | some c =>
      let model := match c.sigForDataset i with
        | none => "PANIC"
        | some (.error _) => "err"
        | some (.ok sg) =>
          String.fromUTF8! (ByteArray.mk ((c.manifest[i]!).internalLocation.toArray)) ++ "=" ++
            (if sg.sketches.isEmpty then "-" else ";".intercalate (sg.sketches.map (fun s => descr (md5of s) s)))
      (st, { model := model, spec := spec })
  | ["zipcheck", _] => (st, { model := "-", spec := "faithful" })

  | _ => (st, { model := "bad-op" })

def main : IO Unit := Driver.run ({} : St) stepC12
