import Driver.Common
/-! C12 driver (stub: answers bad-op until the property's model is wired in). -/
open Driver

def stepC12 (s : Unit) (ws : List String) : Unit × Resp :=
  match ws with
  | "case" :: _ => (s, { model := "ok" })
  | _ => (s, { model := "bad-op" })

def main : IO Unit := Driver.run () stepC12
