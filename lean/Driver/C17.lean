import Driver.Common
import Sourmash.Model.HLL
import Sourmash.Model.HLLFloat
import Sourmash.Model.MinHash
import Sourmash.Model.Scaled
import Sourmash.Model.Murmur
import Sourmash.Spec.HLL
import Sourmash.Spec.Kmers
/-! C17 driver: HyperLogLog registers / merge / save-load.  Model column = `Model/HLL.lean`
(the thing the theorems of `Theorems/C17.lean` are about); spec column = `Spec/HLL.lean`:
every slot carries the register array the specification assigns to the multiset of hashes the
slot has received so far — `HllSpec.regs`, continued with `HllSpec.accum` over whatever arrives
later (directly, from a MinHash's mins, from a sequence's k-mers, by merge, through a save/load).
The two columns use different arithmetic: shifts / `leading_zeros` (model) against `%` / a search
for the first set bit (spec).

Estimates (`card`, `est`): a sketch's estimates are a function of its registers and nothing else.
Model column = the binary64 transcription of the estimator (`Model/HLLFloat.lean`, the one C18
compares bit for bit) on the MODEL's current registers; spec column = the same estimator on the
SPEC's current registers (the max-ρ-per-bucket array of everything the slot received so far) — an
answer computed before the latest add / update / merge / load does not pass. -/
open Driver Hll

/-- what the specification knows about a slot: the parameters it was created with and the
    max-ρ-per-bucket registers of every hash it has received -/
structure SpecSlot where
  p : Nat
  k : Nat
  regs : Array Nat

structure St where
  m : Array (Option H) := Array.replicate 8 none
  s : Array (Option SpecSlot) := Array.replicate 8 none

def rleNats (xs : List Nat) : String :=
  let flush (out : String) (v n : Nat) : String :=
    let out := if out.isEmpty then out else out.push ','
    if n == 1 then out ++ toString v else out ++ toString v ++ "*" ++ toString n
  let rec go (xs : List Nat) (v n : Nat) (out : String) : String :=
    match xs with
    | [] => flush out v n
    | x :: t => if x == v then go t v (n + 1) out else go t x 1 (flush out v n)
  match xs with
  | [] => "-"
  | x :: t => go t x 1 ""

def showRegs (p q k : Nat) (regs : Array Nat) : String :=
  s!"p={p} q={q} k={k} n={regs.size} regs={rleNats regs.toList}"

def hex16 (x : UInt64) : String :=
  String.ofList ((List.range 16).map (fun i => hexDigit ((x >>> (UInt64.ofNat (60 - 4 * i))).toNat % 16)))

/-- the register digest printed for sketches too large to dump -/
def digestRegs (p q k : Nat) (regs : Array Nat) : String :=
  let nz := regs.foldl (fun n r => if r == 0 then n else n + 1) 0
  let sum := regs.foldl (· + ·) 0
  let xor := regs.foldl (fun a r => a ^^^ r) 0
  let fnv := regs.foldl (fun (h : UInt64) r => (h ^^^ UInt64.ofNat r) * 0x00000100000001b3) 0xcbf29ce484222325
  let n := regs.size
  s!"p={p} q={q} k={k} n={n} nz={nz} sum={sum} xor={xor} fnv={hex16 fnv} first={showNats (regs.toList.take 8)} last={showNats (regs.toList.drop (n - 8))}"

def hRegs (h : H) : Array Nat := h.regs.map (·.toNat)
def showH (h : H) : String := showRegs h.p h.q h.ksize (hRegs h)
def digestH (h : H) : String := digestRegs h.p h.q h.ksize (hRegs h)
def showSpec (s : SpecSlot) : String := showRegs s.p (64 - s.p) s.k s.regs
def digestSpec (s : SpecSlot) : String := digestRegs s.p (64 - s.p) s.k s.regs

def nzH (h : H) : Nat := h.regs.foldl (fun n r => if r == 0 then n else n + 1) 0
def nzSpec (s : SpecSlot) : Nat := s.regs.foldl (fun n r => if r == 0 then n else n + 1) 0

def sortedSet (l : List Nat) : List Nat :=
  let a := l.toArray.qsort (· < ·)
  (a.foldl (fun (acc : List Nat) x => match acc with
    | y :: _ => if x == y then acc else x :: acc
    | [] => [x]) []).reverse

def loadErrName : LoadErr → String
  | .tooShort => "err NifflerError"
  | .badMagic => "PANIC"
  | .badVersion => "PANIC"
  | .shiftOverflow => "PANIC"
  | .eof => "err IOError"

/-! ### deterministic hash streams of `fill` (the same arithmetic as harness/src/bin/c17.rs) -/

def splitmix64 (i : UInt64) : UInt64 :=
  let z := i + 0x9E3779B97F4A7C15
  let z := (z ^^^ (z >>> 30)) * 0xBF58476D1CE4E5B9
  let z := (z ^^^ (z >>> 27)) * 0x94D049BB133111EB
  z ^^^ (z >>> 31)

def genHash (mode : String) (p : Nat) (seed i : UInt64) : UInt64 :=
  let x := splitmix64 (seed + i)
  let m : UInt64 := (1 : UInt64) <<< UInt64.ofNat p
  let b := i &&& (m - 1)
  if mode == "rnd" then x
  else if mode == "geo" then (x &&& ~~~(m - 1)) ||| b
  else
    let q : UInt64 := 64 - UInt64.ofNat p
    let r : UInt64 := (1 : UInt64) + (x >>> 8) % (q + 1)
    if r == q + 1 then b
    else
      let top : UInt64 := (1 : UInt64) <<< (64 - r)
      let low := ((x <<< 17) ||| (x >>> 47)) &&& (top - 1) &&& ~~~(m - 1)
      top ||| low ||| b

def genKeep (seed i : UInt64) (dens : Nat) : Bool :=
  dens ≥ 256 || decide ((splitmix64 (seed + i) &&& 255).toNat < dens)

def fillHashes (mode : String) (p seed n dens : Nat) : List Nat := Id.run do
  let mut out : Array Nat := Array.mkEmpty n
  for i in [0:n] do
    let iu := UInt64.ofNat i
    if genKeep (UInt64.ofNat seed) iu dens then
      out := out.push (genHash mode p (UInt64.ofNat seed) iu).toNat
  return out.toList

/-! ### MinHash side of `update` -/

/-- model: the mins the transcribed `KmerMinHash` / `KmerMinHashBTree` holds after `add_hash` of
    every hash in this order (`Model/MinHash.lean`, the model C01 is proved about) -/
def modelMins (kind : String) (num maxHash : Nat) (track : Bool) (hs : List Nat) : List Nat :=
  if kind == "tree" then (hs.foldl (fun s h => s.add h 1) (MH.Tree.new num maxHash track)).mins
  else (hs.foldl (fun s h => s.add h 1) (MH.Vec.new num maxHash track)).mins

/-- spec: a MinHash holds the distinct hashes not above its ceiling, the `num` smallest of them -/
def specMins (num maxHash : Nat) (hs : List Nat) : List Nat :=
  if num == 0 && maxHash == 0 then [] else
  let s := sortedSet hs
  let s := if maxHash == 0 then s else s.filter (· ≤ maxHash)
  if num == 0 then s else s.take num

/-- the hashes `add_sequence(seq, force)` feeds: one per valid k-mer (value 0 is skipped by the
    caller), and whether the call succeeds (`Spec/Kmers.lean`, property C02's statement) -/
def seqHashes (k : Nat) (force : Bool) (seq : String) : List Nat × Bool :=
  let bytes := if seq == "-" then [] else seq.toUTF8.toList
  let evs := Kmers.dnaStream k 42 force bytes
  (((Kmers.evHashes evs).filter (· != 0)).map (·.toNat), Kmers.evOk evs)

/-! ### state plumbing -/

/-- feed hashes into slot `d`: the model through `add`, the spec through `accum`.  The slots are
    emptied first so that the register arrays are updated in place. -/
def feed (st : St) (d : Nat) (hsModel hsSpec : List Nat) : St × Option Nat × Option Nat :=
  let (m, nzm) := match st.m[d]! with
    | some h =>
      let m := st.m.set! d none
      let h := h.update hsModel
      let nz := nzH h
      (m.set! d (some h), some nz)
    | none => (st.m, none)
  let (s, nzs) := match st.s[d]! with
    | some sp =>
      let s := st.s.set! d none
      let p := sp.p
      let sp := { sp with regs := HllSpec.accum p sp.regs hsSpec }
      let nz := nzSpec sp
      (s.set! d (some sp), some nz)
    | none => (st.s, none)
  ({ m := m, s := s }, nzm, nzs)

def nzResp (pre : String) (r : St × Option Nat × Option Nat) : St × Resp :=
  match r with
  | (st, some a, some b) => (st, { model := s!"{pre}nz={a}", spec := s!"{pre}nz={b}" })
  | (st, some a, none) => (st, { model := s!"{pre}nz={a}" })
  | (st, none, _) => (st, { model := "none" })

def mergeStep (st : St) (op : String) (d s : Nat) : St × Resp :=
  match st.m[d]!, st.m[s]! with
  | some x, some y =>
    -- the specification: same p and same k merge (register-wise max), anything else is refused
    -- and changes nothing
    let compat : Option Bool := match st.s[d]!, st.s[s]! with
      | some sd, some ss => some (sd.p == ss.p && sd.k == ss.k)
      | _, _ => none
    let s' := match compat, st.s[d]!, st.s[s]! with
      | some true, some sd, some ss => st.s.set! d (some { sd with regs := HllSpec.mergeRegs sd.regs ss.regs })
      | _, _, _ => st.s
    -- `merge` / `mergeffi` also report the receiver's number of non-zero registers afterwards: the
    -- specification's value is that of the register-wise max, WHATEVER way the argument came into
    -- being (built by add_hash, loaded from a file, cloned, converted from a MinHash)
    let okWord (nz : Nat) := if op == "refused" then "merged" else s!"ok nz={nz}"
    let specCol := match compat, s'[d]! with
      | some true, some sd => okWord (nzSpec sd)
      | some true, none => "-"
      | some false, _ => if op == "refused" then "refused unchanged" else "-"
      | none, _ => "-"
    match x.merge y with
    | .ok z => ({ m := st.m.set! d (some z), s := s' }, { model := okWord (nzH z), spec := specCol })
    | .error e => ({ st with s := s' },
                   { model := if op == "refused" then "refused unchanged" else "err " ++ e.name, spec := specCol })
  | _, _ => (st, { model := "none" })

/-- every save/load route: compression, the file system, the C entry points and the chunking of
    reads and writes are outside the model; all of them must hand `from_reader` exactly the bytes
    `save_to_writer` produced -/
def roundTrip (st : St) (d s : Nat) (fmtH : H → String) (fmtS : SpecSlot → String) : St × Resp :=
  match st.m[s]! with
  | some x =>
    let specCol := match st.s[s]! with
      | some sp => fmtS sp ++ " same=true"
      | none => "-"
    match load x.save with
    | .ok y => ({ m := st.m.set! d (some y), s := st.s.set! d st.s[s]! },
                { model := fmtH y ++ " same=" ++ toString (decide (y = x)), spec := specCol })
    | .error e => ({ m := st.m.set! d none, s := st.s.set! d none },
                   { model := loadErrName e, spec := specCol })
  | none => (st, { model := "none" })

def fbits (f : Float) : String := if f.isNaN then "nan" else hex16 f.toBits

/-- the sketch value the specification's register array stands for -/
def SpecSlot.toH (s : SpecSlot) : H :=
  { p := s.p, q := 64 - s.p, ksize := s.k, regs := s.regs.map UInt8.ofNat }

/-- the answer of `est a b api|ffi` from two sketch values -/
def estOf (api : String) (a b : H) : Option String :=
  let t := tripleG F.mleIter a b
  if t.1 + t.2.1 + t.2.2 ≥ 2 ^ 64 then none else
  let tail := s!"i={t.2.2} s={fbits (similarityG F.mleIter a b)} c={fbits (containmentG F.mleIter a b)}"
  some (if api == "ffi" then tail else s!"u={t.1 + t.2.1 + t.2.2} " ++ tail)

/-- the code as it is: `only_a + only_b + intersection` is a `usize` addition.  When the estimates
    saturate (`mle` returns +∞ → `usize::MAX`; that takes sketches whose registers sit at q+1, i.e.
    hashes below 2^p, nothing a hash function produces) the sum overflows: with overflow checks (the
    harness build) `union` / `similarity` (and `containment` when `only_a + intersection` overflows
    too) panic — `PANIC` natively; behind the C entry points the landing pad swallows the panic and
    hands back a zeroed result (0.0) without recording an error (no panic hook is installed by the
    harness); a release build wraps around.  The specification says nothing there. -/
def estModel (api : String) (a b : H) : String :=
  match estOf api a b with
  | some r => r
  | none =>
    if api == "ffi" then
      let t := tripleG F.mleIter a b
      let c := if t.1 + t.2.2 ≥ 2 ^ 64 then fbits 0.0 else fbits (containmentG F.mleIter a b)
      s!"i={t.2.2} s={fbits 0.0} c={c}"
    else "PANIC"

def stepC17 (st : St) (ws : List String) : St × Resp :=
  let slot (w : String) : Nat := w.toNat!
  match ws with
  | "case" :: _ => (st, { model := "ok" })
  | ["new", d, p, k] =>
    let d := slot d; let p := p.toNat!; let k := k.toNat!
    let inRange := decide (4 ≤ p ∧ p ≤ 18)
    let sp : Option SpecSlot := if inRange then some { p := p, k := k, regs := HllSpec.regs p [] } else none
    match H.new p k with
    | .ok h => ({ m := st.m.set! d (some h), s := st.s.set! d sp },
                { model := "ok", spec := if inRange then "ok" else "-" })
    | .error e => ({ m := st.m.set! d none, s := st.s.set! d sp },
                   { model := "err " ++ e.name, spec := if inRange then "ok" else "-" })
  | ["add", d, hs] => let hs := natList hs; nzResp "" (feed st (slot d) hs hs)
  | ["addmany", d, hs] => let hs := natList hs; nzResp "" (feed st (slot d) hs hs)
  | ["addffi", d, hs] => let hs := natList hs; nzResp "" (feed st (slot d) hs hs)
  | ["fill", d, mode, seed, n, dens] =>
    let d := slot d
    match st.m[d]! with
    | some h =>
      let hs := fillHashes mode h.p seed.toNat! n.toNat! dens.toNat!
      nzResp "" (feed st d hs hs)
    | none => (st, { model := "none" })
  | ["addword", d, w] =>
    let h := (Murmur.hash64 (unhex w) 42).toNat
    nzResp "" (feed st (slot d) [h] [h])
  | ["addseq", d, _api, force, seq] =>
    let d := slot d
    match st.m[d]! with
    | some h =>
      let (hm, okm) := seqHashes h.ksize (force == "1") seq
      let (hs, oks) := match st.s[d]! with
        | some sp => seqHashes sp.k (force == "1") seq
        | none => ([], true)
      let r := feed st d hm hs
      let word (ok : Bool) := if ok then "ok " else "err InvalidDNA "
      match r with
      | (st, some a, some b) => (st, { model := s!"{word okm}nz={a}", spec := s!"{word oks}nz={b}" })
      | (st, some a, none) => (st, { model := s!"{word okm}nz={a}" })
      | (st, none, _) => (st, { model := "none" })
    | none => (st, { model := "none" })
  | ["upd", d, _api, kind, num, scaled, track, hs] =>
    let hs := natList hs
    let num := num.toNat!
    let mx := Scaled.maxHashForScaled scaled.toNat!
    let mm := modelMins kind num mx (track == "1") hs
    let sm := specMins num mx hs
    match feed st (slot d) mm sm with
    | (st, some a, some b) => (st, { model := s!"mins={mm.length} nz={a}", spec := s!"mins={sm.length} nz={b}" })
    | (st, some a, none) => (st, { model := s!"mins={mm.length} nz={a}" })
    | (st, none, _) => (st, { model := "none" })
  | ["ashll", d, num, scaled, hs] =>
    -- `as_hll`: `with_error_rate(0.01, ksize)` is precision 14; the MinHash of the harness has k = 21
    let d := slot d
    let hs := natList hs
    let num := num.toNat!
    let mx := Scaled.maxHashForScaled scaled.toNat!
    let h := (H.empty 14 21).update (modelMins "vec" num mx false hs)
    let sp : SpecSlot := { p := 14, k := 21, regs := HllSpec.regs 14 (specMins num mx hs) }
    ({ m := st.m.set! d (some h), s := st.s.set! d (some sp) }, { model := digestH h, spec := digestSpec sp })
  | ["clone", d, s] =>
    let d := slot d; let s := slot s
    match st.m[s]! with
    | some x =>
      ({ m := st.m.set! d (some x), s := st.s.set! d st.s[s]! },
       { model := digestH x ++ " same=true",
         spec := match st.s[s]! with | some sp => digestSpec sp ++ " same=true" | none => "-" })
    | none => (st, { model := "none" })
  | ["card", d, _api] =>
    let d := slot d
    match st.m[d]! with
    | some h => (st, { model := toString (F.cardinality h),
                       spec := match st.s[d]! with | some sp => toString (F.cardinality sp.toH) | none => "-" })
    | none => (st, { model := "none" })
  | ["est", a, b, api] =>
    let a := slot a; let b := slot b
    match st.m[a]!, st.m[b]! with
    | some x, some y =>
      (st, { model := estModel api x y,
             spec := match st.s[a]!, st.s[b]! with
               | some sa, some sb => (estOf api sa.toH sb.toH).getD "-"
               | _, _ => "-" })
    | _, _ => (st, { model := "none" })
  | ["show", d] =>
    let d := slot d
    match st.m[d]! with
    | some h => (st, { model := showH h, spec := match st.s[d]! with | some sp => showSpec sp | none => "-" })
    | none => (st, { model := "none" })
  | ["dg", d] =>
    let d := slot d
    match st.m[d]! with
    | some h => (st, { model := digestH h, spec := match st.s[d]! with | some sp => digestSpec sp | none => "-" })
    | none => (st, { model := "none" })
  | ["eq", a, b] =>
    let a := slot a; let b := slot b
    match st.m[a]!, st.m[b]! with
    | some x, some y =>
      -- sketches are equal exactly when precision, k and every register agree
      let spec := match st.s[a]!, st.s[b]! with
        | some sa, some sb => toString (sa.p == sb.p && sa.k == sb.k && sa.regs == sb.regs)
        | _, _ => "-"
      (st, { model := toString (decide (x = y)), spec := spec })
    | _, _ => (st, { model := "none" })
  | [op, d, s] =>
    if op == "merge" || op == "refused" || op == "mergeffi" then mergeStep st op (slot d) (slot s)
    else if op == "loadraw" then
      let d := slot d
      match load (unhex s) with
      | .ok h => ({ m := st.m.set! d (some h), s := st.s.set! d none }, { model := "ok" })
      | .error e => ({ m := st.m.set! d none, s := st.s.set! d none }, { model := loadErrName e })
    else (st, { model := "bad-op" })
  | ["loadraw", d] =>
    let d := slot d
    ({ m := st.m.set! d none, s := st.s.set! d none }, { model := loadErrName .tooShort })
  | ["save", d] =>
    match st.m[slot d]! with
    | some h =>
      let b := h.save
      (st, { model := s!"hdr={hex (b.take 7)} len={b.length} body={rleNats ((b.drop 7).map (·.toNat))}" })
    | none => (st, { model := "none" })
  | ["rt", d, s, _route] => roundTrip st (slot d) (slot s) showH showSpec
  | ["rtd", d, s, _route] => roundTrip st (slot d) (slot s) digestH digestSpec
  | _ => (st, { model := "bad-op" })

def main : IO Unit := Driver.run ({} : St) stepC17
