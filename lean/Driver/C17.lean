import Driver.Common
import Sourmash.Model.HLL
import Sourmash.Spec.HLL
/-! C17 driver: HyperLogLog registers / merge / save-load.  Model column = `Model/HLL.lean`
(the thing the theorems of `Theorems/C17.lean` are about); spec column = `Spec/HLL.lean`
evaluated on the *set* of hashes each slot has received (sorted, so independent of the order the
case inserted them in). -/
open Driver Hll

/-- what the specification knows about a slot: the parameters it was created with and every hash
    it has received (directly, by merge, or through a save/load) -/
structure SpecSlot where
  p : Nat
  k : Nat
  hs : List Nat

structure St where
  m : Array (Option H) := Array.replicate 8 none
  s : Array (Option SpecSlot) := Array.replicate 8 none

def rleNats (xs : List Nat) : String :=
  let flush (out : String) (v n : Nat) : String :=
    let out := if out.isEmpty then out else out.push ','
    if n == 1 then out ++ toString v else out ++ toString v ++ "*" ++ toString n
  let rec go (xs : List Nat) (v n : Nat) (out : String) : String :=
    match xs with
    | [] => flush out v n
    | x :: t => if x == v then go t v (n + 1) out else go t x 1 (flush out v n)
  match xs with
  | [] => "-"
  | x :: t => go t x 1 ""

def showH (h : H) : String :=
  s!"p={h.p} q={h.q} k={h.ksize} n={h.regs.size} regs={rleNats (h.regs.toList.map (·.toNat))}"

def sortedSet (l : List Nat) : List Nat :=
  let a := l.toArray.qsort (· < ·)
  (a.foldl (fun (acc : List Nat) x => match acc with
    | y :: _ => if x == y then acc else x :: acc
    | [] => [x]) []).reverse

def showSpec (s : SpecSlot) : String :=
  s!"p={s.p} q={64 - s.p} k={s.k} n={2 ^ s.p} regs={rleNats (HllSpec.regs s.p (sortedSet s.hs)).toList}"

def loadErrName : LoadErr → String
  | .tooShort => "err NifflerError"
  | .badMagic => "PANIC"
  | .badVersion => "PANIC"
  | .shiftOverflow => "PANIC"
  | .eof => "err IOError"

def stepC17 (st : St) (ws : List String) : St × Resp :=
  let slot (w : String) : Nat := w.toNat!
  match ws with
  | "case" :: _ => (st, { model := "ok" })
  | ["new", d, p, k] =>
    let d := slot d; let p := p.toNat!; let k := k.toNat!
    let inRange := decide (4 ≤ p ∧ p ≤ 18)
    let sp : Option SpecSlot := if inRange then some { p := p, k := k, hs := [] } else none
    match H.new p k with
    | .ok h => ({ m := st.m.set! d (some h), s := st.s.set! d sp },
                { model := "ok", spec := if inRange then "ok" else "-" })
    | .error e => ({ m := st.m.set! d none, s := st.s.set! d sp },
                   { model := "err " ++ e.name, spec := if inRange then "ok" else "-" })
  | ["add", d, hs] =>
    let d := slot d; let hs := natList hs
    match st.m[d]! with
    | some h =>
      let m := st.m.set! d none      -- drop the reference: the register array is updated in place
      let h := h.addMany hs
      let s := match st.s[d]! with
        | some sp => st.s.set! d (some { sp with hs := hs ++ sp.hs })
        | none => st.s
      let nz := h.regs.foldl (fun n r => if r == 0 then n else n + 1) 0
      ({ m := m.set! d (some h), s := s }, { model := s!"nz={nz}" })
    | none => (st, { model := "none" })
  | ["show", d] =>
    let d := slot d
    match st.m[d]! with
    | some h => (st, { model := showH h, spec := match st.s[d]! with | some sp => showSpec sp | none => "-" })
    | none => (st, { model := "none" })
  | ["eq", a, b] =>
    let a := slot a; let b := slot b
    match st.m[a]!, st.m[b]! with
    | some x, some y =>
      let spec := match st.s[a]!, st.s[b]! with
        | some sa, some sb =>
          if sa.p == sb.p && sa.k == sb.k && sortedSet sa.hs == sortedSet sb.hs then "true" else "-"
        | _, _ => "-"
      (st, { model := toString (decide (x = y)), spec := spec })
    | _, _ => (st, { model := "none" })
  | [op, d, s] =>
    if op == "merge" || op == "refused" then
      let d := slot d; let s := slot s
      match st.m[d]!, st.m[s]! with
      | some x, some y =>
        -- the specification: same p and same k merge, anything else is refused and changes nothing
        let compat : Option Bool := match st.s[d]!, st.s[s]! with
          | some sd, some ss => some (sd.p == ss.p && sd.k == ss.k)
          | _, _ => none
        let s' := match compat, st.s[d]!, st.s[s]! with
          | some true, some sd, some ss => st.s.set! d (some { sd with hs := ss.hs ++ sd.hs })
          | _, _, _ => st.s
        let specCol := match compat with
          | some true => if op == "merge" then "ok" else "merged"
          | some false => if op == "merge" then "-" else "refused unchanged"
          | none => "-"
        match x.merge y with
        | .ok z => ({ m := st.m.set! d (some z), s := s' },
                    { model := if op == "merge" then "ok" else "merged", spec := specCol })
        | .error e => ({ st with s := s' },
                       { model := if op == "merge" then "err " ++ e.name else "refused unchanged", spec := specCol })
      | _, _ => (st, { model := "none" })
    else if op == "loadraw" then
      let d := slot d
      match load (unhex s) with
      | .ok h => ({ m := st.m.set! d (some h), s := st.s.set! d none }, { model := "ok" })
      | .error e => ({ m := st.m.set! d none, s := st.s.set! d none }, { model := loadErrName e })
    else (st, { model := "bad-op" })
  | ["loadraw", d] =>
    let d := slot d
    ({ m := st.m.set! d none, s := st.s.set! d none }, { model := loadErrName .tooShort })
  | ["save", d] =>
    match st.m[slot d]! with
    | some h =>
      let b := h.save
      (st, { model := s!"hdr={hex (b.take 7)} len={b.length} body={rleNats ((b.drop 7).map (·.toNat))}" })
    | none => (st, { model := "none" })
  | ["rt", d, s, _kind] =>
    -- plain / gz / file / ffi: compression and the file system are outside the model; all of them
    -- must hand `from_reader` the bytes `save_to_writer` produced
    let d := slot d; let s := slot s
    match st.m[s]! with
    | some x =>
      let specCol := match st.s[s]! with
        | some sp => showSpec sp ++ " same=true"
        | none => "-"
      match load x.save with
      | .ok y => ({ m := st.m.set! d (some y), s := st.s.set! d st.s[s]! },
                  { model := showH y ++ " same=" ++ toString (decide (y = x)), spec := specCol })
      | .error e => ({ m := st.m.set! d none, s := st.s.set! d none },
                     { model := loadErrName e, spec := specCol })
    | none => (st, { model := "none" })
  | _ => (st, { model := "bad-op" })

def main : IO Unit := Driver.run ({} : St) stepC17
