import Driver.Common
import Sourmash.Model.Gather
import Sourmash.Spec.Gather
/-! C08 driver: disk gather loop + statistics (model column) and the naive greedy cover (spec column).
Request lines: see harness/src/bin/c08.rs. -/
open Driver

/-- model rows + spec matches + spec statistics of one threshold: the four requests `gather` / `cover` /
`stats` / `wstats` of a threshold share one evaluation (the LARGE cases cost ~1 s per evaluation with
the list-based definitions, which are used as they are) -/
structure Memo where
  t : Nat
  rows : List Gather.Row
  ms : List GatherSpec.Match
  st : List GatherSpec.Stat

structure S08 where
  scaled : Nat := 1
  track : Bool := false
  dsets : List (List Nat) := []
  q : List (Nat × Nat) := []
  memo : Option Memo := none

def hex16 (x : UInt64) : String :=
  String.ofList ((List.range 16).map (fun i => hexDigit ((x.toNat >>> (4 * (15 - i))) % 16)))

/-- `a as f64 / b as f64` -/
def ratio (p : Nat × Nat) : Float := Float.ofNat p.1 / Float.ofNat p.2

def bitsOf (x : Float) : String := hex16 x.toBits
def rbits (p : Nat × Nat) : String := bitsOf (ratio p)

/-- `ani_from_containment(c, ksize = 21)` -/
def ani (c : Float) : Float :=
  if c == 0.0 then 0.0 else if c == 1.0 then 1.0 else 1.0 - (1.0 - Float.pow c (1.0 / 21.0))

/-- `f64::max` -/
def fmax (a b : Float) : Float := if a.isNaN then b else if b.isNaN then a else if a < b then b else a

/-- `stats::stddev` (streaming-stats `OnlineStats::add` per sample, then `variance.sqrt()`) -/
def stddev (xs : List Nat) : Float :=
  let (_, _, var) := xs.foldl (fun (acc : Nat × Float × Float) x =>
    let (size, mean, var) := acc
    let sample := Float.ofNat x
    let oldmean := mean
    let prevq := var * Float.ofNat size
    let size := size + 1
    let mean := mean + (sample - oldmean) / Float.ofNat size
    let var := (prevq + (sample - oldmean) * (sample - mean)) / Float.ofNat size
    (size, mean, var)) (0, 0.0, 0.0)
  var.sqrt

def joinRows (rows : List String) : String := if rows.isEmpty then "-" else ";".intercalate rows

def showRow (track : Bool) (r : Gather.Row) : String :=
  let qa := ani (ratio r.fOrig)
  let ma := ani (ratio r.fMatchOrig)
  ",".intercalate [s!"d{r.d}", toString r.rank, toString r.intersectBp, toString r.uniqueBp,
    toString r.remainingBp, toString r.nUniqueW, toString r.sumW, toString r.totalW,
    rbits r.fOrig, rbits r.fMatch, rbits r.fUnique, rbits r.fUniqueW, rbits r.fMatchOrig,
    rbits r.avgAbund, rbits r.medianAbund, bitsOf (if track then stddev r.abunds else 0.0),
    bitsOf qa, bitsOf ma, bitsOf ((qa + ma) / 2.0), bitsOf (fmax qa ma)]

def cfgOf (s : S08) (t : Nat) : Gather.Cfg :=
  { dsets := s.dsets, scaled := s.scaled, threshold := t, track := s.track, orig := s.q }

def showCounter (c : List (Nat × Nat)) : String :=
  if c.isEmpty then "-" else ",".intercalate (c.map (fun e => s!"{e.1}:{e.2}"))

/-- run-length encoding `<n>x<label>;…` -/
def rle (labels : List String) : String :=
  let runs := labels.foldl (fun (acc : List (Nat × String)) l =>
    match acc with
    | (n, l') :: rest => if l' == l then (n + 1, l') :: rest else (1, l) :: acc
    | [] => [(1, l)]) []
  joinRows (runs.reverse.map (fun r => s!"{r.1}x{r.2}"))

/-- the dataset set a query hash is paired with (`decOne` decrements exactly the datasets holding the hash) -/
def colourOf (dsets : List (List Nat)) (h : Nat) : String :=
  let ids := (List.range dsets.length).filter (fun d => (Gather.dsOf dsets d).contains h)
  if ids.isEmpty then "-" else "+".intercalate (ids.map toString)

def memoFor (s : S08) (t : Nat) : Memo :=
  match s.memo with
  | some m => if m.t == t then m else go
  | none => go
where go : Memo :=
  let ms := GatherSpec.cover s.dsets t (s.q.map (·.1))
  { t := t, rows := Gather.gather (cfgOf s t), ms := ms, st := GatherSpec.stats s.scaled s.q ms }

def stepC08 (s : S08) (ws : List String) : S08 × Resp :=
  match ws with
  | "case" :: rest =>
    let sc := (rest.getD 1 "1").toNat!
    let tr := rest.getD 2 "0" == "1"
    ({ scaled := sc, track := tr }, { model := "ok" })
  | ["d", hs] => ({ s with dsets := s.dsets ++ [natList hs], memo := none }, { model := "ok" })
  | "d" :: _ => (s, { model := "bad-op" })
  | "q" :: hs :: rest =>
    let hs := natList hs
    let ab := natList (rest.getD 0 "-")
    let ab := if s.track && ab.length == hs.length then ab else hs.map (fun _ => 1)
    ({ s with q := hs.zip ab, memo := none }, { model := "ok" })
  | "counter" :: _ =>
    if s.dsets.isEmpty then (s, { model := "no-datasets" }) else
    let qk := s.q.map (·.1)
    -- spec: `|q ∩ D_d|` for every dataset sharing a hash with the query
    let ref := (List.range s.dsets.length).filterMap (fun d =>
      let o := GatherSpec.overlap (s.dsets.getD d []) qk
      if o == 0 then none else some (d, o))
    (s, { model := showCounter (Gather.prepareCounter s.dsets qk), spec := showCounter ref })
  | "colors" :: _ =>
    if s.dsets.isEmpty then (s, { model := "no-datasets" }) else
    (s, { model := rle (s.q.map (fun p => colourOf s.dsets p.1)) })
  | op :: t :: _ =>
    let t := t.toNat!
    if s.dsets.isEmpty then (s, { model := "no-datasets" }) else
    let m := memoFor s t
    let s := { s with memo := some m }
    let rows := m.rows
    let ms := m.ms
    let st := m.st
    if op == "gather" then
      (s, { model := joinRows (rows.map (showRow s.track)) })
    else if op == "cover" then
      (s, { model := joinRows (rows.map (fun r => s!"d{r.d}:{r.isect.length}:{rbits r.fMatch}")),
            spec := joinRows (ms.map (fun m =>
              s!"d{m.d}:{m.isect.length}:{rbits (m.overlap, (s.dsets.getD m.d []).length)}")) })
    else if op == "stats" then
      (s, { model := joinRows (rows.map (fun r => s!"{r.rank}:{r.uniqueBp}:{r.remainingBp}:{rbits r.fUnique}")),
            spec := joinRows (st.map (fun x => s!"{x.rank}:{x.uniqueBp}:{x.remainingBp}:{rbits x.fUnique}")) })
    else if op == "wstats" then
      (s, { model := joinRows (rows.map (fun r => s!"{r.nUniqueW}:{r.sumW}:{r.totalW}:{rbits r.fUniqueW}")),
            -- the property speaks about weighted figures of queries that carry abundances
            spec := if s.track then
                joinRows (st.map (fun x => s!"{x.nUniqueW}:{x.sumW}:{x.totalW}:{rbits x.fUniqueW}"))
              else "-" })
    else (s, { model := "bad-op" })
  | _ => (s, { model := "bad-op" })

def main : IO Unit := Driver.run ({} : S08) stepC08
