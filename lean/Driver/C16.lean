import Driver.Common
import Sourmash.Model.Nodegraph
import Sourmash.Spec.Khmer
/-! C16 driver: nodegraph file format.  Model column = `NG.G.save` / `NG.G.load` (32-bit block model
of the code); spec column = the khmer layout computed from the bit sets (`Khmer.file`), never
through the block model.

`sparse` cases (tables of 8–64 Mbit with a handful of bits, compression ratios above 1000:1): for
`count`, `spd` and `sp <route> <level>` the model column is `-` and the spec column is the reference
digest computed from the request lines alone (`Sparse`: `h mod size` positions, the khmer layout
of their bytes) — nothing of the size of a table is ever built.

`dense` cases (1–3 tables of 256 KiB – 4 MiB filled with a seeded pseudo-random pattern, i.e.
incompressible): for `dd`, `dn <writer> <loader>` and `count` the model column is `-` and the spec
column is the reference digest computed from the case line (`Dense`: the same word generator as
the harness, the khmer layout of those words, plus the words changed by later `count`s); the table
is streamed word by word through the accumulators, never stored. -/
open Driver

/-- spec-level state: k, occupied, per table (size, bitmap) -/
structure SpecG where
  k : Nat
  occ : Nat
  tables : List (Nat × Array Bool)

/-- reference state of the `sparse` cases (tables of 16–64 Mbit holding a handful of bits): k,
    the occupied count and, per table, its size and the ascending list of set bits — computed
    directly from the request lines (`h mod size`), never through a block list or a byte list of
    the table's length. -/
structure Sparse where
  k : Nat
  occ : Nat
  tables : List (Nat × List Nat)

/-- reference state of the `dense` cases: the parameters of the seeded pattern (word `w` of table
    `t` is `Dense.genWord`), the words changed since (`over`: table, word index, value) and the
    digest of this state once it has been computed -/
structure Dense where
  k : Nat
  occ : Nat
  seed : UInt64
  d : Nat
  sizes : List Nat
  over : List (Nat × Nat × UInt64) := []
  cache : Option String := none

structure St where
  g : Option NG.G := none
  s : Option SpecG := none
  sp : Option Sparse := none
  dn : Option Dense := none

def bytesToU8 (l : List Nat) : List UInt8 := l.map UInt8.ofNat
def u8ToBytes (l : List UInt8) : List Nat := l.map UInt8.toNat

def showBlocks (l : List Nat) : String := showNats l

def dumpModel (g : NG.G) : String :=
  s!"k={g.ksize} occ={g.occupied} n={g.tables.length} " ++
  ";".intercalate (g.tables.map (fun t => s!"{t.size}:{showBlocks t.blocks}"))

/-- 32-bit words of a bitmap, computed from the bits -/
def specBlocks (size : Nat) (a : Array Bool) : List Nat :=
  (List.range ((size + 31) / 32)).map (fun i =>
    (List.range 32).foldl (fun acc j => if 32 * i + j < size && a.getD (32 * i + j) false then acc + 2 ^ j else acc) 0)

def dumpSpec (s : SpecG) : String :=
  s!"k={s.k} occ={s.occ} n={s.tables.length} " ++
  ";".intercalate (s.tables.map (fun t => s!"{t.1}:{showBlocks (specBlocks t.1 t.2)}"))

def specFile (s : SpecG) : List Nat :=
  Khmer.file s.k s.occ (s.tables.map (fun t => (t.1, fun b => t.2.getD b false)))

def leVal (a : Array Nat) (off n : Nat) : Nat :=
  (List.range n).foldl (fun acc i => acc + a.getD (off + i) 0 * 256 ^ i) 0

/-- decode a khmer file at the spec level: every bit below the size as recorded in byte b/8, bit b%8 -/
def specDecode (bs : Array Nat) : Option SpecG := Id.run do
  if bs.size < 19 then return none
  if (bs.toList.take 6) != [0x4f, 0x58, 0x4c, 0x49, 4, 2] then return none
  let k := leVal bs 6 4
  let n := bs.getD 10 0
  let occ := leVal bs 11 8
  let mut off := 19
  let mut ts : Array (Nat × Array Bool) := #[]
  for _ in [0:n] do
    if bs.size < off + 8 then return none
    let size := leVal bs off 8
    off := off + 8
    let nbytes := size / 8 + 1
    if bs.size < off + nbytes then return none
    let o := off
    let a := Array.ofFn (n := size) (fun b => (bs.getD (o + b.val / 8) 0).testBit (b.val % 8))
    ts := ts.push (size, a)
    off := off + nbytes
  return some { k := k, occ := occ, tables := ts.toList }

def specCount (s : SpecG) (h : Nat) : SpecG :=
  let newFirst := match s.tables with
    | (size, a) :: _ => !(a.getD (h % size) false)
    | [] => false
  { s with occ := if newFirst then s.occ + 1 else s.occ,
           tables := s.tables.map (fun t => (t.1, t.2.setIfInBounds (h % t.1) true)) }

/-! ### huge sparse tables: the reference digest -/

def insertAsc (x : Nat) : List Nat → List Nat
  | [] => [x]
  | y :: t => if x < y then x :: y :: t else if x == y then y :: t else y :: insertAsc x t

/-- `count h` on the reference state: bit `h mod size` of every table; the answer is 1 iff some table
    did not have it; `occupied` counts the new bits of the first table -/
def Sparse.count (s : Sparse) (h : Nat) : Sparse × Bool :=
  let isNew := s.tables.any (fun t => !(t.2.contains (h % t.1)))
  let newFirst := match s.tables with
    | (size, ones) :: _ => !(ones.contains (h % size))
    | [] => false
  ({ s with occ := if newFirst then s.occ + 1 else s.occ,
            tables := s.tables.map (fun t => (t.1, insertAsc (h % t.1) t.2)) }, isNew)

def hex2 (b : Nat) : String := String.ofList [hexDigit (b / 16 % 16), hexDigit (b % 16)]

/-- the non-zero bytes `(offset, value)` of a little-endian field of `n` bytes at `off` -/
def leNonzero (off v n : Nat) : List (Nat × Nat) :=
  ((List.range n).map (fun i => (off + i, v / 256 ^ i % 256))).filter (·.2 != 0)

/-- the non-zero data bytes of one table whose data start at `off`: bit b lives in byte b/8, bit b%8
    (khmer layout); `ones` ascending, so equal byte indices are adjacent -/
def dataNonzero (off : Nat) (ones : List Nat) : List (Nat × Nat) :=
  (ones.foldl (fun (acc : List (Nat × Nat)) b =>
    match acc with
    | (o, v) :: t => if o == off + b / 8 then (o, v ||| 2 ^ (b % 8)) :: t else (off + b / 8, 2 ^ (b % 8)) :: acc
    | [] => [(off + b / 8, 2 ^ (b % 8))]) []).reverse

/-- length and non-zero bytes of the khmer file of the reference state: "OXLI" 4 2, k (u32 LE),
    table count (u8), occupied (u64 LE), then per table its size (u64 LE) and size/8+1 data bytes -/
def Sparse.file (s : Sparse) : Nat × List (Nat × Nat) :=
  let hdr := [(0, 0x4f), (1, 0x58), (2, 0x4c), (3, 0x49), (4, 4), (5, 2)] ++ leNonzero 6 s.k 4 ++
             leNonzero 10 s.tables.length 1 ++ leNonzero 11 s.occ 8
  s.tables.foldl (fun (acc : Nat × List (Nat × Nat)) t =>
    (acc.1 + 8 + t.1 / 8 + 1, acc.2 ++ leNonzero acc.1 t.1 8 ++ dataNonzero (acc.1 + 8) t.2)) (19, hdr)

def Sparse.digest (s : Sparse) : String :=
  let (len, nz) := s.file
  s!"k={s.k} occ={s.occ} n={s.tables.length} t=" ++
  ";".intercalate (s.tables.map (fun t => s!"{t.1}:{t.2.length}:{showNats t.2}")) ++
  s!" len={len} nz=" ++ ",".intercalate (nz.map (fun e => s!"{e.1}:{hex2 e.2}"))

/-! ### large dense tables: the seeded pattern and its reference digest -/

namespace Dense

def GAMMA : UInt64 := 0x9E3779B97F4A7C15

/-- splitmix64 finaliser -/
def mix (z : UInt64) : UInt64 :=
  let z := (z ^^^ (z >>> 30)) * 0xBF58476D1CE4E5B9
  let z := (z ^^^ (z >>> 27)) * 0x94D049BB133111EB
  z ^^^ (z >>> 31)

def base (seed : UInt64) (t : Nat) : UInt64 := mix (seed + (UInt64.ofNat t + 1) * GAMMA)

/-- word `w` of the pattern of a table of `size` bits (bit b of the table = bit b % 64 of word b / 64);
    d = 25: about every fourth bit, d = 75: three of four, otherwise every second; bits ≥ size cleared -/
def genWord (b : UInt64) (d size w : Nat) : UInt64 :=
  let a := mix (b + (UInt64.ofNat w + 1) * GAMMA)
  let v := if d == 25 then a &&& mix a else if d == 75 then a ||| mix a else a
  if 64 * (w + 1) ≤ size then v else v &&& (((1 : UInt64) <<< UInt64.ofNat (size % 64)) - 1)

def popcnt (x : UInt64) : UInt64 :=
  let x : UInt64 := x - ((x >>> 1) &&& 0x5555555555555555)
  let m3 : UInt64 := 0x3333333333333333
  let x : UInt64 := (x &&& m3) + ((x >>> 2) &&& m3)
  let x : UInt64 := (x + (x >>> 4)) &&& 0x0f0f0f0f0f0f0f0f
  (x * 0x0101010101010101) >>> 56

@[inline] def fnvByte (h b : UInt64) : UInt64 := (h ^^^ (b &&& 0xff)) * 0x100000001b3

/-- FNV-1a over the `n` low bytes of `v`, little endian -/
def fnvLE (h v : UInt64) (n : Nat) : UInt64 :=
  (List.range n).foldl (fun h i => fnvByte h (v >>> UInt64.ofNat (8 * i))) h

def fnv8 (h v : UInt64) : UInt64 :=
  let h := fnvByte h v
  let h := fnvByte h (v >>> 8)
  let h := fnvByte h (v >>> 16)
  let h := fnvByte h (v >>> 24)
  let h := fnvByte h (v >>> 32)
  let h := fnvByte h (v >>> 40)
  let h := fnvByte h (v >>> 48)
  fnvByte h (v >>> 56)

def hex16 (v : UInt64) : String :=
  String.ofList ((List.range 16).map (fun i => hexDigit ((v >>> UInt64.ofNat (4 * (15 - i))) &&& 0xf).toNat))

/-- the current value of word `w` of a table: a changed word, or the pattern -/
@[inline] def wordOf (overT : List (Nat × UInt64)) (b : UInt64) (d size w : Nat) : UInt64 :=
  if overT.isEmpty then genWord b d size w else
  match overT.find? (·.1 == w) with
  | some e => e.2
  | none => genWord b d size w

structure Acc where
  pop : UInt64
  x : UInt64
  sm : UInt64
  h : UInt64
  deriving Inhabited

/-- stream the words of one table: popcount, xor of word·(2w+1), sum of mix(word xor w·GAMMA), and
    the FNV-1a state over the table's `nbytes = size/8+1` data bytes (khmer layout: byte i holds
    bits 8i..8i+7, i.e. the little-endian bytes of the words) -/
partial def tableLoop (overT : List (Nat × UInt64)) (b : UInt64) (d size nwords nbytes : Nat)
    (w : Nat) (pop x sm h : UInt64) : Acc :=
  if w ≥ nwords then { pop, x, sm, h } else
  let word := wordOf overT b d size w
  let left := nbytes - 8 * w
  let h := if left ≥ 8 then fnv8 h word else fnvLE h word left
  let wu := UInt64.ofNat w
  tableLoop overT b d size nwords nbytes (w + 1)
    (pop + popcnt word) (x ^^^ (word * (2 * wu + 1))) (sm + mix (word ^^^ (wu * GAMMA))) h

def fnvList (h : UInt64) (l : List Nat) : UInt64 := l.foldl (fun h b => fnvByte h (UInt64.ofNat b)) h

def leBytes (v n : Nat) : List Nat := (List.range n).map (fun i => v / 256 ^ i % 256)

end Dense

/-- digest of the reference state: per table size, popcount and the two word hashes; length and
    FNV-1a of the khmer file ("OXLI" 4 2, k u32 LE, table count u8, occupied u64 LE, then per table
    the size u64 LE and size/8+1 data bytes) -/
def Dense.digest (s : Dense) : String := Id.run do
  let mut h : UInt64 := 0xcbf29ce484222325
  h := Dense.fnvList h ([0x4f, 0x58, 0x4c, 0x49, 4, 2] ++ Dense.leBytes s.k 4 ++ [s.sizes.length % 256] ++ Dense.leBytes s.occ 8)
  let mut len := 19
  let mut ts : Array String := #[]
  let mut t := 0
  for size in s.sizes do
    h := Dense.fnvList h (Dense.leBytes size 8)
    let nwords := (size + 63) / 64
    let nbytes := size / 8 + 1
    let overT := (s.over.filter (·.1 == t)).map (·.2)
    let a := Dense.tableLoop overT (Dense.base s.seed t) s.d size nwords nbytes 0 0 0 0 h
    h := a.h
    -- size a multiple of 64: one more (zero) byte after the last word
    h := Dense.fnvList h (List.replicate (nbytes - 8 * nwords) 0)
    ts := ts.push s!"{size}:{a.pop.toNat}:{Dense.hex16 a.x}:{Dense.hex16 a.sm}"
    len := len + 8 + nbytes
    t := t + 1
  return s!"k={s.k} occ={s.occ} n={s.sizes.length} t=" ++ ";".intercalate ts.toList ++
    s!" len={len} fh={Dense.hex16 h}"

/-- the digest, computed once per state -/
def Dense.cached (s : Dense) : Dense × String :=
  match s.cache with
  | some c => (s, c)
  | none => let c := s.digest; ({ s with cache := some c }, c)

/-- `count h`: bit `h mod size` of every table; 1 iff some table did not have it; `occupied` counts
    the new bits of the first table -/
def Dense.count (s : Dense) (h : Nat) : Dense × Bool := Id.run do
  let mut over := s.over
  let mut isNew := false
  let mut occ := s.occ
  let mut t := 0
  for size in s.sizes do
    let pos := h % size
    let w := pos / 64
    let overT := (over.filter (·.1 == t)).map (·.2)
    let cur := Dense.wordOf overT (Dense.base s.seed t) s.d size w
    let bit : UInt64 := (1 : UInt64) <<< UInt64.ofNat (pos % 64)
    if cur &&& bit == 0 then
      isNew := true
      if t == 0 then occ := occ + 1
      over := (t, w, cur ||| bit) :: over.filter (fun e => !(e.1 == t && e.2.1 == w))
    t := t + 1
  return ({ s with over := over, occ := occ, cache := none }, isNew)

def lengthOfWriter (wr : String) : Bool := wr.startsWith "buf0" || wr == "file" || wr == "fbuf" ||
  (wr.startsWith "w")

def saveHex (g : NG.G) : String :=
  match g.save with
  | none => "PANIC"
  | some b => hex (bytesToU8 b)

def stepC16 (st : St) (ws : List String) : St × Resp :=
  match ws with
  | ["case", _, "new", k, sizes] =>
    let sz := natList sizes
    ({ g := some (NG.G.new sz k.toNat!),
       s := some { k := k.toNat!, occ := 0, tables := sz.map (fun n => (n, Array.replicate n false)) } },
     { model := "ok" })
  | ["case", _, "sparse", k, sizes] =>
    ({ sp := some { k := k.toNat!, occ := 0, tables := (natList sizes).map (fun n => (n, [])) } }, { model := "ok" })
  | ["case", _, "dense", k, occ, seed, d, sizes] =>
    ({ dn := some { k := k.toNat!, occ := occ.toNat!, seed := UInt64.ofNat seed.toNat!, d := d.toNat!,
                    sizes := natList sizes } }, { model := "-", spec := "ok" })
  | "case" :: _ => ({}, { model := "ok" })
  -- large dense tables: like the sparse ones, the block-list model is not run; the spec column is
  -- the reference digest of the seeded pattern
  | ["dd"] =>
    match st.dn with
    | some s => let (s', c) := s.cached; ({ st with dn := some s' }, { model := "-", spec := c })
    | none => (st, { model := "nograph" })
  | ["dn", wr, _loader] =>
    -- every writer and every loader must give back the same graph; a plain writer receives exactly
    -- the bytes of the khmer file
    match st.dn with
    | some s =>
      let (s', c) := s.cached
      let wl := if lengthOfWriter wr then
          (((c.splitOn " len=").getD 1 "").splitOn " ").getD 0 "" else "gz"
      ({ st with dn := some s' }, { model := "-", spec := c ++ " same=true wl=" ++ wl })
    | none => (st, { model := "nograph" })
  -- huge sparse tables: the block-list model is not run (a 64 Mbit table is 2 M list cells per
  -- table and 8 MB of byte list per save); the spec column is the reference digest computed from
  -- the request lines, the model column stays `-`
  | ["spd"] =>
    match st.sp with
    | some s => (st, { model := "-", spec := s.digest })
    | none => (st, { model := "nograph" })
  | ["sp", _route, _level] =>
    -- every level of nodegraph_to_buffer and every loader must give back the same graph
    match st.sp with
    | some s => (st, { model := "-", spec := s.digest ++ " same=true" })
    | none => (st, { model := "nograph" })
  | ["count", h] =>
    match st.dn with
    | some s =>
      let (s', r) := s.count h.toNat!
      ({ st with dn := some s' }, { model := "-", spec := if r then "1" else "0" })
    | none =>
    match st.sp with
    | some s =>
      let (s', r) := s.count h.toNat!
      ({ st with sp := some s' }, { model := "-", spec := if r then "1" else "0" })
    | none =>
    match st.g, st.s with
    | some g, some s =>
      let (g', r) := g.count h.toNat!
      ({ g := some g', s := some (specCount s h.toNat!) }, { model := if r then "1" else "0" })
    | _, _ => (st, { model := "nograph" })
  | ["load", hx] =>
    let bytes := u8ToBytes (unhex hx)
    let g := NG.G.load bytes
    let s := specDecode bytes.toArray
    ({ g := g, s := s },
     { model := match g with | some g => dumpModel g | none => "fail",
       spec := match s with | some s => dumpSpec s | none => "fail" })
  | ["dump"] =>
    match st.g, st.s with
    | some g, some s => (st, { model := dumpModel g, spec := dumpSpec s })
    | _, _ => (st, { model := "nograph" })
  | ["save"] =>
    match st.g, st.s with
    | some g, some s => (st, { model := saveHex g,
                               spec := if g.tables.length ≤ 255 then hex (bytesToU8 (specFile s)) else "-" })
    | _, _ => (st, { model := "nograph" })
  | ["rt"] =>
    match st.g with
    | some g =>
      let r := match g.save with
        | none => "PANIC"
        | some b => match NG.G.load b with
          | none => "fail"
          | some g' => if g' == { g with unique := 0 } then "same" else "diff"
      -- more than 255 tables do not fit the one-byte count: outside the property
      (st, { model := r, spec := if g.tables.length ≤ 255 then "same" else "-" })
    | none => (st, { model := "nograph" })
  | [op, _] =>
    -- gz <level> / ffi <level> / file <level>: the bytes after writing through that path, loading
    -- them back (niffler undoes the compression) and saving again
    if op == "gz" || op == "ffi" || op == "file" then
      match st.g, st.s with
      | some g, some s =>
        let r := match g.save with
          | none => "PANIC"
          | some b => match NG.G.load b with
            | none => "fail"
            | some g' => saveHex g'
        (st, { model := r, spec := hex (bytesToU8 (specFile s)) })
      | _, _ => (st, { model := "nograph" })
    else (st, { model := "bad-op" })
  | _ => (st, { model := "bad-op" })

def main : IO Unit := Driver.run ({} : St) stepC16
