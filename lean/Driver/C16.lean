import Driver.Common
import Sourmash.Model.Nodegraph
import Sourmash.Spec.Khmer
/-! C16 driver: nodegraph file format.  Model column = `NG.G.save` / `NG.G.load` (32-bit block model
of the code); spec column = the khmer layout computed from the bit sets (`Khmer.file`), never
through the block model.

`sparse` cases (tables of 8–64 Mbit with a handful of bits, compression ratios above 1000:1): for
`count`, `spd` and `sp <route> <level>` the model column is `-` and the spec column is the reference
digest computed from the request lines alone (`Sparse`: `h mod size` positions, the khmer layout
of their bytes) — nothing of the size of a table is ever built. -/
open Driver

/-- spec-level state: k, occupied, per table (size, bitmap) -/
structure SpecG where
  k : Nat
  occ : Nat
  tables : List (Nat × Array Bool)

/-- reference state of the `sparse` cases (tables of 16–64 Mbit holding a handful of bits): k,
    the occupied count and, per table, its size and the ascending list of set bits — computed
    directly from the request lines (`h mod size`), never through a block list or a byte list of
    the table's length. -/
structure Sparse where
  k : Nat
  occ : Nat
  tables : List (Nat × List Nat)

structure St where
  g : Option NG.G := none
  s : Option SpecG := none
  sp : Option Sparse := none

def bytesToU8 (l : List Nat) : List UInt8 := l.map UInt8.ofNat
def u8ToBytes (l : List UInt8) : List Nat := l.map UInt8.toNat

def showBlocks (l : List Nat) : String := showNats l

def dumpModel (g : NG.G) : String :=
  s!"k={g.ksize} occ={g.occupied} n={g.tables.length} " ++
  ";".intercalate (g.tables.map (fun t => s!"{t.size}:{showBlocks t.blocks}"))

/-- 32-bit words of a bitmap, computed from the bits -/
def specBlocks (size : Nat) (a : Array Bool) : List Nat :=
  (List.range ((size + 31) / 32)).map (fun i =>
    (List.range 32).foldl (fun acc j => if 32 * i + j < size && a.getD (32 * i + j) false then acc + 2 ^ j else acc) 0)

def dumpSpec (s : SpecG) : String :=
  s!"k={s.k} occ={s.occ} n={s.tables.length} " ++
  ";".intercalate (s.tables.map (fun t => s!"{t.1}:{showBlocks (specBlocks t.1 t.2)}"))

def specFile (s : SpecG) : List Nat :=
  Khmer.file s.k s.occ (s.tables.map (fun t => (t.1, fun b => t.2.getD b false)))

def leVal (a : Array Nat) (off n : Nat) : Nat :=
  (List.range n).foldl (fun acc i => acc + a.getD (off + i) 0 * 256 ^ i) 0

/-- decode a khmer file at the spec level: every bit below the size as recorded in byte b/8, bit b%8 -/
def specDecode (bs : Array Nat) : Option SpecG := Id.run do
  if bs.size < 19 then return none
  if (bs.toList.take 6) != [0x4f, 0x58, 0x4c, 0x49, 4, 2] then return none
  let k := leVal bs 6 4
  let n := bs.getD 10 0
  let occ := leVal bs 11 8
  let mut off := 19
  let mut ts : Array (Nat × Array Bool) := #[]
  for _ in [0:n] do
    if bs.size < off + 8 then return none
    let size := leVal bs off 8
    off := off + 8
    let nbytes := size / 8 + 1
    if bs.size < off + nbytes then return none
    let o := off
    let a := Array.ofFn (n := size) (fun b => (bs.getD (o + b.val / 8) 0).testBit (b.val % 8))
    ts := ts.push (size, a)
    off := off + nbytes
  return some { k := k, occ := occ, tables := ts.toList }

def specCount (s : SpecG) (h : Nat) : SpecG :=
  let newFirst := match s.tables with
    | (size, a) :: _ => !(a.getD (h % size) false)
    | [] => false
  { s with occ := if newFirst then s.occ + 1 else s.occ,
           tables := s.tables.map (fun t => (t.1, t.2.setIfInBounds (h % t.1) true)) }

/-! ### huge sparse tables: the reference digest -/

def insertAsc (x : Nat) : List Nat → List Nat
  | [] => [x]
  | y :: t => if x < y then x :: y :: t else if x == y then y :: t else y :: insertAsc x t

/-- `count h` on the reference state: bit `h mod size` of every table; the answer is 1 iff some table
    did not have it; `occupied` counts the new bits of the first table -/
def Sparse.count (s : Sparse) (h : Nat) : Sparse × Bool :=
  let isNew := s.tables.any (fun t => !(t.2.contains (h % t.1)))
  let newFirst := match s.tables with
    | (size, ones) :: _ => !(ones.contains (h % size))
    | [] => false
  ({ s with occ := if newFirst then s.occ + 1 else s.occ,
            tables := s.tables.map (fun t => (t.1, insertAsc (h % t.1) t.2)) }, isNew)

def hex2 (b : Nat) : String := String.ofList [hexDigit (b / 16 % 16), hexDigit (b % 16)]

/-- the non-zero bytes `(offset, value)` of a little-endian field of `n` bytes at `off` -/
def leNonzero (off v n : Nat) : List (Nat × Nat) :=
  ((List.range n).map (fun i => (off + i, v / 256 ^ i % 256))).filter (·.2 != 0)

/-- the non-zero data bytes of one table whose data start at `off`: bit b lives in byte b/8, bit b%8
    (khmer layout); `ones` ascending, so equal byte indices are adjacent -/
def dataNonzero (off : Nat) (ones : List Nat) : List (Nat × Nat) :=
  (ones.foldl (fun (acc : List (Nat × Nat)) b =>
    match acc with
    | (o, v) :: t => if o == off + b / 8 then (o, v ||| 2 ^ (b % 8)) :: t else (off + b / 8, 2 ^ (b % 8)) :: acc
    | [] => [(off + b / 8, 2 ^ (b % 8))]) []).reverse

/-- length and non-zero bytes of the khmer file of the reference state: "OXLI" 4 2, k (u32 LE),
    table count (u8), occupied (u64 LE), then per table its size (u64 LE) and size/8+1 data bytes -/
def Sparse.file (s : Sparse) : Nat × List (Nat × Nat) :=
  let hdr := [(0, 0x4f), (1, 0x58), (2, 0x4c), (3, 0x49), (4, 4), (5, 2)] ++ leNonzero 6 s.k 4 ++
             leNonzero 10 s.tables.length 1 ++ leNonzero 11 s.occ 8
  s.tables.foldl (fun (acc : Nat × List (Nat × Nat)) t =>
    (acc.1 + 8 + t.1 / 8 + 1, acc.2 ++ leNonzero acc.1 t.1 8 ++ dataNonzero (acc.1 + 8) t.2)) (19, hdr)

def Sparse.digest (s : Sparse) : String :=
  let (len, nz) := s.file
  s!"k={s.k} occ={s.occ} n={s.tables.length} t=" ++
  ";".intercalate (s.tables.map (fun t => s!"{t.1}:{t.2.length}:{showNats t.2}")) ++
  s!" len={len} nz=" ++ ",".intercalate (nz.map (fun e => s!"{e.1}:{hex2 e.2}"))

def saveHex (g : NG.G) : String :=
  match g.save with
  | none => "PANIC"
  | some b => hex (bytesToU8 b)

def stepC16 (st : St) (ws : List String) : St × Resp :=
  match ws with
  | ["case", _, "new", k, sizes] =>
    let sz := natList sizes
    ({ g := some (NG.G.new sz k.toNat!),
       s := some { k := k.toNat!, occ := 0, tables := sz.map (fun n => (n, Array.replicate n false)) } },
     { model := "ok" })
  | ["case", _, "sparse", k, sizes] =>
    ({ sp := some { k := k.toNat!, occ := 0, tables := (natList sizes).map (fun n => (n, [])) } }, { model := "ok" })
  | "case" :: _ => ({}, { model := "ok" })
  -- huge sparse tables: the block-list model is not run (a 64 Mbit table is 2 M list cells per
  -- table and 8 MB of byte list per save); the spec column is the reference digest computed from
  -- the request lines, the model column stays `-`
  | ["spd"] =>
    match st.sp with
    | some s => (st, { model := "-", spec := s.digest })
    | none => (st, { model := "nograph" })
  | ["sp", _route, _level] =>
    -- every level of nodegraph_to_buffer and every loader must give back the same graph
    match st.sp with
    | some s => (st, { model := "-", spec := s.digest ++ " same=true" })
    | none => (st, { model := "nograph" })
  | ["count", h] =>
    match st.sp with
    | some s =>
      let (s', r) := s.count h.toNat!
      ({ st with sp := some s' }, { model := "-", spec := if r then "1" else "0" })
    | none =>
    match st.g, st.s with
    | some g, some s =>
      let (g', r) := g.count h.toNat!
      ({ g := some g', s := some (specCount s h.toNat!) }, { model := if r then "1" else "0" })
    | _, _ => (st, { model := "nograph" })
  | ["load", hx] =>
    let bytes := u8ToBytes (unhex hx)
    let g := NG.G.load bytes
    let s := specDecode bytes.toArray
    ({ g := g, s := s },
     { model := match g with | some g => dumpModel g | none => "fail",
       spec := match s with | some s => dumpSpec s | none => "fail" })
  | ["dump"] =>
    match st.g, st.s with
    | some g, some s => (st, { model := dumpModel g, spec := dumpSpec s })
    | _, _ => (st, { model := "nograph" })
  | ["save"] =>
    match st.g, st.s with
    | some g, some s => (st, { model := saveHex g,
                               spec := if g.tables.length ≤ 255 then hex (bytesToU8 (specFile s)) else "-" })
    | _, _ => (st, { model := "nograph" })
  | ["rt"] =>
    match st.g with
    | some g =>
      let r := match g.save with
        | none => "PANIC"
        | some b => match NG.G.load b with
          | none => "fail"
          | some g' => if g' == { g with unique := 0 } then "same" else "diff"
      -- more than 255 tables do not fit the one-byte count: outside the property
      (st, { model := r, spec := if g.tables.length ≤ 255 then "same" else "-" })
    | none => (st, { model := "nograph" })
  | [op, _] =>
    -- gz <level> / ffi <level> / file <level>: the bytes after writing through that path, loading
    -- them back (niffler undoes the compression) and saving again
    if op == "gz" || op == "ffi" || op == "file" then
      match st.g, st.s with
      | some g, some s =>
        let r := match g.save with
          | none => "PANIC"
          | some b => match NG.G.load b with
            | none => "fail"
            | some g' => saveHex g'
        (st, { model := r, spec := hex (bytesToU8 (specFile s)) })
      | _, _ => (st, { model := "nograph" })
    else (st, { model := "bad-op" })
  | _ => (st, { model := "bad-op" })

def main : IO Unit := Driver.run ({} : St) stepC16
