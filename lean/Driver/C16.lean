import Driver.Common
import Sourmash.Model.Nodegraph
import Sourmash.Spec.Khmer
/-! C16 driver: nodegraph file format.  Model column = `NG.G.save` / `NG.G.load` (32-bit block model
of the code); spec column = the khmer layout computed from the bit sets (`Khmer.file`), never
through the block model. -/
open Driver

/-- spec-level state: k, occupied, per table (size, bitmap) -/
structure SpecG where
  k : Nat
  occ : Nat
  tables : List (Nat × Array Bool)

structure St where
  g : Option NG.G := none
  s : Option SpecG := none

def bytesToU8 (l : List Nat) : List UInt8 := l.map UInt8.ofNat
def u8ToBytes (l : List UInt8) : List Nat := l.map UInt8.toNat

def showBlocks (l : List Nat) : String := showNats l

def dumpModel (g : NG.G) : String :=
  s!"k={g.ksize} occ={g.occupied} n={g.tables.length} " ++
  ";".intercalate (g.tables.map (fun t => s!"{t.size}:{showBlocks t.blocks}"))

/-- 32-bit words of a bitmap, computed from the bits -/
def specBlocks (size : Nat) (a : Array Bool) : List Nat :=
  (List.range ((size + 31) / 32)).map (fun i =>
    (List.range 32).foldl (fun acc j => if 32 * i + j < size && a.getD (32 * i + j) false then acc + 2 ^ j else acc) 0)

def dumpSpec (s : SpecG) : String :=
  s!"k={s.k} occ={s.occ} n={s.tables.length} " ++
  ";".intercalate (s.tables.map (fun t => s!"{t.1}:{showBlocks (specBlocks t.1 t.2)}"))

def specFile (s : SpecG) : List Nat :=
  Khmer.file s.k s.occ (s.tables.map (fun t => (t.1, fun b => t.2.getD b false)))

def leVal (a : Array Nat) (off n : Nat) : Nat :=
  (List.range n).foldl (fun acc i => acc + a.getD (off + i) 0 * 256 ^ i) 0

/-- decode a khmer file at the spec level: every bit below the size as recorded in byte b/8, bit b%8 -/
def specDecode (bs : Array Nat) : Option SpecG := Id.run do
  if bs.size < 19 then return none
  if (bs.toList.take 6) != [0x4f, 0x58, 0x4c, 0x49, 4, 2] then return none
  let k := leVal bs 6 4
  let n := bs.getD 10 0
  let occ := leVal bs 11 8
  let mut off := 19
  let mut ts : Array (Nat × Array Bool) := #[]
  for _ in [0:n] do
    if bs.size < off + 8 then return none
    let size := leVal bs off 8
    off := off + 8
    let nbytes := size / 8 + 1
    if bs.size < off + nbytes then return none
    let o := off
    let a := Array.ofFn (n := size) (fun b => (bs.getD (o + b.val / 8) 0).testBit (b.val % 8))
    ts := ts.push (size, a)
    off := off + nbytes
  return some { k := k, occ := occ, tables := ts.toList }

def specCount (s : SpecG) (h : Nat) : SpecG :=
  let newFirst := match s.tables with
    | (size, a) :: _ => !(a.getD (h % size) false)
    | [] => false
  { s with occ := if newFirst then s.occ + 1 else s.occ,
           tables := s.tables.map (fun t => (t.1, t.2.setIfInBounds (h % t.1) true)) }

def saveHex (g : NG.G) : String :=
  match g.save with
  | none => "PANIC"
  | some b => hex (bytesToU8 b)

def stepC16 (st : St) (ws : List String) : St × Resp :=
  match ws with
  | ["case", _, "new", k, sizes] =>
    let sz := natList sizes
    ({ g := some (NG.G.new sz k.toNat!),
       s := some { k := k.toNat!, occ := 0, tables := sz.map (fun n => (n, Array.replicate n false)) } },
     { model := "ok" })
  | "case" :: _ => ({}, { model := "ok" })
  | ["count", h] =>
    match st.g, st.s with
    | some g, some s =>
      let (g', r) := g.count h.toNat!
      ({ g := some g', s := some (specCount s h.toNat!) }, { model := if r then "1" else "0" })
    | _, _ => (st, { model := "nograph" })
  | ["load", hx] =>
    let bytes := u8ToBytes (unhex hx)
    let g := NG.G.load bytes
    let s := specDecode bytes.toArray
    ({ g := g, s := s },
     { model := match g with | some g => dumpModel g | none => "fail",
       spec := match s with | some s => dumpSpec s | none => "fail" })
  | ["dump"] =>
    match st.g, st.s with
    | some g, some s => (st, { model := dumpModel g, spec := dumpSpec s })
    | _, _ => (st, { model := "nograph" })
  | ["save"] =>
    match st.g, st.s with
    | some g, some s => (st, { model := saveHex g,
                               spec := if g.tables.length ≤ 255 then hex (bytesToU8 (specFile s)) else "-" })
    | _, _ => (st, { model := "nograph" })
  | ["rt"] =>
    match st.g with
    | some g =>
      let r := match g.save with
        | none => "PANIC"
        | some b => match NG.G.load b with
          | none => "fail"
          | some g' => if g' == { g with unique := 0 } then "same" else "diff"
      -- more than 255 tables do not fit the one-byte count: outside the property
      (st, { model := r, spec := if g.tables.length ≤ 255 then "same" else "-" })
    | none => (st, { model := "nograph" })
  | [op, _] =>
    -- gz <level> / ffi <level> / file <level>: the bytes after writing through that path, loading
    -- them back (niffler undoes the compression) and saving again
    if op == "gz" || op == "ffi" || op == "file" then
      match st.g, st.s with
      | some g, some s =>
        let r := match g.save with
          | none => "PANIC"
          | some b => match NG.G.load b with
            | none => "fail"
            | some g' => saveHex g'
        (st, { model := r, spec := hex (bytesToU8 (specFile s)) })
      | _, _ => (st, { model := "nograph" })
    else (st, { model := "bad-op" })
  | _ => (st, { model := "bad-op" })

def main : IO Unit := Driver.run ({} : St) stepC16
