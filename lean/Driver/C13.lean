import Driver.Common
import Sourmash.Model.Md5Cache
import Sourmash.Model.Murmur
import Sourmash.Spec.Kmers
/-! C13 driver.  model column: what the sketch model (with its md5 cache field) answers;
spec column: for `md5`/`cmd5`/`clone`/`copy` the MD5 of the preimage of the sketch's CURRENT hashes
(the hashes every mutator answered with are compared line by line with the real sketch's, so this is
the digest of what the real sketch holds), for `eq`/`req` "equal exactly when ksize and hashes
agree".  A stale cache in the real code therefore shows as an oracle failure.

`regs` cases run the register machine `regsStep` (any number of live sketches, copies next to their
sources); the spec of an observation of register `i` is the digest of register `i`'s OWN current
hashes, whatever it was copied from or to.

The hashes a sequence contributes (`seq`, `prot`, `word` and their C API forms) are computed here
from the documented k-mer specification `Spec/Kmers.lean` + `Model/Murmur.lean` (no generated
tables); the machine op `addSeq` then only sees "these hashes in order, then possibly a failure". -/
open Driver Md5Cache

structure DSt where
  ok : Bool := Md5.selfTest          -- RFC 1321 vectors, evaluated at start-up
  mol : Kmers.Mol := .dna
  p : Pair := .v ⟨MH.Vec.new 0 0 false, MH.Vec.new 0 0 false⟩
  rs : List Sk := []             -- `regs` cases: the register file (non-empty exactly in those)

def kvStr (ws : List String) (key : String) : Option String :=
  match ws.filterMap (fun w => match w.splitOn "=" with
      | [k, v] => if k == key then some v else none
      | _ => none) with
  | v :: _ => some v
  | [] => none

def kvGet (ws : List String) (key : String) : Nat := ((kvStr ws key).bind String.toNat?).getD 0

def molOf (s : String) : Kmers.Mol :=
  if s == "protein" then .protein else if s == "dayhoff" then .dayhoff else if s == "hp" then .hp else .dna

def seqBytes (s : String) : List UInt8 := if s == "-" then [] else s.toUTF8.toList

def natsOf (l : List UInt64) : List Nat := (l.map UInt64.toNat).filter (· != 0)

/-- `add_sequence(seq, force)` on a sketch of molecule type `m`: hashes added in order, and the error
    the call ends with (the value 0 is the implementation's "nothing" marker and is never added) -/
def seqHashes (m : Kmers.Mol) (k : Nat) (force : Bool) (seq : List UInt8) : List Nat × Option String :=
  match m with
  | .dna =>
    let ev := Kmers.dnaStream k 42 force seq
    (natsOf (Kmers.evHashes ev), if Kmers.evOk ev then none else some "InvalidDNA")
  | _ => (natsOf (Kmers.translateHashes m k 42 seq), none)

/-- `add_protein(seq)`: a DNA sketch refuses (as soon as there is one window) -/
def protHashes (m : Kmers.Mol) (k : Nat) (seq : List UInt8) : List Nat × Option String :=
  match m with
  | .dna => ([], if seq.length ≥ k / 3 then some "InvalidHashFunction" else none)
  | _ => (natsOf (Kmers.proteinHashes m k 42 seq), none)

def pairsOf (hs as : String) : List (Nat × Nat) := (natList hs).zip (natList as)

/-- ksize of the sketch an op acts on -/
def Md5Cache.Pair.ksizeOf (p : Pair) (onOther : Bool) : Nat :=
  match p with
  | .v q => if onOther then q.other.ksize else q.main.ksize
  | .t q => if onOther then q.other.ksize else q.main.ksize

def isTree : Pair → Bool
  | .t _ => true
  | .v _ => false

/-- entry points of the C API (`ffi/minhash.rs`): each delegates to the method of the same name
    (`kmerminhash_add_many` runs its own `add_hash` loop); they exist for the vector type only -/
def cName (op : String) : Option String :=
  match op with
  | "cmd5" => some "md5" | "cadd" => some "add1" | "cadda" => some "add" | "caddmany" => some "addmany"
  | "cword" => some "word" | "cseq" => some "seq" | "cprot" => some "prot" | "crm" => some "rm"
  | "crmmany" => some "rmmany" | "cclear" => some "clear" | "cmerge" => some "merge"
  | "caddfrom" => some "addfrom" | "crmfrom" => some "rmfrom" | "csetab" => some "setab"
  | "cenable" => some "enable" | "cdisable" => some "disable"
  | _ => none

def parseOp (mol : Kmers.Mol) (k : Nat) (op : String) (args : List String) : Option Op :=
  match op, args with
  | "add", [h, a] => some (.add h.toNat! a.toNat!)
  | "add1", [h] => some (.add h.toNat! 1)
  | "set", [h, a] => some (.set h.toNat! a.toNat!)
  | "rm", [h] => some (.remove h.toNat!)
  | "rmmany", [hs] => some (.removeMany (natList hs))
  | "clear", [] => some .clear
  | "merge", [] => some .merge
  | "enable", [] => some .enable
  | "disable", [] => some .disable
  | "inflate", [] => some .inflate
  | "md5", [] => some .md5
  | "jmd5", [] => some .md5        -- `Serialize` writes `self.md5sum()`
  | "clone", [] => some .clone
  | "copy", [] => some .copy
  | "addmany", [hs] => some (.addMany (natList hs))
  | "addmanya", [hs, as] => some (.addManyAbund (pairsOf hs as))
  | "addfrom", [] => some .addFrom
  | "rmfrom", [] => some .removeFrom
  | "word", [w] => some (.addSeq [(Murmur.hash64 (unhex w) 42).toNat] none)
  | "sigseq", [s, f] => let r := seqHashes mol k (f == "1") (seqBytes s); some (.addSeq r.1 r.2)
  | "sigprot", [s] => let r := protHashes mol k (seqBytes s); some (.addSeq r.1 r.2)
  | "seq", [s, f] => let r := seqHashes mol k (f == "1") (seqBytes s); some (.addSeq r.1 r.2)
  | "prot", [s] => let r := protHashes mol k (seqBytes s); some (.addSeq r.1 r.2)
  | "setab", [hs, as, c] => some (.setAbundances (pairsOf hs as) (c == "1"))
  | "down", [sc] => some (.downScaled sc.toNat!)
  | "downmh", [mh] => some (.downMaxHash mh.toNat!)
  | "downmv", [sc] => some (.downMove sc.toNat!)
  | "serde", [] => some .serde
  | _, _ => none

def showOut : Out → String
  | .mins l => "mins=" ++ showNats l
  | .err e => "err " ++ e
  | .digest d => Md5.hex d
  | .bool b => if b then "true" else "false"
  | .badOp => "bad-op"
  | .errMins e l => "err " ++ e ++ " mins=" ++ showNats l
  | .mins2 a b => "mins=" ++ showNats a ++ " omins=" ++ showNats b

/-- (ksize, hashes) of the sketch an observer op reports on, after the op -/
def Md5Cache.Pair.subject (p : Pair) (onOther : Bool) (op : Op) : Nat × List Nat :=
  -- `copy` reports the md5 of the copy, which sits in the other slot
  let other := match op with
    | .copy => !onOther
    | _ => onOther
  match p with
  | .v q => let s := if other then q.other else q.main; (s.ksize, s.mins)
  | .t q => let s := if other then q.other else q.main; (s.ksize, s.mins)

def eqSpec (p : Pair) : String :=
  let (k1, m1) := p.subject false .md5
  let (k2, m2) := p.subject true .md5
  if k1 == k2 && m1 == m2 then "true" else "false"

/-- spec of an observation of register `i`: the digest of ITS OWN current (ksize, hashes) -/
def regDigest (rs : List Sk) (i : Nat) : String :=
  match rs[i]? with
  | some s => Md5.hex (Md5.digest s.ksize s.mins)
  | none => "-"

def regIsTree (rs : List Sk) (i : Nat) : Bool :=
  match rs[i]? with
  | some s => s.isTree
  | none => false

/-- `regs` cases: `r <i> <j> <op> <args…>` (any op of the two-sketch machine on register `i` with
    register `j` as operand), `req <i> <j>`, `dup <i> <j> c|sig|ffi`, `rserde <i> <j>`,
    `rconv <i> <j> clone|ref|ffi`, `rconvi <i>` -/
def stepRegs (s : DSt) (ws : List String) : DSt × Resp :=
  let bad : DSt × Resp := (s, { model := "bad-op" })
  let run (c : RCmd) (spec : List Sk → String) : DSt × Resp :=
    let (rs', out) := regsStep s.rs c
    ({ s with rs := rs' }, { model := showOut out, spec := match out with
      | .badOp => "-"
      | _ => spec rs' })
  match ws with
  | "r" :: i :: j :: opName :: args =>
    match i.toNat?, j.toNat? with
    | some i, some j =>
      let resolved : Option String := match cName opName with
        | some n => if regIsTree s.rs i then none else some n
        | none => if opName == "add1" || opName == "setab" then none else some opName
      let k := match s.rs[i]? with
        | some x => x.ksize
        | none => 0
      match resolved.bind (fun n => parseOp s.mol k n args) with
      | none => bad
      | some op =>
        let (rs', out) := regsStep s.rs (.on i j op)
        let spec := match out, op with
          | .digest _, .copy => regDigest rs' j
          | .digest _, _ => regDigest rs' i
          | _, _ => "-"
        ({ s with rs := rs' }, { model := showOut out, spec := spec })
    | _, _ => bad
  | ["req", i, j] =>
    match i.toNat?, j.toNat? with
    | some i, some j =>
      run (.eq i j) (fun rs' => match rs'[i]?, rs'[j]? with
        | some a, some b => if a.ksize == b.ksize && a.mins == b.mins then "true" else "false"
        | _, _ => "-")
    | _, _ => bad
  | ["dup", i, j, mode] =>
    match i.toNat?, j.toNat? with
    | some i, some j =>
      if mode == "c" || mode == "sig" || (mode == "ffi" && !regIsTree s.rs i) then run (.dup i j) (fun _ => "-")
      else bad
    | _, _ => bad
  | ["rserde", i, j] =>
    match i.toNat?, j.toNat? with
    | some i, some j => run (.serdeTo i j) (fun _ => "-")
    | _, _ => bad
  | ["rconv", i, j, mode] =>
    match i.toNat?, j.toNat? with
    | some i, some j =>
      if mode == "clone" then run (.convTo i j true) (fun _ => "-")
      else if mode == "ref" || mode == "ffi" then run (.convTo i j false) (fun _ => "-")
      else bad
    | _, _ => bad
  | ["rconvi", i] =>
    match i.toNat? with
    | some i => run (.conv i) (fun _ => "-")
    | none => bad
  | _ => bad

/-- the two-sketch cases -/
def stepPair (s : DSt) (ws : List String) : DSt × Resp :=
  match ws with
  | ["eq"] =>
    let (p', out) := s.p.step (.cmd .eq)
    ({ s with p := p' }, { model := showOut out, spec := eqSpec p' })
  | ["req"] =>
    let (p', out) := s.p.step (.cmd .eqRev)
    ({ s with p := p' }, { model := showOut out, spec := eqSpec p' })
  | ["conv"] =>
    let (p', out) := s.p.step .conv
    ({ s with p := p' }, { model := showOut out })
  | ["convr"] =>
    -- `From<&KmerMinHashBTree> for KmerMinHash` exists in this direction only
    if !isTree s.p then (s, { model := "bad-op" }) else
    let (p', out) := s.p.step .conv
    ({ s with p := p' }, { model := showOut out })
  | w :: args =>
    let (onOther, opName) := match w.splitOn "." with
      | ["o", op] => (true, op)
      | _ => (false, w)
    -- the C API entry points exist for the vector type only
    let resolved : Option String := match cName opName with
      | some n => if isTree s.p then none else some n
      | none => if opName == "add1" || opName == "setab" then none else some opName
    match resolved.bind (fun n => parseOp s.mol (s.p.ksizeOf onOther) n args) with
    | none => (s, { model := "bad-op" })
    | some op =>
      let (p', out) := s.p.step (.cmd (.on onOther op))
      let spec := match out with
        | .digest _ => let (k, m) := p'.subject onOther op; Md5.hex (Md5.digest k m)
        | _ => "-"
      ({ s with p := p' }, { model := showOut out, spec := spec })
  | _ => (s, { model := "bad-op" })

def stepC13 (s : DSt) (ws : List String) : DSt × Resp :=
  if !s.ok then (s, { model := "MD5-SELFTEST-FAILED" }) else
  match ws with
  | "case" :: _ :: "regs" :: rest =>
    let num := kvGet rest "num"; let mh := kvGet rest "mh"; let k := kvGet rest "k"
    let descr := ((kvStr rest "regs").getD "").splitOn ","
    let rs : List Sk := descr.map (fun d =>
      let track := d.endsWith "1"
      if d.startsWith "t" then Sk.t (MH.Tree.new num mh track k) else Sk.v (MH.Vec.new num mh track k))
    ({ s with rs := rs, mol := molOf ((kvStr rest "mol").getD "dna") }, { model := "ok" })
  | "case" :: _ :: ty :: rest =>
    let num := kvGet rest "num"; let mh := kvGet rest "mh"; let k := kvGet rest "k"
    let ko := match kvStr rest "ok" with
      | some v => v.toNat!
      | none => k
    -- the second sketch shares the ceiling and has its own size bound / abundance flag / ksize
    let onum := match kvStr rest "onum" with
      | some v => v.toNat!
      | none => num
    let track := kvGet rest "track" == 1; let otrack := kvGet rest "otrack" == 1
    let p : Pair := if ty == "tree" then .t ⟨MH.Tree.new num mh track k, MH.Tree.new onum mh otrack ko⟩
      else .v ⟨MH.Vec.new num mh track k, MH.Vec.new onum mh otrack ko⟩
    ({ s with p := p, mol := molOf ((kvStr rest "mol").getD "dna") }, { model := "ok" })
  | w :: args =>
    if !s.rs.isEmpty then stepRegs s (w :: args) else
    stepPair s (w :: args)
  | _ => (s, { model := "bad-op" })

def main : IO Unit := Driver.run ({} : DSt) stepC13
