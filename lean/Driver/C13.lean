import Driver.Common
import Sourmash.Model.Md5Cache
/-! C13 driver.  model column: what the sketch model (with its md5 cache field) answers;
spec column: for `md5`/`cmd5`/`clone`/`copy` the MD5 of the preimage of the sketch's CURRENT hashes,
for `eq` "equal exactly when ksize and hashes agree".  A stale cache in the real code therefore shows
as an oracle failure. -/
open Driver Md5Cache

inductive Pair
  | v (p : VPair)
  | t (p : TPair)

structure DSt where
  ok : Bool := Md5.selfTest          -- RFC 1321 vectors, evaluated at start-up
  p : Pair := .v ⟨MH.Vec.new 0 0 false, MH.Vec.new 0 0 false⟩

def kvGet (ws : List String) (key : String) : Nat :=
  match ws.filterMap (fun w => match w.splitOn "=" with
      | [k, v] => if k == key then v.toNat? else none
      | _ => none) with
  | n :: _ => n
  | [] => 0

def parseOp (op : String) (args : List String) : Option Op :=
  match op, args with
  | "add", [h, a] => some (.add h.toNat! a.toNat!)
  | "set", [h, a] => some (.set h.toNat! a.toNat!)
  | "rm", [h] => some (.remove h.toNat!)
  | "rmmany", [hs] => some (.removeMany (natList hs))
  | "clear", [] => some .clear
  | "merge", [] => some .merge
  | "enable", [] => some .enable
  | "disable", [] => some .disable
  | "inflate", [] => some .inflate
  | "md5", [] => some .md5
  | "cmd5", [] => some .md5
  | "clone", [] => some .clone
  | "copy", [] => some .copy
  | _, _ => none

def showOut : Out → String
  | .mins l => "mins=" ++ showNats l
  | .err e => "err " ++ e
  | .digest d => Md5.hex d
  | .bool b => if b then "true" else "false"
  | .badOp => "bad-op"

/-- (ksize, hashes) of the sketch an observer op reports on, after the op -/
def Pair.subject (p : Pair) (onOther : Bool) (op : Op) : Nat × List Nat :=
  -- `copy` reports the md5 of the copy, which sits in the other slot
  let other := match op with
    | .copy => !onOther
    | _ => onOther
  match p with
  | .v q => let s := if other then q.other else q.main; (s.ksize, s.mins)
  | .t q => let s := if other then q.other else q.main; (s.ksize, s.mins)

def Pair.step (p : Pair) (c : Cmd) : Pair × Out :=
  match p with
  | .v q => let r := q.step c; (.v r.1, r.2)
  | .t q => let r := q.step c; (.t r.1, r.2)

def stepC13 (s : DSt) (ws : List String) : DSt × Resp :=
  if !s.ok then (s, { model := "MD5-SELFTEST-FAILED" }) else
  match ws with
  | "case" :: _ :: ty :: rest =>
    let num := kvGet rest "num"; let mh := kvGet rest "mh"; let k := kvGet rest "k"
    let track := kvGet rest "track" == 1; let otrack := kvGet rest "otrack" == 1
    let p : Pair := if ty == "tree" then .t ⟨MH.Tree.new num mh track k, MH.Tree.new num mh otrack k⟩
      else .v ⟨MH.Vec.new num mh track k, MH.Vec.new num mh otrack k⟩
    ({ s with p := p }, { model := "ok" })
  | ["eq"] =>
    let (p', out) := s.p.step .eq
    let (k1, m1) := p'.subject false .md5
    let (k2, m2) := p'.subject true .md5
    ({ s with p := p' }, { model := showOut out, spec := if k1 == k2 && m1 == m2 then "true" else "false" })
  | w :: args =>
    let (onOther, opName) := match w.splitOn "." with
      | ["o", op] => (true, op)
      | _ => (false, w)
    match parseOp opName args with
    | none => (s, { model := "bad-op" })
    | some op =>
      -- the C API entry point exists for the vector type only
      if opName == "cmd5" && (match s.p with | .t _ => true | .v _ => false) then (s, { model := "bad-op" }) else
      let (p', out) := s.p.step (.on onOther op)
      let spec := match out with
        | .digest _ => let (k, m) := p'.subject onOther op; Md5.hex (Md5.digest k m)
        | _ => "-"
      ({ s with p := p' }, { model := showOut out, spec := spec })
  | _ => (s, { model := "bad-op" })

def main : IO Unit := Driver.run ({} : DSt) stepC13
